#!/usr/bin/env python3
"""merge_files.py <copy-root> <ID>[,<ID>..] <file>...: copy the listed files (relative paths) from an agent's copy into /verif,
merge the claims entries of the given IDs and every known_findings.json entry that /verif does not have yet (by property+signature)."""
import sys, os, shutil, json
src, ids, files = sys.argv[1], sys.argv[2].split(','), sys.argv[3:]
V = '/verif'
for rel in files:
    s = os.path.join(src, rel); d = os.path.join(V, rel)
    if not os.path.exists(s): print('MISSING', rel); continue
    os.makedirs(os.path.dirname(d), exist_ok=True); shutil.copy(s, d); print('copied', rel)
a = json.load(open(os.path.join(src, 'tools/claims.json'))); c = json.load(open(f'{V}/tools/claims.json'))
for i in ids:
    if i in a: c[i] = a[i]; print('claims', i)
json.dump(c, open(f'{V}/tools/claims.json', 'w'), indent=1)
ka = json.load(open(os.path.join(src, 'known_findings.json'))); kv = json.load(open(f'{V}/known_findings.json'))
have = {(e['property'], e['signature']) for e in kv}
for e in ka:
    if (e['property'], e['signature']) not in have:
        kv.append(e); print('finding +', e['property'], e['status'], e['signature'][:80])
json.dump(kv, open(f'{V}/known_findings.json', 'w'), indent=1)
