#!/bin/bash
# Runs the repository's pinned test suite with the verification guard OFF and checks that every
# test listed as stable in /root/.vp/BASELINE.json passes.  Exit 0 iff all of them pass.
set -u
cd /repo || exit 2
export CARGO_NET_OFFLINE=true
unset RUSTFLAGS
cargo nextest run --workspace --no-fail-fast --tool-config-file pb:/w/lib/nextest.toml --profile pb --test-threads 8 --offline >/dev/null 2>&1 \
  || true
python3 - <<'PY'
import json,sys,xml.etree.ElementTree as ET
base=json.load(open('/root/.vp/BASELINE.json'))
root=ET.parse('/repo/target/nextest/pb/junit.xml').getroot()
passed=set()
for tc in root.iter('testcase'):
    tid=(tc.get('classname') or '')+'::'+(tc.get('name') or '')
    if tc.find('failure') is None and tc.find('error') is None and tc.find('skipped') is None:
        passed.add(tid)
missing=[t for t in base['stable_pass'] if t not in passed]
print(f"baseline: {len(base['stable_pass'])-len(missing)}/{len(base['stable_pass'])} stable tests pass")
for t in missing[:50]: print("NOT PASSING:",t)
sys.exit(1 if missing else 0)
PY
