#!/bin/bash
# suite.sh <worktree> : runs the project's pinned test suite in <worktree> and reports whether every
# test that passes on the unmodified tree still passes.  Exit 0 iff all of them pass.
W=$1
cd "$W" || exit 2
export CARGO_NET_OFFLINE=true RUST_BACKTRACE=0
: ${CARGO_TARGET_DIR:=$W/target}
export CARGO_TARGET_DIR
rm -f $W/target/nextest/pb/junit.xml $CARGO_TARGET_DIR/nextest/pb/junit.xml
cargo nextest run --workspace --no-fail-fast --tool-config-file pb:/w/lib/nextest.toml --profile pb --test-threads 8 --offline >/dev/null 2>&1 || true
python3 - <<PY
import json,sys,xml.etree.ElementTree as ET
base=json.load(open('/root/.vp/BASELINE.json'))
import os
root=ET.parse('$W/target/nextest/pb/junit.xml' if os.path.exists('$W/target/nextest/pb/junit.xml') else '$CARGO_TARGET_DIR/nextest/pb/junit.xml').getroot()
passed=set()
for tc in root.iter('testcase'):
    tid=(tc.get('classname') or '')+'::'+(tc.get('name') or '')
    if tc.find('failure') is None and tc.find('error') is None and tc.find('skipped') is None: passed.add(tid)
missing=[t for t in base['stable_pass'] if t not in passed]
print('tests that must pass: %d/%d pass' % (len(base['stable_pass'])-len(missing), len(base['stable_pass'])))
for t in missing[:40]: print('NOW FAILING:', t)
sys.exit(1 if missing else 0)
PY
rc=$?
git -C "$W" clean -fdq tests/stderr-snapshots tests/compile-fail 2>/dev/null
exit $rc
