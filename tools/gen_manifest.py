#!/usr/bin/env python3
"""Regenerates MANIFEST.json from tools/claims.json (one entry per claimed property)."""
import json, os
ROOT = os.path.dirname(os.path.dirname(os.path.abspath(__file__)))
claims = json.load(open(os.path.join(ROOT, 'tools', 'claims.json')))
props = [json.loads(l) for l in open(os.path.join(ROOT, 'properties.jsonl'))]
repo_head = os.popen('git -C /repo log --format=%H --grep="cfg(truth_verif)" -n 5').read().split()
checks = []
na = []
for p in props:
    pid = p['id']
    c = claims.get(pid)
    if c and c.get('claimed', True):
        checks.append({
            'property_id': pid,
            'quick_cmd': f'./check {pid} quick',
            'thorough_cmd': f'./check {pid} thorough',
            'evidence_file': f'evidence/{pid}.json',
            'replay_cmd_template': f'./check {pid} --replay {{path}}',
            'engine': 'lean-model+rust-harness',
            'level_claimed': {'category': 'proof', 'text': c['text'], 'design_ref': c.get('design_ref', f'DESIGN.md section 4, {pid}')},
            'level_note': c['note'],
            'technique': c.get('technique', 'Lean 4 theorems about a hand-written executable model + differential correspondence check against the implementation + property search on the implementation'),
        })
    else:
        na.append({'property_id': pid, 'reason': (c or {}).get('reason', 'not claimed yet: model, theorems and correspondence check for this property are still being built (see DESIGN.md section 11, order of work)')})
m = {
    'version': 1,
    'setup_cmd': './setup.sh',
    'hooks': {
        'guard': 'truth_verif',
        'enable': 'RUSTFLAGS --cfg truth_verif through /verif/harness/.cargo/config.toml ([build] rustflags); the harness depends on /repo by path and is rebuilt by cargo from the working tree on every check',
        'baseline_off_cmd': '/verif/tools/baseline_off.sh',
        'source_commits': repo_head,
        'add_only': True,
    },
    'engines': [
        {'name': 'lean-model', 'path': 'lean', 'serves_properties': [c['property_id'] for c in checks], 'kind_free_text': 'Lean 4 executable models (TruthModel/Model), property theorems (TruthModel/Props), axiom audit (TruthModel/Audit), line-protocol driver (Main.lean -> lean_exe truthmodel)'},
        {'name': 'rust-harness', 'path': 'harness', 'serves_properties': [c['property_id'] for c in checks], 'kind_free_text': 'case generators, in-process runs of the real implementation in crash-isolated worker processes, comparison with the Lean driver, property oracles'},
        {'name': 'check', 'path': 'check', 'serves_properties': [c['property_id'] for c in checks], 'kind_free_text': 'orchestrator: builds, audit of axioms, verdict, evidence, replays, known findings'},
    ],
    'checks': checks,
    'not_applicable': na,
    'notes': 'All claims are level "proof" in the sense of DESIGN.md: theorems about a hand-written Lean model, tied to the code by a correspondence check that runs on every invocation against /repo\'s working tree. known_findings.json lists repaired (fixed:) and open findings.',
}
json.dump(m, open(os.path.join(ROOT, 'MANIFEST.json'), 'w'), indent=1)
print(len(checks), 'claimed;', len(na), 'not claimed')
