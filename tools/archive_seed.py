#!/usr/bin/env python3
"""archive_seed.py <ID>[/<variant>] <name> "<caught by / notes>": keep a confirmed seeded change under /verif/seeded/<name>/"""
import sys, os, shutil, json, re
arg, name, notes = sys.argv[1], sys.argv[2], sys.argv[3]
sid, _, var = arg.partition('/')
src = f'/tmp/seed-{sid}/out' + (f'/{var}' if var else ''); dst = f'/verif/seeded/{name}'
vlog = f'/tmp/seed-{sid}/verify' + (f'-{var}' if var else '') + '.log'
os.makedirs(dst, exist_ok=True)
for f in os.listdir(src):
    if os.path.isfile(os.path.join(src, f)): shutil.copy(os.path.join(src, f), os.path.join(dst, f))
meta = json.load(open(os.path.join(dst, 'meta.json')))
log = open(vlog).read() if os.path.exists(vlog) else ''
m = re.search(r'stable tests passing with patch: (\d+/\d+)', log)
ex = re.findall(r'== demo (WITH|WITHOUT) patch\nexit=(\d+)', log)
meta['confirmed_by_me'] = {
    'stable_tests_with_patch': m.group(1) if m else 'not re-run',
    'demo_exit': {k: int(v) for k, v in ex},
    'ran': ['tools/verify_seed.sh ' + sid + (' ' + var if var else '') + '  (build with patch; pinned suite vs BASELINE.json stable_pass; demo with and without the patch, in the shared scratch worktree /tmp/verify/repo at /repo HEAD)',
            'tools/try_seed.sh seeded/' + name + '/patch.diff quick <checks>  (scratch copy /tmp/try/{repo,verif}: git apply there, ./check ..., undone; TRY_IN_REPO=1 does it in /repo itself)'],
}
meta['detection'] = notes
json.dump(meta, open(os.path.join(dst, 'meta.json'), 'w'), indent=1)
print('archived', dst, meta['confirmed_by_me'])
