#!/bin/bash
# try_seed.sh <patch.diff> <tier> <ID>...   run the given checks against a seeded change.
#
# Default (TRY_IN_REPO unset): works on a scratch copy so that nothing else using /repo is disturbed:
#   /tmp/try/repo  = scratch git worktree of /repo HEAD   /tmp/try/verif = copy of /verif (own build dirs),
#   harness path dependency pointed at /tmp/try/repo.  The patch is applied there, the checks run there, it is undone.
# TRY_IN_REPO=1: the literal procedure (git -C /repo apply; ./check ...; git -C /repo checkout -- .).
set -u
PATCH=$(readlink -f "$1"); TIER=$2; shift 2
if [ "${TRY_IN_REPO:-}" = 1 ]; then
  cd /verif
  git -C /repo diff --quiet || { echo "/repo has uncommitted changes; refusing"; exit 2; }
  git -C /repo apply "$PATCH" || { echo "patch does not apply"; exit 2; }
  for id in "$@"; do ./check $id $TIER 2>&1 | cut -c1-300 | grep -E "^C[0-9]+ (quick|thorough):|^VIOLATION|harness|error" | head -8; done
  git -C /repo checkout -- .
  git -C /repo status --short | grep -v snap.new
  exit 0
fi
T=${TRY_DIR:-/tmp/try}
mkdir -p $T
if [ ! -d $T/repo ]; then git -C /repo worktree add --detach $T/repo HEAD >/dev/null 2>&1 || exit 2; fi
git -C $T/repo checkout -q --detach $(git -C /repo rev-parse HEAD) 2>/dev/null; git -C $T/repo checkout -q -- .
rsync -a --delete --exclude target --exclude .lake --exclude .scratch --exclude replays --exclude evidence --exclude .git /verif/ $T/verif/
sed -i "s#path = \"/repo\"#path = \"$T/repo\"#" $T/verif/harness/Cargo.toml
git -C $T/repo apply "$PATCH" || { echo "patch does not apply"; exit 2; }
cd $T/verif
for id in "$@"; do VERIF_REPO=$T/repo ./check $id $TIER 2>&1 | cut -c1-300 | grep -E "^C[0-9]+ (quick|thorough):|^VIOLATION|harness|error" | head -8; done
git -C $T/repo checkout -q -- .
