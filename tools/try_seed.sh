#!/bin/bash
# try_seed.sh <patch.diff> <tier> <ID>...   apply a seeded change to /repo, run the given checks, undo it
set -u
PATCH=$1; TIER=$2; shift 2
cd /verif
git -C /repo diff --quiet || { echo "/repo has uncommitted changes; refusing"; exit 2; }
git -C /repo apply "$PATCH" || { echo "patch does not apply"; exit 2; }
for id in "$@"; do
  ./check $id $TIER 2>&1 | cut -c1-400 | tail -4
done
git -C /repo checkout -- .
git -C /repo status --short | grep -v snap.new
