#!/bin/bash
# merge3.sh <copy-root> <base-commit> <file>...   3-way merge of an agent's copy into /verif (git merge-file); new files are copied
SRC=$1; BASE=$2; shift 2
cd /verif
for f in "$@"; do
  if [ ! -e "$SRC/$f" ]; then echo "MISSING $f"; continue; fi
  if ! git cat-file -e $BASE:$f 2>/dev/null || [ ! -e $f ]; then mkdir -p $(dirname $f); cp "$SRC/$f" $f; echo "copied  $f"; continue; fi
  git show $BASE:$f > /tmp/merge3.base
  if cmp -s /tmp/merge3.base "$SRC/$f"; then echo "same    $f (agent did not change it)"; continue; fi
  if cmp -s /tmp/merge3.base $f; then cp "$SRC/$f" $f; echo "taken   $f"; continue; fi
  if git merge-file -q $f /tmp/merge3.base "$SRC/$f"; then echo "merged  $f"; else echo "CONFLICT $f"; fi
done
