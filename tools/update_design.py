#!/usr/bin/env python3
"""Regenerates the generated parts of DESIGN.md section 12: list of /repo commits (12.2), findings table (12.3),
seeded-change table (12.5), from git, known_findings.json and seeded/*/meta.json.  Markers: <!-- gen:NAME --> ... <!-- /gen:NAME -->"""
import json, os, re, subprocess
ROOT = os.path.dirname(os.path.dirname(os.path.abspath(__file__)))
d = open(os.path.join(ROOT, 'DESIGN.md')).read()

def put(name, body):
    global d
    a, b = f'<!-- gen:{name} -->', f'<!-- /gen:{name} -->'
    assert a in d and b in d, name
    i, j = d.index(a) + len(a), d.index(b)
    d = d[:i] + '\n' + body.rstrip('\n') + '\n' + d[j:]

log = subprocess.run(['git', '-C', '/repo', 'log', '--format=%h %s', '2348c84..HEAD'], stdout=subprocess.PIPE, text=True).stdout
put('repo-commits', '```\n' + log + '```')

k = json.load(open(os.path.join(ROOT, 'known_findings.json')))
rows = ['| property | status | commit | signature | what |', '|---|---|---|---|---|']
cell = lambda s, n: (s or '').replace('|', '\\|').replace('\n', ' ')[:n]
for e in k:
    rows.append(f"| {e['property']} | {e['status']} | {e.get('commit', '')} | `{cell(e['signature'], 70)}` | {cell(e.get('what', ''), 150)} |")
put('findings', '\n'.join(rows))

sd = os.path.join(ROOT, 'seeded')
rows = ['| seeded change | property | needs | caught by |', '|---|---|---|---|']
for name in sorted(os.listdir(sd)):
    mp = os.path.join(sd, name, 'meta.json')
    if not os.path.exists(mp): continue
    m = json.load(open(mp))
    rows.append(f"| `{name}` | {m.get('property', '')} | {cell(m.get('needs', ''), 220)} | {cell(m.get('detection', ''), 400)} |")
put('seeded', '\n'.join(rows))
open(os.path.join(ROOT, 'DESIGN.md'), 'w').write(d)
print('DESIGN.md updated')
