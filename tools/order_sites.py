#!/usr/bin/env python3
"""Enumerates every place in /repo/src where a hash-ordered container (HashMap / HashSet / IdMap) is
ITERATED (as opposed to looked up), i.e. where run-to-run hash seeds can influence control flow.
`order_sites.py list` prints the sites as JSON; `order_sites.py check` compares with the audited table
/verif/order_sites.json (each site mapped to the permutation-invariance lemma of Props/C19.lean that
covers its consumer) and exits 1 if a site is new, gone or changed."""
import re, sys, os, json, glob

REPO = os.environ.get('VERIF_REPO', '/repo')   # (a scratch copy when a seeded change is tried)
SRC = REPO + '/src'
DECL = re.compile(r'\b([a-z_][a-z0-9_]*)\s*:\s*(?:&(?:mut\s+)?)?(?:Vec<)?(?:std::collections::)?(?:HashMap|HashSet|IdMap)\b')
LET = re.compile(r'\blet\s+(?:mut\s+)?([a-z_][a-z0-9_]*)\s*(?::[^=]*)?=\s*(?:std::collections::)?(?:HashMap|HashSet|IdMap)(?:::<[^>]*>)?::')
# `let x = ....collect::<HashMap<_, _>>()` (turbofish on the collecting call)
LET2 = re.compile(r'\blet\s+(?:mut\s+)?([a-z_][a-z0-9_]*)\s*(?::[^=]*)?=[^;]*::<\s*(?:std::collections::)?(?:HashMap|HashSet|IdMap)\b')
RET = re.compile(r'fn\s+([a-z_][a-z0-9_]*)[^{;]*->\s*(?:Result<)?(?:HashMap|HashSet|IdMap)\b')
ITER = r'(?:\.iter\(\)|\.iter_mut\(\)|\.keys\(\)|\.values\(\)|\.values_mut\(\)|\.into_iter\(\)|\.drain\(|\.into_keys\(\)|\.into_values\(\)|\.retain\()'

def strip(line):
    return line.split('//')[0]

def sites():
    out = []
    for path in sorted(glob.glob(SRC + '/**/*.rs', recursive=True)):
        text = open(path).read().split('\n')
        names = set()
        for l in text:
            l = strip(l)
            for m in DECL.finditer(l): names.add(m.group(1))
            for m in LET.finditer(l): names.add(m.group(1))
            for m in LET2.finditer(l): names.add(m.group(1))
        # functions returning hash containers: their call results, bound by `let x = f(...)`
        if not names and not any('HashMap' in l or 'HashSet' in l or 'IdMap' in l for l in text): continue
        fn = '?'
        in_test = False
        for i, l in enumerate(text):
            s = strip(l)
            if re.search(r'#\[cfg\(test\)\]', s): in_test = True
            m = re.search(r'\bfn\s+([a-zA-Z_][a-zA-Z0-9_]*)', s)
            if m: fn = m.group(1)
            if in_test: continue
            for n in names:
                pat = re.compile(r'(?:\b|\.)' + re.escape(n) + r'(?:\s*\.\s*(?:last|last_mut|first)\(\)\s*\.\s*(?:unwrap|expect)\([^)]*\))?\s*' + ITER)
                pat2 = re.compile(r'\bfor\b[^;{]*\bin\s+&?(?:mut\s+)?(?:[A-Za-z_][A-Za-z0-9_]*\s*\.\s*)*' + re.escape(n) + r'\b\s*\{')
                for p in (pat, pat2):
                    for mm in p.finditer(s):
                        out.append({'file': os.path.relpath(path, REPO), 'fn': fn, 'container': n, 'expr': re.sub(r'\s+', ' ', mm.group(0)).strip()})
    # de-duplicate
    seen = set(); res = []
    for s in out:
        k = (s['file'], s['fn'], s['container'], s['expr'])
        if k not in seen: seen.add(k); res.append(s)
    return res

def main():
    cmd = sys.argv[1] if len(sys.argv) > 1 else 'list'
    found = sites()
    if cmd == 'list':
        print(json.dumps(found, indent=1)); return
    table = json.load(open(os.path.join(os.path.dirname(os.path.dirname(os.path.abspath(__file__))), 'order_sites.json')))
    key = lambda s: (s['file'], s['fn'], s['container'], s['expr'])
    audited = {key(s): s for s in table['sites']}
    cur = {key(s): s for s in found}
    new = [s for k, s in cur.items() if k not in audited]
    gone = [s for k, s in audited.items() if k not in cur]
    print(json.dumps({'sites': len(cur), 'audited': len(audited), 'new': new, 'gone': gone}))
    sys.exit(1 if new else 0)

if __name__ == '__main__':
    main()
