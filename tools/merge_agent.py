#!/usr/bin/env python3
"""merge_agent.py <copy-root> <ID> [extra lean model files...]: copy an agent's property files into /verif and register them."""
import sys, os, shutil, json, re
src, pid = sys.argv[1], sys.argv[2]
extra = sys.argv[3:]
V = '/verif'
low = pid.lower()
def cp(rel):
    s = os.path.join(src, rel); d = os.path.join(V, rel)
    if os.path.exists(s):
        os.makedirs(os.path.dirname(d), exist_ok=True); shutil.copy(s, d); print('copied', rel); return True
    print('MISSING', rel); return False
for rel in [f'lean/TruthModel/Props/{pid}.lean', f'lean/TruthModel/Audit/{pid}.lean', f'lean/TruthModel/Driver/{pid}.lean', f'harness/src/props/{low}.rs'] + extra:
    cp(rel)
# mod.rs
p = f'{V}/harness/src/props/mod.rs'; s = open(p).read()
if f'pub mod {low};' not in s:
    s = s.replace('pub mod c11;', f'pub mod c11;\npub mod {low};')
    s = s.replace('        Box::new(c11::C11),', f'        Box::new(c11::C11),\n        Box::new({low}::{pid}),')
    open(p, 'w').write(s)
# Main.lean
p = f'{V}/lean/Main.lean'; s = open(p).read()
if f'Driver.{pid}' not in s and os.path.exists(f'{V}/lean/TruthModel/Driver/{pid}.lean'):
    s = s.replace('import TruthModel.Driver.C11\n', f'import TruthModel.Driver.C11\nimport TruthModel.Driver.{pid}\n')
    s = s.replace('  | "C11" => Driver.C11.handle\n', f'  | "C11" => Driver.C11.handle\n  | "{pid}" => Driver.{pid}.handle\n')
    open(p, 'w').write(s)
# TruthModel.lean
p = f'{V}/lean/TruthModel.lean'; s = open(p).read()
mods = [f'TruthModel.Props.{pid}', f'TruthModel.Driver.{pid}'] + ['TruthModel.' + e[len('lean/TruthModel/'):-5].replace('/', '.') for e in extra if e.startswith('lean/TruthModel/')]
for m in mods:
    if f'import {m}\n' not in s and os.path.exists(f'{V}/lean/' + m.replace('.', '/') + '.lean'): s += f'import {m}\n'
open(p, 'w').write(s)
# claims
cs = os.path.join(src, 'tools/claims.json')
if os.path.exists(cs):
    a = json.load(open(cs)); c = json.load(open(f'{V}/tools/claims.json'))
    if pid in a: c[pid] = a[pid]; json.dump(c, open(f'{V}/tools/claims.json', 'w'), indent=1); print('claims merged')
    else: print('NO CLAIM ENTRY for', pid)
# known findings
ks = os.path.join(src, 'known_findings.json')
if os.path.exists(ks):
    a = json.load(open(ks)); k = json.load(open(f'{V}/known_findings.json'))
    have = {(x['property'], x['signature']) for x in k}
    for x in a:
        if x.get('property') == pid and (x['property'], x['signature']) not in have: k.append(x); print('finding added:', x['signature'])
    json.dump(k, open(f'{V}/known_findings.json', 'w'), indent=1)
