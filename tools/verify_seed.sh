#!/bin/bash
# verify_seed.sh <ID> [variant]: independently confirm a seeded change delivered in /tmp/seed-<ID>/out[/<variant>]:
# applies patch.diff to a clean scratch worktree of /repo HEAD (/tmp/verify/repo, shared, incremental), builds, runs the pinned suite
# (every stable_pass test of BASELINE.json must pass), runs the demo with and without the patch, leaves the worktree clean.
ID=$1; V=${2:-}
# One shared scratch worktree and target directory for all seeds (incremental builds): /tmp/verify/{repo,target}
W=/tmp/verify/repo; OUT=/tmp/seed-$ID/out${V:+/$V}; LOG=/tmp/seed-$ID/verify${V:+-$V}.log
export CARGO_NET_OFFLINE=true CARGO_TARGET_DIR=/tmp/verify/target RUST_BACKTRACE=0
mkdir -p /tmp/verify
[ -d $W ] || git -C /repo worktree add --detach $W HEAD >/dev/null 2>&1
cd $W || exit 2
git checkout -q --detach $(git -C /repo rev-parse HEAD)
{
git checkout -q -- . ; git clean -fdq tests 2>/dev/null
echo "== apply"; git apply $OUT/patch.diff && git diff --stat
echo "== build with patch"; cargo build --offline 2>&1 | tail -2
echo "== suite with patch"
rm -f $W/target/nextest/pb/junit.xml $CARGO_TARGET_DIR/nextest/pb/junit.xml
cargo nextest run --workspace --no-fail-fast --tool-config-file pb:/w/lib/nextest.toml --profile pb --test-threads 8 --offline >/dev/null 2>&1
python3 - <<PY
import json,xml.etree.ElementTree as ET
base=json.load(open('/root/.vp/BASELINE.json'))
import os
root=ET.parse('$W/target/nextest/pb/junit.xml' if os.path.exists('$W/target/nextest/pb/junit.xml') else '$CARGO_TARGET_DIR/nextest/pb/junit.xml').getroot()
passed=set()
for tc in root.iter('testcase'):
    tid=(tc.get('classname') or '')+'::'+(tc.get('name') or '')
    if tc.find('failure') is None and tc.find('error') is None and tc.find('skipped') is None: passed.add(tid)
missing=[t for t in base['stable_pass'] if t not in passed]
print('stable tests passing with patch: %d/%d' % (len(base['stable_pass'])-len(missing), len(base['stable_pass'])), missing[:5])
PY
git clean -fdq tests 2>/dev/null
TC=$CARGO_TARGET_DIR/debug/truth-core
echo "== demo WITH patch"; (cd $W && TRUTH_CORE=$TC bash $OUT/demo.sh $TC >/tmp/seed-$ID/demo_with${V:+-$V}.log 2>&1; echo "exit=$?")
git checkout -q -- .
echo "== build without patch"; cargo build --offline 2>&1 | tail -1
echo "== demo WITHOUT patch"; (cd $W && TRUTH_CORE=$TC bash $OUT/demo.sh $TC >/tmp/seed-$ID/demo_without${V:+-$V}.log 2>&1; echo "exit=$?")
git status --short | grep -v snap.new
} > $LOG 2>&1
tail -12 $LOG
