#!/bin/bash
# MANIFEST.setup_cmd: build everything from files on disk, offline.
set -e
cd "$(dirname "$0")"
export CARGO_NET_OFFLINE=true
(cd lean && lake build TruthModel truthmodel)
(cd harness && cargo build --offline)
