namespace ProbeDesugar

structure St where
  x : Nat
  log : List Nat
deriving Repr

/-- structured statements -/
inductive S
  | ins (k : Nat)
  | dec
  | ifnz (t e : List S)
  | whil (b : List S)

/-- flat statements -/
inductive F
  | ins (k : Nat)
  | dec
  | label (l : Nat)
  | goto (l : Nat)
  | jz (l : Nat)
  | jnz (l : Nat)
deriving DecidableEq, Repr

/- big-step semantics of structured code (as a relation; the executable fuel version is related separately) -/
mutual
inductive BigS : S → St → St → Prop
  | ins (k st) : BigS (.ins k) st { st with log := st.log ++ [k] }
  | dec (st) : BigS .dec st { st with x := st.x - 1 }
  | ifT (t e st st') : st.x ≠ 0 → BigL t st st' → BigS (.ifnz t e) st st'
  | ifF (t e st st') : st.x = 0 → BigL e st st' → BigS (.ifnz t e) st st'
  | whF (b st) : st.x = 0 → BigS (.whil b) st st
  | whT (b st st1 st2) : st.x ≠ 0 → BigL b st st1 → BigS (.whil b) st1 st2 → BigS (.whil b) st st2
inductive BigL : List S → St → St → Prop
  | nil (st) : BigL [] st st
  | cons (s ss st st1 st2) : BigS s st st1 → BigL ss st1 st2 → BigL (s :: ss) st st2
end

/- desugaring with a label counter -/
mutual
def desugarS (n : Nat) : S → List F × Nat
  | .ins k => ([.ins k], n)
  | .dec => ([.dec], n)
  | .ifnz t e =>
    -- labels n (else) and n+1 (end)
    let (t', n1) := desugarL (n+2) t
    let (e', n2) := desugarL n1 e
    ([.jz n] ++ t' ++ [.goto (n+1), .label n] ++ e' ++ [.label (n+1)], n2)
  | .whil b =>
    -- labels n (loop) and n+1 (skip)
    let (b', n1) := desugarL (n+2) b
    ([.jz (n+1), .label n] ++ b' ++ [.jnz n, .label (n+1)], n1)
def desugarL (n : Nat) : List S → List F × Nat
  | [] => ([], n)
  | s :: ss =>
    let (a, n1) := desugarS n s
    let (b, n2) := desugarL n1 ss
    (a ++ b, n2)
end

def findLabel (prog : List F) (l : Nat) : Option Nat :=
  prog.findIdx? (· = F.label l)

/-- one step of the flat machine -/
def stepF (prog : List F) (pc : Nat) (st : St) : Option (Nat × St) :=
  match prog[pc]? with
  | none => none
  | some (.ins k) => some (pc+1, { st with log := st.log ++ [k] })
  | some .dec => some (pc+1, { st with x := st.x - 1 })
  | some (.label _) => some (pc+1, st)
  | some (.goto l) => (findLabel prog l).map (fun i => (i, st))
  | some (.jz l) => if st.x = 0 then (findLabel prog l).map (fun i => (i, st)) else some (pc+1, st)
  | some (.jnz l) => if st.x ≠ 0 then (findLabel prog l).map (fun i => (i, st)) else some (pc+1, st)

inductive Exec (prog : List F) : Nat → St → Nat → St → Prop
  | refl (pc st) : Exec prog pc st pc st
  | step (pc st pc1 st1 pc2 st2) : stepF prog pc st = some (pc1, st1) → Exec prog pc1 st1 pc2 st2 → Exec prog pc st pc2 st2

theorem Exec.trans {prog : List F} {a b c : Nat} {s1 s2 s3 : St}
    (h1 : Exec prog a s1 b s2) (h2 : Exec prog b s2 c s3) : Exec prog a s1 c s3 := by
  induction h1 with
  | refl => exact h2
  | step pc st pc1 st1 pc2 st2 hs _ ih => exact .step _ _ _ _ _ _ hs (ih h2)

theorem Exec.one {prog : List F} {pc pc1 : Nat} {st st1 : St} (h : stepF prog pc st = some (pc1, st1)) :
    Exec prog pc st pc1 st1 := .step _ _ _ _ _ _ h (.refl _ _)

end ProbeDesugar
