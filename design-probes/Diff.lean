namespace ProbeDiff

/-- flag table: 8 flags, each optionally named; names map to indices -/
structure Defs where
  defaultOn : BitVec 8
  byName : List (Char × Fin 8)   -- association list, first match wins
  byFlag : Fin 8 → Char

def lookup (l : List (Char × Fin 8)) (c : Char) : Option (Fin 8) :=
  match l with
  | [] => none
  | (k, i) :: rest => if k = c then some i else lookup rest c

def setBit (m : BitVec 8) (i : Fin 8) (on : Bool) : BitVec 8 :=
  if on then m ||| (1#8 <<< i.val) else m &&& ~~~(1#8 <<< i.val)

/-- parse_diff_string -/
def parseGo (d : Defs) : List Char → BitVec 8 → Bool → Option (BitVec 8)
  | [], out, _ => some out
  | '-' :: cs, out, _ => parseGo d cs out false
  | '+' :: cs, out, _ => parseGo d cs out true
  | '*' :: cs, _, en => parseGo d cs (if en then 0xFF#8 else 0#8) en
  | c :: cs, out, en =>
    match lookup d.byName c with
    | some i => parseGo d cs (setBit out i en) en
    | none => none

def parse (d : Defs) (s : List Char) : Option (BitVec 8) := parseGo d s d.defaultOn true

def bitsOf (m : BitVec 8) : List (Fin 8) := (List.finRange 8).filter (fun i => m.getLsbD i.val)

/-- mask_to_diff_label -/
def label (d : Defs) (mask : BitVec 8) : List Char :=
  let diffBits := ~~~d.defaultOn
  let mustEnable := mask &&& diffBits
  let mustDisable := ~~~mask &&& d.defaultOn
  let a := if mustEnable = diffBits then ['*'] else (bitsOf mustEnable).map d.byFlag
  let b := if mustDisable = 0#8 then [] else '-' :: (bitsOf mustDisable).map d.byFlag
  a ++ b

def Inv (d : Defs) : Prop :=
  (∀ i, lookup d.byName (d.byFlag i) = some i) ∧ (∀ i, d.byFlag i ≠ '-' ∧ d.byFlag i ≠ '+' ∧ d.byFlag i ≠ '*')

end ProbeDiff

namespace ProbeDiff

theorem getLsbD_setBit (m : BitVec 8) (i : Fin 8) (on : Bool) (j : Nat) (hj : j < 8) :
    (setBit m i on).getLsbD j = if j = i.val then on else m.getLsbD j := by
  unfold setBit
  cases on <;> simp [BitVec.getLsbD_or, BitVec.getLsbD_and, BitVec.getLsbD_not, BitVec.getLsbD_shiftLeft, hj]
  all_goals (by_cases h : j = i.val <;> simp [h] <;> omega)

end ProbeDiff
