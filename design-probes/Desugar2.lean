import Probe.Desugar
namespace ProbeDesugar

/-- continuation-style big-step over statement lists (single inductive, so `induction` works) -/
inductive Big : List S → St → St → Prop
  | nil (st) : Big [] st st
  | ins (k ss st st2) : Big ss { st with log := st.log ++ [k] } st2 → Big (.ins k :: ss) st st2
  | dec (ss st st2) : Big ss { st with x := st.x - 1 } st2 → Big (.dec :: ss) st st2
  | ifT (t e ss st st1 st2) : st.x ≠ 0 → Big t st st1 → Big ss st1 st2 → Big (.ifnz t e :: ss) st st2
  | ifF (t e ss st st1 st2) : st.x = 0 → Big e st st1 → Big ss st1 st2 → Big (.ifnz t e :: ss) st st2
  | whF (b ss st st2) : st.x = 0 → Big ss st st2 → Big (.whil b :: ss) st st2
  | whT (b ss st st1 st2) : st.x ≠ 0 → Big b st st1 → Big (.whil b :: ss) st1 st2 → Big (.whil b :: ss) st st2

def isLabel (l : Nat) (f : F) : Bool := f = F.label l

def labelsOf (p : List F) : List Nat := p.filterMap (fun f => match f with | .label l => some l | _ => none)

theorem labelsOf_append (a b : List F) : labelsOf (a ++ b) = labelsOf a ++ labelsOf b := by
  simp [labelsOf, List.filterMap_append]

theorem mem_labelsOf (p : List F) (l : Nat) : l ∈ labelsOf p ↔ F.label l ∈ p := by
  induction p with
  | nil => simp [labelsOf]
  | cons f fs ih =>
    have ih' : l ∈ List.filterMap (fun f => match f with | F.label l => some l | _ => none) fs ↔ F.label l ∈ fs := ih
    cases f <;> simp [labelsOf, ih']

/-- index of the first `label l` -/
theorem findLabel_at (pre c1 rest : List F) (l : Nat)
    (h1 : l ∉ labelsOf pre) (h2 : l ∉ labelsOf c1) :
    findLabel (pre ++ c1 ++ F.label l :: rest) l = some (pre.length + c1.length) := by
  unfold findLabel
  rw [List.findIdx?_eq_some_iff_getElem]
  have hlen : pre.length + c1.length < (pre ++ c1 ++ F.label l :: rest).length := by simp
  refine ⟨hlen, ?_, ?_⟩
  · simp [List.getElem_append_right]
  · intro j hj
    have hjl : j < (pre ++ c1).length := by simp; omega
    have : (pre ++ c1 ++ F.label l :: rest)[j]'(by omega) = (pre ++ c1)[j] := by
      rw [List.getElem_append_left hjl]
    simp only [this, decide_eq_true_eq]
    intro heq
    have hm : F.label l ∈ pre ++ c1 := heq ▸ List.getElem_mem hjl
    rw [List.mem_append] at hm
    cases hm with
    | inl h => exact h1 ((mem_labelsOf _ _).2 h)
    | inr h => exact h2 ((mem_labelsOf _ _).2 h)

end ProbeDesugar

namespace ProbeDesugar

def InRange (n n' : Nat) (p : List F) : Prop := ∀ l ∈ labelsOf p, n ≤ l ∧ l < n'

theorem InRange.mono {n n' m m' : Nat} {p : List F} (h : InRange n n' p) (h1 : m ≤ n) (h2 : n' ≤ m') : InRange m m' p :=
  fun l hl => ⟨Nat.le_trans h1 (h l hl).1, Nat.lt_of_lt_of_le (h l hl).2 h2⟩

theorem InRange.append {n n' : Nat} {p q : List F} (hp : InRange n n' p) (hq : InRange n n' q) : InRange n n' (p ++ q) := by
  intro l hl
  rw [labelsOf_append, List.mem_append] at hl
  cases hl with
  | inl h => exact hp l h
  | inr h => exact hq l h

mutual
theorem rangeS : ∀ (n : Nat) (s : S), n ≤ (desugarS n s).2 ∧ InRange n (desugarS n s).2 (desugarS n s).1
  | n, .ins k => by simp [desugarS, InRange, labelsOf]
  | n, .dec => by simp [desugarS, InRange, labelsOf]
  | n, .ifnz t e => by
    have ht := rangeL (n+2) t
    have he := rangeL (desugarL (n+2) t).2 e
    simp only [desugarS]
    refine ⟨by omega, ?_⟩
    intro l hl
    simp only [labelsOf_append, List.mem_append] at hl
    rcases hl with (((h | h) | h) | h) | h
    · simp [labelsOf] at h
    · have := ht.2 l h; omega
    · simp [labelsOf] at h; omega
    · have := he.2 l h; omega
    · simp [labelsOf] at h; omega
  | n, .whil b => by
    have hb := rangeL (n+2) b
    simp only [desugarS]
    refine ⟨by omega, ?_⟩
    intro l hl
    simp only [labelsOf_append, List.mem_append] at hl
    rcases hl with (h | h) | h
    · simp [labelsOf] at h; omega
    · have := hb.2 l h; omega
    · simp [labelsOf] at h; omega
theorem rangeL : ∀ (n : Nat) (ss : List S), n ≤ (desugarL n ss).2 ∧ InRange n (desugarL n ss).2 (desugarL n ss).1
  | n, [] => by simp [desugarL, InRange, labelsOf]
  | n, s :: ss => by
    have hs := rangeS n s
    have hl := rangeL (desugarS n s).2 ss
    simp only [desugarL]
    refine ⟨by omega, ?_⟩
    exact InRange.append (hs.2.mono (Nat.le_refl _) hl.1) (hl.2.mono hs.1 (Nat.le_refl _))
end

end ProbeDesugar
