inductive L | abs (t : Int32) | rel (d : Int32)

def emit (prev time : Int32) : List L :=
  if time = prev then []
  else if prev < 0 ∧ 0 ≤ time then
    .abs 0 :: (if 0 < time then [.rel time] else [])
  else if time < prev then [.abs time]
  else [.rel (time - prev)]

def app (t : Int32) : L → Int32
  | .abs v => v
  | .rel d => t + d

theorem emit_reproduces (prev time : Int32) : (emit prev time).foldl app prev = time := by
  unfold emit
  split
  · simp_all
  · split
    · split
      · simp [app]
      · rename_i h1 h2 h3
        simp [app]
        -- time ≥ 0 and ¬ 0 < time → time = 0
        have : time = 0 := by
          have a := h2.2
          rw [Int32.le_iff_toInt_le] at a
          rw [Int32.lt_iff_toInt_lt] at h3
          apply Int32.toInt_inj.mp
          simp at *
          omega
        exact this.symm
    · split
      · simp [app]
      · simp [app]
        rw [Int32.add_comm, Int32.sub_add_cancel]
