import Probe.Lower
namespace ProbeLower

/-- operand lowering, parameterised by the recursive lowering of that operand -/
def opnd (rec : Nat → Var → List Instr × Nat) (n : Nat) (v : Var) (reuse : Bool) (e : Expr) :
    List Instr × Atom × Nat :=
  match simple? e with
  | some t => ([], t, n)
  | none =>
    if reuse then ((rec n v).1, .ref v, (rec n v).2)
    else ((rec (n+1) (.tmp n)).1, .ref (.tmp n), (rec (n+1) (.tmp n)).2)

def lower' (n : Nat) (v : Var) : Expr → List Instr × Nat
  | .lit c => ([.mov v (.imm c)], n)
  | .var x => ([.mov v (.ref x)], n)
  | .bin a b =>
    let A := opnd (fun n v => lower' n v a) n v (!uses v b) a
    let B := opnd (fun n v => lower' n v b) A.2.2 v (!atomUses v A.2.1) b
    (A.1 ++ B.1 ++ [.add v A.2.1 B.2.1], B.2.2)

/-- what an operand lowering guarantees -/
structure OSpec (n : Nat) (v : Var) (reuse : Bool) (e : Expr) (σ : Store)
    (r : List Instr × Atom × Nat) : Prop where
  mono : n ≤ r.2.2
  val : r.2.1.eval (exec σ r.1) = eval σ e
  frame : ∀ x, varBelow n x → (x ≠ v ∨ reuse = false) → exec σ r.1 x = σ x
  atomBelow : ∀ y, r.2.1 = .ref y → varBelow r.2.2 y
  atomV : atomUses v r.2.1 = true → reuse = true ∨ uses v e = true

theorem opnd_spec (rec : Nat → Var → List Instr × Nat) (e : Expr)
    (hrec : ∀ n v σ, tmpsBelow n e → varBelow n v → Spec n v e σ (rec n v).1 (rec n v).2)
    (n : Nat) (v : Var) (reuse : Bool) (σ : Store) (hb : tmpsBelow n e) (hv : varBelow n v) :
    OSpec n v reuse e σ (opnd rec n v reuse e) := by
  unfold opnd
  split
  · rename_i t ht
    refine ⟨Nat.le_refl _, ?_, ?_, ?_, ?_⟩
    · simp [exec, simple_eval ht]
    · intro x _ _; simp [exec]
    · intro y hy; exact simple_below ht hb y hy
    · intro h; right; rw [← simple_atomUses ht v]; exact h
  · rename_i hns
    cases reuse with
    | true =>
      have S := hrec n v σ hb hv
      simp only [ite_true, if_true]
      refine ⟨S.1, ?_, ?_, ?_, ?_⟩
      · simpa [Atom.eval] using S.2.1
      · intro x hx hor
        cases hor with
        | inl hne => exact S.2.2 x hne hx
        | inr h => cases h
      · intro y hy; cases hy; exact varBelow_mono S.1 hv
      · intro _; left; rfl
    | false =>
      have hb' : tmpsBelow (n+1) e := tmpsBelow_mono (Nat.le_succ n) hb
      have S := hrec (n+1) (.tmp n) σ hb' (by simp [varBelow])
      simp only [Bool.false_eq_true, if_false]
      refine ⟨Nat.le_trans (Nat.le_succ n) S.1, ?_, ?_, ?_, ?_⟩
      · simpa [Atom.eval] using S.2.1
      · intro x hx _
        apply S.2.2 x
        · intro h; subst h; simp [varBelow] at hx
        · exact varBelow_mono (Nat.le_succ n) hx
      · intro y hy; cases hy; exact varBelow_mono S.1 (by simp [varBelow])
      · intro h
        simp [atomUses] at h
        subst h; simp [varBelow] at hv

end ProbeLower

namespace ProbeLower

theorem eval_congr2 {n : Nat} {e : Expr} (σ τ : Store) (v : Var) (hb : tmpsBelow n e)
    (hu : uses v e = false) (h : ∀ x, varBelow n x → x ≠ v → σ x = τ x) : eval σ e = eval τ e := by
  induction e with
  | lit _ => rfl
  | var x =>
    simp only [eval]; apply h
    · cases x <;> simp_all [tmpsBelow, varBelow]
    · simp [uses] at hu; exact fun hx => hu hx.symm
  | bin a b iha ihb =>
    simp [uses] at hu
    simp only [eval]; rw [iha hb.1 hu.1, ihb hb.2 hu.2]

theorem atom_eval_congr (t : Atom) (σ τ : Store) (h : ∀ y, t = .ref y → σ y = τ y) : t.eval σ = t.eval τ := by
  cases t with
  | imm c => rfl
  | ref y => exact h y rfl

theorem lower'_sound (e : Expr) : ∀ (n : Nat) (v : Var) (σ : Store),
    tmpsBelow n e → varBelow n v → Spec n v e σ (lower' n v e).1 (lower' n v e).2 := by
  induction e with
  | lit c =>
    intro n v σ _ _
    refine ⟨Nat.le_refl _, ?_, ?_⟩
    · simp [lower', exec, step, upd, Atom.eval, eval]
    · intro x hx _; simp [lower', exec, step, upd, hx]
  | var y =>
    intro n v σ _ _
    refine ⟨Nat.le_refl _, ?_, ?_⟩
    · simp [lower', exec, step, upd, Atom.eval, eval]
    · intro x hx _; simp [lower', exec, step, upd, hx]
  | bin a b iha ihb =>
    intro n v σ hb hv
    obtain ⟨hba, hbb⟩ := hb
    let A := opnd (fun n v => lower' n v a) n v (!uses v b) a
    have SA : OSpec n v (!uses v b) a σ A := opnd_spec _ a iha n v _ σ hba hv
    have hbb1 : tmpsBelow A.2.2 b := tmpsBelow_mono SA.mono hbb
    have hv1 : varBelow A.2.2 v := varBelow_mono SA.mono hv
    let B := opnd (fun n v => lower' n v b) A.2.2 v (!atomUses v A.2.1) b
    have SB : OSpec A.2.2 v (!atomUses v A.2.1) b (exec σ A.1) B :=
      opnd_spec _ b ihb A.2.2 v _ (exec σ A.1) hbb1 hv1
    have hb_same : eval (exec σ A.1) b = eval σ b := by
      cases hu : uses v b with
      | false =>
        apply eval_congr2 (n := n) _ σ v hbb hu
        intro x hx hne
        exact SA.frame x hx (Or.inl hne)
      | true =>
        apply eval_congr (n := n) _ σ hbb
        intro x hx
        exact SA.frame x hx (Or.inr (by simp [hu]))
    have hA_stable : A.2.1.eval (exec (exec σ A.1) B.1) = A.2.1.eval (exec σ A.1) := by
      apply atom_eval_congr
      intro y hy
      apply SB.frame y (SA.atomBelow y hy)
      by_cases hyv : y = v
      · right; subst hyv; simp [hy, atomUses]
      · left; exact hyv
    show Spec n v (.bin a b) σ (A.1 ++ B.1 ++ [.add v A.2.1 B.2.1]) B.2.2
    refine ⟨Nat.le_trans SA.mono SB.mono, ?_, ?_⟩
    · rw [exec_add, exec_append]
      simp only [upd, if_true, eval]
      rw [hA_stable, SA.val, SB.val, hb_same]
    · intro x hx hxb
      rw [exec_add, exec_append]
      simp only [upd, hx, if_false]
      rw [SB.frame x (varBelow_mono SA.mono hxb) (Or.inl hx), SA.frame x hxb (Or.inl hx)]

end ProbeLower
