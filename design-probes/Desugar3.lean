import Probe.Desugar2
namespace ProbeDesugar

/-- fetch lemma: the element right after `pre` -/
theorem fetch (pre : List F) (f : F) (rest : List F) : (pre ++ f :: rest)[pre.length]? = some f := by
  simp

theorem step_ins (pre rest : List F) (k : Nat) (st : St) :
    stepF (pre ++ F.ins k :: rest) pre.length st = some (pre.length + 1, { st with log := st.log ++ [k] }) := by
  simp [stepF]

theorem step_dec (pre rest : List F) (st : St) :
    stepF (pre ++ F.dec :: rest) pre.length st = some (pre.length + 1, { st with x := st.x - 1 }) := by
  simp [stepF]

theorem step_label (pre rest : List F) (l : Nat) (st : St) :
    stepF (pre ++ F.label l :: rest) pre.length st = some (pre.length + 1, st) := by
  simp [stepF]

theorem step_jz_no (pre rest : List F) (l : Nat) (st : St) (h : st.x ≠ 0) :
    stepF (pre ++ F.jz l :: rest) pre.length st = some (pre.length + 1, st) := by
  simp [stepF, h]

theorem step_jnz_no (pre rest : List F) (l : Nat) (st : St) (h : st.x = 0) :
    stepF (pre ++ F.jnz l :: rest) pre.length st = some (pre.length + 1, st) := by
  simp [stepF, h]

theorem step_jz_yes (pre rest : List F) (l i : Nat) (st : St) (h : st.x = 0)
    (hf : findLabel (pre ++ F.jz l :: rest) l = some i) :
    stepF (pre ++ F.jz l :: rest) pre.length st = some (i, st) := by
  simp [stepF, h, hf]

theorem step_jnz_yes (pre rest : List F) (l i : Nat) (st : St) (h : st.x ≠ 0)
    (hf : findLabel (pre ++ F.jnz l :: rest) l = some i) :
    stepF (pre ++ F.jnz l :: rest) pre.length st = some (i, st) := by
  simp [stepF, h, hf]

theorem step_goto (pre rest : List F) (l i : Nat) (st : St)
    (hf : findLabel (pre ++ F.goto l :: rest) l = some i) :
    stepF (pre ++ F.goto l :: rest) pre.length st = some (i, st) := by
  simp [stepF, hf]

/-- hypotheses on the context: labels in `pre` are outside the interval used by the code -/
def Outside (pre : List F) (n n' : Nat) : Prop := ∀ l ∈ labelsOf pre, l < n ∨ n' ≤ l

def LoopEntry (ss : List S) (n : Nat) (pre post : List F) (st st' : St) : Prop :=
  match ss with
  | .whil b :: rest =>
    Exec (pre ++ (desugarL n (.whil b :: rest)).1 ++ post)
      (pre.length + 2 + (desugarL (n+2) b).1.length) st
      (pre.length + (desugarL n (.whil b :: rest)).1.length) st'
  | _ => True

def Sim (ss : List S) (st st' : St) : Prop :=
  ∀ (n : Nat) (pre post : List F), Outside pre n (desugarL n ss).2 →
    Exec (pre ++ (desugarL n ss).1 ++ post) pre.length st (pre.length + (desugarL n ss).1.length) st'
    ∧ LoopEntry ss n pre post st st'

end ProbeDesugar

namespace ProbeDesugar

theorem desugarL_cons (n : Nat) (s : S) (ss : List S) :
    desugarL n (s :: ss) = ((desugarS n s).1 ++ (desugarL (desugarS n s).2 ss).1, (desugarL (desugarS n s).2 ss).2) := by
  simp [desugarL]

theorem outside_append {pre c : List F} {n n' m m' : Nat}
    (h : Outside pre n n') (hc : InRange n m c) (hnm : n ≤ m) (hm : m ≤ m') (hn' : m' ≤ n') :
    Outside (pre ++ c) m m' := by
  intro l hl
  rw [labelsOf_append, List.mem_append] at hl
  cases hl with
  | inl h1 => cases h l h1 with
    | inl a => left; omega
    | inr a => right; omega
  | inr h1 => left; exact (hc l h1).2


theorem findLabel_at' {prog X Y : List F} {l : Nat} (hp : prog = X ++ F.label l :: Y) (h : l ∉ labelsOf X) :
    findLabel prog l = some X.length := by
  subst hp
  have := findLabel_at [] X Y l (by simp [labelsOf]) h
  simpa using this

section steps
variable {prog X Y : List F} {pc : Nat} {st : St}

theorem s_ins {k : Nat} (hp : prog = X ++ F.ins k :: Y) (hpc : pc = X.length) :
    stepF prog pc st = some (pc + 1, { st with log := st.log ++ [k] }) := by
  subst hp hpc; exact step_ins _ _ _ _
theorem s_dec (hp : prog = X ++ F.dec :: Y) (hpc : pc = X.length) :
    stepF prog pc st = some (pc + 1, { st with x := st.x - 1 }) := by
  subst hp hpc; exact step_dec _ _ _
theorem s_label {l : Nat} (hp : prog = X ++ F.label l :: Y) (hpc : pc = X.length) :
    stepF prog pc st = some (pc + 1, st) := by
  subst hp hpc; exact step_label _ _ _ _
theorem s_jz_no {l : Nat} (hp : prog = X ++ F.jz l :: Y) (hpc : pc = X.length) (h : st.x ≠ 0) :
    stepF prog pc st = some (pc + 1, st) := by
  subst hp hpc; exact step_jz_no _ _ _ _ h
theorem s_jnz_no {l : Nat} (hp : prog = X ++ F.jnz l :: Y) (hpc : pc = X.length) (h : st.x = 0) :
    stepF prog pc st = some (pc + 1, st) := by
  subst hp hpc; exact step_jnz_no _ _ _ _ h
theorem s_jz_yes {l i : Nat} (hp : prog = X ++ F.jz l :: Y) (hpc : pc = X.length) (h : st.x = 0)
    (hf : findLabel prog l = some i) : stepF prog pc st = some (i, st) := by
  subst hp hpc; exact step_jz_yes _ _ _ _ _ h hf
theorem s_jnz_yes {l i : Nat} (hp : prog = X ++ F.jnz l :: Y) (hpc : pc = X.length) (h : st.x ≠ 0)
    (hf : findLabel prog l = some i) : stepF prog pc st = some (i, st) := by
  subst hp hpc; exact step_jnz_yes _ _ _ _ _ h hf
theorem s_goto {l i : Nat} (hp : prog = X ++ F.goto l :: Y) (hpc : pc = X.length)
    (hf : findLabel prog l = some i) : stepF prog pc st = some (i, st) := by
  subst hp hpc; exact step_goto _ _ _ _ _ hf
end steps

theorem Exec.cast {prog prog' : List F} {a b a' b' : Nat} {s t : St}
    (h : Exec prog a s b t) (hp : prog = prog') (ha : a = a') (hb : b = b') : Exec prog' a' s b' t := by
  subst hp ha hb; exact h

theorem sim {ss : List S} {st st' : St} (h : Big ss st st') : Sim ss st st' := by
  induction h with
  | nil st =>
    intro n pre post _
    exact ⟨by simpa [desugarL] using Exec.refl _ _, trivial⟩
  | ins k ss st st2 _ ih =>
    intro n pre post hout
    refine ⟨?_, trivial⟩
    have hcode : (desugarL n (.ins k :: ss)).1 = F.ins k :: (desugarL n ss).1 := by simp [desugarL, desugarS]
    have hcnt : (desugarL n (.ins k :: ss)).2 = (desugarL n ss).2 := by simp [desugarL, desugarS]
    rw [hcode]
    have hout' : Outside (pre ++ [F.ins k]) n (desugarL n ss).2 := by
      intro l hl
      rw [labelsOf_append] at hl; simp [labelsOf] at hl
      have := hout l (by simpa [labelsOf] using hl); rw [hcnt] at this; exact this
    have IH := (ih n (pre ++ [F.ins k]) post hout').1
    simp only [List.append_assoc, List.cons_append, List.nil_append, List.length_append, List.length_cons, List.length_nil] at IH ⊢
    refine Exec.step _ _ _ _ _ _ (step_ins pre _ k st) ?_
    have e : pre.length + (0 + 1) + (desugarL n ss).1.length = pre.length + ((desugarL n ss).1.length + 1) := by omega
    rw [← e]; exact IH
  | dec ss st st2 _ ih =>
    intro n pre post hout
    refine ⟨?_, trivial⟩
    have hcode : (desugarL n (.dec :: ss)).1 = F.dec :: (desugarL n ss).1 := by simp [desugarL, desugarS]
    have hcnt : (desugarL n (.dec :: ss)).2 = (desugarL n ss).2 := by simp [desugarL, desugarS]
    rw [hcode]
    have hout' : Outside (pre ++ [F.dec]) n (desugarL n ss).2 := by
      intro l hl
      rw [labelsOf_append] at hl; simp [labelsOf] at hl
      have := hout l (by simpa [labelsOf] using hl); rw [hcnt] at this; exact this
    have IH := (ih n (pre ++ [F.dec]) post hout').1
    simp only [List.append_assoc, List.cons_append, List.nil_append, List.length_append, List.length_cons, List.length_nil] at IH ⊢
    refine Exec.step _ _ _ _ _ _ (step_dec pre _ st) ?_
    have e : pre.length + (0 + 1) + (desugarL n ss).1.length = pre.length + ((desugarL n ss).1.length + 1) := by omega
    rw [← e]; exact IH
  | ifT t e ss st st1 st2 hx _ _ iht ihss =>
    intro n pre post hout
    refine ⟨?_, trivial⟩
    let t' := (desugarL (n+2) t).1
    let n1 := (desugarL (n+2) t).2
    let e' := (desugarL n1 e).1
    let n2 := (desugarL n1 e).2
    let r' := (desugarL n2 ss).1
    have hcode : (desugarL n (.ifnz t e :: ss)).1 = [F.jz n] ++ t' ++ [F.goto (n+1), F.label n] ++ e' ++ [F.label (n+1)] ++ r' := by
      simp [desugarL, desugarS, t', e', r', n1, n2]
    have hcnt : (desugarL n (.ifnz t e :: ss)).2 = (desugarL n2 ss).2 := by simp [desugarL, desugarS, n1, n2]
    have hrt := rangeL (n+2) t
    have hre := rangeL n1 e
    have hrs := rangeL n2 ss
    have hn1 : n + 2 ≤ n1 := hrt.1
    have hn2 : n1 ≤ n2 := hre.1
    have hn3 : n2 ≤ (desugarL n2 ss).2 := hrs.1
    have hpre : ∀ l, n ≤ l → l < (desugarL n2 ss).2 → l ∉ labelsOf pre := fun l h1 h2 hm => by
      have := hout l hm; rw [hcnt] at this; omega
    have ht'lab : ∀ l, l < n + 2 → l ∉ labelsOf t' := fun l hl hm => by have := (hrt.2 l hm).1; omega
    have he'lab : ∀ l, l < n + 2 → l ∉ labelsOf e' := fun l hl hm => by have := (hre.2 l hm).1; omega
    generalize hprog : pre ++ (desugarL n (.ifnz t e :: ss)).1 ++ post = prog
    have hP : prog = pre ++ [F.jz n] ++ t' ++ [F.goto (n+1), F.label n] ++ e' ++ [F.label (n+1)] ++ r' ++ post := by
      rw [← hprog, hcode]; simp [List.append_assoc]
    have hlen : (desugarL n (.ifnz t e :: ss)).1.length = 1 + t'.length + 2 + e'.length + 1 + r'.length := by
      rw [hcode]; simp [List.length_append]; omega
    -- the rest of the statements
    have houtr : Outside (pre ++ ([F.jz n] ++ t' ++ [F.goto (n+1), F.label n] ++ e' ++ [F.label (n+1)])) n2 (desugarL n2 ss).2 := by
      apply outside_append (n := n) (n' := (desugarL n2 ss).2) (m := n2)
      · intro l hl; have := hout l hl; rw [hcnt] at this; exact this
      · intro l hl
        simp only [labelsOf_append, List.mem_append] at hl
        rcases hl with (((h | h) | h) | h) | h
        · simp [labelsOf] at h
        · have := hrt.2 l h; exact ⟨by omega, by omega⟩
        · simp [labelsOf] at h; omega
        · have := hre.2 l h; exact ⟨by omega, this.2⟩
        · simp [labelsOf] at h; omega
      · omega
      · exact hn3
      · exact Nat.le_refl _
    have IHr := (ihss n2 (pre ++ ([F.jz n] ++ t' ++ [F.goto (n+1), F.label n] ++ e' ++ [F.label (n+1)])) post houtr).1
    have IHr' : Exec prog (pre.length + 1 + t'.length + 2 + e'.length + 1) st1 (pre.length + (desugarL n (.ifnz t e :: ss)).1.length) st2 := by
      apply IHr.cast
      · rw [hP]; simp [List.append_assoc, r', n2, n1]
      · simp [List.length_append]; omega
      · rw [hlen]; simp [List.length_append, r', n2, n1]; omega
    have hlabelEnd : stepF prog (pre.length + 1 + t'.length + 2 + e'.length) st1 = some (pre.length + 1 + t'.length + 2 + e'.length + 1, st1) :=
      s_label (X := pre ++ [F.jz n] ++ t' ++ [F.goto (n+1), F.label n] ++ e') (Y := r' ++ post) (l := n+1)
        (by rw [hP]; simp [List.append_assoc]) (by simp [List.length_append]; omega)
    -- then-branch
    have houtt : Outside (pre ++ [F.jz n]) (n+2) n1 := by
      intro l hl
      rw [labelsOf_append, List.mem_append] at hl
      cases hl with
      | inl h => have := hout l h; rw [hcnt] at this; omega
      | inr h => simp [labelsOf] at h
    have IHt := (iht (n+2) (pre ++ [F.jz n]) ([F.goto (n+1), F.label n] ++ e' ++ [F.label (n+1)] ++ r' ++ post) houtt).1
    have IHt' : Exec prog (pre.length + 1) st (pre.length + 1 + t'.length) st1 := by
      apply IHt.cast
      · rw [hP]; simp [List.append_assoc, t']
      · simp [List.length_append]
      · simp [List.length_append, t']
    have hfind : findLabel prog (n+1) = some (pre.length + 1 + t'.length + 2 + e'.length) := by
      have := findLabel_at' (prog := prog) (X := pre ++ [F.jz n] ++ t' ++ [F.goto (n+1), F.label n] ++ e') (Y := r' ++ post) (l := n+1)
        (by rw [hP]; simp [List.append_assoc])
        (by
          simp only [labelsOf_append, List.mem_append, not_or]
          refine ⟨⟨⟨⟨hpre (n+1) (by omega) (by omega), by simp [labelsOf]⟩, ht'lab (n+1) (by omega)⟩, by simp [labelsOf]⟩, he'lab (n+1) (by omega)⟩)
      rw [this]; simp [List.length_append]; omega
    have hgoto : stepF prog (pre.length + 1 + t'.length) st1 = some (pre.length + 1 + t'.length + 2 + e'.length, st1) :=
      s_goto (X := pre ++ [F.jz n] ++ t') (Y := F.label n :: (e' ++ [F.label (n+1)] ++ r' ++ post)) (l := n+1)
        (by rw [hP]; simp [List.append_assoc]) (by simp [List.length_append]; omega) hfind
    refine Exec.step _ _ _ _ _ _ (s_jz_no (X := pre) (Y := t' ++ [F.goto (n+1), F.label n] ++ e' ++ [F.label (n+1)] ++ r' ++ post) (l := n)
      (by rw [hP]; simp [List.append_assoc]) rfl hx) ?_
    exact IHt'.trans (Exec.step _ _ _ _ _ _ hgoto (Exec.step _ _ _ _ _ _ hlabelEnd IHr'))
  | ifF t e ss st st1 st2 hx _ _ ihe ihss =>
    intro n pre post hout
    refine ⟨?_, trivial⟩
    let t' := (desugarL (n+2) t).1
    let n1 := (desugarL (n+2) t).2
    let e' := (desugarL n1 e).1
    let n2 := (desugarL n1 e).2
    let r' := (desugarL n2 ss).1
    have hcode : (desugarL n (.ifnz t e :: ss)).1 = [F.jz n] ++ t' ++ [F.goto (n+1), F.label n] ++ e' ++ [F.label (n+1)] ++ r' := by
      simp [desugarL, desugarS, t', e', r', n1, n2]
    have hcnt : (desugarL n (.ifnz t e :: ss)).2 = (desugarL n2 ss).2 := by simp [desugarL, desugarS, n1, n2]
    have hrt := rangeL (n+2) t
    have hre := rangeL n1 e
    have hrs := rangeL n2 ss
    have hn1 : n + 2 ≤ n1 := hrt.1
    have hn2 : n1 ≤ n2 := hre.1
    have hn3 : n2 ≤ (desugarL n2 ss).2 := hrs.1
    have hpre : ∀ l, n ≤ l → l < (desugarL n2 ss).2 → l ∉ labelsOf pre := fun l h1 h2 hm => by
      have := hout l hm; rw [hcnt] at this; omega
    have ht'lab : ∀ l, l < n + 2 → l ∉ labelsOf t' := fun l hl hm => by have := (hrt.2 l hm).1; omega
    have he'lab : ∀ l, l < n + 2 → l ∉ labelsOf e' := fun l hl hm => by have := (hre.2 l hm).1; omega
    generalize hprog : pre ++ (desugarL n (.ifnz t e :: ss)).1 ++ post = prog
    have hP : prog = pre ++ [F.jz n] ++ t' ++ [F.goto (n+1), F.label n] ++ e' ++ [F.label (n+1)] ++ r' ++ post := by
      rw [← hprog, hcode]; simp [List.append_assoc]
    have hlen : (desugarL n (.ifnz t e :: ss)).1.length = 1 + t'.length + 2 + e'.length + 1 + r'.length := by
      rw [hcode]; simp [List.length_append]; omega
    -- the rest of the statements
    have houtr : Outside (pre ++ ([F.jz n] ++ t' ++ [F.goto (n+1), F.label n] ++ e' ++ [F.label (n+1)])) n2 (desugarL n2 ss).2 := by
      apply outside_append (n := n) (n' := (desugarL n2 ss).2) (m := n2)
      · intro l hl; have := hout l hl; rw [hcnt] at this; exact this
      · intro l hl
        simp only [labelsOf_append, List.mem_append] at hl
        rcases hl with (((h | h) | h) | h) | h
        · simp [labelsOf] at h
        · have := hrt.2 l h; exact ⟨by omega, by omega⟩
        · simp [labelsOf] at h; omega
        · have := hre.2 l h; exact ⟨by omega, this.2⟩
        · simp [labelsOf] at h; omega
      · omega
      · exact hn3
      · exact Nat.le_refl _
    have IHr := (ihss n2 (pre ++ ([F.jz n] ++ t' ++ [F.goto (n+1), F.label n] ++ e' ++ [F.label (n+1)])) post houtr).1
    have IHr' : Exec prog (pre.length + 1 + t'.length + 2 + e'.length + 1) st1 (pre.length + (desugarL n (.ifnz t e :: ss)).1.length) st2 := by
      apply IHr.cast
      · rw [hP]; simp [List.append_assoc, r', n2, n1]
      · simp [List.length_append]; omega
      · rw [hlen]; simp [List.length_append, r', n2, n1]; omega
    have hlabelEnd : stepF prog (pre.length + 1 + t'.length + 2 + e'.length) st1 = some (pre.length + 1 + t'.length + 2 + e'.length + 1, st1) :=
      s_label (X := pre ++ [F.jz n] ++ t' ++ [F.goto (n+1), F.label n] ++ e') (Y := r' ++ post) (l := n+1)
        (by rw [hP]; simp [List.append_assoc]) (by simp [List.length_append]; omega)
    -- else-branch
    have houte : Outside (pre ++ ([F.jz n] ++ t' ++ [F.goto (n+1), F.label n])) n1 n2 := by
      apply outside_append (n := n) (n' := (desugarL n2 ss).2) (m := n1)
      · intro l hl; have := hout l hl; rw [hcnt] at this; exact this
      · intro l hl
        simp only [labelsOf_append, List.mem_append] at hl
        rcases hl with (h | h) | h
        · simp [labelsOf] at h
        · have := hrt.2 l h; exact ⟨by omega, this.2⟩
        · simp [labelsOf] at h; omega
      · omega
      · exact hn2
      · exact hn3
    have IHe := (ihe n1 (pre ++ ([F.jz n] ++ t' ++ [F.goto (n+1), F.label n])) ([F.label (n+1)] ++ r' ++ post) houte).1
    have IHe' : Exec prog (pre.length + 1 + t'.length + 2) st (pre.length + 1 + t'.length + 2 + e'.length) st1 := by
      apply IHe.cast
      · rw [hP]; simp [List.append_assoc, e', n1]
      · simp [List.length_append]; omega
      · simp [List.length_append, e', n1]; omega
    have hfind : findLabel prog n = some (pre.length + 1 + t'.length + 1) := by
      have := findLabel_at' (prog := prog) (X := pre ++ [F.jz n] ++ t' ++ [F.goto (n+1)]) (Y := e' ++ [F.label (n+1)] ++ r' ++ post) (l := n)
        (by rw [hP]; simp [List.append_assoc])
        (by
          simp only [labelsOf_append, List.mem_append, not_or]
          refine ⟨⟨⟨hpre n (Nat.le_refl _) (by omega), by simp [labelsOf]⟩, ht'lab n (by omega)⟩, by simp [labelsOf]⟩)
      rw [this]; simp [List.length_append]; omega
    have hlabeln : stepF prog (pre.length + 1 + t'.length + 1) st = some (pre.length + 1 + t'.length + 1 + 1, st) :=
      s_label (X := pre ++ [F.jz n] ++ t' ++ [F.goto (n+1)]) (Y := e' ++ [F.label (n+1)] ++ r' ++ post) (l := n)
        (by rw [hP]; simp [List.append_assoc]) (by simp [List.length_append]; omega)
    refine Exec.step _ _ _ _ _ _ (s_jz_yes (X := pre) (Y := t' ++ [F.goto (n+1), F.label n] ++ e' ++ [F.label (n+1)] ++ r' ++ post) (l := n)
      (by rw [hP]; simp [List.append_assoc]) rfl hx hfind) ?_
    exact Exec.step _ _ _ _ _ _ hlabeln (IHe'.trans (Exec.step _ _ _ _ _ _ hlabelEnd IHr'))
  | whF b ss st st2 hx _ ihss =>
    intro n pre post hout
    -- names
    let b' := (desugarL (n+2) b).1
    let n1 := (desugarL (n+2) b).2
    let r' := (desugarL n1 ss).1
    have hcode : (desugarL n (.whil b :: ss)).1 = [F.jz (n+1), F.label n] ++ b' ++ [F.jnz n, F.label (n+1)] ++ r' := by
      simp [desugarL, desugarS, b', r', n1]
    have hcnt : (desugarL n (.whil b :: ss)).2 = (desugarL n1 ss).2 := by simp [desugarL, desugarS, n1]
    have hrb := rangeL (n+2) b
    have hrs := rangeL n1 ss
    have hb'lab : ∀ l, l < n + 2 → l ∉ labelsOf b' := fun l hl hm => by have := (hrb.2 l hm).1; omega
    have hpre : ∀ l, n ≤ l → l < (desugarL n1 ss).2 → l ∉ labelsOf pre := fun l h1 h2 hm => by
      have := hout l hm; rw [hcnt] at this; omega
    have hn1 : n + 2 ≤ n1 := hrb.1
    have hn2 : n1 ≤ (desugarL n1 ss).2 := hrs.1
    -- the program, once and for all
    simp only [LoopEntry]
    generalize hprog : pre ++ (desugarL n (.whil b :: ss)).1 ++ post = prog
    have hP : prog = pre ++ [F.jz (n+1), F.label n] ++ b' ++ [F.jnz n, F.label (n+1)] ++ r' ++ post := by
      rw [← hprog, hcode]; simp [List.append_assoc]
    have hlen : (desugarL n (.whil b :: ss)).1.length = 2 + b'.length + 2 + r'.length := by
      rw [hcode]; simp [List.length_append]; omega
    -- continuation after the loop: the rest of the statements
    have hout' : Outside (pre ++ ([F.jz (n+1), F.label n] ++ b' ++ [F.jnz n, F.label (n+1)])) n1 (desugarL n1 ss).2 := by
      apply outside_append (n := n) (n' := (desugarL n1 ss).2) (m := n1)
      · intro l hl; have := hout l hl; rw [hcnt] at this; exact this
      · intro l hl
        simp only [labelsOf_append, List.mem_append] at hl
        rcases hl with (h | h) | h
        · simp [labelsOf] at h; omega
        · have := hrb.2 l h; exact ⟨by omega, this.2⟩
        · simp [labelsOf] at h; omega
      · omega
      · exact hn2
      · exact Nat.le_refl _
    have IH := (ihss n1 (pre ++ ([F.jz (n+1), F.label n] ++ b' ++ [F.jnz n, F.label (n+1)])) post hout').1
    have IH' : Exec prog (pre.length + 2 + b'.length + 2) st (pre.length + (desugarL n (.whil b :: ss)).1.length) st2 := by
      apply IH.cast
      · rw [hP]; simp [List.append_assoc, r', n1]
      · simp [List.length_append]; omega
      · rw [hlen]; simp [List.length_append, r', n1]; omega
    -- position of `label (n+1)`
    have hfind : findLabel prog (n+1) = some (pre.length + 2 + b'.length + 1) := by
      have := findLabel_at' (prog := prog) (X := pre ++ [F.jz (n+1), F.label n] ++ b' ++ [F.jnz n]) (Y := r' ++ post) (l := n+1)
        (by rw [hP]; simp [List.append_assoc])
        (by
          simp only [labelsOf_append, List.mem_append, not_or]
          refine ⟨⟨⟨hpre (n+1) (by omega) (by omega), by simp [labelsOf]⟩, hb'lab (n+1) (by omega)⟩, by simp [labelsOf]⟩)
      rw [this]; simp [List.length_append]; omega
    have hlabel : stepF prog (pre.length + 2 + b'.length + 1) st = some (pre.length + 2 + b'.length + 1 + 1, st) :=
      s_label (X := pre ++ [F.jz (n+1), F.label n] ++ b' ++ [F.jnz n]) (Y := r' ++ post) (l := n+1)
        (by rw [hP]; simp [List.append_assoc]) (by simp [List.length_append]; omega)
    constructor
    · -- from the start: jz taken
      refine Exec.step _ _ _ _ _ _ (s_jz_yes (X := pre) (Y := F.label n :: (b' ++ [F.jnz n, F.label (n+1)] ++ r' ++ post)) (l := n+1)
        (by rw [hP]; simp [List.append_assoc]) rfl hx hfind) ?_
      exact Exec.step _ _ _ _ _ _ hlabel IH'
    · -- from the jnz: falls through
      refine Exec.step _ _ _ _ _ _ (s_jnz_no (X := pre ++ [F.jz (n+1), F.label n] ++ b') (Y := F.label (n+1) :: (r' ++ post)) (l := n)
        (by rw [hP]; simp [List.append_assoc]) (by simp [List.length_append, b']; omega) hx) ?_
      exact Exec.step _ _ _ _ _ _ hlabel IH'
  | whT b ss st st1 st2 hx _ _ ihb ihw =>
    intro n pre post hout
    let b' := (desugarL (n+2) b).1
    let n1 := (desugarL (n+2) b).2
    let r' := (desugarL n1 ss).1
    have hcode : (desugarL n (.whil b :: ss)).1 = [F.jz (n+1), F.label n] ++ b' ++ [F.jnz n, F.label (n+1)] ++ r' := by
      simp [desugarL, desugarS, b', r', n1]
    have hcnt : (desugarL n (.whil b :: ss)).2 = (desugarL n1 ss).2 := by simp [desugarL, desugarS, n1]
    have hrb := rangeL (n+2) b
    have hrs := rangeL n1 ss
    have hpre : ∀ l, n ≤ l → l < (desugarL n1 ss).2 → l ∉ labelsOf pre := fun l h1 h2 hm => by
      have := hout l hm; rw [hcnt] at this; omega
    have hn1 : n + 2 ≤ n1 := hrb.1
    have hn2 : n1 ≤ (desugarL n1 ss).2 := hrs.1
    -- loop-entry fact from the induction hypothesis on the remaining iterations
    have LE := (ihw n pre post hout).2
    simp only [LoopEntry] at LE ⊢
    generalize hprog : pre ++ (desugarL n (.whil b :: ss)).1 ++ post = prog at LE ⊢
    have hP : prog = pre ++ [F.jz (n+1), F.label n] ++ b' ++ [F.jnz n, F.label (n+1)] ++ r' ++ post := by
      rw [← hprog, hcode]; simp [List.append_assoc]
    -- body: from just after `label n` to the `jnz`
    have houtb : Outside (pre ++ [F.jz (n+1), F.label n]) (n+2) n1 := by
      intro l hl
      rw [labelsOf_append, List.mem_append] at hl
      cases hl with
      | inl h => have := hout l h; rw [hcnt] at this; omega
      | inr h => simp [labelsOf] at h; omega
    have IHb := (ihb (n+2) (pre ++ [F.jz (n+1), F.label n]) ([F.jnz n, F.label (n+1)] ++ r' ++ post) houtb).1
    have IHb' : Exec prog (pre.length + 2) st (pre.length + 2 + (desugarL (n+2) b).1.length) st1 := by
      apply IHb.cast
      · rw [hP]; simp [List.append_assoc, b']
      · simp [List.length_append]
      · simp [List.length_append]
    have hfindn : findLabel prog n = some (pre.length + 1) := by
      have := findLabel_at' (prog := prog) (X := pre ++ [F.jz (n+1)]) (Y := b' ++ [F.jnz n, F.label (n+1)] ++ r' ++ post) (l := n)
        (by rw [hP]; simp [List.append_assoc])
        (by
          simp only [labelsOf_append, List.mem_append, not_or]
          exact ⟨hpre n (Nat.le_refl _) (by omega), by simp [labelsOf]⟩)
      rw [this]; simp [List.length_append]
    have hlabeln : stepF prog (pre.length + 1) st = some (pre.length + 1 + 1, st) :=
      s_label (X := pre ++ [F.jz (n+1)]) (Y := b' ++ [F.jnz n, F.label (n+1)] ++ r' ++ post) (l := n)
        (by rw [hP]; simp [List.append_assoc]) (by simp [List.length_append])
    -- common tail: from `label n` run the body, then re-enter through the jnz
    have tail : Exec prog (pre.length + 1) st (pre.length + (desugarL n (.whil b :: ss)).1.length) st2 :=
      Exec.step _ _ _ _ _ _ hlabeln (IHb'.trans LE)
    constructor
    · refine Exec.step _ _ _ _ _ _ (s_jz_no (X := pre) (Y := F.label n :: (b' ++ [F.jnz n, F.label (n+1)] ++ r' ++ post)) (l := n+1)
        (by rw [hP]; simp [List.append_assoc]) rfl hx) tail
    · refine Exec.step _ _ _ _ _ _ (s_jnz_yes (X := pre ++ [F.jz (n+1), F.label n] ++ b') (Y := F.label (n+1) :: (r' ++ post)) (l := n)
        (by rw [hP]; simp [List.append_assoc]) (by simp [List.length_append, b']; omega) hx hfindn) tail

end ProbeDesugar

namespace ProbeDesugar
/-- the statement one would put in `Props/`: a whole program run from pc 0 -/
theorem desugar_correct (ss : List S) (st st' : St) (h : Big ss st st') :
    Exec (desugarL 0 ss).1 0 st (desugarL 0 ss).1.length st' := by
  have := (sim h 0 [] [] (by intro l hl; simp [labelsOf] at hl)).1
  simpa using this
end ProbeDesugar
