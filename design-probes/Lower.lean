namespace ProbeLower

inductive Var | reg (n : Nat) | tmp (n : Nat)
deriving DecidableEq, Repr

inductive Expr
  | lit (v : Int)
  | var (x : Var)
  | bin (a b : Expr)
deriving Repr

abbrev Store := Var → Int

def eval (σ : Store) : Expr → Int
  | .lit v => v
  | .var x => σ x
  | .bin a b => eval σ a + eval σ b

inductive Atom | imm (c : Int) | ref (x : Var)
deriving Repr

def Atom.eval (σ : Store) : Atom → Int
  | .imm v => v
  | .ref x => σ x

inductive Instr
  | mov (d : Var) (a : Atom)
  | add (d : Var) (a b : Atom)
deriving Repr

def upd (σ : Store) (x : Var) (v : Int) : Store := fun y => if y = x then v else σ y

def step (σ : Store) : Instr → Store
  | .mov d a => upd σ d (a.eval σ)
  | .add d a b => upd σ d (a.eval σ + b.eval σ)

def exec (σ : Store) (is : List Instr) : Store := is.foldl step σ

def uses (x : Var) : Expr → Bool
  | .lit _ => false
  | .var y => x = y
  | .bin a b => uses x a || uses x b

def simple? : Expr → Option Atom
  | .lit v => some (.imm v)
  | .var x => some (.ref x)
  | .bin _ _ => none

def atomUses (x : Var) : Atom → Bool
  | .imm _ => false
  | .ref y => x = y

/-- lower `v = e`; `n` = next fresh temp index. returns code and next index -/
def lower (n : Nat) (v : Var) : Expr → List Instr × Nat
  | .lit c => ([.mov v (.imm c)], n)
  | .var x => ([.mov v (.ref x)], n)
  | .bin a b =>
    -- first operand
    let (codeA, atomA, n1) :=
      match simple? a with
      | some t => (([] : List Instr), t, n)
      | none =>
        if !uses v b then
          let (c, n') := lower n v a
          (c, Atom.ref v, n')
        else
          let (c, n') := lower (n+1) (.tmp n) a
          (c, Atom.ref (.tmp n), n')
    let (codeB, atomB, n2) :=
      match simple? b with
      | some t => (([] : List Instr), t, n1)
      | none =>
        if !atomUses v atomA then
          let (c, n') := lower n1 v b
          (c, Atom.ref v, n')
        else
          let (c, n') := lower (n1+1) (.tmp n1) b
          (c, Atom.ref (.tmp n1), n')
    (codeA ++ codeB ++ [.add v atomA atomB], n2)

/-- all temps mentioned in e are below n -/
def tmpsBelow (n : Nat) : Expr → Prop
  | .lit _ => True
  | .var (.tmp k) => k < n
  | .var (.reg _) => True
  | .bin a b => tmpsBelow n a ∧ tmpsBelow n b

def varBelow (n : Nat) : Var → Prop
  | .tmp k => k < n
  | .reg _ => True

end ProbeLower

namespace ProbeLower

theorem exec_append (σ : Store) (a b : List Instr) : exec σ (a ++ b) = exec (exec σ a) b := by
  simp [exec, List.foldl_append]

theorem varBelow_mono {n m : Nat} {x : Var} (h : n ≤ m) : varBelow n x → varBelow m x := by
  cases x <;> simp [varBelow] <;> omega

theorem tmpsBelow_mono {n m : Nat} {e : Expr} (h : n ≤ m) : tmpsBelow n e → tmpsBelow m e := by
  induction e with
  | lit _ => simp [tmpsBelow]
  | var x => cases x <;> simp [tmpsBelow] <;> omega
  | bin a b iha ihb => intro ⟨ha, hb⟩; exact ⟨iha ha, ihb hb⟩

/-- evaluation only depends on variables below n (when all temps of e are below n) -/
theorem eval_congr {n : Nat} {e : Expr} (σ τ : Store) (hb : tmpsBelow n e)
    (h : ∀ x, varBelow n x → σ x = τ x) : eval σ e = eval τ e := by
  induction e with
  | lit _ => rfl
  | var x =>
    simp only [eval]; apply h
    cases x <;> simp_all [tmpsBelow, varBelow]
  | bin a b iha ihb => simp only [eval]; rw [iha hb.1, ihb hb.2]

/-- evaluation does not depend on a variable the expression does not use -/
theorem eval_upd_not_uses {e : Expr} (σ τ : Store) (v : Var) (hu : uses v e = false)
    (h : ∀ x, x ≠ v → σ x = τ x) : eval σ e = eval τ e := by
  induction e with
  | lit _ => rfl
  | var x =>
    simp only [eval]; apply h
    simp [uses] at hu; exact fun hx => hu hx.symm
  | bin a b iha ihb =>
    simp [uses] at hu
    simp only [eval]; rw [iha hu.1, ihb hu.2]

def Spec (n : Nat) (v : Var) (e : Expr) (σ : Store) (code : List Instr) (n' : Nat) : Prop :=
  n ≤ n' ∧ exec σ code v = eval σ e ∧ (∀ x, x ≠ v → varBelow n x → exec σ code x = σ x)

theorem simple_eval {e : Expr} {t : Atom} (h : simple? e = some t) (σ : Store) : t.eval σ = eval σ e := by
  cases e <;> simp [simple?] at h <;> subst h <;> rfl

theorem simple_atomUses {e : Expr} {t : Atom} (h : simple? e = some t) (v : Var) : atomUses v t = uses v e := by
  cases e <;> simp [simple?] at h <;> subst h <;> rfl

theorem simple_below {e : Expr} {t : Atom} (h : simple? e = some t) {n : Nat} (hb : tmpsBelow n e) :
    ∀ x, t = .ref x → varBelow n x := by
  cases e with
  | lit c => simp [simple?] at h; subst h; intro x hx; cases hx
  | var y => simp [simple?] at h; subst h; intro x hx; cases hx; cases y <;> simp_all [tmpsBelow, varBelow]
  | bin a b => simp [simple?] at h

theorem exec_add (σ : Store) (code : List Instr) (v : Var) (p q : Atom) :
    exec σ (code ++ [.add v p q]) = upd (exec σ code) v (p.eval (exec σ code) + q.eval (exec σ code)) := by
  simp [exec_append, exec, step]

end ProbeLower
