//! Generators of compilable source files for every format/game, driven by the built-in signature
//! tables of the code under test (`verif_hooks::core_mapfile`).  Shared by C01, C03, C04, C16, C18,
//! C19, C20.
#![allow(dead_code)]

use crate::rng::Rng;
use crate::tc::Format;
use truth::{Game, LanguageKey};

pub struct GenSource {
    pub format: Format,
    pub game: Game,
    pub text: String,
    pub maps: Vec<String>,
}

pub const GAMES_MSG: &[Game] = &[Game::Th06, Game::Th07, Game::Th08, Game::Th09, Game::Th10, Game::Th11, Game::Th12, Game::Th128, Game::Th13, Game::Th14, Game::Th15, Game::Th16, Game::Th17, Game::Th18];
pub const GAMES_END: &[Game] = &[Game::Th08, Game::Th10, Game::Th12, Game::Th14, Game::Th17];
pub const GAMES_STD: &[Game] = &[Game::Th06, Game::Th07, Game::Th08, Game::Th09, Game::Th095, Game::Th10, Game::Th11, Game::Th12, Game::Th14, Game::Th17];
pub const GAMES_ANM: &[Game] = &[Game::Th06, Game::Th07, Game::Th08, Game::Th09, Game::Th095, Game::Th10, Game::Th11, Game::Th12, Game::Th13, Game::Th14, Game::Th16, Game::Th17, Game::Th18];
pub const GAMES_ECL: &[Game] = &[Game::Th06, Game::Th07, Game::Th08, Game::Th09, Game::Th095];
pub const GAMES_MISSION: &[Game] = &[Game::Th095, Game::Th125];

/// One parameter of a signature string.
#[derive(Debug, Clone)]
pub struct SigParam { pub ch: char, pub attrs: String }

pub fn parse_sig(sig: &str) -> Vec<SigParam> {
    let mut out = vec![];
    let cs: Vec<char> = sig.chars().collect();
    let mut i = 0;
    while i < cs.len() {
        let ch = cs[i];
        i += 1;
        let mut attrs = String::new();
        if i < cs.len() && cs[i] == '(' {
            i += 1;
            while i < cs.len() && cs[i] != ')' { attrs.push(cs[i]); i += 1; }
            i += 1;
        }
        if ch.is_whitespace() { continue; }
        out.push(SigParam { ch, attrs });
    }
    out
}

/// Signature table `(opcode, signature)` of a language of a game, last definition wins.
pub fn signatures(game: Game, language: LanguageKey) -> Vec<(i32, String)> {
    let mut scope = truth::Builder::new().capture_diagnostics(true).build();
    let mut truth = scope.truth();
    let m = truth::verif_hooks::core_mapfile(truth.ctx().emitter, game, language);
    let mut map = std::collections::BTreeMap::new();
    let list = if language == LanguageKey::Timeline && m.ins_signatures.is_empty() { &m.timeline_ins_signatures } else { &m.ins_signatures };
    for (op, sig) in list { map.insert(*op, sig.value.clone()); }
    map.into_iter().collect()
}

pub fn intrinsic_opcodes(game: Game, language: LanguageKey) -> Vec<i32> {
    let mut scope = truth::Builder::new().capture_diagnostics(true).build();
    let mut truth = scope.truth();
    let m = truth::verif_hooks::core_mapfile(truth.ctx().emitter, game, language);
    m.ins_intrinsics.iter().map(|x| x.0).collect()
}

pub fn float_text(x: f32) -> String {
    if x.is_nan() { return "NAN".into(); }
    let mag = x.abs();
    let body = if mag.is_infinite() { "INF".to_string() } else { let mut s = format!("{}", mag); if !s.contains('.') { s.push_str(".0"); } s };
    if x.is_sign_negative() { format!("-{body}") } else { body }
}

pub const STRING_POOL: &[&str] = &["", "a", "abc", "hello world", "Reimu", "\u{3042}\u{3044}\u{3046}", "\u{535a}\u{9e97}\u{970a}\u{5922}", "x|y", "tab\\\\slash", "\u{30bd}\u{30fc}\u{30b9}", "0123456789abcdef0123456789abcdef", "  spaces  ", "\u{ff71}\u{ff72}"];

pub struct ArgStyle { pub boundary: bool, pub allow_strings: bool }

/// Source text of one argument for a parameter; `None` = padding (no argument), Err = unsupported char.
pub fn gen_arg(rng: &mut Rng, p: &SigParam, style: &ArgStyle) -> Result<Option<String>, ()> {
    let small = |rng: &mut Rng| -> i64 { *rng.pick(&[0i64, 1, 2, 3, 5, 10, 16, 60, 100, -1, -2, 255, 256]) };
    Ok(Some(match p.ch {
        '_' | '-' => return Ok(None),
        'S' | 'U' | 'n' | 'N' | 'E' => {
            if p.attrs.contains("enum=\"bool\"") { return Ok(Some(format!("{}", rng.below(2)))); }
            if p.attrs.contains("enum=") { return Ok(Some(format!("{}", rng.below(4)))); }
            let v: i64 = if matches!(p.ch, 'n' | 'N' | 'E') { rng.below(3) as i64 }
                else if style.boundary && rng.chance(1, 3) { rng.int_boundary() as i64 } else { small(rng) };
            if p.ch == 'U' && v < 0 { format!("{}", v as i32 as u32) } else { format!("{v}") }
        },
        's' => format!("{}", if style.boundary && rng.chance(1, 3) { *rng.pick(&[32767i64, -32768, 1000, -1000]) } else { small(rng).clamp(-32768, 32767) }),
        'u' => format!("{}", if style.boundary && rng.chance(1, 3) { *rng.pick(&[65535i64, 32768, 1000]) } else { small(rng).rem_euclid(65536) }),
        'c' => format!("{}", if style.boundary && rng.chance(1, 3) { *rng.pick(&[127i64, -128, 100]) } else { small(rng).clamp(-128, 127) }),
        'b' => format!("{}", if style.boundary && rng.chance(1, 3) { *rng.pick(&[255i64, 128, 100]) } else { small(rng).rem_euclid(256) }),
        'C' => format!("{:#010x}", rng.next_u32()),
        'f' => {
            let x = if style.boundary && rng.chance(1, 4) { f32::from_bits(rng.float_bits()) } else { *rng.pick(&[0.0f32, 1.0, -1.0, 0.5, 2.5, 100.0, -64.0, 3.14159, 1e-3, 480.0]) };
            if x.is_infinite() { "1.0".into() } else { float_text(x) }
        },
        'z' | 'm' | 'p' => {
            if !style.allow_strings { return Err(()); }
            format!("\"{}\"", rng.pick(STRING_POOL))
        },
        _ => return Err(()),
    }))
}

/// `ins_N(args);` for a random non-jump instruction of the table, or None if nothing usable.
pub fn gen_call(rng: &mut Rng, sigs: &[(i32, String)], skip: &[i32], style: &ArgStyle) -> Option<String> {
    if sigs.is_empty() { return None; }
    for _ in 0..20 {
        let (op, sig) = rng.pick(sigs);
        if skip.contains(op) || *op < 0 { continue; }
        let params = parse_sig(sig);
        if params.iter().any(|p| matches!(p.ch, 'o' | 't')) { continue; }
        let mut args = vec![];
        let mut ok = true;
        for p in params.iter() {
            match gen_arg(rng, p, style) {
                Ok(Some(a)) => args.push(a),
                Ok(None) => {},   // padding bytes are written by the encoder; they are not arguments
                Err(()) => { ok = false; break; },
            }
        }
        if !ok { continue; }
        return Some(format!("ins_{}({});", op, args.join(", ")));
    }
    None
}

pub struct BodyOpts { pub depth: u32, pub allow_blocks: bool, pub time_labels: bool, pub max_stmts: usize }

/// Old ECL: the same instruction once per difficulty group, differing in one integer argument,
/// optionally with a time label between groups (what the decompiler may fold into a difficulty
/// switch - but only when times, labels and the other arguments allow it).
pub fn gen_diff_ladder(rng: &mut Rng, sigs: &[(i32, String)], skip: &[i32], indent: usize) -> Option<String> {
    let pad = " ".repeat(indent);
    let style = ArgStyle { boundary: false, allow_strings: false };
    for _ in 0..30 {
        let (op, sig) = rng.pick(sigs);
        if skip.contains(op) || *op < 0 { continue; }
        let params: Vec<SigParam> = parse_sig(sig).into_iter().filter(|p| !matches!(p.ch, '_' | '-')).collect();
        if params.is_empty() || params.iter().any(|p| matches!(p.ch, 'o' | 't' | 'z' | 'm' | 'p')) { continue; }
        let vary: Vec<usize> = (0..params.len()).filter(|&i| matches!(params[i].ch, 'S' | 'f') && !params[i].attrs.contains("enum")).collect();
        if vary.is_empty() { continue; }
        let vi = *rng.pick(&vary);
        let mut base = vec![];
        for p in &params { match gen_arg(rng, p, &style) { Ok(Some(a)) => base.push(a), _ => { base.clear(); break; } } }
        if base.len() != params.len() { continue; }
        let groups: &[&[&str]] = &[&["E", "N", "H", "L"], &["EN", "HL"], &["E", "NHL"], &["ENH", "L"], &["E", "N", "HL"], &["EN", "H", "L"],
            // unusual masks: empty, aux-only, gaps, out of order, overlapping
            &["", "E"], &["E", "", "N"], &["4567", "E"], &["E", "H"], &["N", "E"], &["EN", "NH"], &["-E", "E"], &["*", "E"], &["E4", "N5"],
            // masks that are not a contiguous run of difficulties, alone and followed / preceded by others
            &["EH", "L"], &["EH", "N", "L"], &["EL", "N", "H"], &["E", "NL", "H"], &["EH", "NL"], &["EHL", "N"], &["NL", "E", "H"], &["E", "N", "HL4"], &["EH"], &["ENL", "H"]];
        let g = *rng.pick(groups);
        let mut out = String::new();
        for (k, name) in g.iter().enumerate() {
            if k > 0 && rng.chance(1, 3) { out.push_str(&format!("+{}:\n", rng.pick(&[1, 10, 60]))); }
            let mut args = base.clone();
            args[vi] = if params[vi].ch == 'f' { float_text((k as f32 + 1.0) * 1.5) } else { format!("{}", 10 * (k + 1) + rng.below(3)) };
            if rng.chance(1, 8) { args[vi] = base[vi].clone(); }
            out.push_str(&format!("{pad}{{\"{name}\"}}: ins_{op}({});\n", args.join(", ")));
        }
        if let Some(c) = gen_call(rng, sigs, skip, &style) { out.push_str(&format!("{pad}{{\"*\"}}: {c}\n")); } else { continue; }
        return Some(out);
    }
    None
}

/// Script body: calls, time labels, loops (`loop`/`times` need jump intrinsics; only where `has_jumps`).
pub fn gen_body(rng: &mut Rng, sigs: &[(i32, String)], skip: &[i32], style: &ArgStyle, opts: &BodyOpts, has_jumps: bool, indent: usize) -> String {
    let pad = " ".repeat(indent);
    let mut out = String::new();
    let n = rng.below(opts.max_stmts + 1);
    for _ in 0..n {
        match rng.below(10) {
            0 | 1 if opts.time_labels => {
                if rng.chance(1, 2) { out.push_str(&format!("+{}:\n", rng.pick(&[1, 5, 10, 60, 100, 300]))); }
                else { out.push_str(&format!("{}:\n", rng.pick(&[0, 10, 30, 100, 1000, 5000]))); }
            },
            2 if has_jumps && opts.allow_blocks && opts.depth > 0 => {
                let inner = gen_body(rng, sigs, skip, style, &BodyOpts { depth: opts.depth - 1, allow_blocks: true, time_labels: opts.time_labels, max_stmts: 3 }, has_jumps, indent + 4);
                // a loop needs a time advance inside or it is an infinite loop at run time (irrelevant to compilation)
                out.push_str(&format!("{pad}loop {{\n{inner}{pad}}}\n"));
            },
            _ => if let Some(c) = gen_call(rng, sigs, skip, style) { out.push_str(&format!("{pad}{c}\n")); },
        }
    }
    out
}

fn has_intrinsic(game: Game, lang: LanguageKey) -> bool { !intrinsic_opcodes(game, lang).is_empty() }

// ---------------------------------------------------------------------------------------------

pub fn gen_msg(rng: &mut Rng, game: Game, end: bool) -> GenSource {
    let lang = if end { LanguageKey::End } else { LanguageKey::Msg };
    let sigs = signatures(game, lang);
    let skip = intrinsic_opcodes(game, lang);
    let style = ArgStyle { boundary: true, allow_strings: true };
    let nscripts = 1 + rng.below(4);
    let names: Vec<String> = (0..nscripts).map(|i| format!("script{}", i * 3)).collect();
    let mut text = String::from("meta {\n    table: {\n");
    // sparse table: every script referenced at least once
    let mut idx = 0u32;
    for (i, n) in names.iter().enumerate() {
        idx += rng.below(3) as u32 + if i == 0 { 0 } else { 1 };
        let flags = if game >= Game::Th09 && rng.chance(1, 3) { format!(", flags: {}", rng.pick(&[1u32, 256, 3])) } else { String::new() };
        text.push_str(&format!("        {idx}: {{script: \"{n}\"{flags}}},\n"));
    }
    if rng.chance(1, 2) { text.push_str(&format!("        default: {{script: \"{}\"}},\n", rng.pick(&names))); }
    text.push_str("    },\n");
    if rng.chance(1, 4) { text.push_str(&format!("    table_len: {},\n", idx + 1 + rng.below(3) as u32)); }
    text.push_str("}\n\n");
    for n in &names {
        let body = gen_body(rng, &sigs, &skip, &style, &BodyOpts { depth: 0, allow_blocks: false, time_labels: true, max_stmts: 6 }, false, 4);
        text.push_str(&format!("script {n} {{\n{body}}}\n\n"));
    }
    GenSource { format: if end { Format::End } else { Format::Msg }, game, text, maps: vec![] }
}

pub fn gen_std(rng: &mut Rng, game: Game) -> GenSource {
    let sigs = signatures(game, LanguageKey::Std);
    let skip = intrinsic_opcodes(game, LanguageKey::Std);
    let style = ArgStyle { boundary: true, allow_strings: false };
    let mut text = String::from("meta {\n    unknown: 0,\n");
    if game < Game::Th095 {
        text.push_str(&format!("    stage_name: \"{}\",\n    bgm: [\n", rng.pick(&["dm", "Stage 1", "\u{7d05}\u{9b54}\u{90f7}"])));
        for _ in 0..4 { text.push_str(&format!("        {{path: \"{}\", name: \"{}\"}},\n", rng.pick(&["bgm/th06_01.mid", " ", "bgm/a.wav"]), rng.pick(&["dm", " ", "BGM name"]))); }
        text.push_str("    ],\n");
    } else {
        text.push_str(&format!("    anm_path: \"{}\",\n", rng.pick(&["stage01.anm", "data/stg1bg.anm"])));
    }
    let nobj = rng.below(4);
    text.push_str("    objects: {\n");
    for i in 0..nobj {
        text.push_str(&format!("        obj{i}: {{\n            layer: {},\n            pos: [{}, {}, {}],\n            size: [{}, {}, {}],\n            quads: [\n",
            rng.below(5), float_text(rng.range(-100, 100) as f32), float_text(rng.range(-100, 100) as f32), float_text(rng.range(-100, 100) as f32),
            float_text(rng.range(0, 500) as f32), float_text(rng.range(0, 500) as f32), float_text(rng.range(0, 500) as f32)));
        for _ in 0..rng.below(4) {
            if game >= Game::Th08 && game < Game::Th095 && rng.chance(1, 3) {
                text.push_str(&format!("                strip {{anm_script: {}, start: [{}, {}, {}], end: [{}, {}, {}], width: {}}},\n", rng.below(4),
                    float_text(rng.range(-50, 50) as f32), float_text(rng.range(-50, 50) as f32), float_text(0.0), float_text(rng.range(-50, 50) as f32), float_text(10.0), float_text(5.0), float_text(rng.range(1, 64) as f32)));
            } else {
                text.push_str(&format!("                rect {{anm_script: {}, pos: [{}, {}, {}], size: [{}, {}]}},\n", rng.below(4),
                    float_text(rng.range(-50, 50) as f32), float_text(rng.range(-50, 50) as f32), float_text(0.0), float_text(rng.range(1, 256) as f32), float_text(rng.range(1, 256) as f32)));
            }
        }
        text.push_str("            ],\n        },\n");
    }
    text.push_str("    },\n    instances: [\n");
    if nobj > 0 {
        for _ in 0..rng.below(5) {
            text.push_str(&format!("        obj{} {{pos: [{}, {}, {}]}},\n", rng.below(nobj), float_text(rng.range(-500, 500) as f32), float_text(rng.range(0, 9000) as f32), float_text(0.0)));
        }
    }
    text.push_str("    ],\n}\n\n");
    let has_jumps = has_intrinsic(game, LanguageKey::Std);
    let body = gen_body(rng, &sigs, &skip, &style, &BodyOpts { depth: 2, allow_blocks: true, time_labels: true, max_stmts: 8 }, has_jumps, 4);
    text.push_str(&format!("script main {{\n{body}}}\n"));
    GenSource { format: Format::Std, game, text, maps: vec![] }
}

/// `next_id`: the id the next sprite without explicit id gets (ids continue across entries); explicit ids
/// are chosen above it so that ids stay unique (duplicates are exercised separately by C20).
pub fn anm_entry_text(rng: &mut Rng, game: Game, index: usize, nsprites: usize, first_sprite_name: usize, explicit_ids: bool, next_id: &mut u32) -> String {
    let mut t = String::from("entry {\n");
    t.push_str(&format!("    path: \"subdir/file{index}.png\",\n    has_data: false,\n"));
    let w = *rng.pick(&[16u32, 64, 128, 512]);
    let h = *rng.pick(&[16u32, 32, 256, 512]);
    t.push_str(&format!("    img_width: {w},\n    img_height: {h},\n    img_format: {},\n", rng.pick(&[1, 3, 5, 7])));
    // fields exist only in one of the two entry header layouts (old: up to TH10/alcostg; new: TH11+)
    let new_header = game >= Game::Th11;
    if new_header && rng.chance(1, 3) { t.push_str(&format!("    offset_x: {},\n    offset_y: {},\n", rng.below(4), rng.below(4))); }
    if !new_header && rng.chance(1, 3) { t.push_str(&format!("    colorkey: {:#x},\n", rng.next_u32())); }
    if rng.chance(1, 4) { t.push_str(&format!("    memory_priority: {},\n", rng.below(20))); }
    if new_header && rng.chance(1, 4) { t.push_str(&format!("    low_res_scale: {},\n", rng.pick(&["true", "false"]))); }
    t.push_str("    sprites: {\n");
    for s in 0..nsprites {
        let id = if explicit_ids && rng.chance(1, 3) { *next_id += rng.below(5) as u32; format!("id: {}, ", *next_id) } else { String::new() };
        *next_id += 1;
        t.push_str(&format!("        sprite{}: {{{}x: {}, y: {}, w: {}, h: {}}},\n", first_sprite_name + s, id,
            float_text(rng.below(64) as f32), float_text(rng.below(64) as f32), float_text(1.0 + rng.below(64) as f32), float_text(1.0 + rng.below(64) as f32)));
    }
    t.push_str("    },\n}\n\n");
    t
}

pub fn gen_anm(rng: &mut Rng, game: Game) -> GenSource {
    let sigs = signatures(game, LanguageKey::Anm);
    let skip = intrinsic_opcodes(game, LanguageKey::Anm);
    let style = ArgStyle { boundary: true, allow_strings: false };
    let has_jumps = has_intrinsic(game, LanguageKey::Anm);
    let mut text = String::new();
    // EoSD ANM files have exactly one entry; with several, the reader cannot find the end of an
    // entry's last script (its end marker is ambiguous).  Exercised separately as a known-finding stream.
    let nentries = if game == Game::Th06 { 1 } else { 1 + rng.below(3) };
    let mut sprite_name = 0;
    let mut script_no = 0;
    let mut next_id = 0u32;
    for e in 0..nentries {
        let ns = rng.below(4);
        text.push_str(&anm_entry_text(rng, game, e, ns, sprite_name, true, &mut next_id));
        sprite_name += ns;
        for _ in 0..rng.below(3) {
            let mut body = gen_body(rng, &sigs, &skip, &style, &BodyOpts { depth: 2, allow_blocks: true, time_labels: true, max_stmts: 7 }, has_jumps, 4);
            // EoSD ANM: the end-of-script marker is indistinguishable from `ins_0()` at time 0, so an
            // empty script cannot be delimited by the reader (exercised separately, see C03/C16 streams)
            if game == Game::Th06 && !body.contains("ins_") { body = "    ins_1(0);\n".into(); }
            text.push_str(&format!("script script{script_no} {{\n{body}}}\n\n"));
            script_no += 1;
        }
    }
    GenSource { format: Format::Anm, game, text, maps: vec![] }
}

/// Scripts that spell INTRINSIC instructions (assignments, operators, unary functions - not jumps) as raw
/// `ins_N(..)` calls with arbitrary operands: immediates where the game would use a register, registers of
/// either type, literal / literal operand pairs.  The compiler writes them as they stand; the decompiler
/// has to turn them into sugar only where recompiling the sugar gives the same instruction back.
pub fn gen_raw_intrinsics(rng: &mut Rng) -> GenSource {
    let anm = rng.chance(1, 2);
    let (game, lang) = if anm { (*rng.pick(GAMES_ANM), LanguageKey::Anm) } else { (*rng.pick(GAMES_ECL), LanguageKey::Ecl) };
    let sigs = signatures(game, lang);
    let intr = intrinsic_opcodes(game, lang);
    let style = ArgStyle { boundary: true, allow_strings: false };
    let (ints, floats): (Vec<i32>, Vec<i32>) = if !anm && game == Game::Th06 { ((1..=4).map(|k| -10000 - k).collect(), (5..=8).map(|k| -10000 - k).collect()) }
        else { ((0..4).map(|k| 10000 + k).collect(), (4..8).map(|k| 10000 + k).collect()) };
    // two files out of three are "clean": every register-capable operand is a register (no operand set the compiler
    // could fold), so that the known folding finding does not taint the whole stream
    let clean = !rng.chance(1, 3);
    let mut body = String::new();
    for _ in 0..2 + rng.below(6) {
        if rng.chance(1, 3) { if let Some(c) = gen_call(rng, &sigs, &intr, &style) { body.push_str(&format!("    {c}\n")); } continue; }
        if rng.chance(1, 6) { body.push_str(&format!("+{}:\n", rng.pick(&[1, 10, 60]))); }
        let cands: Vec<&(i32, String)> = sigs.iter().filter(|(op, sig)| intr.contains(op) && !parse_sig(sig).iter().any(|p| matches!(p.ch, 'o' | 't' | 'z' | 'm' | 'p'))).collect();
        if cands.is_empty() { continue; }
        let (op, sig) = *rng.pick(&cands);
        let mut args = vec![];
        for p in parse_sig(sig).iter() {
            match p.ch {
                '_' | '-' => {},
                'S' | 's' | 'U' | 'u' | 'b' | 'c' | 'n' | 'N' | 'E' if !p.attrs.contains("imm") && p.ch == 'S' && (clean || rng.chance(1, 2)) =>
                    { let pool = if rng.chance(1, 6) { &floats } else { &ints }; let r = *rng.pick(pool); args.push(format!("{}REG[{r}]", if rng.chance(1, 5) { "%" } else { "$" })) },
                'f' if !p.attrs.contains("imm") && (clean || rng.chance(1, 2)) =>
                    { let pool = if rng.chance(1, 6) { &ints } else { &floats }; let r = *rng.pick(pool); args.push(format!("{}REG[{r}]", if rng.chance(1, 5) { "$" } else { "%" })) },
                _ => match gen_arg(rng, p, &style) { Ok(Some(a)) => args.push(a), _ => {} },
            }
        }
        body.push_str(&format!("    ins_{op}({});\n", args.join(", ")));
    }
    let text = if anm {
        let mut next_id = 0u32;
        format!("{}script script0 {{\n{body}}}\n", anm_entry_text(rng, game, 0, 1, 0, true, &mut next_id))
    } else {
        format!("script timeline0 {{\n}}\n\nvoid sub0() {{\n{body}}}\n")
    };
    GenSource { format: if anm { Format::Anm } else { Format::Ecl }, game, text, maps: if anm { vec![] } else { vec![ECL_DIFFICULTY_MAP.to_string()] } }
}

/// Stack ECL (TH10+): include lists with ASCII and non-ASCII names of every length class, a few subs of raw
/// `@blob` instructions (the harness has no signature knowledge for these games beyond the core mapfile)
pub fn gen_ecl10(rng: &mut Rng, game: Game) -> GenSource {
    let names = ["default.ecl", "a.anm", "enemy.anm", "st01.ecl", "\u{3042}.anm", "\u{6575}\u{5f3e}.ecl", "\u{ff71}\u{ff72}.anm", "x", "abcdefghijklmnopqrstuvwxyz0123456789.anm", "\u{535a}\u{9e97}\u{970a}\u{5922}_long_name.ecl"];
    let list = |rng: &mut Rng| -> String { let n = rng.below(4); (0..n).map(|_| format!("\"{}\"", rng.pick(&names))).collect::<Vec<_>>().join(", ") };
    let mut text = String::new();
    if rng.chance(4, 5) { text.push_str(&format!("meta {{ anim: [{}], ecli: [{}] }}\n", list(rng), list(rng))); }
    let nsubs = 1 + rng.below(3);
    for i in 0..nsubs {
        let mut body = String::new();
        for _ in 0..rng.below(4) {
            if rng.chance(1, 4) { body.push_str(&format!("+{}:\n", rng.pick(&[1, 10, 60]))); }
            let len = 4 * rng.below(4);
            let blob: String = (0..len).map(|k| format!("{:02x}", (k * 13 + i * 7 + 1) % 256)).collect();
            body.push_str(&format!("    ins_{}(@blob=\"{blob}\");\n", rng.pick(&[0, 1, 10, 23, 40, 300, 1000])));
        }
        text.push_str(&format!("void {}() {{\n{body}}}\n", if i == 0 { "main".to_string() } else { format!("sub{i}") }));
    }
    GenSource { format: Format::Ecl, game, text, maps: vec![] }
}

/// Names for the include lists of stack ECL files: every encoded byte length mod 4, and characters whose Shift-JIS and
/// UTF-8 lengths differ (hiragana / kanji: 2 vs 3 bytes, half-width katakana: 1 vs 3 bytes), so that the total difference
/// of a string takes every value mod 4.
pub const ECL10_NAMES: &[&str] = &["", "x", "ab", "abc", "abcd", "abcde", "default.ecl", "a.anm", "enemy.anm", "st01.ecl", "\u{3042}", "\u{3042}.anm", "\u{3042}\u{3044}",
    "\u{6575}\u{5f3e}.ecl", "\u{ff71}", "\u{ff71}\u{ff72}", "\u{ff71}\u{ff72}.anm", "\u{3042}\u{ff71}", "\u{ff71}\u{ff72}\u{ff73}", "\u{3042}\u{3044}\u{3046}\u{ff71}", "abcdefghijklmnopqrstuvwxyz0123456789.anm",
    "\u{535a}\u{9e97}\u{970a}\u{5922}_long_name.ecl", "st07\u{30dc}\u{30b9}.ecl", "\u{ff8a}\u{ff9f}\u{ff7d}/\u{ff71}.anm"];

/// Stack ECL (TH10+), wider than `gen_ecl10`: longer include lists over `ECL10_NAMES`, up to 6 subs, raw instructions
/// with `@mask` / `@pop` / `@nargs`, difficulty labels and time labels (used by the model-compared container cases).
pub fn gen_ecl10_wide(rng: &mut Rng, game: Game) -> GenSource {
    let list = |rng: &mut Rng| -> String { let n = *rng.pick(&[0usize, 0, 1, 1, 2, 3, 4, 7, 12]); (0..n).map(|_| format!("\"{}\"", rng.pick(ECL10_NAMES))).collect::<Vec<_>>().join(", ") };
    let mut text = String::new();
    match rng.below(6) {
        0 => {},
        1 => text.push_str(&format!("meta {{ anim: [{}] }}\n", list(rng))),
        2 => text.push_str(&format!("meta {{ ecli: [{}] }}\n", list(rng))),
        _ => text.push_str(&format!("meta {{ anim: [{}], ecli: [{}] }}\n", list(rng), list(rng))),
    }
    let nsubs = *rng.pick(&[1usize, 1, 2, 2, 3, 4, 6]);
    let sub_names = ["main", "sub1", "a", "BossCard1", "MainSub02", "x_y_z"];
    for i in 0..nsubs {
        let mut body = String::new();
        for _ in 0..*rng.pick(&[0usize, 0, 1, 2, 3, 5, 9]) {
            if rng.chance(1, 4) { body.push_str(&format!("+{}:\n", rng.pick(&[1, 10, 60, 100000]))); }
            if rng.chance(1, 5) { body.push_str(&format!("{{\"{}\"}}:\n", rng.pick(&["0", "01", "23", "0123", "7", "*"]))); }
            let len = 4 * *rng.pick(&[0usize, 0, 1, 1, 2, 3, 5, 16]);
            let blob: String = (0..len).map(|k| format!("{:02x}", (k * 13 + i * 7 + 1) % 256)).collect();
            let mut pseudo = String::new();
            if rng.chance(1, 3) { pseudo.push_str(&format!("@mask={}, ", rng.pick(&[0u32, 1, 3, 255, 256, 65535]))); }
            if rng.chance(1, 3) { pseudo.push_str(&format!("@pop={}, ", rng.pick(&[0u32, 1, 2, 8, 255]))); }
            if rng.chance(1, 3) { pseudo.push_str(&format!("@nargs={}, ", rng.pick(&[0u32, 1, 2, 5, 255]))); }
            body.push_str(&format!("    ins_{}({pseudo}@blob=\"{blob}\");\n", rng.pick(&[0, 1, 10, 23, 40, 300, 1000, 65534, 65535])));
        }
        text.push_str(&format!("void {}() {{\n{body}}}\n", sub_names[i]));
    }
    GenSource { format: Format::Ecl, game, text, maps: vec![] }
}

/// the `!difficulty_flags` section of the repository's own map/th06.eclm
pub const ECL_DIFFICULTY_MAP: &str = "!eclmap\n!difficulty_flags\n0 E-\n1 N-\n2 H-\n3 L-\n4 4-\n5 5-\n6 6-\n7 7-\n";

pub fn gen_ecl(rng: &mut Rng, game: Game) -> GenSource {
    let sigs = signatures(game, LanguageKey::Ecl);
    let skip = intrinsic_opcodes(game, LanguageKey::Ecl);
    let tsigs = signatures(game, LanguageKey::Timeline);
    let tskip = intrinsic_opcodes(game, LanguageKey::Timeline);
    let style = ArgStyle { boundary: true, allow_strings: true };
    let mut text = String::new();
    let ntl = if game == Game::Th06 { 1 } else { 1 + rng.below(3) };
    for i in 0..ntl {
        let body = gen_body(rng, &tsigs, &tskip, &style, &BodyOpts { depth: 0, allow_blocks: false, time_labels: true, max_stmts: 5 }, false, 4);
        text.push_str(&format!("script timeline{i} {{\n{body}}}\n\n"));
    }
    for i in 0..1 + rng.below(3) {
        let mut body = String::new();
        if rng.chance(1, 2) {
            if let Some(c) = gen_call(rng, &sigs, &skip, &style) {
                body.push_str(&format!("    {}:\n    {c}\n", rng.pick(&["{\"EN\"}", "{\"HL\"}", "{\"*\"}", "{\"E\"}", "{\"NHL\"}"])));
                if rng.chance(1, 2) { body.push_str("    {\"*\"}:\n"); if let Some(c) = gen_call(rng, &sigs, &skip, &style) { body.push_str(&format!("    {c}\n")); } else { body.push_str("    ins_0();\n"); } }
            }
        }
        body.push_str(&gen_body(rng, &sigs, &skip, &style, &BodyOpts { depth: 2, allow_blocks: true, time_labels: true, max_stmts: 7 }, true, 4));
        for _ in 0..rng.below(3) {
            if let Some(l) = gen_diff_ladder(rng, &sigs, &skip, 4) { body.push_str(&l); }
            if rng.chance(1, 2) { body.push_str(&format!("+{}:\n", rng.pick(&[1, 5, 30]))); }
            if let Some(c) = gen_call(rng, &sigs, &skip, &style) { body.push_str(&format!("    {c}\n")); }
        }
        text.push_str(&format!("void sub{i}() {{\n{body}}}\n\n"));
    }
    GenSource { format: Format::Ecl, game, text, maps: vec![ECL_DIFFICULTY_MAP.to_string()] }
}

/// EoSD ANM with several entries and possibly empty scripts: written files may not read back
/// (end-of-script marker ambiguity of the v0 format).  Known finding, kept under its own signature.
pub fn gen_anm_v0_multi_entry(rng: &mut Rng) -> GenSource {
    let game = Game::Th06;
    let sigs = signatures(game, LanguageKey::Anm);
    let skip = intrinsic_opcodes(game, LanguageKey::Anm);
    let style = ArgStyle { boundary: false, allow_strings: false };
    let mut text = String::new();
    let mut next_id = 0u32;
    let mut script_no = 0;
    for e in 0..2 + rng.below(2) {
        text.push_str(&anm_entry_text(rng, game, e, 1, e, false, &mut next_id));
        for _ in 0..1 + rng.below(2) {
            let body = gen_body(rng, &sigs, &skip, &style, &BodyOpts { depth: 0, allow_blocks: false, time_labels: false, max_stmts: 2 }, false, 4);
            text.push_str(&format!("script script{script_no} {{\n{body}}}\n\n"));
            script_no += 1;
        }
    }
    GenSource { format: Format::Anm, game, text, maps: vec![] }
}

/// A file skeleton with exactly one generated call (arguments at and beyond the declared widths):
/// returns (source without the call, text before the call, text after it, opcode, argument texts).
pub fn gen_single_call(rng: &mut Rng) -> Option<(GenSource, String, String, i32, Vec<String>)> {
    let (format, game, lang, head, tail): (Format, Game, LanguageKey, String, String) = match rng.below(6) {
        0 => { let g = *rng.pick(GAMES_MSG); (Format::Msg, g, LanguageKey::Msg, "meta { table: {0: {script: \"script0\"}} }\nscript script0 {\n".into(), "}\n".into()) },
        1 => { let g = *rng.pick(GAMES_STD);
               let meta = if g < Game::Th095 { "meta { unknown: 0, stage_name: \"dm\", bgm: [{path: \" \", name: \" \"}, {path: \" \", name: \" \"}, {path: \" \", name: \" \"}, {path: \" \", name: \" \"}], objects: {}, instances: [] }\n" } else { "meta { unknown: 0, anm_path: \"a.anm\", objects: {}, instances: [] }\n" };
               (Format::Std, g, LanguageKey::Std, format!("{meta}script main {{\n"), "}\n".into()) },
        2 | 3 => { let g = *rng.pick(GAMES_ANM); (Format::Anm, g, LanguageKey::Anm, "entry { path: \"a.png\", has_data: false, img_width: 16, img_height: 16, img_format: 3, sprites: {s0: {x: 0.0, y: 0.0, w: 1.0, h: 1.0}, s1: {x: 0.0, y: 0.0, w: 1.0, h: 1.0}, s2: {x: 0.0, y: 0.0, w: 1.0, h: 1.0}} }\nscript script0 {\n".into(), "}\nscript script1 { }\nscript script2 { }\n".into()) },
        4 => { let g = *rng.pick(GAMES_ECL); (Format::Ecl, g, LanguageKey::Ecl, "script timeline0 { }\nvoid sub0() {\n".into(), "}\nvoid sub1() { }\nvoid sub2() { }\n".into()) },
        _ => { let g = *rng.pick(GAMES_ECL); (Format::Ecl, g, LanguageKey::Timeline, "script timeline0 {\n".into(), "}\nvoid sub0() { }\nvoid sub1() { }\nvoid sub2() { }\n".into()) },
    };
    let sigs = signatures(game, lang);
    let skip = intrinsic_opcodes(game, lang);
    if sigs.is_empty() { return None; }
    for _ in 0..30 {
        let (op, sig) = rng.pick(&sigs);
        if skip.contains(op) || *op < 0 { continue; }
        let params: Vec<SigParam> = parse_sig(sig).into_iter().filter(|p| !matches!(p.ch, '_' | '-')).collect();
        if params.iter().any(|p| matches!(p.ch, 'o' | 't')) || params.is_empty() { continue; }
        let mut args = vec![];
        for p in &params {
            let wide: &[i64] = &[0, 1, -1, 127, 128, 255, 256, -128, -129, 32767, 32768, 40000, 65535, 65536, -32768, -32769, 70000, 2147483647, -2147483648, 4294967295];
            let a = match p.ch {
                's' | 'u' | 'b' | 'c' if !p.attrs.contains("enum") && rng.chance(2, 3) => format!("{}", rng.pick(wide)),
                'S' | 'U' if !p.attrs.contains("enum") && rng.chance(1, 2) => format!("{}", rng.pick(wide)),
                _ => match gen_arg(rng, p, &ArgStyle { boundary: true, allow_strings: true }) { Ok(Some(a)) => a, _ => { args.clear(); break; } },
            };
            args.push(a);
        }
        if args.len() != params.len() { continue; }
        let maps = if format == Format::Ecl { vec![ECL_DIFFICULTY_MAP.to_string()] } else { vec![] };
        return Some((GenSource { format, game, text: String::new(), maps }, head, tail, *op, args));
    }
    None
}

/// Systematic sweep: one call (boundary arguments) for every instruction of every built-in
/// signature table; `keep` is the fraction (num, den) kept of instructions without narrow parameters.
pub fn all_single_calls(rng: &mut Rng, keep: (u32, u32), reps_narrow: usize) -> Vec<(GenSource, String, String, i32, Vec<String>)> {
    let mut out = vec![];
    let mut tables: Vec<(Format, Game, LanguageKey)> = vec![];
    for &g in GAMES_MSG { tables.push((Format::Msg, g, LanguageKey::Msg)); }
    for &g in GAMES_END { tables.push((Format::End, g, LanguageKey::End)); }
    for &g in GAMES_STD { tables.push((Format::Std, g, LanguageKey::Std)); }
    for &g in GAMES_ANM { tables.push((Format::Anm, g, LanguageKey::Anm)); }
    for &g in GAMES_ECL { tables.push((Format::Ecl, g, LanguageKey::Ecl)); tables.push((Format::Ecl, g, LanguageKey::Timeline)); }
    for (format, game, lang) in tables {
        let (head, tail): (String, String) = match (format, lang) {
            (Format::Msg, _) | (Format::End, _) => ("meta { table: {0: {script: \"script0\"}} }\nscript script0 {\n".into(), "}\n".into()),
            (Format::Std, _) => {
                let meta = if game < Game::Th095 { "meta { unknown: 0, stage_name: \"dm\", bgm: [{path: \" \", name: \" \"}, {path: \" \", name: \" \"}, {path: \" \", name: \" \"}, {path: \" \", name: \" \"}], objects: {}, instances: [] }\n" } else { "meta { unknown: 0, anm_path: \"a.anm\", objects: {}, instances: [] }\n" };
                (format!("{meta}script main {{\n"), "}\n".into())
            },
            (Format::Anm, _) => ("entry { path: \"a.png\", has_data: false, img_width: 16, img_height: 16, img_format: 3, sprites: {s0: {x: 0.0, y: 0.0, w: 1.0, h: 1.0}, s1: {x: 0.0, y: 0.0, w: 1.0, h: 1.0}, s2: {x: 0.0, y: 0.0, w: 1.0, h: 1.0}} }\nscript script0 {\n".into(), "}\nscript script1 { }\nscript script2 { }\n".into()),
            (_, LanguageKey::Timeline) => ("script timeline0 {\n".into(), "}\nvoid sub0() { }\nvoid sub1() { }\nvoid sub2() { }\n".into()),
            _ => ("script timeline0 { }\nvoid sub0() {\n".into(), "}\nvoid sub1() { }\nvoid sub2() { }\n".into()),
        };
        let sigs = signatures(game, lang);
        let skip = intrinsic_opcodes(game, lang);
        for (op, sig) in &sigs {
            if skip.contains(op) || *op < 0 { continue; }
            let params: Vec<SigParam> = parse_sig(sig).into_iter().filter(|p| !matches!(p.ch, '_' | '-')).collect();
            if params.is_empty() || params.iter().any(|p| matches!(p.ch, 'o' | 't')) { continue; }
            let narrow = params.iter().any(|p| matches!(p.ch, 's' | 'u' | 'b' | 'c'));
            let wide: &[i64] = &[0, 1, -1, 127, 128, 255, 256, -128, -129, 32767, 32768, 40000, 65535, 65536, -32768, -32769, 70000, 2147483647, -2147483648, 4294967295];
            // instructions with byte/word parameters: every boundary value in turn (x reps_narrow)
            let reps = if narrow { wide.len() * reps_narrow } else if rng.chance(keep.0, keep.1) { 1 } else { 0 };
            for rep in 0..reps {
                let mut args = vec![];
                for p in &params {
                    let a = match p.ch {
                        's' | 'u' | 'b' | 'c' if !p.attrs.contains("enum") => format!("{}", wide[rep % wide.len()]),
                        'S' | 'U' if !p.attrs.contains("enum") && rng.chance(1, 2) => format!("{}", rng.pick(wide)),
                        _ => match gen_arg(rng, p, &ArgStyle { boundary: true, allow_strings: true }) { Ok(Some(a)) => a, _ => { args.clear(); break; } },
                    };
                    args.push(a);
                }
                if args.len() != params.len() { continue; }
                let maps = if format == Format::Ecl { vec![ECL_DIFFICULTY_MAP.to_string()] } else { vec![] };
                out.push((GenSource { format, game, text: String::new(), maps }, head.clone(), tail.clone(), *op, args));
            }
        }
    }
    out
}

/// mission.msg / titlemsg (th095: 3 text lines per entry, th125: 6): entries with ids at and around the
/// field widths and text lines that are empty, white space only (ASCII and U+3000), or end in white space
pub fn gen_mission(rng: &mut Rng, game: Game) -> GenSource {
    let lines = if game == Game::Th095 { 3 } else { 6 };
    let mut text = String::new();
    if rng.chance(1, 4) { text.push_str("const int STAGE = 2 + 1;\n"); }
    for _ in 0..1 + rng.below(4) {
        let n = rng.below(lines + 1);
        let ls: Vec<String> = (0..n).map(|_| format!("\"{}\"", match rng.below(8) {
            0 => String::new(), 1 => " ".to_string(), 2 => "\u{3000}".to_string(), 3 => "text ".to_string(), 4 => "  x".to_string(),
            5 => "あいう\u{3000}".to_string(), _ => format!("line{}", rng.below(100)) })).collect();
        // (a `text` array shorter than the entry's number of lines is an error today; full arrays most of the time)
        let ls = if rng.chance(1, 6) { ls } else { let mut l = ls; while l.len() < lines { l.push(format!("\"{}\"", if rng.chance(1, 3) { " " } else { "" })); } l };
        let stage = *rng.pick(&[0u32, 1, 2, 12, 255, 256, 65535]);
        let scene = *rng.pick(&[0u32, 1, 9, 255, 65535]);
        if game == Game::Th095 {
            text.push_str(&format!("entry {{ stage: {stage}, scene: {scene}, face: {}, point: {}, text: [{}] }}\n", rng.below(5), rng.pick(&[0u32, 1, 1000, 0x7fffffff]), ls.join(", ")));
        } else {
            text.push_str(&format!("entry {{ stage: {stage}, scene: {scene}, player: {}, unknown_1: {}, unknown_2: {}, point_1: {}, point_2: {}, furigana: [[0, 0], [{}, {}], [3, 4]], text: [{}] }}\n",
                rng.pick(&[0u32, 1, 65535]), rng.pick(&[0u32, 1, 255]), rng.pick(&[0u32, 7, 255]), rng.below(1000), rng.below(1000), rng.below(50), rng.below(50), ls.join(", ")));
        }
    }
    GenSource { format: Format::Mission, game, text, maps: vec![] }
}

pub fn gen_any(rng: &mut Rng) -> GenSource {
    if rng.chance(1, 14) { let g = if rng.chance(1, 2) { Game::Th095 } else { Game::Th125 }; return gen_mission(rng, g); }
    match rng.below(10) {
        0 | 1 => { let g = *rng.pick(GAMES_MSG); gen_msg(rng, g, false) },
        2 => { let g = *rng.pick(GAMES_END); gen_msg(rng, g, true) },
        3 | 4 => { let g = *rng.pick(GAMES_STD); gen_std(rng, g) },
        5 | 6 | 7 => { let g = *rng.pick(GAMES_ANM); gen_anm(rng, g) },
        _ => { let g = *rng.pick(GAMES_ECL); gen_ecl(rng, g) },
    }
}
