//! C17 — extracting images and compiling them back reproduces the embedded textures.
//!
//! Correspondence (compared with `lean/TruthModel/Model/Pixels.lean` through `Driver/C17.lean`):
//!   sweep     exhaustive 16-bit / 8-bit pixel values through the real transcoders, both directions
//!   to8888 / from8888   buffers of boundary and random pixels through the real transcoders
//!   pad       ANM with one texture -> real `extract` -> PNG decoded by the harness' own decoder
//!   crop      PNG written by the harness' own encoder -> real compile with the directory as source
//!   sources   up to three image sources (ANM files / directories) with overlapping and duplicate paths
//! Search (property oracle on the implementation only):
//!   roundtrip ANM with random textures -> decompile + extract -> compile from the directory and
//!             from the ANM file itself -> THTX sections compared with an independent layout parser
//!   malformed THTX sections whose size disagrees with width*height*bpp (must not crash)
//!   ext       entry paths with other image extensions (must be rejected or reproduced exactly)
//!
//! Trusted here: the `image` crate's PNG codec and BGRA conversion inside truth; the PNG codec
//! below (independent of it, stored-deflate encoder + full inflate decoder); the ANM builder and
//! layout parser below (written from the format description, sharing no code with truth).

use super::{Case, Prop, Tier, Failure, fail, default_judge};
use crate::rng::Rng;
use crate::sexp::{Sexp, hex, unhex};
use crate::tc;
use std::path::{Path, PathBuf};
use std::rc::Rc;
use truth::ast;
use truth::verif_hooks::color::ColorFormat;

pub struct C17;

const FORMATS: &[(&str, u32, usize)] = &[("argb8888", 1, 4), ("rgb565", 3, 2), ("argb4444", 5, 2), ("gray8", 7, 1)];
const DECODE_SITE: &str = "src/image/color.rs decode: assert_eq!(bytes.len() % BYTES_PER_PIXEL, 0)";

fn fmt_by_name(s: &str) -> (&'static str, u32, usize) { *FORMATS.iter().find(|f| f.0 == s).unwrap_or_else(|| panic!("format {s}")) }
fn fmt_by_num(n: u32) -> Option<(&'static str, u32, usize)> { FORMATS.iter().find(|f| f.1 == n).copied() }
fn cformat(num: u32) -> ColorFormat { ColorFormat::from_format_num(num).expect("known format") }

/// short buffers verbatim, long ones as length + FNV-1a 64 (same function in Driver/C17.lean)
fn digest(bytes: &[u8]) -> Sexp {
    if bytes.len() <= 48 { return Sexp::atom(hex(bytes)); }
    let mut h: u64 = 0xcbf29ce484222325;
    for &b in bytes { h ^= b as u64; h = h.wrapping_mul(0x100000001b3); }
    Sexp::atom(format!("h{}-{:016x}", bytes.len(), h))
}

// ---------------------------------------------------------------------------------------------
// ANM builder and layout parser (independent of truth::formats)

#[derive(Clone, Debug)]
struct Tex { format: u32, w: u32, h: u32, data: Vec<u8> }

#[derive(Clone, Debug)]
struct EntrySpec { path: String, tex: Option<Tex>, ox: u32, oy: u32, rt_w: u32, rt_h: u32, sprite: bool }

fn old_header(game: &str) -> bool { matches!(game, "th06" | "th07" | "th08" | "th09" | "th095" | "th10" | "alcostg") }
fn version_num(game: &str) -> u32 {
    match game { "th06" => 0, "th07" => 2, "th08" | "th09" => 3, "th095" | "th10" | "alcostg" => 4, "th11" | "th12" | "th125" | "th128" => 7, _ => 8 }
}

fn p16(v: &mut Vec<u8>, x: u32) { v.extend_from_slice(&(x as u16).to_le_bytes()); }
fn p32(v: &mut Vec<u8>, x: u32) { v.extend_from_slice(&x.to_le_bytes()); }

fn build_anm(game: &str, entries: &[EntrySpec]) -> Vec<u8> {
    let old = old_header(game);
    let mut out = vec![];
    let mut next_sprite_id = 0u32;
    for (idx, e) in entries.iter().enumerate() {
        let n_sprites = e.sprite as u32;
        let mut body = vec![];          // everything after the 64-byte header
        let sprite_offsets_pos = body.len();
        for _ in 0..n_sprites { p32(&mut body, 0); }
        let name_offset = 64 + body.len() as u32;
        let mut name = e.path.as_bytes().to_vec();
        let min = name.len() + 1;
        name.resize(if min % 16 == 0 { min } else { min + 16 - min % 16 }, 0);
        body.extend_from_slice(&name);
        if e.sprite {
            let off = 64 + body.len() as u32;
            body[sprite_offsets_pos..sprite_offsets_pos + 4].copy_from_slice(&off.to_le_bytes());
            p32(&mut body, next_sprite_id); next_sprite_id += 1;
            for f in [0.0f32, 0.0, e.tex.as_ref().map(|t| t.w).unwrap_or(1) as f32, e.tex.as_ref().map(|t| t.h).unwrap_or(1) as f32] { body.extend_from_slice(&f.to_le_bytes()); }
        }
        let mut thtx_offset = 0u32;
        if let Some(t) = &e.tex {
            thtx_offset = 64 + body.len() as u32;
            body.extend_from_slice(b"THTX");
            p16(&mut body, 0); p16(&mut body, t.format); p16(&mut body, t.w); p16(&mut body, t.h);
            p32(&mut body, t.data.len() as u32);
            body.extend_from_slice(&t.data);
        }
        let next_offset = if idx + 1 < entries.len() { 64 + body.len() as u32 } else { 0 };
        let has_data = e.tex.is_some() as u32;
        let mut h = vec![];
        if old {
            p32(&mut h, n_sprites); p32(&mut h, 0); p32(&mut h, 0);
            p32(&mut h, e.rt_w); p32(&mut h, e.rt_h); p32(&mut h, e.tex.as_ref().map(|t| t.format).unwrap_or(1));
            p32(&mut h, 0); p32(&mut h, name_offset); p32(&mut h, 0); p32(&mut h, 0);
            p32(&mut h, version_num(game)); p32(&mut h, if version_num(game) == 0 { 0 } else { 10 });
            p32(&mut h, thtx_offset); p16(&mut h, has_data); p16(&mut h, 0); p32(&mut h, next_offset); p32(&mut h, 0);
        } else {
            p32(&mut h, version_num(game)); p16(&mut h, n_sprites); p16(&mut h, 0); p16(&mut h, 0);
            p16(&mut h, e.rt_w); p16(&mut h, e.rt_h); p16(&mut h, e.tex.as_ref().map(|t| t.format).unwrap_or(1));
            p32(&mut h, name_offset); p16(&mut h, e.ox); p16(&mut h, e.oy); p32(&mut h, 10);
            p32(&mut h, thtx_offset); p16(&mut h, has_data); p16(&mut h, 0); p32(&mut h, next_offset);
            for _ in 0..6 { p32(&mut h, 0); }
        }
        assert_eq!(h.len(), 64);
        out.extend_from_slice(&h);
        out.extend_from_slice(&body);
    }
    out
}

fn r16(b: &[u8], at: usize) -> Result<u32, String> { b.get(at..at + 2).map(|s| u16::from_le_bytes([s[0], s[1]]) as u32).ok_or_else(|| format!("truncated at {at}")) }
fn r32(b: &[u8], at: usize) -> Result<u32, String> { b.get(at..at + 4).map(|s| u32::from_le_bytes([s[0], s[1], s[2], s[3]])).ok_or_else(|| format!("truncated at {at}")) }

/// `(path, THTX section)` of every entry, following the `next_offset` chain
fn parse_textures(bytes: &[u8], game: &str) -> Result<Vec<(String, Option<Tex>)>, String> {
    let old = old_header(game);
    let mut out = vec![];
    let mut pos = 0usize;
    for _ in 0..10_000 {
        let (name_off, thtx_off, next_off) = if old { (r32(bytes, pos + 0x1c)?, r32(bytes, pos + 0x30)?, r32(bytes, pos + 0x38)?) }
                                             else { (r32(bytes, pos + 0x10)?, r32(bytes, pos + 0x1c)?, r32(bytes, pos + 0x24)?) };
        let np = pos + name_off as usize;
        let end = bytes.get(np..).and_then(|s| s.iter().position(|&c| c == 0)).ok_or("unterminated name")?;
        let path = String::from_utf8_lossy(&bytes[np..np + end]).into_owned();
        let tex = if thtx_off == 0 { None } else {
            let tp = pos + thtx_off as usize;
            if bytes.get(tp..tp + 4) != Some(b"THTX") { return Err(format!("no THTX magic at {tp}")); }
            let size = r32(bytes, tp + 12)? as usize;
            let data = bytes.get(tp + 16..tp + 16 + size).ok_or("truncated THTX data")?.to_vec();
            Some(Tex { format: r16(bytes, tp + 6)?, w: r16(bytes, tp + 8)?, h: r16(bytes, tp + 10)?, data })
        };
        out.push((path, tex));
        if next_off == 0 { return Ok(out); }
        pos += next_off as usize;
    }
    Err("entry chain too long".into())
}

// ---------------------------------------------------------------------------------------------
// PNG codec of the harness (8-bit, non-interlaced)

fn crc32(data: &[u8]) -> u32 {
    let mut c = 0xFFFF_FFFFu32;
    for &b in data {
        c ^= b as u32;
        for _ in 0..8 { c = if c & 1 != 0 { 0xEDB8_8320 ^ (c >> 1) } else { c >> 1 }; }
    }
    !c
}

fn adler32(data: &[u8]) -> u32 {
    let (mut a, mut b) = (1u32, 0u32);
    for &x in data { a = (a + x as u32) % 65521; b = (b + a) % 65521; }
    (b << 16) | a
}

fn png_chunk(out: &mut Vec<u8>, kind: &[u8; 4], data: &[u8]) {
    out.extend_from_slice(&(data.len() as u32).to_be_bytes());
    let mut body = kind.to_vec();
    body.extend_from_slice(data);
    out.extend_from_slice(&body);
    out.extend_from_slice(&crc32(&body).to_be_bytes());
}

/// RGBA8 PNG, filter 0 on every row, stored (uncompressed) deflate blocks
fn png_encode(w: u32, h: u32, rgba: &[u8]) -> Vec<u8> {
    assert_eq!(rgba.len(), (w * h * 4) as usize);
    let mut raw = vec![];
    for y in 0..h as usize { raw.push(0); raw.extend_from_slice(&rgba[y * w as usize * 4..(y + 1) * w as usize * 4]); }
    let mut z = vec![0x78, 0x01];
    let mut chunks = raw.chunks(65535).peekable();
    if raw.is_empty() { z.extend_from_slice(&[1, 0, 0, 0xFF, 0xFF]); }
    while let Some(c) = chunks.next() {
        z.push(chunks.peek().is_none() as u8);
        z.extend_from_slice(&(c.len() as u16).to_le_bytes());
        z.extend_from_slice(&(!(c.len() as u16)).to_le_bytes());
        z.extend_from_slice(c);
    }
    z.extend_from_slice(&adler32(&raw).to_be_bytes());
    let mut out = vec![0x89, b'P', b'N', b'G', 0x0D, 0x0A, 0x1A, 0x0A];
    let mut ihdr = vec![];
    ihdr.extend_from_slice(&w.to_be_bytes()); ihdr.extend_from_slice(&h.to_be_bytes());
    ihdr.extend_from_slice(&[8, 6, 0, 0, 0]);
    png_chunk(&mut out, b"IHDR", &ihdr);
    png_chunk(&mut out, b"IDAT", &z);
    png_chunk(&mut out, b"IEND", &[]);
    out
}

struct Bits<'a> { data: &'a [u8], pos: usize, bit: u32, nbits: u32 }
impl Bits<'_> {
    fn need(&mut self, n: u32) -> Result<(), String> {
        while self.nbits < n {
            let b = *self.data.get(self.pos).ok_or("deflate stream truncated")?;
            self.pos += 1;
            self.bit |= (b as u32) << self.nbits;
            self.nbits += 8;
        }
        Ok(())
    }
    fn get(&mut self, n: u32) -> Result<u32, String> {
        if n == 0 { return Ok(0); }
        self.need(n)?;
        let v = self.bit & ((1u32 << n) - 1);
        self.bit >>= n; self.nbits -= n;
        Ok(v)
    }
}

struct Huff { count: [u16; 16], symbol: Vec<u16> }
impl Huff {
    fn new(lengths: &[u8]) -> Huff {
        let mut count = [0u16; 16];
        for &l in lengths { count[l as usize] += 1; }
        let mut offs = [0u16; 16];
        for i in 1..16 { offs[i] = offs[i - 1] + count[i - 1]; }
        let mut symbol = vec![0u16; lengths.len()];
        // symbols of length 0 are not part of the code
        let zero = count[0];
        for i in 0..16 { offs[i] = offs[i].wrapping_sub(zero); }
        for (s, &l) in lengths.iter().enumerate() { if l != 0 { symbol[offs[l as usize] as usize] = s as u16; offs[l as usize] += 1; } }
        count[0] = 0;
        Huff { count, symbol }
    }
    fn decode(&self, b: &mut Bits) -> Result<u16, String> {
        let (mut code, mut first, mut index) = (0i32, 0i32, 0i32);
        for len in 1..16 {
            code |= b.get(1)? as i32;
            let count = self.count[len] as i32;
            if code - count < first { return Ok(self.symbol[(index + (code - first)) as usize]); }
            index += count; first += count; first <<= 1; code <<= 1;
        }
        Err("bad huffman code".into())
    }
}

fn inflate(z: &[u8]) -> Result<Vec<u8>, String> {
    const LBASE: [u16; 29] = [3, 4, 5, 6, 7, 8, 9, 10, 11, 13, 15, 17, 19, 23, 27, 31, 35, 43, 51, 59, 67, 83, 99, 115, 131, 163, 195, 227, 258];
    const LEXT: [u8; 29] = [0, 0, 0, 0, 0, 0, 0, 0, 1, 1, 1, 1, 2, 2, 2, 2, 3, 3, 3, 3, 4, 4, 4, 4, 5, 5, 5, 5, 0];
    const DBASE: [u16; 30] = [1, 2, 3, 4, 5, 7, 9, 13, 17, 25, 33, 49, 65, 97, 129, 193, 257, 385, 513, 769, 1025, 1537, 2049, 3073, 4097, 6145, 8193, 12289, 16385, 24577];
    const DEXT: [u8; 30] = [0, 0, 0, 0, 1, 1, 2, 2, 3, 3, 4, 4, 5, 5, 6, 6, 7, 7, 8, 8, 9, 9, 10, 10, 11, 11, 12, 12, 13, 13];
    if z.len() < 6 { return Err("zlib stream too short".into()); }
    let mut b = Bits { data: &z[2..], pos: 0, bit: 0, nbits: 0 };
    let mut out: Vec<u8> = vec![];
    loop {
        let last = b.get(1)?;
        match b.get(2)? {
            0 => {
                b.bit = 0; b.nbits = 0;
                let len = r16(b.data, b.pos)? as usize;
                b.pos += 4;
                out.extend_from_slice(b.data.get(b.pos..b.pos + len).ok_or("stored block truncated")?);
                b.pos += len;
            },
            t @ (1 | 2) => {
                let (lit, dist) = if t == 1 {
                    let mut l = vec![8u8; 288];
                    for i in 144..256 { l[i] = 9; }
                    for i in 256..280 { l[i] = 7; }
                    (Huff::new(&l), Huff::new(&[5u8; 30]))
                } else {
                    let nlen = b.get(5)? as usize + 257; let ndist = b.get(5)? as usize + 1; let ncode = b.get(4)? as usize + 4;
                    const ORDER: [usize; 19] = [16, 17, 18, 0, 8, 7, 9, 6, 10, 5, 11, 4, 12, 3, 13, 2, 14, 1, 15];
                    let mut cl = [0u8; 19];
                    for i in 0..ncode { cl[ORDER[i]] = b.get(3)? as u8; }
                    let clh = Huff::new(&cl);
                    let mut lengths = vec![];
                    while lengths.len() < nlen + ndist {
                        let sym = clh.decode(&mut b)?;
                        match sym {
                            0..=15 => lengths.push(sym as u8),
                            16 => { let prev = *lengths.last().ok_or("repeat without previous length")?; for _ in 0..3 + b.get(2)? { lengths.push(prev); } },
                            17 => { for _ in 0..3 + b.get(3)? { lengths.push(0); } },
                            _ => { for _ in 0..11 + b.get(7)? { lengths.push(0); } },
                        }
                    }
                    if lengths.len() != nlen + ndist { return Err("code lengths overrun".into()); }
                    (Huff::new(&lengths[..nlen]), Huff::new(&lengths[nlen..]))
                };
                loop {
                    let sym = lit.decode(&mut b)? as usize;
                    if sym < 256 { out.push(sym as u8); }
                    else if sym == 256 { break; }
                    else {
                        let s = sym - 257;
                        if s >= 29 { return Err("bad length symbol".into()); }
                        let len = LBASE[s] as usize + b.get(LEXT[s] as u32)? as usize;
                        let ds = dist.decode(&mut b)? as usize;
                        if ds >= 30 { return Err("bad distance symbol".into()); }
                        let d = DBASE[ds] as usize + b.get(DEXT[ds] as u32)? as usize;
                        if d > out.len() { return Err("distance too far back".into()); }
                        for _ in 0..len { let c = out[out.len() - d]; out.push(c); }
                    }
                }
            },
            _ => return Err("bad deflate block type".into()),
        }
        if last == 1 { return Ok(out); }
    }
}

/// -> (width, height, RGBA8)
fn png_decode(png: &[u8]) -> Result<(u32, u32, Vec<u8>), String> {
    if png.get(..8) != Some(&[0x89, b'P', b'N', b'G', 0x0D, 0x0A, 0x1A, 0x0A]) { return Err("not a PNG".into()); }
    let mut pos = 8;
    let (mut w, mut h, mut ctype) = (0u32, 0u32, 0u8);
    let mut idat = vec![];
    loop {
        let len = u32::from_be_bytes(png.get(pos..pos + 4).ok_or("truncated chunk")?.try_into().unwrap()) as usize;
        let kind = png.get(pos + 4..pos + 8).ok_or("truncated chunk")?;
        let data = png.get(pos + 8..pos + 8 + len).ok_or("truncated chunk")?;
        let crc = u32::from_be_bytes(png.get(pos + 8 + len..pos + 12 + len).ok_or("truncated chunk")?.try_into().unwrap());
        if crc32(&png[pos + 4..pos + 8 + len]) != crc { return Err("bad chunk CRC".into()); }
        match kind {
            b"IHDR" => {
                w = u32::from_be_bytes(data[0..4].try_into().unwrap()); h = u32::from_be_bytes(data[4..8].try_into().unwrap());
                if data[8] != 8 || data[12] != 0 { return Err(format!("unsupported PNG: depth {} interlace {}", data[8], data[12])); }
                ctype = data[9];
            },
            b"IDAT" => idat.extend_from_slice(data),
            b"IEND" => break,
            _ => {},
        }
        pos += 12 + len;
    }
    let channels = match ctype { 0 => 1, 2 => 3, 4 => 2, 6 => 4, c => return Err(format!("unsupported PNG colour type {c}")) };
    let raw = inflate(&idat)?;
    if idat.len() >= 4 && adler32(&raw).to_be_bytes() != idat[idat.len() - 4..] { return Err("bad adler32".into()); }
    let stride = w as usize * channels;
    if raw.len() != (stride + 1) * h as usize { return Err(format!("decoded size {} for {w}x{h}x{channels}", raw.len())); }
    let mut img = vec![0u8; stride * h as usize];
    for y in 0..h as usize {
        let ft = raw[y * (stride + 1)];
        let line = &raw[y * (stride + 1) + 1..(y + 1) * (stride + 1)];
        for x in 0..stride {
            let a = if x >= channels { img[y * stride + x - channels] as i32 } else { 0 };
            let b = if y > 0 { img[(y - 1) * stride + x] as i32 } else { 0 };
            let c = if y > 0 && x >= channels { img[(y - 1) * stride + x - channels] as i32 } else { 0 };
            let pred = match ft {
                0 => 0, 1 => a, 2 => b, 3 => (a + b) / 2,
                4 => { let p = a + b - c; let (pa, pb, pc) = ((p - a).abs(), (p - b).abs(), (p - c).abs()); if pa <= pb && pa <= pc { a } else if pb <= pc { b } else { c } },
                f => return Err(format!("bad filter type {f}")),
            };
            img[y * stride + x] = (line[x] as i32 + pred) as u8;
        }
    }
    let mut rgba = Vec::with_capacity(w as usize * h as usize * 4);
    for px in img.chunks(channels) {
        match channels { 1 => rgba.extend_from_slice(&[px[0], px[0], px[0], 255]), 2 => rgba.extend_from_slice(&[px[0], px[0], px[0], px[1]]),
                         3 => rgba.extend_from_slice(&[px[0], px[1], px[2], 255]), _ => rgba.extend_from_slice(px) }
    }
    Ok((w, h, rgba))
}

// ---------------------------------------------------------------------------------------------
// running the implementation

extern "C" {
    fn dup(fd: i32) -> i32;
    fn dup2(old: i32, new: i32) -> i32;
    fn close(fd: i32) -> i32;
}

/// `extract` prints "exported ..." with `println!`; the worker's stdout is the result channel.
fn with_stdout_silenced<T>(f: impl FnOnce() -> T) -> T {
    use std::io::Write;
    use std::os::unix::io::AsRawFd;
    struct Restore(i32);
    impl Drop for Restore { fn drop(&mut self) { let _ = std::io::stdout().flush(); unsafe_restore(self.0); } }
    fn unsafe_restore(saved: i32) { unsafe { dup2(saved, 1); close(saved); } }
    let _ = std::io::stdout().flush();
    let null = std::fs::OpenOptions::new().write(true).open("/dev/null").expect("/dev/null");
    let saved = unsafe { dup(1) };
    assert!(saved >= 0);
    unsafe { dup2(null.as_raw_fd(), 1); }
    let _restore = Restore(saved);
    f()
}

/// message class of the first error, without paths and numbers
fn class_of(diagnostics: &str) -> String {
    for needle in ["image too small", "wrong image dimensions", "no bitmap data available for", "do not match image source",
                   "cannot transcode from unknown color format", "cannot transcode into unknown color format",
                   "outside of destination directory", "while writing", "while resolving", "missing required field",
                   "inconsistency between thtx_offset and has_data/name", "unknown color format"] {
        if diagnostics.lines().any(|l| l.starts_with("error") && l.contains(needle)) { return needle.to_string(); }
    }
    let line = diagnostics.lines().find(|l| l.starts_with("error")).unwrap_or("no-error-diagnostic");
    let msg = line.rsplit(": ").next().unwrap_or(line);
    super::strip_digits(msg).chars().take(60).collect()
}

fn extract(game: truth::Game, anm_path: &Path, outdir: &Path) -> tc::Outcome<()> {
    tc::with_truth(tc::Format::Anm, game, &[], |truth| {
        let mut t = truth.validate_defs()?;
        let anm = t.read_anm(game, anm_path, true)?;
        let fs = t.fs();
        with_stdout_silenced(|| anm.extract_images(outdir, &fs))
    })
}

/// same call sequence as `cli_def::anm_compile::run`
fn compile_with_sources(game: truth::Game, text: &str, sources: &[PathBuf]) -> tc::Outcome<Vec<u8>> {
    tc::with_truth(tc::Format::Anm, game, &[], |truth| {
        let script = truth.parse::<ast::ScriptFile>("<input>", text.as_bytes())?.value;
        let compiled = {
            let mut t = truth.validate_defs()?;
            let mut compiled = t.compile_anm(game, &script)?;
            for p in sources {
                let source = t.read_image_source(game, p)?;
                let fs = t.fs();
                compiled.apply_image_source(source, &fs)?;
            }
            t.finalize_anm(game, compiled)?
        };
        tc::write_bytes(truth, tc::Format::Anm, game, &tc::Compiled::Anm(compiled))
    })
}

fn err_of<T>(o: &tc::Outcome<T>) -> Sexp { Sexp::app("err", vec![Sexp::str(class_of(&o.diagnostics))]) }

// ---------------------------------------------------------------------------------------------
// evaluators

fn sweep_input(bpp: usize, start: usize, count: usize) -> Vec<u8> {
    if bpp == 2 { (start..start + count).flat_map(|v| (v as u16).to_le_bytes()).collect() } else { (start..start + count).map(|v| v as u8).collect() }
}

fn eval_sweep(a: &[Sexp]) -> Sexp {
    let (_, num, bpp) = fmt_by_name(a[0].as_atom());
    let input = Rc::new(sweep_input(bpp, a[1].as_usize(), a[2].as_usize()));
    let cf = cformat(num);
    let to = cf.transcode_to_argb_8888(&input);
    let back = cf.transcode_from_argb_8888(&to);
    Sexp::app("ok", vec![Sexp::atom(hex(&to)), Sexp::atom(hex(&back))])
}

fn eval_transcode(a: &[Sexp], to: bool) -> Sexp {
    let (_, num, bpp) = fmt_by_name(a[0].as_atom());
    let input = Rc::new(unhex(a[1].as_atom()));
    let in_bpp = if to { bpp } else { 4 };
    let cf = cformat(num);
    let r = std::panic::catch_unwind(std::panic::AssertUnwindSafe(|| if to { cf.transcode_to_argb_8888(&input) } else { cf.transcode_from_argb_8888(&input) }));
    match r {
        Ok(out) => Sexp::app("ok", vec![Sexp::atom(hex(&out))]),
        // the length assertion of `decode` is a precondition of this private function; whether it is
        // reachable from a file is searched separately (`malformed`)
        Err(_) if num != 1 && input.len() % in_bpp != 0 => Sexp::app("panic", vec![Sexp::str("model"), Sexp::str(DECODE_SITE)]),
        Err(p) => std::panic::resume_unwind(p),
    }
}

fn one_entry(fmt: u32, w: u32, h: u32, ox: u32, oy: u32, data: Vec<u8>, path: &str) -> EntrySpec {
    EntrySpec { path: path.into(), tex: Some(Tex { format: fmt, w, h, data }), ox, oy, rt_w: w.max(1).next_power_of_two(), rt_h: h.max(1).next_power_of_two(), sprite: false }
}

fn eval_pad(a: &[Sexp]) -> Sexp {
    let (_, num, _) = fmt_by_name(a[0].as_atom());
    let (w, h, ox, oy) = (a[1].as_u32(), a[2].as_u32(), a[3].as_u32(), a[4].as_u32());
    let dir = tempfile::tempdir().expect("tempdir");
    let anm_path = dir.path().join("in.anm");
    std::fs::write(&anm_path, build_anm("th12", &[one_entry(num, w, h, ox, oy, unhex(a[5].as_atom()), "t.png")])).expect("write");
    let out = dir.path().join("x");
    let r = extract(truth::Game::Th12, &anm_path, &out);
    if r.value.is_none() { return err_of(&r); }
    let png = match std::fs::read(out.join("t.png")) { Ok(b) => b, Err(e) => return Sexp::app("harness-error", vec![Sexp::str(format!("no extracted file: {e}"))]) };
    match png_decode(&png) {
        Ok((pw, ph, rgba)) => Sexp::app("ok", vec![Sexp::int(pw), Sexp::int(ph), digest(&rgba)]),
        Err(e) => Sexp::app("harness-error", vec![Sexp::str(e)]),
    }
}

fn entry_text(path: &str, fields: &[(&str, String)]) -> String {
    let mut s = format!("entry {{\n    path: \"{path}\",\n");
    for (k, v) in fields { s.push_str(&format!("    {k}: {v},\n")); }
    s.push_str("    sprites: {},\n}\n");
    s
}

fn eval_crop(a: &[Sexp]) -> Sexp {
    let (_, num, _) = fmt_by_name(a[0].as_atom());
    let (ox, oy, sw, sh) = (a[3].as_u32(), a[4].as_u32(), a[5].as_u32(), a[6].as_u32());
    let dir = tempfile::tempdir().expect("tempdir");
    std::fs::write(dir.path().join("t.png"), png_encode(sw, sh, &unhex(a[7].as_atom()))).expect("write");
    let mut fields = vec![("img_format", num.to_string())];
    if a[1].as_atom() != "-" { fields.push(("img_width", a[1].as_atom().to_string())); }
    if a[2].as_atom() != "-" { fields.push(("img_height", a[2].as_atom().to_string())); }
    fields.extend([("offset_x", ox.to_string()), ("offset_y", oy.to_string()), ("rt_width", "128".into()), ("rt_height", "128".into())]);
    let r = compile_with_sources(truth::Game::Th12, &entry_text("t.png", &fields), &[dir.path().to_path_buf()]);
    let Some(bytes) = &r.value else { return err_of(&r) };
    match parse_textures(bytes, "th12") {
        Ok(t) => match t.get(0).and_then(|e| e.1.as_ref()) {
            Some(t) => Sexp::app("ok", vec![Sexp::int(t.w), Sexp::int(t.h), digest(&t.data)]),
            None => Sexp::atom("no-texture"),
        },
        Err(e) => Sexp::app("harness-error", vec![Sexp::str(e)]),
    }
}

/// texture id <-> the four bytes of a 1x1 Argb8888 texture
fn id_tex(id: u32) -> Tex { Tex { format: 1, w: 1, h: 1, data: id.to_le_bytes().to_vec() } }
fn id_png(id: u32) -> Vec<u8> { let b = id.to_le_bytes(); png_encode(1, 1, &[b[2], b[1], b[0], b[3]]) }

fn eval_sources(a: &[Sexp]) -> Sexp {
    let dir = tempfile::tempdir().expect("tempdir");
    let mut text = String::new();
    for d in a[0].args() {
        let d = d.as_list();
        let mut fields = vec![("rt_width", "16".to_string()), ("rt_height", "16".to_string())];
        match d[1].as_atom() { "0" => fields.push(("has_data", "false".into())), "1" => fields.push(("has_data", "true".into())), _ => {} }
        text.push_str(&entry_text(d[0].as_atom(), &fields));
    }
    let mut paths = vec![];
    for (k, s) in a[1..].iter().enumerate() {
        match s.head() {
            Some("anm") => {
                let entries: Vec<EntrySpec> = s.args().iter().map(|e| {
                    let e = e.as_list();
                    let tex = if e[1].as_atom() == "-" { None } else { Some(id_tex(e[1].as_u32())) };
                    EntrySpec { path: e[0].as_atom().into(), tex, ox: 0, oy: 0, rt_w: 32, rt_h: 32, sprite: false }
                }).collect();
                let p = dir.path().join(format!("s{k}.anm"));
                std::fs::write(&p, build_anm("th12", &entries)).expect("write");
                paths.push(p);
            },
            _ => {
                let p = dir.path().join(format!("s{k}"));
                std::fs::create_dir_all(&p).expect("mkdir");
                for e in s.args() {
                    let e = e.as_list();
                    let f = p.join(e[0].as_atom());
                    std::fs::create_dir_all(f.parent().unwrap()).expect("mkdir");
                    std::fs::write(&f, id_png(e[1].as_u32())).expect("write");
                }
                paths.push(p);
            },
        }
    }
    let r = compile_with_sources(truth::Game::Th12, &text, &paths);
    let Some(bytes) = &r.value else { return err_of(&r) };
    match parse_textures(bytes, "th12") {
        Ok(t) => Sexp::app("ok", t.iter().map(|(_, tex)| match tex {
            Some(t) if t.data.len() == 4 && (t.format, t.w, t.h) == (1, 1, 1) => Sexp::int(u32::from_le_bytes(t.data[..].try_into().unwrap())),
            Some(t) => Sexp::atom(format!("unexpected-{}-{}x{}-{}", t.format, t.w, t.h, hex(&t.data))),
            None => Sexp::atom("-"),
        }).collect()),
        Err(e) => Sexp::app("harness-error", vec![Sexp::str(e)]),
    }
}

/// deterministic texture bytes from a seed
fn gen_data(seed: u64, kind: &str, len: usize) -> Vec<u8> {
    let mut r = Rng::new(seed);
    match kind {
        "random" => (0..len).map(|_| r.next_u64() as u8).collect(),
        "edges" => (0..len).map(|_| *r.pick(&[0u8, 0xFF, 0x80, 0x7F, 0x01, 0xFE, 0x08, 0x07, 0xF8, 0x10, 0x0F])).collect(),
        "ramp" => (0..len).map(|i| (i as u64).wrapping_mul(seed | 1).wrapping_add(seed >> 8) as u8).collect(),
        _ => vec![(seed & 0xFF) as u8; len],
    }
}

fn same_tex(a: &Option<Tex>, b: &Option<Tex>) -> Result<(), String> {
    match (a, b) {
        (None, None) => Ok(()),
        (Some(x), Some(y)) => {
            if (x.format, x.w, x.h) != (y.format, y.w, y.h) { return Err(format!("THTX header format/w/h {}/{}x{} became {}/{}x{}", x.format, x.w, x.h, y.format, y.w, y.h)); }
            if x.data.len() != y.data.len() { return Err(format!("THTX size {} became {}", x.data.len(), y.data.len())); }
            match x.data.iter().zip(&y.data).position(|(p, q)| p != q) {
                None => Ok(()),
                Some(i) => { let lo = i - i % 4; let hi = (lo + 4).min(x.data.len()); Err(format!("byte {i} of {}: original {} recompiled {}", x.data.len(), hex(&x.data[lo..hi]), hex(&y.data[lo..hi]))) },
            }
        },
        (Some(_), None) => Err("texture missing after recompiling".into()),
        (None, Some(_)) => Err("texture appeared after recompiling".into()),
    }
}

fn specs_from_case(entries: &[Sexp]) -> Vec<EntrySpec> {
    entries.iter().map(|e| {
        let e = e.args();
        let (_, num, bpp) = fmt_by_name(e[1].as_atom());
        let (w, h) = (e[2].as_u32(), e[3].as_u32());
        let data = gen_data(e[6].as_i64() as u64, e[7].as_atom(), w as usize * h as usize * bpp);
        let mut s = one_entry(num, w, h, e[4].as_u32(), e[5].as_u32(), data, e[0].as_atom());
        s.sprite = e[8].as_atom() == "1";
        if e[9].as_atom() != "-" { s.rt_w = e[9].as_u32(); s.rt_h = e[9].as_u32(); }
        s
    }).collect()
}

/// the property itself on the implementation: decompile + extract, compile from the directory,
/// compile from the ANM file; THTX sections must be the original ones
fn eval_roundtrip(a: &[Sexp], allow_rejection: bool, dir_steps: bool) -> Sexp {
    let game_name = a[0].as_atom();
    let game = tc::game(game_name);
    let specs = specs_from_case(&a[1..]);
    let original = build_anm(game_name, &specs);
    let fmt_names: Vec<&str> = specs.iter().map(|s| fmt_by_num(s.tex.as_ref().unwrap().format).map(|f| f.0).unwrap_or("?")).collect();
    let orig_tex = match parse_textures(&original, game_name) { Ok(t) => t, Err(e) => return Sexp::app("harness-error", vec![Sexp::str(e)]) };

    let dir = tempfile::tempdir().expect("tempdir");
    let anm_path = dir.path().join("orig.anm");
    std::fs::write(&anm_path, &original).expect("write");
    let dec = tc::decompile(tc::Format::Anm, game, &[], &original, &truth::DecompileOptions::new(), 100);
    let Some(text) = &dec.value else { return fail("decompile-of-built-anm-failed", class_of(&dec.diagnostics)) };
    let out = dir.path().join("img");
    let mut same_file = false;
    if dir_steps {
        let ex = extract(game, &anm_path, &out);
        if ex.value.is_none() {
            if allow_rejection && ex.has_error_diag() { return Sexp::app("pass", vec![Sexp::atom("extract-rejected"), Sexp::str(class_of(&ex.diagnostics))]); }
            return fail(format!("extract-failed {}", class_of(&ex.diagnostics)), format!("{}", ex.diagnostics.lines().next().unwrap_or("")));
        }

        // (1) directory as image source
        let rc = compile_with_sources(game, text, &[out.clone()]);
        let Some(bytes) = &rc.value else {
            if allow_rejection && rc.has_error_diag() { return Sexp::app("pass", vec![Sexp::atom("recompile-rejected"), Sexp::str(class_of(&rc.diagnostics))]); }
            return fail(format!("recompile-from-extracted-images-failed {}", class_of(&rc.diagnostics)), format!("{}", rc.diagnostics.lines().next().unwrap_or("")));
        };
        let new_tex = match parse_textures(bytes, game_name) { Ok(t) => t, Err(e) => return fail("recompiled-file-unreadable", e) };
        if new_tex.len() != orig_tex.len() { return fail("entry-count-changed", format!("{} -> {}", orig_tex.len(), new_tex.len())); }
        for (i, (o, n)) in orig_tex.iter().zip(&new_tex).enumerate() {
            if let Err(e) = same_tex(&o.1, &n.1) {
                let ext = Path::new(&o.0).extension().map(|x| x.to_string_lossy().to_ascii_lowercase()).unwrap_or_default();
                // which file format `extract` writes is chosen by the entry's path; anything but PNG gets its own signature
                let sig = if ext == "png" { format!("extract-recompile-differs {}", fmt_names[i]) } else { format!("extract-recompile-differs-for-path-extension {ext}") };
                return fail(sig, format!("entry {i} '{}' ({game_name}, {}): {e}", o.0, fmt_names[i]));
            }
        }
        same_file = *bytes == original;

    }

    // (2) the ANM file itself as image source: verbatim copy
    let rc2 = compile_with_sources(game, text, &[anm_path.clone()]);
    let Some(bytes2) = &rc2.value else { return fail(format!("recompile-from-anm-source-failed {}", class_of(&rc2.diagnostics)), format!("{}", rc2.diagnostics.lines().next().unwrap_or(""))) };
    let new_tex2 = match parse_textures(bytes2, game_name) { Ok(t) => t, Err(e) => return fail("recompiled-file-unreadable", e) };
    if new_tex2.len() != orig_tex.len() { return fail("entry-count-changed", format!("{} -> {}", orig_tex.len(), new_tex2.len())); }
    for (i, (o, n)) in orig_tex.iter().zip(&new_tex2).enumerate() {
        if let Err(e) = same_tex(&o.1, &n.1) { return fail(format!("anm-source-not-verbatim {}", fmt_names[i]), format!("entry {i} '{}' ({game_name}): {e}", o.0)); }
    }
    // (3) both, in both orders: the later source wins, and both carry the same texture
    if dir_steps { for order in [[out.clone(), anm_path.clone()], [anm_path.clone(), out.clone()]] {
        let rc3 = compile_with_sources(game, text, &order);
        let Some(bytes3) = &rc3.value else { return fail(format!("recompile-from-two-sources-failed {}", class_of(&rc3.diagnostics)), format!("{}", rc3.diagnostics.lines().next().unwrap_or(""))) };
        let t3 = match parse_textures(bytes3, game_name) { Ok(t) => t, Err(e) => return fail("recompiled-file-unreadable", e) };
        for (i, (o, n)) in orig_tex.iter().zip(&t3).enumerate() {
            if let Err(e) = same_tex(&o.1, &n.1) { return fail(format!("two-sources-differ {}", fmt_names[i]), format!("entry {i} '{}' ({game_name}): {e}", o.0)); }
        }
    } }
    Sexp::app("pass", vec![Sexp::int(orig_tex.len() as i64), Sexp::atom(if same_file { "same-file" } else { "other-bytes-differ" }), Sexp::atom(if *bytes2 == original { "same-file" } else { "other-bytes-differ" })])
}

/// THTX whose data length disagrees with its header: every step must end in success or a diagnostic
fn eval_malformed(a: &[Sexp]) -> Sexp {
    let game_name = a[0].as_atom();
    let game = tc::game(game_name);
    let (num, w, h, len) = (a[1].as_u32(), a[2].as_u32(), a[3].as_u32(), a[4].as_usize());
    let data = gen_data(a[5].as_i64() as u64, "random", len);
    let spec = one_entry(num, w, h, a[6].as_u32(), a[7].as_u32(), data, "t.png");
    let original = build_anm(game_name, &[spec]);
    let dir = tempfile::tempdir().expect("tempdir");
    let anm_path = dir.path().join("orig.anm");
    std::fs::write(&anm_path, &original).expect("write");
    let ex = extract(game, &anm_path, &dir.path().join("img"));
    // as an image source for an entry that asks for another format (transcoding path)
    let other = if num == 3 { 5 } else { 3 };
    let text = entry_text("t.png", &[("img_format", other.to_string()), ("rt_width", "64".into()), ("rt_height", "64".into())]);
    let rc = compile_with_sources(game, &text, &[anm_path.clone()]);
    let cls = |ok: bool, d: &str| if ok { "ok".to_string() } else { class_of(d) };
    if ex.value.is_none() && !ex.has_error_diag() { return fail("failure-without-error-diagnostic extract", ""); }
    if rc.value.is_none() && !rc.has_error_diag() { return fail("failure-without-error-diagnostic compile", ""); }
    Sexp::app("pass", vec![Sexp::str(cls(ex.value.is_some(), &ex.diagnostics)), Sexp::str(cls(rc.value.is_some(), &rc.diagnostics))])
}

// ---------------------------------------------------------------------------------------------
// generators

fn dim(rng: &mut Rng, max: u32) -> u32 {
    match rng.below(10) { 0 => 1, 1 => 2, 2 => max, 3 => max - 1, 4 => *rng.pick(&[3u32, 4, 7, 8, 15, 16, 17, 31, 32, 33]).min(&max), _ => rng.range(1, max as i64) as u32 }
}
fn offset(rng: &mut Rng) -> u32 { if rng.chance(1, 4) { 0 } else { rng.range(0, 8) as u32 } }

fn pixel_for(rng: &mut Rng) -> [u8; 4] {
    let ch = |rng: &mut Rng| -> u8 {
        match rng.below(4) {
            0 => *rng.pick(&[0u8, 1, 2, 3, 4, 7, 8, 9, 15, 16, 17, 31, 32, 127, 128, 129, 239, 240, 247, 248, 251, 252, 253, 254, 255]),
            1 => { let m = *rng.pick(&[4u32, 8, 16]); let k = rng.below(256 / m as usize + 1) as u32 * m; (k as i64 + rng.range(-1, 1)).clamp(0, 255) as u8 },
            _ => rng.next_u64() as u8,
        }
    };
    if rng.chance(1, 5) { let v = ch(rng); [v, v, v, ch(rng)] } else { [ch(rng), ch(rng), ch(rng), ch(rng)] }
}

impl Prop for C17 {
    fn id(&self) -> &'static str { "C17" }
    fn relation(&self) -> &'static str {
        "sweep/to8888/from8888: ColorFormat::transcode_{to,from}_argb_8888 == Lean transcodeTo8888/transcodeFrom8888 (native Float32 luminance) byte for byte, exhaustively over all 65536 Rgb565 and Argb4444 values and all 256 Gray8 values; pad: pixels of the PNG written by AnmFile::extract_images == Lean pad (0xFF fill) of the transcoded texture; crop: THTX written after compiling with a directory source == Lean loadImage (dimension checks, crop) + imageTextureForEntry; sources: texture chosen per entry (or error class) after applying up to three image sources == Lean applySources + finalizeDest"
    }
    fn rule(&self) -> &'static str {
        "exhaustive 16-bit and 8-bit pixel sweeps in chunks of 256 values; buffers of 16 boundary-directed 32-bit pixels per format; textures w,h in 1..64 (boundary-biased), offsets 0..8, all four formats; PNGs with random padding content; 0-3 image sources (ANM / directory) over a pool of 5 paths with duplicates, explicit has_data, source entries without texture, all orderings; search: ANM files of 1-3 textured entries for th06..th17 through decompile+extract+compile; malformed THTX sizes; other file extensions. non-trivial = not a zero-offset 1x1 case and not an empty source list; distinct by case text"
    }
    fn theorems(&self) -> &'static [&'static str] {
        &["TruthModel.C17.rgb565_lossless", "TruthModel.C17.argb4444_lossless", "TruthModel.C17.gray8_lossless", "TruthModel.C17.argb8888_identity",
          "TruthModel.C17.transcode_roundtrip", "TruthModel.C17.crop_pad", "TruthModel.C17.load_extracted", "TruthModel.C17.anm_source_verbatim",
          "TruthModel.C17.last_source_wins", "TruthModel.C17.same_path_in_order", "TruthModel.C17.explicit_survives", "TruthModel.C17.soft_last_wins"]
    }
    fn timeout_secs(&self) -> u64 { 30 }

    fn gen(&self, tier: Tier, rng: &mut Rng) -> Vec<Case> {
        let scale: usize = if tier == Tier::Quick { 1 } else { 20 };
        let mut out = vec![];

        // (a) exhaustive pixel sweeps (both tiers)
        for name in ["rgb565", "argb4444"] {
            for start in (0..65536).step_by(256) {
                out.push(Case::corr(Sexp::app("sweep", vec![Sexp::atom(name), Sexp::int(start as i64), Sexp::int(256)])).tag(format!("sweep-{name}")));
            }
        }
        out.push(Case::corr(Sexp::app("sweep", vec![Sexp::atom("gray8"), Sexp::int(0), Sexp::int(256)])).tag("sweep-gray8"));

        // (b) 32-bit pixels into every format; buffers into 8888 (incl. lengths that are not whole pixels)
        for &(name, _, bpp) in FORMATS {
            for _ in 0..500 * scale {
                let n = 16;
                let bytes: Vec<u8> = (0..n).flat_map(|_| pixel_for(rng)).collect();
                out.push(Case::corr(Sexp::app("from8888", vec![Sexp::atom(name), Sexp::atom(hex(&bytes))])).tag(format!("from8888-{name}")));
            }
            for _ in 0..100 * scale {
                let n = rng.below(12) * bpp;
                let bytes: Vec<u8> = (0..n).map(|_| rng.next_u64() as u8).collect();
                out.push(Case::corr(Sexp::app("to8888", vec![Sexp::atom(name), Sexp::atom(hex(&bytes))])).tag(format!("to8888-{name}")).trivial(n == 0));
            }
            for _ in 0..20 * scale {
                let n = rng.below(40) + 1;
                let bytes: Vec<u8> = (0..n).map(|_| rng.next_u64() as u8).collect();
                let partial_to = n % bpp != 0;
                out.push(Case::corr(Sexp::app("to8888", vec![Sexp::atom(name), Sexp::atom(hex(&bytes))])).tag(if partial_to { "to8888-partial-pixel" } else { "to8888-any-length" }));
                out.push(Case::corr(Sexp::app("from8888", vec![Sexp::atom(name), Sexp::atom(hex(&bytes))])).tag(if n % 4 != 0 { "from8888-partial-pixel" } else { "from8888-any-length" }));
            }
        }

        // (c) pad: extract of one texture
        for k in 0..600 * scale {
            let &(name, _, bpp) = &FORMATS[k % 4];
            let max = if rng.chance(1, 4) { 64 } else { 24 };
            let (w, h, ox, oy) = (dim(rng, max), dim(rng, max), offset(rng), offset(rng));
            let data: Vec<u8> = (0..(w * h) as usize * bpp).map(|_| rng.next_u64() as u8).collect();
            out.push(Case::corr(Sexp::app("pad", vec![Sexp::atom(name), Sexp::int(w), Sexp::int(h), Sexp::int(ox), Sexp::int(oy), Sexp::atom(hex(&data))]))
                .tag(format!("pad-{name}")).tag(if ox + oy == 0 { "pad-zero-offset" } else { "pad-with-offset" }).trivial(w * h == 1 && ox + oy == 0));
        }

        // (d) crop: compile from a directory holding a PNG with arbitrary content in the padding
        for k in 0..800 * scale {
            let &(name, _, _) = &FORMATS[k % 4];
            let max = if rng.chance(1, 4) { 64 } else { 20 };
            let (mut w, mut h, ox, oy) = (dim(rng, max), dim(rng, max), offset(rng), offset(rng));
            if rng.chance(1, 25) && ox > 0 { w = 0; }
            if rng.chance(1, 25) && oy > 0 { h = 0; }
            let (mut sw, mut sh) = (w + ox, h + oy);
            let mut tag = "crop-ok";
            let (mut iw, mut ih) = (Sexp::atom("-"), Sexp::atom("-"));
            match rng.below(10) {
                0 => { iw = Sexp::int(w); ih = Sexp::int(h); tag = "crop-explicit-dims"; },
                1 => { iw = Sexp::int(w); tag = "crop-explicit-width"; },
                2 => { iw = Sexp::int(w as i64 + *rng.pick(&[-1i64, 1, 2])); tag = "crop-explicit-width-mismatch"; },
                3 => { ih = Sexp::int(h as i64 + *rng.pick(&[-1i64, 1, 2])); iw = Sexp::int(w); tag = "crop-explicit-height-mismatch"; },
                4 if ox > 1 => { sw = rng.range(1, ox as i64 - 1) as u32; tag = "crop-image-narrower-than-offset"; },
                5 if oy > 1 => { sh = rng.range(1, oy as i64 - 1) as u32; tag = "crop-image-shorter-than-offset"; },
                _ => {},
            }
            if iw.as_atom().starts_with('-') && iw.as_atom() != "-" { iw = Sexp::atom("-"); tag = "crop-ok"; }
            if ih.as_atom().starts_with('-') && ih.as_atom() != "-" { ih = Sexp::atom("-"); tag = "crop-ok"; }
            if sw == 0 || sh == 0 { continue; }
            let rgba: Vec<u8> = (0..sw * sh).flat_map(|_| pixel_for(rng)).collect();
            out.push(Case::corr(Sexp::app("crop", vec![Sexp::atom(name), iw, ih, Sexp::int(ox), Sexp::int(oy), Sexp::int(sw), Sexp::int(sh), Sexp::atom(hex(&rgba))]))
                .tag(tag).tag(format!("crop-{name}")).trivial(sw * sh == 1));
        }

        // (e) image-source matching
        let pool = ["a.png", "b.png", "c.png", "dup.png", "sub/d.png"];
        for _ in 0..500 * scale {
            let nd = 1 + rng.below(5);
            let dests: Vec<Sexp> = (0..nd).map(|_| {
                let p = if rng.chance(1, 3) { "dup.png" } else { *rng.pick(&pool) };
                let hd = match rng.below(8) { 0 => "0", 1 => "1", _ => "-" };
                Sexp::list(vec![Sexp::str(p), Sexp::atom(hd)])
            }).collect();
            let ns = rng.below(4);
            let mut srcs = vec![];
            for s in 0..ns {
                if rng.chance(3, 5) {
                    let ne = 1 + rng.below(6);   // an ANM file has at least one entry
                    let es: Vec<Sexp> = (0..ne).map(|k| {
                        let p = if rng.chance(1, 3) { "dup.png" } else { *rng.pick(&pool) };
                        let t = if rng.chance(1, 7) { Sexp::atom("-") } else { Sexp::int(((s + 1) * 1000 + k + 1) as i64) };
                        Sexp::list(vec![Sexp::str(p), t])
                    }).collect();
                    srcs.push(Sexp::app("anm", es));
                } else {
                    let mut es = vec![];
                    for (k, p) in pool.iter().enumerate() { if rng.chance(1, 2) { es.push(Sexp::list(vec![Sexp::str(*p), Sexp::int(((s + 1) * 1000 + 500 + k + 1) as i64)])); } }
                    srcs.push(Sexp::app("dir", es));
                }
            }
            // all orderings of the sources
            let mut orders: Vec<Vec<usize>> = vec![];
            permutations(ns, &mut vec![], &mut orders);
            if tier == Tier::Quick && orders.len() > 2 { rng.shuffle(&mut orders); orders.truncate(2); }
            for o in orders {
                let mut args = vec![Sexp::app("dests", dests.clone())];
                for i in o { args.push(srcs[i].clone()); }
                out.push(Case::corr(Sexp::app("sources", args)).tag(format!("sources-{ns}")).trivial(ns == 0));
            }
        }

        // (f) the property on the implementation
        let games = ["th06", "th07", "th08", "th10", "th12", "th14", "th17"];
        for _ in 0..500 * scale {
            let game = if rng.chance(1, 2) { *rng.pick(&["th12", "th14", "th17"]) } else { *rng.pick(&games) };
            let n = 1 + rng.below(3);
            let mut entries = vec![];
            let names = ["a.png", "data/b.png", "deep/er/c.png"];
            for k in 0..n {
                let &(name, _, _) = rng.pick(FORMATS);
                let max = if rng.chance(1, 3) { 64 } else { 16 };
                let (w, h) = (dim(rng, max), dim(rng, max));
                let (ox, oy) = if old_header(game) { (0, 0) } else { (offset(rng), offset(rng)) };
                let kind = *rng.pick(&["random", "random", "edges", "ramp", "flat"]);
                let rt = if rng.chance(1, 6) { Sexp::int(*rng.pick(&[64i64, 128, 256])) } else { Sexp::atom("-") };
                entries.push(Sexp::app("entry", vec![Sexp::str(names[k]), Sexp::atom(name), Sexp::int(w), Sexp::int(h), Sexp::int(ox), Sexp::int(oy),
                    Sexp::int((rng.next_u64() >> 16) as i64), Sexp::atom(kind), Sexp::atom(if rng.chance(1, 3) { "1" } else { "0" }), rt]));
            }
            let mut args = vec![Sexp::atom(game)];
            args.extend(entries);
            out.push(Case::search(Sexp::app("roundtrip", args)).tag(format!("roundtrip-{game}")).tag(format!("roundtrip-{n}-entries")));
        }
        // (f') entries sharing a path, the ANM file itself as image source: matched in order of appearance
        for _ in 0..120 * scale {
            let game = *rng.pick(&games);
            let n = 2 + rng.below(3);
            let mut entries = vec![];
            for _ in 0..n {
                let &(name, _, _) = rng.pick(FORMATS);
                let (w, h) = (dim(rng, 12), dim(rng, 12));
                let (ox, oy) = if old_header(game) { (0, 0) } else { (offset(rng), offset(rng)) };
                let path = if rng.chance(2, 3) { "same.png" } else { *rng.pick(&["same.png", "other.png", "x/y.png"]) };
                entries.push(Sexp::app("entry", vec![Sexp::str(path), Sexp::atom(name), Sexp::int(w), Sexp::int(h), Sexp::int(ox), Sexp::int(oy),
                    Sexp::int((rng.next_u64() >> 16) as i64), Sexp::atom("random"), Sexp::atom(if rng.chance(1, 3) { "1" } else { "0" }), Sexp::atom("-")]));
            }
            let mut args = vec![Sexp::atom(game)];
            args.extend(entries);
            out.push(Case::search(Sexp::app("anmsrc", args)).tag("anm-source-duplicate-paths"));
        }
        // (g) THTX data length inconsistent with the header
        for _ in 0..100 * scale {
            let game = *rng.pick(&["th08", "th12", "th14"]);
            let &(_, num, bpp) = rng.pick(FORMATS);
            let (w, h) = (dim(rng, 12), dim(rng, 12));
            let exact = (w * h) as usize * bpp;
            let (len, tag) = match rng.below(6) {
                0 => (exact.saturating_sub(1 + rng.below(exact.max(1))), "thtx-shorter"),
                1 => (exact + 1 + rng.below(9), "thtx-longer"),
                2 => (exact | 1, "thtx-odd-length"),
                3 => (0, "thtx-empty"),
                4 => (exact / 2, "thtx-half"),
                _ => (exact + bpp * (w as usize), "thtx-extra-row"),
            };
            let num = if rng.chance(1, 10) { *rng.pick(&[0u32, 2, 4, 6, 8, 255]) } else { num };
            out.push(Case::search(Sexp::app("malformed", vec![Sexp::atom(game), Sexp::int(num), Sexp::int(w), Sexp::int(h), Sexp::int(len as i64),
                Sexp::int((rng.next_u64() >> 16) as i64), Sexp::int(offset(rng)), Sexp::int(offset(rng))])).tag(tag));
        }
        // (h) zero-sized textures and other file extensions: rejected with a diagnostic or reproduced
        for _ in 0..80 * scale {
            let &(name, _, _) = rng.pick(FORMATS);
            let ext = *rng.pick(&["t.PNG", "t.bmp", "t.gif", "t.jpg", "t", "t.png.bak", "dir.png/t.png", "t .png"]);
            let (w, h) = (dim(rng, 12), dim(rng, 12));
            out.push(Case::search(Sexp::app("ext", vec![Sexp::atom("th12"), Sexp::app("entry", vec![Sexp::str(ext), Sexp::atom(name), Sexp::int(w), Sexp::int(h), Sexp::int(offset(rng)), Sexp::int(offset(rng)),
                Sexp::int((rng.next_u64() >> 16) as i64), Sexp::atom("random"), Sexp::atom("0"), Sexp::atom("-")])])).tag(format!("ext-{}", ext.rsplit('.').next().unwrap_or(""))));
        }
        for _ in 0..20 * scale {
            let &(name, _, _) = rng.pick(FORMATS);
            let (w, h) = if rng.chance(1, 2) { (0, dim(rng, 8)) } else { (dim(rng, 8), 0) };
            out.push(Case::search(Sexp::app("ext", vec![Sexp::atom("th12"), Sexp::app("entry", vec![Sexp::str("z.png"), Sexp::atom(name), Sexp::int(w), Sexp::int(h), Sexp::int(offset(rng)), Sexp::int(offset(rng)),
                Sexp::int(1), Sexp::atom("random"), Sexp::atom("0"), Sexp::atom("-")])])).tag("zero-sized-texture"));
        }
        out
    }

    fn eval(&self, case: &Sexp) -> Sexp {
        let a = case.args();
        match case.head() {
            Some("sweep") => eval_sweep(a),
            Some("to8888") => eval_transcode(a, true),
            Some("from8888") => eval_transcode(a, false),
            Some("pad") => eval_pad(a),
            Some("crop") => eval_crop(a),
            Some("sources") => eval_sources(a),
            Some("roundtrip") => eval_roundtrip(a, false, true),
            Some("ext") => eval_roundtrip(a, true, true),
            Some("anmsrc") => eval_roundtrip(a, false, false),
            Some("malformed") => eval_malformed(a),
            _ => Sexp::atom("bad-case"),
        }
    }

    fn judge(&self, case: &Sexp, result: &Sexp) -> Option<Failure> {
        match (case.head(), result.head()) {
            // direct calls of the private transcoders outside their precondition
            (Some("to8888") | Some("from8888"), Some("panic")) if result.args()[0].as_atom() == "model" => None,
            // losslessness on the real code, exhaustively
            (Some("sweep"), Some("ok")) => {
                let a = case.args();
                let (name, _, bpp) = fmt_by_name(a[0].as_atom());
                let input = sweep_input(bpp, a[1].as_usize(), a[2].as_usize());
                let back = unhex(result.args()[1].as_atom());
                if back == input { return None; }
                let i = input.iter().zip(&back).position(|(x, y)| x != y).unwrap_or(0) / bpp;
                Some(Failure { signature: format!("pixel-roundtrip-lossy {name}"), what: format!("{name} value {:#x} does not survive to_argb_8888 / from_argb_8888", a[1].as_usize() + i) })
            },
            (_, Some("harness-error")) => Some(Failure { signature: "harness-error".into(), what: format!("{result}") }),
            (Some("sources"), Some("ok")) => sources_oracle(case, result),
            (_, Some("panic")) => default_judge(result).map(|mut f| { f.signature = f.signature.lines().next().unwrap_or("panic").to_string(); f }),
            _ => default_judge(result),
        }
    }

    fn neighbours(&self, case: &Sexp, rng: &mut Rng) -> Vec<Case> {
        // a disagreement on pad/crop/transcoding: does a texture of that shape survive the round trip?
        let a = case.args();
        let mut out = vec![];
        let mk = |name: &str, w: i64, h: i64, ox: i64, oy: i64, seed: i64, kind: &str| Case::search(Sexp::app("roundtrip", vec![Sexp::atom("th12"),
            Sexp::app("entry", vec![Sexp::str("n.png"), Sexp::atom(name), Sexp::int(w), Sexp::int(h), Sexp::int(ox), Sexp::int(oy), Sexp::int(seed), Sexp::atom(kind), Sexp::atom("0"), Sexp::atom("-")])]));
        match case.head() {
            Some("pad") => for k in 0..6 { out.push(mk(a[0].as_atom(), a[1].as_i64(), a[2].as_i64(), a[3].as_i64(), a[4].as_i64(), k, "random")); },
            Some("crop") => for k in 0..6 { out.push(mk(a[0].as_atom(), (a[5].as_i64() - a[3].as_i64()).max(1), (a[6].as_i64() - a[4].as_i64()).max(1), a[3].as_i64(), a[4].as_i64(), k, "random")); },
            Some("sweep") | Some("to8888") | Some("from8888") => for k in 0..8 {
                out.push(mk(a[0].as_atom(), 16, 16, rng.range(0, 3), rng.range(0, 3), k, *rng.pick(&["random", "edges", "ramp"])));
            },
            _ => {},
        }
        out
    }
}

/// The property, stated directly: every entry that ends up with a texture has the texture of the
/// LAST source that offers one for it, where an ANM source offers its k-th entry of that path to
/// the k-th destination entry of that path and a directory offers the file of that path.
fn sources_oracle(case: &Sexp, result: &Sexp) -> Option<Failure> {
    let a = case.args();
    let dests: Vec<&str> = a[0].args().iter().map(|d| d.as_list()[0].as_atom()).collect();
    for (i, got) in result.args().iter().enumerate() {
        if got.as_atom() == "-" { continue; }
        let k = dests[..i].iter().filter(|p| **p == dests[i]).count();
        let mut expected: Option<String> = None;
        for s in a[1..].iter().rev() {
            let offered = match s.head() {
                Some("anm") => s.args().iter().filter(|e| e.as_list()[0].as_atom() == dests[i]).nth(k).map(|e| e.as_list()[1].as_atom().to_string()).filter(|t| t != "-"),
                _ => s.args().iter().find(|e| e.as_list()[0].as_atom() == dests[i]).map(|e| e.as_list()[1].as_atom().to_string()),
            };
            if offered.is_some() { expected = offered; break; }
        }
        if expected.as_deref() != Some(got.as_atom()) {
            return Some(Failure { signature: "image-source-precedence".into(), what: format!("entry {i} '{}' got texture {} but the last source offering one gives {:?}", dests[i], got.as_atom(), expected) });
        }
    }
    None
}

fn permutations(n: usize, cur: &mut Vec<usize>, out: &mut Vec<Vec<usize>>) {
    if cur.len() == n { out.push(cur.clone()); return; }
    for i in 0..n { if !cur.contains(&i) { cur.push(i); permutations(n, cur, out); cur.pop(); } }
}
