//! C02 — compiling expressions and statements preserves what the script does.
//!
//! search `(vm CFG RAISE (body ...) (val DIFF ((reg ty value)...))...)`: the methodology of
//!        /repo/tests/expr_compile.rs scaled up: AstVm on the (desugared) source vs AstVm on
//!        raise(lower(source)), from several register valuations and difficulties.
//! corr   `(low CFG (body ...))`: emitted instruction stream of the real Lowerer under TestLanguage ==
//!        Lean lowering model, for straight-line assignment/call bodies under several intrinsic tables.
//! corr   `(lowj CFG (body ...))`: the same for bodies with labels, `if|unless (c) goto L [@ t]`, `goto L [@ t]`,
//!        counting jumps, ternaries and relative time labels (Lean `Lower.compileJ`); jump offsets are compared
//!        as the position of the target instruction in the emitted stream.
//! corr   `(srcvm CFG (body ...) VAL...)`: the real AstVm on the desugared flat SOURCE body (labels, jumps, counting
//!        jumps, time labels) == Lean `Lower.runJS` (the source machine `lowerBody_sound` is stated in): time,
//!        real_time, instr_log with the real_time of every call, all registers, per valuation; failures by class.
//! corr   `(tgtvm CFG (body ...) (obs r...) VAL...)`: the real AstVm on raise(lower(source)) == Lean `Lower.execT` on
//!        the model's `lowerBodyJ` (the target machine of `lowerBody_sound`): time, real_time, instr_log, every
//!        register the source mentions or that is not available as scratch.

use super::c05::{SIG_DIRECT, SIG_SWITCH};
use super::lw::{self, BodyGen, Cfg, GenOpts, Lower};
use super::{fail, Case, Prop, Tier};
use crate::rng::Rng;
use crate::sexp::Sexp;
use truth::{ast, llir, RegId, ScalarValue};
use truth::vm::AstVm;

pub struct C02;

const SOURCE_ITERATIONS: u32 = 3000;
const COMPILED_ITERATIONS: u32 = 200_000;

struct VmOut { time: i32, real_time: i32, log: Vec<Sexp>, regs: Vec<(i32, Option<Sexp>)> }

fn run_vm(stmts: &[truth::Sp<ast::Stmt>], ctx: &truth::CompilerContext<'_>, val: &Sexp, limit: u32) -> Result<VmOut, String> {
    let a = val.args();
    let difficulty = a[0].as_u32();
    let mut vm = AstVm::new().with_max_iterations(limit).with_difficulty(difficulty);
    for r in a[1].as_list() {
        let r = r.as_list();
        let reg = RegId(r[0].as_i32());
        match r[1].as_atom() {
            "i" => vm.set_reg(reg, ScalarValue::Int(r[2].as_i64() as i32)),
            _ => vm.set_reg(reg, ScalarValue::Float(f32::from_bits(r[2].as_i64() as u32))),
        }
    }
    let res = std::panic::catch_unwind(std::panic::AssertUnwindSafe(|| { vm.run(stmts, ctx); vm }));
    match res {
        Ok(vm) => Ok(VmOut {
            time: vm.time, real_time: vm.real_time,
            log: vm.instr_log.iter().map(|c| { let mut v = vec![Sexp::int(c.real_time), Sexp::int(c.opcode)]; v.extend(c.args.iter().map(lw::value_sexp)); Sexp::list(v) }).collect(),
            regs: lw::all_regs().into_iter().map(|r| (r, vm.get_reg(RegId(r)).map(|v| lw::value_sexp(&v)))).collect(),
        }),
        Err(p) => Err(if let Some(s) = p.downcast_ref::<&str>() { s.to_string() } else if let Some(s) = p.downcast_ref::<String>() { s.clone() } else { "?".into() }),
    }
}

fn raise(l: &mut lw::Lowered, full: bool) -> Result<Vec<truth::Sp<ast::Stmt>>, String> {
    let script = llir::RawScript { instrs: l.instrs.clone(), file_offset: None };
    let options = if full { llir::DecompileOptions::default() } else { llir::DecompileOptions { blocks: false, diff_switches: false, ..Default::default() } };
    let emitter = l.truth.emitter();
    let ctx = l.truth.ctx();
    let r: Result<Vec<truth::Sp<ast::Stmt>>, truth::ErrorReported> = (|| {
        let const_proof = truth::passes::evaluate_const_vars::run(ctx)?;
        let mut raiser = llir::Raiser::new(l.hooks, ctx.emitter, ctx, &options, const_proof)?;
        let mut stmts = raiser.raise_instrs_to_sub_ast(&emitter, &script, ctx)?;
        truth::passes::resolution::aliases_to_raw(&mut stmts[..], ctx)?;
        Ok(stmts)
    })();
    r.map_err(|e| { e.ignore(); l.truth.get_captured_diagnostics().unwrap_or_default() })
}

/// first difference between the two runs over what the property observes
fn compare(old: &VmOut, new: &VmOut, observed: &[i32]) -> Option<(&'static str, String)> {
    if old.log != new.log {
        let k = old.log.iter().zip(&new.log).position(|(a, b)| a != b).unwrap_or(old.log.len().min(new.log.len()));
        let show = |l: &Vec<Sexp>| l.get(k).map(|x| format!("{x}")).unwrap_or_else(|| "<none>".into());
        return Some(("instr-log", format!("call #{k}: source {} compiled {} ({} vs {} calls)", show(&old.log), show(&new.log), old.log.len(), new.log.len())));
    }
    if old.time != new.time { return Some(("time", format!("source {} compiled {}", old.time, new.time))); }
    if old.real_time != new.real_time { return Some(("real-time", format!("source {} compiled {}", old.real_time, new.real_time))); }
    for &r in observed {
        let a = old.regs.iter().find(|x| x.0 == r).and_then(|x| x.1.clone());
        let b = new.regs.iter().find(|x| x.0 == r).and_then(|x| x.1.clone());
        if a != b {
            return Some(("register", format!("REG[{r}] source {} compiled {}", a.map(|x| format!("{x}")).unwrap_or("unset".into()), b.map(|x| format!("{x}")).unwrap_or("unset".into()))));
        }
    }
    None
}

/// Does some float conditional jump of the compiled code compare a NaN (computed on the way, e.g.
/// `sqrt` of a negative or `inf - inf`)?  The compiler negates comparisons (`unless (a > b)` becomes
/// `if (a <= b)`), which IEEE comparisons do not survive; the divergence is then reported under its own
/// signature.  Implemented by instrumenting the text of the raised code with logging calls.
fn nan_at_float_jump(l: &mut lw::Lowered, val: &Sexp) -> bool {
    let stmts = match raise(l, false) { Ok(s) => s, Err(_) => return false };
    let text = truth::fmt::stringify(&ast::Block(stmts));
    let probe = lw::plain_opcode("ff");
    let mut out = String::new();
    let mut any = false;
    for line in text.lines() {
        let t = line.trim_start();
        let t = if t.starts_with("{\"") { t.splitn(2, "}:").nth(1).unwrap_or("").trim_start() } else { t };
        let rest = t.strip_prefix("if (").or_else(|| t.strip_prefix("unless ("));
        if let Some(rest) = rest {
            if let Some(close) = rest.find(") goto") {
                let parts: Vec<&str> = rest[..close].split(' ').collect();
                let is_float = |x: &str| x.starts_with('%') || (x.contains('.') && !x.starts_with('$')) || x.ends_with("INF") || x.ends_with("NAN");
                if parts.len() == 3 && (is_float(parts[0]) || is_float(parts[2])) && !parts[0].starts_with('$') && !parts[2].starts_with('$') {
                    out.push_str(&format!("    ins_{probe}({}, {});\n", parts[0], parts[2]));
                    any = true;
                }
            }
        }
        out.push_str(line);
        out.push('\n');
    }
    if !any { return false; }
    // the formatter prints `!-5`, `!4`, `--3`, which the parser does not take back: put a space after `!` and
    // parentheses around a negative literal that directly follows a unary operator
    let out = {
        let b: Vec<char> = out.chars().collect();
        let mut t = String::new();
        let mut k = 0;
        while k < b.len() {
            let ch = b[k];
            let prev = t.trim_end().chars().last();
            if ch == '-' && b.get(k + 1).map_or(false, |n| n.is_ascii_digit()) && matches!(prev, Some('!') | Some('-') | Some('~')) {
                let mut e = k + 1;
                while e < b.len() && (b[e].is_ascii_alphanumeric() || b[e] == '.') { e += 1; }
                t.push('(');
                t.extend(&b[k..e]);
                t.push(')');
                k = e;
                continue;
            }
            t.push(ch);
            if ch == '!' && b.get(k + 1).map_or(false, |n| *n != '=') { t.push(' '); }
            k += 1;
        }
        t
    };
    let r: Result<Vec<truth::Sp<ast::Stmt>>, truth::ErrorReported> = (|| {
        let mut block = l.truth.parse::<ast::Block>("<instrumented>", out.as_bytes())?.value;
        let ctx = l.truth.ctx();
        truth::passes::resolution::assign_languages(&mut block, truth::LanguageKey::Anm, ctx)?;
        truth::passes::resolution::resolve_names(&block, ctx)?;
        truth::passes::resolution::aliases_to_raw(&mut block, ctx)?;
        truth::passes::resolution::compute_diff_label_masks(&mut block, ctx)?;
        // `INF` / `NAN` in the printed code are named constants; fold them back into literals
        truth::passes::evaluate_const_vars::run(ctx)?;
        truth::passes::const_simplify::run(&mut block, ctx)?;
        Ok(block.0)
    })();
    let stmts = match r { Ok(s) => s, Err(e) => { e.ignore(); if std::env::var("VERIF_VERBOSE").is_ok() { eprintln!("instrumented code rejected: {}\n{out}", l.truth.get_captured_diagnostics().unwrap_or_default()); } return false; } };
    let a = val.args();
    let mut vm = AstVm::new().with_max_iterations(COMPILED_ITERATIONS).with_difficulty(a[0].as_u32());
    for r in a[1].as_list() {
        let r = r.as_list();
        let reg = RegId(r[0].as_i32());
        match r[1].as_atom() {
            "i" => vm.set_reg(reg, ScalarValue::Int(r[2].as_i64() as i32)),
            _ => vm.set_reg(reg, ScalarValue::Float(f32::from_bits(r[2].as_i64() as u32))),
        }
    }
    let ctx = l.truth.ctx();
    // (the run may end in the same panic as the compiled code did; the log up to there is what matters)
    let _ = std::panic::catch_unwind(std::panic::AssertUnwindSafe(|| { vm.run(&stmts, ctx); }));
    vm.instr_log.iter().any(|c| c.opcode == probe && c.args.iter().any(|x| matches!(x, ScalarValue::Float(f) if f.is_nan())))
}


// ---------------------------------------------------------------------------------------------
// the machines of Lean `Model/BodySem.lean` against the real VM

const SRC_LIMIT: u32 = 300;
const TGT_LIMIT: u32 = 100_000;

fn expr_is_float(e: &Sexp, locals: &std::collections::BTreeMap<String, bool>) -> bool {
    let a = e.args();
    match e.head() {
        Some("f") => true,
        Some("reg") => match a[1].as_atom() { "i" => false, "f" => true, _ => lw::reg_is_float(a[0].as_i32()) },
        Some("loc") => match a[1].as_atom() { "i" => false, "f" => true, _ => *locals.get(a[0].as_atom()).unwrap_or(&false) },
        Some("un") => match a[0].as_atom() { "castF" | "sigF" | "sin" | "cos" | "sqrt" => true, "neg" => expr_is_float(&a[1], locals), _ => false },
        Some("bin") => matches!(a[0].as_atom(), "add" | "sub" | "mul" | "div" | "rem") && expr_is_float(&a[1], locals),
        Some("tern") => expr_is_float(&a[1], locals),
        Some("sw") => a.iter().find(|c| !matches!(c, Sexp::Atom(_))).map_or(false, |c| expr_is_float(c, locals)),
        _ => false,
    }
}

/// float `%` has no native counterpart in the Lean driver: replaced by `*` in bodies compared with the model's machines
fn no_float_rem(stmts: &[Sexp]) -> Vec<Sexp> {
    let locals: std::collections::BTreeMap<String, bool> = lw::declared_locals(stmts).into_iter().collect();
    fn walk(s: &Sexp, locals: &std::collections::BTreeMap<String, bool>) -> Sexp {
        match s {
            Sexp::List(v) => {
                let mut out: Vec<Sexp> = v.iter().map(|x| walk(x, locals)).collect();
                if s.head() == Some("bin") && out.len() == 4 && out[1].as_atom() == "rem" && expr_is_float(&out[2], locals) { out[1] = Sexp::atom("mul"); }
                Sexp::List(out)
            },
            x => x.clone(),
        }
    }
    stmts.iter().map(|s| walk(s, &locals)).collect()
}

fn fail_class(msg: &str) -> &'static str {
    if msg.starts_with("iteration limit exceeded") { "limit" } else if msg.contains("tried to jump to") { "nolabel" } else { "fail" }
}

fn vm_result(r: &Result<VmOut, String>, regs: &[i32]) -> Sexp {
    match r {
        Ok(o) => Sexp::app("run", vec![Sexp::int(o.time), Sexp::int(o.real_time), Sexp::app("log", o.log.clone()),
            Sexp::app("regs", regs.iter().map(|r| Sexp::list(vec![Sexp::int(*r), o.regs.iter().find(|x| x.0 == *r).and_then(|x| x.1.clone()).unwrap_or(Sexp::atom("unset"))])).collect())]),
        Err(msg) => Sexp::app("fail", vec![Sexp::atom(fail_class(msg))]),
    }
}

/// parse .. desugar_blocks of `stmts` (the pipeline of `lw::with_lowered` without the Lowerer)
fn with_source<T>(cfg: &Cfg, stmts: &[Sexp], f: impl FnOnce(&[truth::Sp<ast::Stmt>], &truth::CompilerContext<'_>) -> T) -> Result<T, String> {
    let text = lw::body_text(&lw::TestNames, stmts);
    let mut scope = truth::Builder::new().capture_diagnostics(true).build();
    let mut truth = scope.truth();
    truth.apply_mapfile_str(&lw::mapfile(cfg.table), truth::Game::Th10).unwrap_or_else(|_| panic!("mapfile rejected"));
    let mut stage = "parse";
    let r: Result<Vec<truth::Sp<ast::Stmt>>, truth::ErrorReported> = (|| {
        let mut block = truth.parse::<ast::Block>("<input>", text.as_bytes())?.value;
        let ctx = truth.ctx();
        stage = "resolve";
        truth::passes::resolution::assign_languages(&mut block, truth::LanguageKey::Anm, ctx)?;
        truth::passes::resolution::resolve_names(&block, ctx)?;
        stage = "type_check";
        truth::passes::type_check::run(&block, ctx)?;
        stage = "prepare";
        truth::passes::resolution::aliases_to_raw(&mut block, ctx)?;
        truth::passes::resolution::compute_diff_label_masks(&mut block, ctx)?;
        stage = "desugar";
        truth::passes::desugar_blocks::run(&mut block, ctx, truth::LanguageKey::Anm)?;
        Ok(block.0)
    })();
    match r {
        Ok(old) => Ok(f(&old, truth.ctx())),
        Err(e) => { e.ignore(); Err(format!("{stage}: {}", crate::util::diag_class(&truth.get_captured_diagnostics().unwrap_or_default()))) },
    }
}

fn eval_srcvm(case: &Sexp) -> Sexp {
    let a = case.args();
    let cfg = Cfg::from_sexp(&a[0]);
    let stmts: Vec<Sexp> = a[1].args().to_vec();
    let vals: Vec<Sexp> = a[2..].to_vec();
    let regs = lw::all_regs();
    match with_source(&cfg, &stmts, |old, ctx| Sexp::app("ok", vals.iter().map(|v| vm_result(&run_vm(old, ctx, v, SRC_LIMIT), &regs)).collect())) {
        Ok(s) => s,
        Err(d) => Sexp::app("rejected-source", vec![Sexp::str(d)]),
    }
}

fn eval_tgtvm(case: &Sexp) -> Sexp {
    let a = case.args();
    let cfg = Cfg::from_sexp(&a[0]);
    let stmts: Vec<Sexp> = a[1].args().to_vec();
    let obs: Vec<i32> = a[2].args().iter().map(|x| x.as_i32()).collect();
    let vals: Vec<Sexp> = a[3..].to_vec();
    let r = lw::with_lowered(&cfg, &stmts, |l| {
        let new_stmts = match raise(l, false) { Ok(s) => s, Err(d) => return Sexp::app("raise-failed", vec![Sexp::str(crate::util::diag_class(&d))]) };
        let old_stmts = l.old_stmts.clone();
        let ctx = l.truth.ctx();
        Sexp::app("ok", vals.iter().map(|v| {
            if run_vm(&old_stmts, ctx, v, SRC_LIMIT).is_err() { return Sexp::app("skip", vec![]); }
            vm_result(&run_vm(&new_stmts, ctx, v, TGT_LIMIT), &obs)
        }).collect())
    });
    match r { Ok(s) => s, Err(_) => Sexp::app("rejected", vec![]) }
}

/// registers `tgtvm` compares: those the source names and those that are not available as scratch
fn observed_regs(cfg: &Cfg, stmts: &[Sexp]) -> Vec<i32> {
    let mentioned = lw::mentioned_regs(stmts);
    let pool: Vec<i32> = cfg.pool_ints().into_iter().chain(cfg.pool_floats()).collect();
    lw::all_regs().into_iter().filter(|r| mentioned.contains_key(r) || !pool.contains(r)).collect()
}

pub const SIG_NESTED: &str = "nested-diff-switch-loses-inner-cases";
pub const SIG_NAN: &str = "float-comparison-negated-by-compiler-sees-nan";
pub const SIG_LOC: &str = "explicit-jump-time-dropped-when-jump-has-no-time-argument";
pub const SIG_AHEAD: &str = "script-time-ahead-of-time-labels-reset-by-compiler-label";

/// Times of the top-level labels of a body (relative time labels add up), for `jump_time_ahead` / `clamp_jump_times`.
fn top_level_label_times(stmts: &[Sexp]) -> std::collections::BTreeMap<String, i64> {
    let mut t = 0i64;
    let mut out = std::collections::BTreeMap::new();
    for s in stmts {
        match s.head() {
            Some("wait") => t += s.args()[0].as_i64(),
            Some("label") => { out.entry(s.args()[0].as_atom().to_string()).or_insert(t); },
            _ => {},
        }
    }
    out
}

/// explicit time of a top-level jump, with its target
fn top_level_jump_time(s: &Sexp) -> Option<(String, i64)> {
    match s.head() {
        Some("goto") if s.args().len() > 1 => Some((s.args()[0].as_atom().to_string(), s.args()[1].as_i64())),
        Some("ifgoto") if s.args().len() > 3 => Some((s.args()[2].as_atom().to_string(), s.args()[3].as_i64())),
        _ => None,
    }
}

/// some top-level `goto L @ t` / `if (c) goto L @ t` has `t` later than the time label in front of `L`: after it the
/// script time is ahead of the time labels of the text
fn jump_time_ahead(stmts: &[Sexp]) -> bool {
    let times = top_level_label_times(stmts);
    stmts.iter().any(|s| top_level_jump_time(s).map_or(false, |(l, t)| times.get(&l).map_or(false, |tl| t > *tl)))
}

/// the same body with those jump times lowered to the time of the label
fn clamp_jump_times(stmts: &[Sexp]) -> Vec<Sexp> {
    let times = top_level_label_times(stmts);
    stmts.iter().map(|s| match top_level_jump_time(s) {
        Some((l, t)) if times.get(&l).map_or(false, |tl| t > *tl) => {
            let mut v: Vec<Sexp> = match s { Sexp::List(v) => v.clone(), x => vec![x.clone()] };
            let k = v.len() - 1;
            v[k] = Sexp::int(times[&l]);
            Sexp::List(v)
        },
        _ => s.clone(),
    }).collect()
}

/// `goto L @ t` / `if (c) goto L @ t` somewhere in the body
fn has_explicit_jump_time(stmts: &[Sexp]) -> bool {
    fn walk(s: &Sexp) -> bool {
        match s.head() {
            Some("goto") => s.args().len() > 1,
            Some("ifgoto") => s.args().len() > 3,
            _ => matches!(s, Sexp::List(v) if v.iter().any(walk)),
        }
    }
    stmts.iter().any(walk)
}

/// `(a:b:c:d)` nested directly as a case of another switch, resolved per difficulty: the same
/// expression for the VM, without any switch inside a switch case
fn flatten_switches(e: &Sexp) -> Sexp {
    fn resolve_at(e: &Sexp, k: usize) -> Sexp {
        if e.head() == Some("sw") {
            let cs = e.args();
            let mut j = k.min(cs.len().saturating_sub(1));
            while j > 0 && matches!(cs[j], Sexp::Atom(_)) { j -= 1; }
            return resolve_at(&cs[j], k);
        }
        flatten_switches(e)
    }
    match e {
        Sexp::List(v) if e.head() == Some("sw") => {
            let n = v.len() - 1;
            let mut out = vec![Sexp::atom("sw")];
            for k in 0..n { out.push(resolve_at(e, k)); }
            Sexp::List(out)
        },
        Sexp::List(v) => Sexp::List(v.iter().map(flatten_switches).collect()),
        x => x.clone(),
    }
}

fn has_nested_switch(e: &Sexp) -> bool {
    match e {
        Sexp::List(v) => (e.head() == Some("sw") && v[1..].iter().any(|c| c.head() == Some("sw"))) || v.iter().any(has_nested_switch),
        _ => false,
    }
}

fn eval_vm(case: &Sexp) -> Sexp {
    let a = case.args();
    let cfg = Cfg::from_sexp(&a[0]);
    let full_raise = a[1].as_atom() == "full";
    let stmts: Vec<Sexp> = a[2].args().to_vec();
    let vals: Vec<Sexp> = a[3..].to_vec();
    let r = run_vm_case(&cfg, full_raise, &stmts, &vals);
    // a mismatch that disappears when nested switches are written out per difficulty is the nested-switch defect
    if r.head() == Some("fail") && r.args()[0].as_atom().starts_with("vm-mismatch") && stmts.iter().any(has_nested_switch) {
        let flat: Vec<Sexp> = stmts.iter().map(flatten_switches).collect();
        let r2 = run_vm_case(&cfg, full_raise, &flat, &vals);
        if r2.head() == Some("pass") { return fail(SIG_NESTED, r.args()[1].as_atom().to_string()); }
    }
    // a mismatch that disappears when the jump instructions get a time argument is the dropped explicit jump time
    if r.head() == Some("fail") && r.args()[0].as_atom().starts_with("vm-mismatch") && cfg.table & lw::T_LOC_ONLY != 0 && has_explicit_jump_time(&stmts) {
        let mut with_time = cfg.clone();
        with_time.table &= !lw::T_LOC_ONLY;
        let r2 = run_vm_case(&with_time, full_raise, &stmts, &vals);
        if r2.head() == Some("pass") { return fail(SIG_LOC, r.args()[1].as_atom().to_string()); }
    }
    // a mismatch that disappears when no jump sets the script time ahead of the time label of its target: the labels the
    // compiler adds itself (`&&` / `||` skip labels, ternary labels, `unless (--x)`) carry the time of their statement, and
    // jumping to them sets the script time back to it
    if r.head() == Some("fail") && r.args()[0].as_atom().starts_with("vm-mismatch") && jump_time_ahead(&stmts) {
        let r2 = run_vm_case(&cfg, full_raise, &clamp_jump_times(&stmts), &vals);
        if r2.head() == Some("pass") { return fail(SIG_AHEAD, r.args()[1].as_atom().to_string()); }
    }
    r
}

fn run_vm_case(cfg: &Cfg, full_raise: bool, stmts: &[Sexp], vals: &[Sexp]) -> Sexp {
    let cfg = cfg.clone();
    let stmts: Vec<Sexp> = stmts.to_vec();
    let vals: Vec<Sexp> = vals.to_vec();
    let mentioned = lw::mentioned_regs(&stmts);
    let pool: Vec<i32> = cfg.pool_ints().into_iter().chain(cfg.pool_floats()).collect();
    // every register the source mentions and every register that is not available as scratch
    let observed: Vec<i32> = lw::all_regs().into_iter().filter(|r| mentioned.contains_key(r) || !pool.contains(r)).collect();
    let r = lw::with_lowered(&cfg, &stmts, |l| {
        let new_stmts = match raise(l, full_raise) {
            Ok(s) => s,
            Err(d) => return fail("raise-rejects-compiler-output", format!("{}; source: {}", crate::util::diag_class(&d), l.text.replace('\n', " "))),
        };
        // a register the source names that was handed to a local explains a mismatch (C05's defect)
        let collision = l.locals.iter().find_map(|x| mentioned.get(&x.4).map(|&outside| (x.0.clone(), x.4, outside)));
        let old_stmts = l.old_stmts.clone();
        let text = l.text.clone();
        let ctx = l.truth.ctx();
        let mut compared = 0;
        let mut skipped = vec![];
        for val in &vals {
            let old = match run_vm(&old_stmts, ctx, val, SOURCE_ITERATIONS) {
                Ok(o) => o,
                Err(msg) => { skipped.push(crate::props::strip_digits(&msg.chars().take(40).collect::<String>())); continue; },
            };
            let new = match run_vm(&new_stmts, ctx, val, COMPILED_ITERATIONS) {
                Ok(n) => n,
                Err(msg) if msg.starts_with("not implemented") || msg.starts_with("not yet implemented") => {
                    // the raised code contains something the AST VM cannot run (a dedicated cmp / jmp pair that
                    // could not be fused back, e.g. when a difficulty switch replicated the cmp)
                    skipped.push(format!("compiled-vm: {}", crate::props::strip_digits(&msg.chars().take(40).collect::<String>())));
                    continue;
                },
                Err(msg) => {
                    let sig = if let Some((_, _, outside)) = &collision { (if *outside { SIG_DIRECT } else { SIG_SWITCH }).to_string() }
                              else if nan_at_float_jump(l, val) { SIG_NAN.to_string() }
                              else { format!("compiled-code-fails-where-source-runs {}", crate::props::strip_digits(&msg.chars().take(40).collect::<String>())) };
                    return fail(sig, format!("{msg}; valuation {val}; source: {}; compiled: {}", text.replace('\n', " "), truth::fmt::stringify(&ast::Block(new_stmts.clone())).replace('\n', " ")));
                },
            };
            if let Some((what, detail)) = compare(&old, &new, &observed) {
                let sig = match &collision {
                    Some((_, _, outside)) => (if *outside { SIG_DIRECT } else { SIG_SWITCH }).to_string(),
                    None if nan_at_float_jump(l, val) => SIG_NAN.to_string(),
                    None => {
                        let mut s = format!("vm-mismatch {what}");
                        if full_raise {
                            // does the difference come from block/switch recovery on the raise side?
                            if let Ok(min_stmts) = raise(l, false) {
                                let ctx = l.truth.ctx();
                                if let Ok(n2) = run_vm(&min_stmts, ctx, val, COMPILED_ITERATIONS) { if compare(&old, &n2, &observed).is_none() { s.push_str(" only-with-block-raising"); } }
                            }
                        }
                        s
                    },
                };
                let what_local = collision.as_ref().map(|c| format!(" [local {} bound to named register {}]", c.0, c.1)).unwrap_or_default();
                return fail(sig, format!("{detail}{what_local}; valuation {val}; source: {}; compiled: {}", text.replace('\n', " "), truth::fmt::stringify(&ast::Block(new_stmts.clone())).replace('\n', " ")));
            }
            compared += 1;
        }
        if compared == 0 { lw::skip("source-vm", skipped.join(" | ")) } else { Sexp::app("pass", vec![Sexp::int(compared), Sexp::int(l.instrs.len() as i64), Sexp::int(l.locals.len() as i64)]) }
    });
    match r {
        Ok(s) => s,
        Err(Lower::Warned(w)) => lw::skip("warning", w),
        Err(Lower::Rejected { stage, class, no_error_diag, diagnostics }) => {
            if no_error_diag { return fail("failure-without-error-diagnostic", format!("stage {stage}: {diagnostics}")); }
            if std::env::var("VERIF_VERBOSE").is_ok() { eprintln!("{diagnostics}"); }
            lw::skip(&format!("rejected-{stage}"), class)
        },
    }
}

fn opts(table: u32, control: bool, model: bool) -> GenOpts {
    GenOpts { table, control, switches: true, ternary: !model, anti: false, diff_labels: !model, max_depth: 3, time_labels: !model, model_fragment: model }
}

/// intrinsic tables of the jump correspondence: native conditional jump per comparison / for some comparisons only
/// (alone, or next to the cmp+jmp pair) / the pair only / none; either or both counting jumps or none; both
/// argument orders; with and without an unconditional jump; with the fallback encodings of the arithmetic
pub const JUMP_TABLES: &[u32] = &[
    0,
    lw::T_TWO_PART,
    lw::T_COUNT_GT | lw::T_TIME_FIRST,
    lw::T_TWO_PART | lw::T_TIME_FIRST | lw::T_BOTH_COUNT | lw::T_NO_UNOPS,
    lw::T_TWO_PART | lw::T_FEW_COND | lw::T_BOTH_COUNT,
    lw::T_BOTH_COUNT | lw::T_NO_ASSIGN_OPS | lw::T_NO_UNOPS,
];
/// tables in which some jump statements cannot be compiled (the rejection must be the same diagnostic)
pub const JUMP_TABLES_RESTRICTED: &[u32] = &[
    lw::T_FEW_COND,
    lw::T_FEW_COND | lw::T_TIME_FIRST | lw::T_NO_ASSIGN_OPS | lw::T_NO_UNOPS | lw::T_NO_MUL_SUB,
    lw::T_NO_COND | lw::T_NO_COUNT,
    lw::T_NO_JMP,
    lw::T_NO_JMP | lw::T_TWO_PART | lw::T_COUNT_GT,
    lw::T_LOC_ONLY,
    lw::T_LOC_ONLY | lw::T_TWO_PART | lw::T_BOTH_COUNT,
];

/// `(lowj CFG (body ...))`: like `c05::eval_assign`, with jump offsets turned into instruction positions
fn eval_lowj(case: &Sexp) -> Sexp {
    let cfg = Cfg::from_sexp(&case.args()[0]);
    let stmts: Vec<Sexp> = case.args()[1].args().to_vec();
    let sigs = lw::signatures(cfg.table);
    let r = lw::with_lowered(&cfg, &stmts, |l| Sexp::app("ok", lw::instrs_sexp_labels(&sigs, &l.instrs)));
    match r {
        Ok(s) => s,
        Err(Lower::Warned(w)) => Sexp::app("warn", vec![Sexp::str(w)]),
        Err(Lower::Rejected { stage, class, .. }) => if stage == "lower" { Sexp::app("err", vec![Sexp::str(class)]) } else { Sexp::app("rejected", vec![Sexp::atom(stage), Sexp::str(class)]) },
    }
}

pub const TABLES: &[u32] = &[
    0,
    lw::T_NO_ASSIGN_OPS | lw::T_NO_UNOPS,
    lw::T_NO_ASSIGN_OPS | lw::T_NO_UNOPS | lw::T_NO_MUL_SUB,
    lw::T_TWO_PART,
    lw::T_COUNT_GT | lw::T_TIME_FIRST,
    lw::T_TWO_PART | lw::T_TIME_FIRST | lw::T_BOTH_COUNT | lw::T_NO_UNOPS,
    lw::T_NO_MATH | lw::T_NO_ASSIGN_OPS,
];

impl Prop for C02 {
    fn id(&self) -> &'static str { "C02" }
    fn relation(&self) -> &'static str {
        "low: instruction stream (time, opcode, difficulty mask, argument kinds and values) emitted by Lowerer::lower_sub under TestLanguage for straight-line assignment/call bodies == Lean `Lower.compile` under the same intrinsic table and scratch pool; lowj: the same for bodies with labels, `if|unless (c) goto L [@ t]`, `goto L [@ t]`, counting jumps, ternaries and relative time labels == Lean `Lower.compileJ`, every jump offset compared as the position of its target instruction in the emitted stream, jump times as values; error class on rejection; srcvm: AstVm (iteration limit 300) on the desugared flat source body from every valuation == Lean `Lower.runJS` (time, real_time, instr_log with the real_time of every call, all 16 registers; failures by class: iteration limit / undefined label / other); tgtvm: AstVm on raise(lower(source)) == Lean `Lower.execT` on the model's `lowerBodyJ` (time, real_time, instr_log with stamps, every register the source mentions or that is not available as scratch; rejected compiles and source runs that do not finish are skipped on both sides)"
    }
    fn rule(&self) -> &'static str {
        "generated bodies over 8 int / 6 float registers + 2 non-scratch registers, locals in nested blocks, arithmetic/bitwise/logic/comparison/cast/sigil/ternary/difficulty-switch expressions, 12 assignment operators, if/unless/while/do-while/times/loop+break/goto/counting jumps, calls with 0-4 complex arguments, time labels, difficulty labels; jump bodies for the model: 1-3 labels placed anywhere, conditions of every shape (comparisons of complex int/float operands, nested && || !, non-comparison expressions, constants, leaves, ternaries and switches inside), counting conditions in all three spellings, explicit jump times, jumps inside nested blocks, rare undefined/duplicate labels, under 11 jump tables (conditional jump per comparison / for == < >= only / cmp+jmp pair / both / none; CountJmp() / CountJmp(>) / both / none; with and without Jmp; `ot` and `to`); x 7 intrinsic tables x pools of 0..8/0..6 scratch registers x 3 (quick) or 8 valuations (boundary + small) x difficulties 0-3; machine cases (srcvm / tgtvm): flat bodies of 2-7 statements + 1-3 labels: up to 2 locals declared with initialiser at the top, `if|unless (c) goto L [@ t]` with conditions of every shape, counting jumps in all spellings incl. backward counting loops, `goto L [@ t]` (forward, backward, explicit times 0-40 on both sides of the label's time), assignments / assign-ops / calls over int and float expressions with ternaries, switches and casts, relative time labels, rare undefined labels; non-trivial = at least one statement needs more than one instruction"
    }
    fn theorems(&self) -> &'static [&'static str] { &["TruthModel.C02.lowerSet_sound", "TruthModel.C02.lowerAssign_sound_partial", "TruthModel.C02.lowerCall_sound_partial", "TruthModel.C02.alternatives_sound",
          "TruthModel.C02.lowerSetJ_eq", "TruthModel.C02.lowerCondJump_sound", "TruthModel.C02.lowerCondJump_reach", "TruthModel.C02.lowerTernary_sound", "TruthModel.C02.nan_negation_witness",
          "TruthModel.C02.lowerBody_sound", "TruthModel.C02.lowerBody_diverges", "TruthModel.C02.lowerSetT_sound", "TruthModel.C02.lowerCondT_sound", "TruthModel.C02.lowerBodyT_sound", "TruthModel.C02.lowerBodyT_diverges", "TruthModel.C02.assign_preserves_exec", "TruthModel.C02.assign_preserves_exec_straight", "TruthModel.C02.lowerBody_assigned_sound"] }
    fn timeout_secs(&self) -> u64 { 60 }

    fn gen(&self, tier: Tier, rng: &mut Rng) -> Vec<Case> {
        let scale = if tier == Tier::Quick { 1 } else { 15 };
        let nvals = if tier == Tier::Quick { 3 } else { 8 };
        let mut out = vec![];
        for k in 0..10000 * scale {
            let cfg = Cfg { ints: if rng.chance(2, 3) { 6 + rng.below(3) } else { rng.below(9) }, floats: if rng.chance(2, 3) { 4 + rng.below(3) } else { rng.below(7) }, table: *rng.pick(TABLES), simplify: rng.chance(1, 3) };
            let control = k % 4 != 0;
            let mut g = BodyGen::new(rng, opts(cfg.table, control, false));
            let n = 1 + g.rng.below(5);
            let mut body = g.body(n, 2);
            // a trailing time label is only observable through a following instruction
            body.push(Sexp::app("call", vec![Sexp::int(lw::OP_PLAIN as i64)]));
            let nt = lw::contains_head(&body, "bin") || lw::contains_head(&body, "un") || lw::contains_head(&body, "tern");
            let mut v = vec![cfg.to_sexp(), Sexp::atom(if rng.chance(1, 4) { "full" } else { "min" }), Sexp::app("body", body)];
            for i in 0..nvals { v.push(lw::valuation(rng, i % 2 == 0)); }
            out.push(Case::search(Sexp::app("vm", v)).tag(format!("vm-table-{}", cfg.table)).tag(if control { "vm-control" } else { "vm-straight" }).trivial(!nt));
        }
        // directed: a difficulty switch whose case is itself a (simple) switch
        for _ in 0..60 * scale {
            let cfg = Cfg { ints: 8, floats: 6, table: *rng.pick(TABLES), simplify: rng.chance(1, 2) };
            let mut g = BodyGen::new(rng, opts(cfg.table, false, false));
            let fl = g.rng.chance(1, 3);
            let inner = Sexp::app("sw", vec![g.leaf(fl), if g.rng.chance(1, 2) { g.leaf(fl) } else { Sexp::atom("_") }, g.leaf(fl), g.leaf(fl)]);
            let mut cases = vec![inner];
            for _ in 1..4 { cases.push(if g.rng.chance(1, 2) { Sexp::atom("_") } else { g.leaf(fl) }); }
            let sw = Sexp::app("sw", cases);
            let stmt = if g.rng.chance(1, 2) { Sexp::app("call", vec![Sexp::int(lw::plain_opcode(if fl { "f" } else { "S" }) as i64), sw]) }
                       else { let var = Sexp::app("reg", vec![Sexp::int(if fl { lw::NS_FLOAT } else { lw::NS_INT }), Sexp::atom("n"), Sexp::atom("raw")]); Sexp::app("asg", vec![Sexp::atom("set"), var, sw]) };
            let mut v = vec![cfg.to_sexp(), Sexp::atom("min"), Sexp::app("body", vec![stmt, Sexp::app("call", vec![Sexp::int(lw::OP_PLAIN as i64)])])];
            for i in 0..nvals.max(4) { let mut val = lw::valuation(rng, i % 2 == 0); if let Sexp::List(ref mut x) = val { x[1] = Sexp::int((i % 4) as i64); } v.push(val); }
            out.push(Case::search(Sexp::app("vm", v)).tag("vm-nested-switch"));
        }
        // directed: explicit jump times in a language whose jump instructions carry no time (TH06 ANM `ins_5`)
        for _ in 0..40 * scale {
            // (half of them under tables WITH a time argument: the explicit time must arrive)
            let cfg = Cfg { ints: 8, floats: 6, table: *rng.pick(&[lw::T_LOC_ONLY, lw::T_LOC_ONLY | lw::T_TWO_PART, 0, lw::T_TIME_FIRST | lw::T_COUNT_GT]), simplify: false };
            let call = |k: i64| Sexp::app("call", vec![Sexp::int(lw::plain_opcode("S") as i64), Sexp::app("i", vec![Sexp::int(k)])]);
            let t = rng.range(0, 30);
            let jump = if rng.chance(1, 2) { Sexp::app("goto", vec![Sexp::atom("lab1"), Sexp::int(t)]) }
                       else { Sexp::app("ifgoto", vec![Sexp::atom("if"), Sexp::app("bin", vec![Sexp::atom("ge"), Sexp::app("reg", vec![Sexp::int(lw::INT_REGS[0] as i64), Sexp::atom("n"), Sexp::atom("raw")]), Sexp::app("i", vec![Sexp::int(rng.range(-3, 3))])]), Sexp::atom("lab1"), Sexp::int(t)]) };
            let body = vec![call(1), jump, Sexp::app("wait", vec![Sexp::int(rng.range(1, 12))]), call(2), Sexp::app("label", vec![Sexp::atom("lab1")]), call(3), Sexp::app("wait", vec![Sexp::int(rng.range(1, 12))]), call(4)];
            let mut v = vec![cfg.to_sexp(), Sexp::atom("min"), Sexp::app("body", body)];
            for i in 0..nvals { v.push(lw::valuation(rng, i % 2 == 0)); }
            out.push(Case::search(Sexp::app("vm", v)).tag(if cfg.table & lw::T_LOC_ONLY != 0 { "vm-jump-without-time-argument" } else { "vm-explicit-jump-time" }));
        }
        // directed: a jump whose explicit time is later than the time label of its target, followed by a statement the
        // compiler gives a label of its own (skip label of `&&` / `||`, ternary labels, `unless (--x)`)
        for _ in 0..40 * scale {
            let cfg = Cfg { ints: 8, floats: 6, table: *rng.pick(&[0, lw::T_TWO_PART, lw::T_BOTH_COUNT | lw::T_TIME_FIRST]), simplify: false };
            let call = |k: i64| Sexp::app("call", vec![Sexp::int(lw::plain_opcode("S") as i64), Sexp::app("i", vec![Sexp::int(k)])]);
            let reg = |k: usize| Sexp::app("reg", vec![Sexp::int(lw::INT_REGS[k] as i64), Sexp::atom("n"), Sexp::atom("raw")]);
            let t = rng.range(0, 40);
            let jump = if rng.chance(1, 2) { Sexp::app("goto", vec![Sexp::atom("lab1"), Sexp::int(t)]) }
                       else { Sexp::app("ifgoto", vec![Sexp::atom("if"), Sexp::app("bin", vec![Sexp::atom("ge"), reg(0), Sexp::app("i", vec![Sexp::int(rng.range(-3, 3))])]), Sexp::atom("lab1"), Sexp::int(t)]) };
            let own_label = match rng.below(4) {
                0 => Sexp::app("ifgoto", vec![Sexp::atom("if"), Sexp::app("bin", vec![Sexp::atom("land"), reg(1), reg(2)]), Sexp::atom("lab2")]),
                1 => Sexp::app("ifgoto", vec![Sexp::atom("unless"), Sexp::app("bin", vec![Sexp::atom("lor"), reg(1), reg(2)]), Sexp::atom("lab2")]),
                2 => Sexp::app("asg", vec![Sexp::atom("set"), reg(3), Sexp::app("tern", vec![reg(1), reg(2), Sexp::app("i", vec![Sexp::int(7)])])]),
                _ => Sexp::app("ifgoto", vec![Sexp::atom("unless"), Sexp::app("predec", vec![reg(1)]), Sexp::atom("lab2")]),
            };
            let body = vec![call(1), jump, Sexp::app("wait", vec![Sexp::int(rng.range(1, 12))]), call(2), Sexp::app("label", vec![Sexp::atom("lab1")]), own_label,
                            Sexp::app("wait", vec![Sexp::int(rng.range(1, 30))]), call(3), Sexp::app("label", vec![Sexp::atom("lab2")]), call(4)];
            let mut v = vec![cfg.to_sexp(), Sexp::atom("min"), Sexp::app("body", body)];
            for i in 0..nvals { v.push(lw::valuation(rng, i % 2 == 0)); }
            out.push(Case::search(Sexp::app("vm", v)).tag("vm-jump-time-ahead-of-label"));
        }
        for _ in 0..4000 * scale {
            let cfg = Cfg { ints: rng.below(9), floats: rng.below(7), table: *rng.pick(&[0, 0, TABLES[1], TABLES[2], TABLES[6]]), simplify: false };
            let mut g = BodyGen::new(rng, opts(cfg.table, false, true));
            let n = 1 + g.rng.below(4);
            let body = g.body(n, 2);
            let nt = lw::contains_head(&body, "bin") || lw::contains_head(&body, "un");
            out.push(Case::corr(Sexp::app("low", vec![cfg.to_sexp(), Sexp::app("body", body)])).tag(format!("low-table-{}", cfg.table)).trivial(!nt));
        }
        // correspondence with the Lean model: labels, conditional / counting / unconditional jumps, ternaries
        for _ in 0..4000 * scale {
            let table = if rng.chance(4, 5) { *rng.pick(JUMP_TABLES) } else { *rng.pick(JUMP_TABLES_RESTRICTED) };
            let cfg = Cfg { ints: if rng.chance(2, 3) { 5 + rng.below(4) } else { rng.below(9) }, floats: if rng.chance(2, 3) { 3 + rng.below(4) } else { rng.below(7) }, table, simplify: false };
            let mut o = opts(cfg.table, false, true);
            o.ternary = true;
            o.time_labels = true;
            let mut g = BodyGen::new(rng, o);
            g.jump_model = true;
            let n = 1 + g.rng.below(5);
            let body = g.jump_body(n);
            let mut c = Case::corr(Sexp::app("lowj", vec![cfg.to_sexp(), Sexp::app("body", body.clone())])).tag(format!("lowj-table-{}", cfg.table));
            for (head, tag) in [("ifgoto", "lowj-cond-jump"), ("predec", "lowj-count-jump"), ("tern", "lowj-ternary"), ("goto", "lowj-goto")] { if lw::contains_head(&body, head) { c = c.tag(tag); } }
            if body.iter().any(|s| s.head() == Some("ifgoto") && matches!(s.args()[1].head(), Some("bin")) && matches!(s.args()[1].args()[0].as_atom(), "lor" | "land")) { c = c.tag("lowj-logic-cond"); }
            if body.iter().any(|s| s.head() == Some("ifgoto") && s.args()[1].head() == Some("un")) { c = c.tag("lowj-negated-cond"); }
            if body.iter().any(|s| matches!(s.head(), Some("ifgoto") | Some("goto")) && s.args().len() > if s.head() == Some("goto") { 1 } else { 3 }) { c = c.tag("lowj-explicit-time"); }
            out.push(c);
        }
        // correspondence of the two machines `lowerBody_sound` relates with the real VM: the source machine on flat bodies
        // with jumps (`srcvm`), the target machine on the model's lowering against the real compiled code (`tgtvm`)
        for k in 0..2400 * scale {
            let target = k % 3 == 2;
            let table = if target { *rng.pick(JUMP_TABLES) } else { *rng.pick(&[0, lw::T_COUNT_GT, lw::T_BOTH_COUNT]) };
            let cfg = Cfg { ints: if target { 6 + rng.below(3) } else { 8 }, floats: if target { 4 + rng.below(3) } else { 6 }, table, simplify: false };
            let mut o = opts(cfg.table, false, true);
            o.ternary = true;
            o.time_labels = true;
            // (a cmp + jmp pair replicated by a difficulty switch cannot be fused back by the raiser: the VM cannot run it)
            if target && table & lw::T_TWO_PART != 0 { o.switches = false; }
            let mut g = BodyGen::new(rng, o);
            g.jump_model = true;
            let n = 2 + g.rng.below(6);
            let mut body = no_float_rem(&g.flat_jump_body(n));
            // a trailing time label is only observable through a following instruction; the compiled script always ends in
            // one: how long the VM waits at a label that ENDS the raised script depends on where the raiser puts that label
            // relative to a trailing time label (an artefact of observing the compiled code through raise + AstVm)
            if target || rng.chance(3, 4) { body.push(Sexp::app("call", vec![Sexp::int(lw::OP_PLAIN as i64)])); }
            let mut v = vec![cfg.to_sexp(), Sexp::app("body", body.clone())];
            if target { v.push(Sexp::app("obs", observed_regs(&cfg, &body).into_iter().map(|r| Sexp::int(r)).collect())); }
            for i in 0..nvals { v.push(lw::valuation(rng, i % 3 == 0)); }
            let head = if target { "tgtvm" } else { "srcvm" };
            let mut c = Case::corr(Sexp::app(head, v)).tag(format!("{head}-table-{}", cfg.table));
            for (h, tag) in [("ifgoto", "cond-jump"), ("predec", "count-jump"), ("goto", "goto"), ("wait", "time-label"), ("tern", "ternary"), ("sw", "switch"), ("decl", "local")] { if lw::contains_head(&body, h) { c = c.tag(format!("{head}-{tag}")); } }
            if body.iter().any(|s| matches!(s.head(), Some("ifgoto") | Some("goto")) && s.args().len() > if s.head() == Some("goto") { 1 } else { 3 }) { c = c.tag(format!("{head}-explicit-time")); }
            out.push(c);
        }
        // development aid: `VERIF_ONLY=<head>` keeps only the cases of one kind
        if let Ok(h) = std::env::var("VERIF_ONLY") { out.retain(|c| c.sexp.head() == Some(h.as_str())); }
        lw::dump_cases(&out);
        out
    }

    fn eval(&self, case: &Sexp) -> Sexp {
        match case.head() {
            Some("vm") => eval_vm(case),
            Some("low") => super::c05::eval_assign(case, false),
            Some("lowj") => eval_lowj(case),
            Some("srcvm") => eval_srcvm(case),
            Some("tgtvm") => eval_tgtvm(case),
            _ => Sexp::atom("bad-case"),
        }
    }

    fn neighbours(&self, case: &Sexp, rng: &mut Rng) -> Vec<Case> {
        // model and implementation lower a body differently: does the implementation's code still behave like the source?
        if !matches!(case.head(), Some("low") | Some("lowj")) { return vec![]; }
        let a = case.args();
        let mut v = vec![a[0].clone(), Sexp::atom("min"), a[1].clone()];
        for i in 0..8 { v.push(lw::valuation(rng, i % 2 == 0)); }
        vec![Case::search(Sexp::app("vm", v))]
    }
}
