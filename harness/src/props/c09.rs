//! C09 — the type checker accepts exactly the well-typed scripts and predicts value types.
//!
//! Cases (grammar in lean/TruthModel/Driver/C09.lean):
//!   (prog CTX (STMT*))   corr   Ok / Err class of `passes::type_check::run` on the parsed file
//!                               == Lean `checkStmts codeCfg`; judged against the reference typer
//!   (expr CTX EXPR)      corr   Ok(type) / Err class == Lean `check`; VM value type == static type
//!   (pipe CTX (STMT*))   search accepted programs go through the real ANM compiler without panic
//!
//! The reference typer (`RefTyper`) is written from the documented rules and shares no code with
//! `truth` or with the Lean model's `check`; it is the executable counterpart of the Lean
//! relation `HasType` / `WellTypedStmts`.

use super::{Case, Failure, Prop, Tier, fail, default_judge};
use crate::rng::Rng;
use crate::sexp::Sexp;
use crate::util::diag_class;
use truth::{ast, LanguageKey, RegId, ScalarValue};

pub struct C09;

// ---------------------------------------------------------------------------------------------
// the fixed part of the context: registers and instruction signatures

/// (register, type): i/f as in the TH12 ANM core mapfile; 10050 is declared `?` in the user
/// mapfile, 10051 is in no mapfile at all (both untyped).
const REGS: &[(i32, char)] = &[
    (10000, 'i'), (10001, 'i'), (10002, 'i'), (10003, 'i'),
    (10004, 'f'), (10005, 'f'), (10006, 'f'), (10007, 'f'),
    (10050, 'u'), (10051, 'u'),
];
const REG_NOT_IN_MAPFILE: i32 = 10051;

/// (opcode, abi string, parameters as (type, optional))
const SIGS: &[(i32, &str, &[(char, bool)])] = &[
    (900, "S", &[('i', false)]),
    (901, "f", &[('f', false)]),
    (902, "Sf", &[('i', false), ('f', false)]),
    (903, "SSf", &[('i', false), ('i', false), ('f', false)]),
    (904, "", &[]),
    // padding (`_`) is not a call parameter (`abi_to_signature`, since the fix 9d4386e)
    (905, "S__", &[('i', false)]),
    (906, "S_f", &[('i', false), ('f', false)]),
    (907, "z(bs=4)", &[('s', false)]),
];
/// opcode without signature
const OPCODE_NO_SIG: i32 = 999;

const FLOAT_LITS: &[u32] = &[0x3f000000, 0x3fc00000, 0x40000000, 0x40500000, 0x3f800000];
const STR_LITS: &[&str] = &["a", "bc", "xyz"];

fn atom(s: &str) -> Sexp { Sexp::atom(s) }
fn app(h: &str, v: Vec<Sexp>) -> Sexp { Sexp::app(h, v) }
fn int(i: i64) -> Sexp { Sexp::int(i) }

/// `consts`: the variables declared by `const` items (they cannot be assigned to)
fn ctx_sexp(vars: &[(usize, char)], consts: &[usize]) -> Sexp {
    let regs = REGS.iter().map(|&(r, t)| Sexp::list(vec![int(r as i64), atom(&t.to_string())])).collect();
    let vs = vars.iter().map(|&(n, t)| { let mut v = vec![int(n as i64), atom(&t.to_string())]; if consts.contains(&n) { v.push(atom("c")); } Sexp::list(v) }).collect();
    let sigs = SIGS.iter().map(|&(op, _, ps)| {
        let mut v = vec![int(op as i64)];
        for &(t, o) in ps { v.push(Sexp::list(vec![atom(&t.to_string()), atom(if o { "o" } else { "r" })])); }
        Sexp::list(v)
    }).collect();
    app("ctx", vec![app("regs", regs), app("vars", vs), app("sigs", sigs)])
}

fn mapfile_text() -> String {
    let mut s = String::from("!anmmap\n!gvar_types\n");
    for &(r, t) in REGS {
        if r == REG_NOT_IN_MAPFILE { continue; }
        s.push_str(&format!("{} {}\n", r, match t { 'i' => "$", 'f' => "%", _ => "?" }));
    }
    s.push_str("!ins_signatures\n");
    for &(op, abi, _) in SIGS { s.push_str(&format!("{} {}\n", op, abi)); }
    s
}

// ---------------------------------------------------------------------------------------------
// rendering to truth source text

fn var_kw(t: char) -> &'static str { match t { 'i' => "int", 'f' => "float", 's' => "string", _ => "var" } }
fn sig_text(s: &str) -> &'static str { match s { "i" => "$", "f" => "%", _ => "" } }

fn binop_text(op: &str) -> &'static str {
    match op {
        "add" => "+", "sub" => "-", "mul" => "*", "div" => "/", "rem" => "%",
        "eq" => "==", "ne" => "!=", "lt" => "<", "le" => "<=", "gt" => ">", "ge" => ">=",
        "lor" => "||", "land" => "&&", "xor" => "^", "band" => "&", "bor" => "|",
        "shl" => "<<", "shr" => ">>", "ushr" => ">>>",
        _ => panic!("binop {op}"),
    }
}
fn assignop_text(op: &str) -> &'static str {
    match op {
        "assign" => "=", "add" => "+=", "sub" => "-=", "mul" => "*=", "div" => "/=", "rem" => "%=",
        "bor" => "|=", "xor" => "^=", "band" => "&=", "shl" => "<<=", "shr" => ">>=", "ushr" => ">>>=",
        _ => panic!("assignop {op}"),
    }
}

fn expr_text(e: &Sexp) -> String {
    let a = e.args();
    match e.head().expect("expr head") {
        "i" => format!("{}", a[0].as_i64()),
        "f" => { let x = f32::from_bits(a[0].as_i64() as u32); let mut s = format!("{}", x); if !s.contains('.') { s.push_str(".0"); } s },
        "s" => format!("\"{}\"", a[0].as_atom()),
        "reg" => format!("{}REG[{}]", sig_text(a[1].as_atom()), a[0].as_i64()),
        "var" => format!("{}v{}", sig_text(a[1].as_atom()), a[0].as_i64()),
        "un" => match a[0].as_atom() {
            "castI" => format!("int({})", expr_text(&a[1])),
            "castF" => format!("float({})", expr_text(&a[1])),
            "sigI" => format!("$({})", expr_text(&a[1])),
            "sigF" => format!("%({})", expr_text(&a[1])),
            "neg" => format!("(- {})", expr_text(&a[1])),
            "not" => format!("(! {})", expr_text(&a[1])),
            "bnot" => format!("(~ {})", expr_text(&a[1])),
            f => format!("{}({})", f, expr_text(&a[1])),
        },
        "bin" => format!("({} {} {})", expr_text(&a[1]), binop_text(a[0].as_atom()), expr_text(&a[2])),
        "tern" => format!("({} ? {} : {})", expr_text(&a[0]), expr_text(&a[1]), expr_text(&a[2])),
        "call" => format!("ins_{}({})", a[0].as_i64(), a[1..].iter().map(expr_text).collect::<Vec<_>>().join(", ")),
        h => panic!("bad expr head {h}"),
    }
}

fn ref_text(r: &Sexp) -> String {
    let a = r.args();
    match a[0].as_atom() {
        "r" => format!("{}REG[{}]", sig_text(a[2].as_atom()), a[1].as_i64()),
        _ => format!("{}v{}", sig_text(a[2].as_atom()), a[1].as_i64()),
    }
}

struct Vars(Vec<(usize, char)>);
impl Vars {
    fn from_ctx(ctx: &Sexp) -> Vars {
        Vars(ctx.args()[1].args().iter().map(|p| { let p = p.as_list(); (p[0].as_usize(), p[1].as_atom().chars().next().unwrap()) }).collect())
    }
    fn ty(&self, n: usize) -> char { self.0.iter().find(|x| x.0 == n).map(|x| x.1).unwrap_or('u') }
}

fn block_text(stmts: &[Sexp], vars: &Vars, out: &mut String, ind: usize) {
    out.push_str("{\n");
    for s in stmts { stmt_text(s, vars, out, ind + 1); }
    for _ in 0..ind { out.push_str("  "); }
    out.push('}');
}

fn stmt_text(s: &Sexp, vars: &Vars, out: &mut String, ind: usize) {
    for _ in 0..ind { out.push_str("  "); }
    let a = s.args();
    match s.head().expect("stmt head") {
        "estmt" => out.push_str(&format!("{};", expr_text(&a[0]))),
        "assign" => out.push_str(&format!("{} {} {};", ref_text(&a[0]), assignop_text(a[1].as_atom()), expr_text(&a[2]))),
        "decl" => {
            let n = a[0].as_usize();
            match a.get(1) {
                Some(e) => out.push_str(&format!("{} v{} = {};", var_kw(vars.ty(n)), n, expr_text(e))),
                None => out.push_str(&format!("{} v{};", var_kw(vars.ty(n)), n)),
            }
        },
        "const" => { let n = a[0].as_usize(); out.push_str(&format!("const {} v{} = {};", var_kw(vars.ty(n)), n, expr_text(&a[1]))); },
        "if" | "ifelif" | "ifnoelse" => {
            out.push_str(&format!("if ({}) ", expr_text(&a[0])));
            block_text(a[1].as_list(), vars, out, ind);
            match s.head().unwrap() {
                "if" => { out.push_str(" else "); block_text(a[2].as_list(), vars, out, ind); },
                "ifelif" => {
                    // the else branch is exactly one `if` statement: render as `else if`
                    out.push_str(" else ");
                    let mut inner = String::new();
                    stmt_text(&a[2].as_list()[0], vars, &mut inner, ind);
                    out.push_str(inner.trim_start().trim_end_matches('\n'));
                },
                _ => {},
            }
        },
        "while" => { out.push_str(&format!("while ({}) ", expr_text(&a[0]))); block_text(a[1].as_list(), vars, out, ind); },
        "dowhile" => { out.push_str("do "); block_text(a[1].as_list(), vars, out, ind); out.push_str(&format!(" while ({});", expr_text(&a[0]))); },
        "loop" => { out.push_str("loop "); block_text(a[0].as_list(), vars, out, ind); },
        "times" => { out.push_str(&format!("times({}) ", expr_text(&a[0]))); block_text(a[1].as_list(), vars, out, ind); },
        "timesc" => { out.push_str(&format!("times({} = {}) ", ref_text(&a[0]), expr_text(&a[1]))); block_text(a[2].as_list(), vars, out, ind); },
        "cjump" => {
            let target = if a[1].as_atom() == "break" { "break".to_string() } else { format!("goto lbl{}", a[2].as_i64()) };
            out.push_str(&format!("{} ({}) {};", a[0].as_atom(), expr_text(&a[3]), target));
        },
        "inert" => match a[0].as_atom() {
            "goto" => out.push_str(&format!("goto lbl{};", a[1].as_i64())),
            "break" => out.push_str("break;"),
            "label" => out.push_str(&format!("lbl{}:", a[1].as_i64())),
            "abstime" => out.push_str(&format!("{}:", a[1].as_i64())),
            k => panic!("inert {k}"),
        },
        "block" => block_text(a[0].as_list(), vars, out, ind),
        "ret" => match a.get(0) { Some(e) => out.push_str(&format!("return {};", expr_text(e))), None => out.push_str("return;") },
        "func" => { out.push_str(&format!("inline {} fn{}() ", a[1].as_atom(), a[0].as_i64())); block_text(a[2].as_list(), vars, out, ind); },
        "script" => { out.push_str(&format!("script s{} ", a[0].as_i64())); block_text(a[1].as_list(), vars, out, ind); },
        "interrupt" => out.push_str(&format!("interrupt[{}]:", expr_text(&a[0]))),
        "reltime" => out.push_str(&format!("+{}:", expr_text(&a[0]))),
        h => panic!("bad stmt head {h}"),
    }
    out.push('\n');
}

pub fn program_text(ctx: &Sexp, items: &[Sexp]) -> String {
    let vars = Vars::from_ctx(ctx);
    let mut out = String::new();
    for s in items { stmt_text(s, &vars, &mut out, 0); }
    out
}

// ---------------------------------------------------------------------------------------------
// reference typer: the documented rules, nothing else

#[derive(Copy, Clone, PartialEq, Eq, Debug)]
enum T { I, F, S }
#[derive(Copy, Clone, PartialEq, Eq, Debug)]
enum ET { Void, Val(T) }

struct RefTyper { regs: Vec<(i64, Option<T>)>, vars: Vec<(i64, Option<T>)>, consts: Vec<i64>, sigs: Vec<(i64, Vec<(Option<T>, bool)>)> }

/// why an expression is not typable; `Padding` marks calls to a signature whose optional
/// parameters are not all at the end (where "the corresponding parameter" is what the arity
/// rule says, not what a positional zip pairs up)
#[derive(Copy, Clone, PartialEq, Eq, Debug)]
enum Ill { Plain, Padding }

fn vt(c: &str) -> Option<T> { match c { "i" => Some(T::I), "f" => Some(T::F), "s" => Some(T::S), _ => None } }
fn numeric(t: T) -> bool { t == T::I || t == T::F }

impl RefTyper {
    fn new(ctx: &Sexp) -> RefTyper {
        let a = ctx.args();
        let pairs = |s: &Sexp| s.args().iter().map(|p| { let p = p.as_list(); (p[0].as_i64(), vt(p[1].as_atom())) }).collect::<Vec<_>>();
        RefTyper {
            regs: pairs(&a[0]), vars: pairs(&a[1]),
            consts: a[1].args().iter().filter(|p| p.as_list().get(2).map(|m| m.as_atom() == "c").unwrap_or(false)).map(|p| p.as_list()[0].as_i64()).collect(),
            sigs: a[2].args().iter().map(|s| { let s = s.as_list(); (s[0].as_i64(), s[1..].iter().map(|p| { let p = p.as_list(); (vt(p[0].as_atom()), p[1].as_atom() == "o") }).collect()) }).collect(),
        }
    }
    fn inherent(&self, is_reg: bool, id: i64) -> Option<T> {
        let tbl = if is_reg { &self.regs } else { &self.vars };
        tbl.iter().find(|x| x.0 == id).and_then(|x| x.1)
    }
    /// a variable access through an optional sigil
    fn access(&self, is_reg: bool, id: i64, sig: &str) -> Result<T, Ill> {
        let inh = self.inherent(is_reg, id);
        match sig {
            "n" => inh.ok_or(Ill::Plain),                                       // needs a type of its own
            s => if inh == Some(T::S) { Err(Ill::Plain) } else { Ok(if s == "i" { T::I } else { T::F }) }, // sigils only on numeric variables
        }
    }
    fn value(&self, e: &Sexp) -> Result<T, Ill> {
        match self.expr(e)? { ET::Val(t) => Ok(t), ET::Void => Err(Ill::Plain) }
    }
    fn expr(&self, e: &Sexp) -> Result<ET, Ill> {
        let a = e.args();
        Ok(ET::Val(match e.head().expect("expr") {
            "i" => T::I, "f" => T::F, "s" => T::S,
            "reg" => self.access(true, a[0].as_i64(), a[1].as_atom())?,
            "var" => self.access(false, a[0].as_i64(), a[1].as_atom())?,
            "un" => {
                let t = self.value(&a[1])?;
                match a[0].as_atom() {
                    "neg" => if numeric(t) { t } else { return Err(Ill::Plain) },
                    "not" | "bnot" => if t == T::I { T::I } else { return Err(Ill::Plain) },
                    "sin" | "cos" | "tan" | "asin" | "acos" | "atan" | "sqrt" => if t == T::F { T::F } else { return Err(Ill::Plain) },
                    "castI" | "sigI" => if numeric(t) { T::I } else { return Err(Ill::Plain) },
                    "castF" | "sigF" => if numeric(t) { T::F } else { return Err(Ill::Plain) },
                    op => panic!("unop {op}"),
                }
            },
            "bin" => {
                let (l, r) = (self.value(&a[1]), self.value(&a[2]));
                let (l, r) = (l?, r?);
                if l != r { return Err(Ill::Plain); }
                match a[0].as_atom() {
                    "add" | "sub" | "mul" | "div" | "rem" => if numeric(l) { l } else { return Err(Ill::Plain) },
                    "eq" | "ne" | "lt" | "le" | "gt" | "ge" => if numeric(l) { T::I } else { return Err(Ill::Plain) },
                    _ => if l == T::I { T::I } else { return Err(Ill::Plain) },
                }
            },
            "tern" => {
                if self.value(&a[0])? != T::I { return Err(Ill::Plain); }
                let (l, r) = (self.value(&a[1])?, self.value(&a[2])?);
                if l != r { return Err(Ill::Plain); }
                l
            },
            "call" => {
                let sig = &self.sigs.iter().find(|s| s.0 == a[0].as_i64()).ok_or(Ill::Plain)?.1;
                let trailing = sig.iter().skip_while(|p| !p.1).all(|p| p.1);
                let why = if trailing { Ill::Plain } else { Ill::Padding };
                let required: Vec<_> = sig.iter().filter(|p| !p.1).collect();
                let args = &a[1..];
                if args.len() != required.len() { return Err(why); }
                for (arg, p) in args.iter().zip(required) {
                    let t = self.value(arg)?;
                    if let Some(pt) = p.0 { if pt != t { return Err(why); } }
                }
                return Ok(ET::Void);
            },
            h => panic!("bad expr head {h}"),
        }))
    }
    fn ref_access(&self, r: &Sexp) -> Result<T, Ill> {
        let a = r.args();
        self.access(a[0].as_atom() == "r", a[1].as_i64(), a[2].as_atom())
    }
    /// only registers and non-constant variables can be written to
    fn assignable(&self, r: &Sexp) -> Result<(), Ill> {
        let a = r.args();
        if a[0].as_atom() != "r" && self.consts.contains(&a[1].as_i64()) { Err(Ill::Plain) } else { Ok(()) }
    }
    fn int_expr(&self, e: &Sexp) -> Result<(), Ill> { if self.value(e)? == T::I { Ok(()) } else { Err(Ill::Plain) } }

    /// the rule of one statement, not looking into nested statement lists
    fn stmt_rule(&self, s: &Sexp, ret: Option<ET>) -> Result<(), Ill> {
        let a = s.args();
        match s.head().expect("stmt") {
            "estmt" => if self.expr(&a[0])? == ET::Void { Ok(()) } else { Err(Ill::Plain) },
            "assign" => {
                self.assignable(&a[0])?;
                let (tv, te) = (self.ref_access(&a[0])?, self.value(&a[2])?);
                if tv != te { return Err(Ill::Plain); }
                match a[1].as_atom() {
                    "assign" => Ok(()),
                    "add" | "sub" | "mul" | "div" | "rem" => if numeric(tv) { Ok(()) } else { Err(Ill::Plain) },
                    _ => if tv == T::I { Ok(()) } else { Err(Ill::Plain) },
                }
            },
            "decl" => match a.get(1) {
                None => Ok(()),
                Some(e) => { let t = self.value(e)?; if self.inherent(false, a[0].as_i64()) == Some(t) { Ok(()) } else { Err(Ill::Plain) } },
            },
            "const" => { let t = self.value(&a[1])?; if self.inherent(false, a[0].as_i64()) == Some(t) { Ok(()) } else { Err(Ill::Plain) } },
            "if" | "ifelif" | "ifnoelse" | "while" | "dowhile" => self.int_expr(&a[0]),
            "times" => self.int_expr(&a[0]),
            "timesc" => { self.int_expr(&a[1])?; self.assignable(&a[0])?; if self.ref_access(&a[0])? == T::I { Ok(()) } else { Err(Ill::Plain) } },
            "cjump" => self.int_expr(&a[3]),
            "interrupt" | "reltime" => self.int_expr(&a[0]),
            "ret" => match (a.get(0), ret) {
                (_, None) => Err(Ill::Plain),
                (None, Some(rt)) => if rt == ET::Void { Ok(()) } else { Err(Ill::Plain) },
                (Some(e), Some(rt)) => if ET::Val(self.value(e)?) == rt { Ok(()) } else { Err(Ill::Plain) },
            },
            "loop" | "inert" | "block" | "func" | "script" => Ok(()),
            h => panic!("bad stmt head {h}"),
        }
    }

    /// Collects, for every ill-typed statement, the construct to blame if the program is
    /// accepted anyway: the outermost enclosing construct the visitor is known not to look into
    /// (`within`), else the padding rule, else the statement kind itself.
    fn sites(&self, stmts: &[Sexp], ret: Option<ET>, within: Option<&'static str>, out: &mut Vec<String>) {
        for s in stmts {
            let head = s.head().expect("stmt");
            if let Err(why) = self.stmt_rule(s, ret) {
                let own: &'static str = match head {
                    "interrupt" => "stmt=interrupt-label", "reltime" => "stmt=rel-time-label", "const" => "stmt=const-decl",
                    "estmt" => "stmt=expr", "assign" => "stmt=assign", "decl" => "stmt=decl", "if" | "ifelif" | "ifnoelse" => "stmt=if-cond",
                    "while" | "dowhile" => "stmt=while-cond", "times" | "timesc" => "stmt=times", "cjump" => "stmt=cond-jump", "ret" => "stmt=return",
                    _ => "stmt=other",
                };
                let culprit = within.unwrap_or(match why { Ill::Padding => "call=padding", Ill::Plain => own });
                out.push(culprit.to_string());
            }
            let a = s.args();
            match head {
                "if" | "ifelif" => { self.sites(a[1].as_list(), ret, within, out); self.sites(a[2].as_list(), ret, within, out); },
                "ifnoelse" | "while" | "dowhile" | "times" => self.sites(a[1].as_list(), ret, within, out),
                "timesc" => self.sites(a[2].as_list(), ret, within, out),
                "loop" => self.sites(a[0].as_list(), ret, within, out),
                // free blocks are walked since the repair 9b7e57b: not a construct to blame any more
                "block" => self.sites(a[0].as_list(), ret, within, out),
                "script" => self.sites(a[1].as_list(), ret, within, out),
                "func" => {
                    let rt = match a[1].as_atom() { "int" => ET::Val(T::I), "float" => ET::Val(T::F), "string" => ET::Val(T::S), _ => ET::Void };
                    self.sites(a[2].as_list(), Some(rt), within, out)
                },
                _ => {},
            }
        }
    }
}

fn ill_typed_sites(ctx: &Sexp, items: &[Sexp]) -> Vec<String> {
    let mut out = vec![];
    RefTyper::new(ctx).sites(items, None, None, &mut out);
    out
}

// ---------------------------------------------------------------------------------------------
// generator: type-directed, well-typed by construction

struct Gen<'a> {
    rng: &'a mut Rng,
    vars: Vec<(usize, char)>,
    /// variables in scope (innermost scope last)
    scopes: Vec<Vec<usize>>,
    /// `const` variables: never assignment / clobber targets in generated (well-typed) programs;
    /// the `const-target` mutation and `witness-assign-to-const` put one there
    consts: Vec<usize>,
    loops: u32,
    label: i64,
    next_root: i64,
    /// restrict to what the ANM lowering can reasonably compile (pipeline cases)
    tame: bool,
}

impl Gen<'_> {
    fn in_scope(&self, t: char) -> Vec<usize> {
        self.scopes.iter().flatten().copied().filter(|&n| self.vars.iter().any(|v| v.0 == n && v.1 == t)).collect()
    }
    fn new_var(&mut self, t: char) -> usize {
        let n = self.vars.len();
        self.vars.push((n, t));
        n
    }
    fn reg_of(&mut self, t: char) -> i64 {
        let c: Vec<i32> = REGS.iter().filter(|r| r.1 == t).map(|r| r.0).collect();
        *self.rng.pick(&c) as i64
    }
    fn lit(&mut self, t: char) -> Sexp {
        match t {
            'i' => app("i", vec![int(self.rng.below(10) as i64)]),
            'f' => app("f", vec![int(*self.rng.pick(FLOAT_LITS) as i64)]),
            _ => app("s", vec![Sexp::str(*self.rng.pick(STR_LITS))]),
        }
    }
    fn leaf(&mut self, t: char) -> Sexp {
        if t == 's' {
            let vs = self.in_scope('s');
            if !vs.is_empty() && self.rng.chance(1, 2) { return app("var", vec![int(*self.rng.pick(&vs) as i64), atom("n")]); }
            return self.lit('s');
        }
        let other = if t == 'i' { 'f' } else { 'i' };
        let sig = if t == 'i' { "i" } else { "f" };
        match self.rng.below(10) {
            0..=2 => self.lit(t),
            3..=4 => { let r = self.reg_of(t); app("reg", vec![int(r), atom(if self.rng.chance(1, 2) { "n" } else { sig })]) },
            5 => { let r = self.reg_of(other); app("reg", vec![int(r), atom(sig)]) },         // cast read
            6 if !self.tame => { let r = self.reg_of('u'); app("reg", vec![int(r), atom(sig)]) }, // untyped needs the sigil
            7..=8 => {
                let vs = self.in_scope(t);
                if vs.is_empty() { return self.lit(t); }
                app("var", vec![int(*self.rng.pick(&vs) as i64), atom(if self.rng.chance(3, 4) { "n" } else { sig })])
            },
            _ => {
                let vs = self.in_scope('u');
                if vs.is_empty() { return self.lit(t); }
                app("var", vec![int(*self.rng.pick(&vs) as i64), atom(sig)])
            },
        }
    }
    fn expr(&mut self, t: char, depth: u32) -> Sexp {
        if depth == 0 || self.rng.chance(1, 4) { return self.leaf(t); }
        let d = depth - 1;
        if self.tame {
            // what the TH12 ANM instruction set can lower: arithmetic, negation, sin/cos, casts, ternary
            return match (t, self.rng.below(8)) {
                ('s', _) => self.leaf('s'),
                (_, 0..=3) => { let op = *self.rng.pick(&["add", "sub", "mul", "div", "rem"]); app("bin", vec![atom(op), self.expr(t, d), self.expr(t, d)]) },
                ('i', 4) => { let op = *self.rng.pick(&["neg", "castI", "sigI"]); app("un", vec![atom(op), self.expr('i', d)]) },
                ('i', 5) => { let op = *self.rng.pick(&["castI", "sigI"]); app("un", vec![atom(op), self.expr('f', d)]) },
                ('f', 4) => { let op = *self.rng.pick(&["neg", "sin", "cos", "castF", "sigF"]); app("un", vec![atom(op), self.expr('f', d)]) },
                ('f', 5) => { let op = *self.rng.pick(&["castF", "sigF"]); app("un", vec![atom(op), self.expr('i', d)]) },
                (_, 6) => app("tern", vec![self.cond(d), self.expr(t, d), self.expr(t, d)]),
                _ => self.leaf(t),
            };
        }
        match t {
            'i' => match self.rng.below(12) {
                0..=3 => {
                    let ops = ["add", "sub", "mul", "div", "rem", "lor", "land", "xor", "band", "bor", "shl", "shr", "ushr", "eq", "ne", "lt", "le", "gt", "ge"];
                    let op = *self.rng.pick(&ops);
                    app("bin", vec![atom(op), self.expr('i', d), self.expr('i', d)])
                },
                4..=5 => { let op = *self.rng.pick(&["eq", "ne", "lt", "le", "gt", "ge"]); app("bin", vec![atom(op), self.expr('f', d), self.expr('f', d)]) },
                6 => { let op = *self.rng.pick(&["neg", "not", "bnot", "castI", "sigI"]); app("un", vec![atom(op), self.expr('i', d)]) },
                7 => { let op = *self.rng.pick(&["castI", "sigI"]); app("un", vec![atom(op), self.expr('f', d)]) },
                8..=9 => app("tern", vec![self.expr('i', d), self.expr('i', d), self.expr('i', d)]),
                _ => self.leaf('i'),
            },
            'f' => match self.rng.below(12) {
                0..=3 => { let op = *self.rng.pick(&["add", "sub", "mul", "div", "rem"]); app("bin", vec![atom(op), self.expr('f', d), self.expr('f', d)]) },
                4..=5 => { let op = *self.rng.pick(&["neg", "castF", "sigF", "sin", "cos", "tan", "asin", "acos", "atan", "sqrt"]); app("un", vec![atom(op), self.expr('f', d)]) },
                6..=7 => { let op = *self.rng.pick(&["castF", "sigF"]); app("un", vec![atom(op), self.expr('i', d)]) },
                8..=9 => app("tern", vec![self.expr('i', d), self.expr('f', d), self.expr('f', d)]),
                _ => self.leaf('f'),
            },
            _ => if self.rng.chance(1, 3) { app("tern", vec![self.expr('i', d), self.expr('s', d), self.expr('s', d)]) } else { self.leaf('s') },
        }
    }
    /// an int-typed condition; in `tame` mode comparisons only appear here (they lower to
    /// conditional jumps, not to values)
    fn cond(&mut self, depth: u32) -> Sexp {
        if !self.tame { return self.expr('i', depth); }
        if self.rng.chance(2, 3) {
            let t = self.numeric_ty();
            let op = *self.rng.pick(&["eq", "ne", "lt", "le", "gt", "ge"]);
            app("bin", vec![atom(op), self.expr(t, depth), self.expr(t, depth)])
        } else { self.expr('i', depth) }
    }
    fn call(&mut self, depth: u32) -> Sexp {
        // mostly signatures with trailing-only padding; `S_f` (906) rarely, strings outside `tame`
        let mut pool: Vec<usize> = vec![0, 1, 2, 3, 4, 5];
        if !self.tame { pool.push(7); if self.rng.chance(1, 6) { pool.push(6); } }
        let &(op, _, ps) = &SIGS[*self.rng.pick(&pool)];
        let mut v = vec![int(op as i64)];
        for &(t, optional) in ps { if !optional { v.push(self.expr(t, depth)); } }
        app("call", v)
    }
    fn numeric_ty(&mut self) -> char { if self.rng.chance(1, 2) { 'i' } else { 'f' } }
    fn target(&mut self, t: char) -> Sexp {
        let sig = if t == 'i' { "i" } else { "f" };
        let vs: Vec<usize> = self.in_scope(t).into_iter().filter(|n| !self.consts.contains(n)).collect();
        if !vs.is_empty() && self.rng.chance(1, 2) {
            return app("ref", vec![atom("v"), int(*self.rng.pick(&vs) as i64), atom(if self.rng.chance(3, 4) { "n" } else { sig })]);
        }
        let r = self.reg_of(t);
        app("ref", vec![atom("r"), int(r), atom(if self.rng.chance(1, 2) { "n" } else { sig })])
    }
    fn body(&mut self, depth: u32, max: usize) -> Sexp {
        self.scopes.push(vec![]);
        let n = self.rng.below(max + 1);
        let mut v = vec![];
        for _ in 0..n { v.push(self.stmt(depth)); }
        self.scopes.pop();
        Sexp::list(v)
    }
    fn stmt(&mut self, depth: u32) -> Sexp {
        let ed = 1 + self.rng.below(3) as u32;
        let k = if depth == 0 { self.rng.below(9) } else { self.rng.below(20) };
        match k {
            0..=1 => { let t = self.numeric_ty(); app("assign", vec![self.target(t), atom("assign"), self.expr(t, ed)]) },
            2 => {
                let t = self.numeric_ty();
                let op = if t == 'i' && !self.tame { *self.rng.pick(&["add", "sub", "mul", "div", "rem", "bor", "xor", "band", "shl", "shr", "ushr"]) } else { *self.rng.pick(&["add", "sub", "mul", "div", "rem"]) };
                app("assign", vec![self.target(t), atom(op), self.expr(t, ed)])
            },
            3..=4 => {
                let t = if !self.tame && self.rng.chance(1, 8) { 'u' } else { self.numeric_ty() };
                let init = if t != 'u' && self.rng.chance(3, 4) { Some(self.expr(t, ed)) } else { None };
                let n = self.new_var(t);
                self.scopes.last_mut().unwrap().push(n);
                match init { Some(e) => app("decl", vec![int(n as i64), e]), None => app("decl", vec![int(n as i64)]) }
            },
            5 => {
                let t = *self.rng.pick(&['i', 'f', 's']);
                let e = match t { 's' => self.lit('s'), _ => self.const_expr(t, 2) };
                let n = self.new_var(t);
                self.consts.push(n);
                self.scopes.last_mut().unwrap().push(n);
                app("const", vec![int(n as i64), e])
            },
            6..=7 => app("estmt", vec![self.call(ed)]),
            8 => match self.rng.below(4) {
                0 => app("cjump", vec![atom(*self.rng.pick(&["if", "unless"])), atom("goto"), int(self.label), self.cond(ed)]),
                1 if self.loops > 0 => app("cjump", vec![atom("if"), atom("break"), int(0), self.cond(ed)]),
                2 => app("interrupt", vec![app("i", vec![int(1 + self.rng.below(5) as i64)])]),
                _ => app("reltime", vec![app("i", vec![int(self.rng.below(30) as i64)])]),
            },
            9..=10 => {
                let c = self.cond(ed);
                let t = self.body(depth - 1, 3);
                match self.rng.below(3) {
                    0 => app("ifnoelse", vec![c, t]),
                    1 => app("if", vec![c, t, self.body(depth - 1, 2)]),
                    _ => {
                        let c2 = self.cond(ed);
                        let t2 = self.body(depth - 1, 2);
                        let inner = if self.rng.chance(1, 2) { app("ifnoelse", vec![c2, t2]) } else { app("if", vec![c2, t2, self.body(depth - 1, 2)]) };
                        app("ifelif", vec![c, t, Sexp::list(vec![inner])])
                    },
                }
            },
            11 => { let c = self.cond(ed); self.loops += 1; let b = self.body(depth - 1, 3); self.loops -= 1; app("while", vec![c, b]) },
            12 => { let c = self.cond(ed); self.loops += 1; let b = self.body(depth - 1, 3); self.loops -= 1; app("dowhile", vec![c, b]) },
            13 => { self.loops += 1; let b = self.body(depth - 1, 3); self.loops -= 1; app("loop", vec![b]) },
            14..=15 => {
                let c = self.expr('i', ed);
                let clobber = if self.rng.chance(1, 3) { Some(self.target('i')) } else { None };
                self.loops += 1; let b = self.body(depth - 1, 3); self.loops -= 1;
                match clobber { Some(r) => app("timesc", vec![r, c, b]), None => app("times", vec![c, b]) }
            },
            _ => app("block", vec![self.body(depth - 1, 3)]),
        }
    }
    /// closed constant expression (so that `const` definitions evaluate)
    fn const_expr(&mut self, t: char, depth: u32) -> Sexp {
        if depth == 0 || self.rng.chance(1, 2) { return self.lit(t); }
        match t {
            'i' => { let op = *self.rng.pick(&["add", "sub", "mul", "xor", "shl", "lt"]); app("bin", vec![atom(op), self.const_expr('i', depth - 1), self.const_expr('i', depth - 1)]) },
            _ => { let op = *self.rng.pick(&["add", "sub", "mul"]); app("bin", vec![atom(op), self.const_expr('f', depth - 1), self.const_expr('f', depth - 1)]) },
        }
    }
    fn root_body(&mut self, depth: u32, ret: Option<char>) -> Sexp {
        self.label = self.next_root;
        self.next_root += 1;
        self.scopes.push(vec![]);
        let n = 1 + self.rng.below(5);
        let mut v = vec![];
        for _ in 0..n { v.push(self.stmt(depth)); }
        match ret {
            Some('v') => if self.rng.chance(1, 2) { v.push(app("ret", vec![])) },
            Some(t) => v.push(app("ret", vec![self.expr(t, 2)])),
            None => {},
        }
        v.push(app("inert", vec![atom("label"), int(self.label)]));
        self.scopes.pop();
        Sexp::list(v)
    }
    /// a whole file: global consts, sometimes functions, scripts
    fn program(&mut self, depth: u32) -> Vec<Sexp> {
        let mut items = vec![];
        self.scopes.push(vec![]);
        for _ in 0..self.rng.below(3) {
            let t = *self.rng.pick(&['i', 'f', 's']);
            let e = match t { 's' => self.lit('s'), _ => self.const_expr(t, 2) };
            let n = self.new_var(t);
            self.consts.push(n);
            self.scopes.last_mut().unwrap().push(n);
            items.push(app("const", vec![int(n as i64), e]));
        }
        if !self.tame && self.rng.chance(1, 4) {
            let rt = *self.rng.pick(&['v', 'i', 'f']);
            let id = self.next_root;
            let body = self.root_body(depth.min(2), Some(rt));
            items.push(app("func", vec![int(id), atom(match rt { 'i' => "int", 'f' => "float", _ => "void" }), body]));
        }
        for _ in 0..1 + self.rng.below(2) {
            let id = self.next_root;
            let body = self.root_body(depth, None);
            items.push(app("script", vec![int(id), body]));
        }
        self.scopes.pop();
        items
    }
}

// ---------------------------------------------------------------------------------------------
// single-point mutations

const EXPR_HEADS: &[&str] = &["i", "f", "s", "reg", "var", "un", "bin", "tern", "call"];

fn other_ty(t: char, rng: &mut Rng) -> char {
    let c: Vec<char> = ['i', 'f', 's'].iter().copied().filter(|&x| x != t).collect();
    *rng.pick(&c)
}
fn lit_of(t: char, rng: &mut Rng) -> Sexp {
    match t {
        'i' => app("i", vec![int(rng.below(10) as i64)]),
        'f' => app("f", vec![int(*rng.pick(FLOAT_LITS) as i64)]),
        _ => app("s", vec![Sexp::str(*rng.pick(STR_LITS))]),
    }
}
fn reg_of(t: char, rng: &mut Rng) -> i64 {
    let c: Vec<i32> = REGS.iter().filter(|r| r.1 == t).map(|r| r.0).collect();
    *rng.pick(&c) as i64
}

/// variants of one expression node (the node itself changed, children untouched), each with a tag
fn expr_node_mutations(e: &Sexp, typer: &RefTyper, rng: &mut Rng) -> Vec<(Sexp, &'static str)> {
    let a = e.args();
    let mut out = vec![];
    let head = e.head().unwrap();
    let here: Option<char> = match typer.expr(e) { Ok(ET::Val(T::I)) => Some('i'), Ok(ET::Val(T::F)) => Some('f'), Ok(ET::Val(T::S)) => Some('s'), _ => None };
    match head {
        "i" | "f" | "s" => {
            let t = head.chars().next().unwrap();
            out.push((lit_of(other_ty(t, rng), rng), "literal"));
            if t != 's' { let o = if t == 'i' { 'f' } else { 'i' }; out.push((app("reg", vec![int(reg_of(o, rng)), atom("n")]), "operand")); }
        },
        "reg" | "var" => {
            // sigil changes
            for s in ["n", "i", "f"] { if s != a[1].as_atom() { out.push((app(head, vec![a[0].clone(), atom(s)]), "sigil")); } }
            // another variable: a register of another type / untyped
            if let Some(t) = here {
                let o = if t == 'i' { 'f' } else { 'i' };
                out.push((app("reg", vec![int(reg_of(o, rng)), atom("n")]), "variable"));
                out.push((app("reg", vec![int(reg_of('u', rng)), atom("n")]), "variable"));
                out.push((lit_of(other_ty(t, rng), rng), "operand"));
            }
        },
        "un" => {
            let op = a[0].as_atom();
            let alt: &[&str] = match op {
                "castI" => &["castF", "sigF"], "castF" => &["castI", "sigI"], "sigI" => &["sigF", "castF"], "sigF" => &["sigI", "castI"],
                "neg" => &["not", "sin"], "not" | "bnot" => &["neg", "sqrt", "castF"], _ => &["neg", "bnot", "castI"],
            };
            for o in alt { out.push((app("un", vec![atom(o), a[1].clone()]), "cast")); }
            out.push((a[1].clone(), "cast")); // drop the operator
        },
        "bin" => {
            let op = a[0].as_atom();
            let alt: &[&str] = match op {
                "add" | "sub" | "mul" | "div" | "rem" => &["lt", "band", "land"],
                "eq" | "ne" | "lt" | "le" | "gt" | "ge" => &["add", "shl", "lor"],
                _ => &["add", "eq"],
            };
            for o in alt { out.push((app("bin", vec![atom(o), a[1].clone(), a[2].clone()]), "operator")); }
        },
        "tern" => {
            out.push((app("tern", vec![a[1].clone(), a[1].clone(), a[2].clone()]), "operand"));
            out.push((app("tern", vec![a[0].clone(), a[2].clone(), a[0].clone()]), "operand"));
        },
        "call" => {
            // arity and opcode
            let mut fewer = a.to_vec(); if fewer.len() > 1 { fewer.pop(); out.push((app("call", fewer), "argument")); }
            let mut more = a.to_vec(); more.push(lit_of('i', rng)); out.push((app("call", more), "argument"));
            let other = SIGS[rng.below(SIGS.len())].0 as i64;
            if other != a[0].as_i64() { let mut v = a.to_vec(); v[0] = int(other); out.push((app("call", v), "argument")); }
            let mut v = a.to_vec(); v[0] = int(OPCODE_NO_SIG as i64); out.push((app("call", v), "argument"));
        },
        _ => {},
    }
    // wrap in a cast to another type (any value-typed node)
    if let Some(t) = here {
        if t != 's' && head != "un" {
            let w = if t == 'i' { *rng.pick(&["castF", "sigF"]) } else { *rng.pick(&["castI", "sigI"]) };
            out.push((app("un", vec![atom(w), e.clone()]), "cast"));
        }
    }
    out
}

/// all single-point mutants of a tree of statements: every expression node at every depth,
/// every assignment / clobber target, every declared type (through the context).
fn mutants(ctx: &Sexp, items: &[Sexp], rng: &mut Rng, per_node: usize) -> Vec<(Sexp, Sexp, String)> {
    let typer = RefTyper::new(ctx);
    let whole = Sexp::list(items.to_vec());
    let mut out: Vec<(Sexp, Sexp, String)> = vec![];
    // paths to every list node
    fn walk(node: &Sexp, path: &mut Vec<usize>, f: &mut dyn FnMut(&Sexp, &[usize])) {
        if let Sexp::List(v) = node {
            f(node, path);
            for (i, c) in v.iter().enumerate() { path.push(i); walk(c, path, f); path.pop(); }
        }
    }
    fn replace(node: &Sexp, path: &[usize], new: &Sexp) -> Sexp {
        if path.is_empty() { return new.clone(); }
        match node { Sexp::List(v) => { let mut v = v.clone(); v[path[0]] = replace(&v[path[0]], &path[1..], new); Sexp::List(v) }, _ => node.clone() }
    }
    fn stmt_kind_at(whole: &Sexp, path: &[usize]) -> String {
        // innermost enclosing statement head and whether a free block is on the way
        let mut node = whole; let mut kinds: Vec<&str> = vec![];
        for &i in path {
            if let Some(h) = node.head() { if !EXPR_HEADS.contains(&h) && h != "ref" { kinds.push(h); } }
            node = &node.as_list()[i];
        }
        if let Some(h) = node.head() { if !EXPR_HEADS.contains(&h) && h != "ref" { kinds.push(h); } }
        let inner = kinds.last().copied().unwrap_or("?");
        format!("{}{}", if kinds.contains(&"block") { "in-block/" } else { "" }, inner)
    }
    fn in_const(whole: &Sexp, path: &[usize]) -> bool {
        let mut node = whole;
        for &i in path { if node.head() == Some("const") { return true; } node = &node.as_list()[i]; }
        node.head() == Some("const")
    }
    // top-level `const` items are in scope in everything that follows them
    let ctx_vars = Vars::from_ctx(ctx);
    let top_consts: Vec<(usize, char)> = items.iter().filter(|s| s.head() == Some("const")).map(|s| { let n = s.args()[0].as_usize(); (n, ctx_vars.ty(n)) }).collect();
    let mut sites: Vec<(Vec<usize>, Sexp)> = vec![];
    walk(&whole, &mut vec![], &mut |n, p| { sites.push((p.to_vec(), n.clone())); });
    for (path, node) in &sites {
        let head = match node.head() { Some(h) => h, None => continue };
        let mut variants: Vec<(Sexp, &'static str)> = vec![];
        if EXPR_HEADS.contains(&head) {
            variants = expr_node_mutations(node, &typer, rng);
        } else if head == "ref" {
            let a = node.args();
            for s in ["n", "i", "f"] { if s != a[2].as_atom() { variants.push((app("ref", vec![a[0].clone(), a[1].clone(), atom(s)]), "sigil")); } }
            if let Ok(t) = typer.ref_access(node) {
                let o = if t == T::I { 'f' } else { 'i' };
                variants.push((app("ref", vec![atom("r"), int(reg_of(o, rng)), atom("n")]), "variable"));
                variants.push((app("ref", vec![atom("r"), int(reg_of('u', rng)), atom("n")]), "variable"));
                // a constant of the SAME type as target: well-typed operands, but constants cannot be written to
                let tc = if t == T::I { 'i' } else { 'f' };
                if let Some(&(n, _)) = top_consts.iter().find(|c| c.1 == tc) {
                    variants.insert(0, (app("ref", vec![atom("v"), int(n as i64), atom("n")]), "const-target"));
                }
            }
        } else if head == "assign" {
            let a = node.args();
            let alt: &[&str] = match a[1].as_atom() { "assign" => &["add", "band"], "add" | "sub" | "mul" | "div" | "rem" => &["shl", "bor"], _ => &["add", "assign"] };
            for o in alt { variants.push((app("assign", vec![a[0].clone(), atom(o), a[2].clone()]), "operator")); }
        } else if head == "ret" {
            let a = node.args();
            if a.is_empty() { variants.push((app("ret", vec![lit_of('i', rng)]), "operand")); } else { variants.push((app("ret", vec![]), "operand")); }
        }
        let kind = stmt_kind_at(&whole, path);
        // `const` initialisers may not mention raw registers or instructions (rejected before
        // type checking, by `assign_languages`)
        if in_const(&whole, path) { variants.retain(|(v, _)| !has_head(v, "reg") && !has_head(v, "call")); }
        if variants.len() > per_node { rng.shuffle(&mut variants); variants.truncate(per_node); }
        for (v, tag) in variants {
            out.push((ctx.clone(), replace(&whole, path, &v), format!("mut-{tag}@{kind}")));
        }
    }
    // declared types: change the type of one declared variable in the context (`int x = e;` ->
    // `float x = e;` / `var x = e;`); every use of the variable is affected
    let vars = Vars::from_ctx(ctx);
    let mut const_ids: Vec<usize> = vec![];
    walk(&whole, &mut vec![], &mut |n, _| { if n.head() == Some("const") { const_ids.push(n.args()[0].as_usize()); } });
    for &(n, t) in &vars.0 {
        let mut nts = vec![match t { 'i' => 'f', 'f' => 'i', _ => 'i' }];
        if !const_ids.contains(&n) && t != 'u' { nts.push('u'); }
        for nt in nts {
            let mut nv = vars.0.clone();
            for x in nv.iter_mut() { if x.0 == n { x.1 = nt; } }
            out.push((ctx_sexp(&nv, &const_ids), whole.clone(), "mut-declared-type".to_string()));
        }
    }
    out
}

fn max_depth(stmts: &[Sexp]) -> usize {
    stmts.iter().map(|s| {
        let a = s.args();
        match s.head() {
            Some("if") | Some("ifelif") => 1 + max_depth(a[1].as_list()).max(max_depth(a[2].as_list())),
            Some("ifnoelse") | Some("while") | Some("dowhile") | Some("times") | Some("script") => 1 + max_depth(a[1].as_list()),
            Some("timesc") | Some("func") => 1 + max_depth(a[2].as_list()),
            Some("loop") | Some("block") => 1 + max_depth(a[0].as_list()),
            _ => 0,
        }
    }).max().unwrap_or(0)
}

// ---------------------------------------------------------------------------------------------
// running the real implementation

enum Front { Accepted, Rejected(String), Invalid(String) }

/// parse + assign_languages + resolve_names + type_check::run on a whole script file
fn front(text: &str) -> Front {
    let mut scope = truth::Builder::new().capture_diagnostics(true).build();
    let mut truth = scope.truth();
    truth.apply_mapfile_str(&mapfile_text(), truth::Game::Th12).expect("mapfile");
    let mut script = match truth.parse::<ast::ScriptFile>("<input>", text.as_bytes()) {
        Ok(x) => x.value,
        Err(e) => { e.ignore(); return Front::Invalid(format!("parse: {}", diag_class(&truth.get_captured_diagnostics().unwrap_or_default()))); },
    };
    let ctx = truth.ctx();
    let r = truth::passes::resolution::assign_languages(&mut script, LanguageKey::Anm, ctx)
        .and_then(|_| truth::passes::resolution::resolve_names(&script, ctx));
    if let Err(e) = r { e.ignore(); return Front::Invalid(format!("resolve: {}", diag_class(&truth.get_captured_diagnostics().unwrap_or_default()))); }
    match truth::passes::type_check::run(&script, ctx) {
        Ok(()) => Front::Accepted,
        Err(e) => { e.ignore(); Front::Rejected(diag_class(&truth.get_captured_diagnostics().unwrap_or_default())) },
    }
}

fn eval_prog(ctx: &Sexp, items: &[Sexp]) -> Sexp {
    match front(&program_text(ctx, items)) {
        Front::Accepted => app("ok", vec![]),
        Front::Rejected(c) => app("err", vec![Sexp::str(c)]),
        Front::Invalid(c) => app("invalid", vec![Sexp::str(c), Sexp::str(program_text(ctx, items))]),
    }
}

fn ty_name(t: Option<truth::ScalarType>) -> &'static str {
    use truth::ScalarType as S;
    match t { None => "void", Some(S::Int) => "int", Some(S::Float) => "float", Some(S::String) => "string" }
}

fn has_head(e: &Sexp, h: &str) -> bool {
    match e { Sexp::List(v) => e.head() == Some(h) || v.iter().any(|x| has_head(x, h)), _ => false }
}
fn has_call(e: &Sexp) -> bool { has_head(e, "call") }

fn eval_expr(e: &Sexp) -> Sexp {
    let mut scope = truth::Builder::new().capture_diagnostics(true).build();
    let mut truth = scope.truth();
    truth.apply_mapfile_str(&mapfile_text(), truth::Game::Th12).expect("mapfile");
    let text = expr_text(e);
    let mut expr = match truth.parse::<ast::Expr>("<input>", text.as_bytes()) {
        Ok(x) => x,
        Err(err) => { err.ignore(); return app("invalid", vec![Sexp::str(format!("parse: {}", diag_class(&truth.get_captured_diagnostics().unwrap_or_default()))), Sexp::str(text)]); },
    };
    let ctx = truth.ctx();
    let r = truth::passes::resolution::assign_languages(&mut expr, LanguageKey::Anm, ctx)
        .and_then(|_| truth::passes::resolution::resolve_names(&expr, ctx));
    if let Err(err) = r { err.ignore(); return app("invalid", vec![Sexp::str("resolve")]); }
    if let Err(err) = truth::passes::type_check::run(&expr, ctx) {
        err.ignore();
        return app("err", vec![Sexp::str(diag_class(&truth.get_captured_diagnostics().unwrap_or_default()))]);
    }
    let static_ty = expr.compute_ty(ctx).as_value_ty();
    // dynamic type: evaluate in the VM under a valuation that respects the register types
    if !has_call(e) {
        let value = std::panic::catch_unwind(std::panic::AssertUnwindSafe(|| {
            let mut vm = truth::vm::AstVm::new();
            for &(r, t) in REGS {
                match t {
                    'f' => vm.set_reg(RegId(r), ScalarValue::Float(1.5 + (r % 4) as f32)),
                    _ => vm.set_reg(RegId(r), ScalarValue::Int(3 + (r % 4))),
                }
            }
            vm.eval(&expr.value, &ctx.resolutions)
        }));
        match value {
            Ok(v) => {
                let dynamic = Some(v.ty());
                if dynamic != static_ty {
                    return fail("static-type-differs-from-dynamic", format!("{text}: compute_ty {} but the VM value is {}", ty_name(static_ty), ty_name(dynamic)));
                }
            },
            Err(_) => {}, // undefined at run time (integer division by zero): nothing to compare
        }
    }
    app("ok", vec![atom(ty_name(static_ty))])
}

const ENTRY: &str = "entry { path: \"a.png\", has_data: false, img_width: 16, img_height: 16, img_format: 3, offset_x: 0, offset_y: 0, colorkey: 0, memory_priority: 0, low_res_scale: false, sprites: {} }\n";

/// oracle: whatever the type checker accepts must get through the rest of the compiler without
/// a panic (a diagnostic is fine).  When the reference typer says the accepted program is
/// ill-typed, that acceptance is the failure (and what happens later is reported as detail).
fn eval_pipe(ctx: &Sexp, items: &[Sexp]) -> Sexp {
    let text = program_text(ctx, items);
    match front(&text) {
        Front::Rejected(c) => return app("pass-rejected-by-typecheck", vec![Sexp::str(c)]),
        Front::Invalid(c) => return app("invalid", vec![Sexp::str(c)]),
        Front::Accepted => {},
    }
    let full = format!("{ENTRY}{text}");
    let maps = vec![mapfile_text()];
    let sites = ill_typed_sites(ctx, items);
    if !sites.is_empty() {
        let later = std::panic::catch_unwind(|| crate::tc::compile(crate::tc::Format::Anm, truth::Game::Th12, &maps, full.as_bytes()));
        let later = match later {
            Ok(o) => if o.value.is_some() { "compiled to a file".to_string() } else { format!("diagnostic: {}", diag_class(&o.diagnostics)) },
            Err(p) => format!("PANIC later in the compiler: {}", p.downcast_ref::<String>().cloned().or_else(|| p.downcast_ref::<&str>().map(|s| s.to_string())).unwrap_or_default().lines().next().unwrap_or("")),
        };
        return fail(format!("typecheck-accepts-illtyped {}", sites[0]), format!("accepted by type_check::run; then {later}; source: {}", text.replace('\n', " ")));
    }
    let o = crate::tc::compile(crate::tc::Format::Anm, truth::Game::Th12, &maps, full.as_bytes());
    match o.value {
        Some(bytes) => app("pass-compiled", vec![int(bytes.len() as i64)]),
        None => {
            if !o.has_error_diag() { return fail("failure-without-error-diagnostic", text.replace('\n', " ")); }
            app(&format!("pass-later-diagnostic:{}", diag_class(&o.diagnostics).replace(' ', "_")), vec![])
        },
    }
}

// ---------------------------------------------------------------------------------------------

fn gen_program(rng: &mut Rng, tame: bool, depth: u32) -> (Sexp, Vec<Sexp>) {
    let mut g = Gen { rng, vars: vec![], scopes: vec![], consts: vec![], loops: 0, label: 0, next_root: 0, tame };
    let items = g.program(depth);
    let ctx = ctx_sexp(&g.vars, &g.consts);
    (ctx, items)
}

/// the hand-written witnesses of section 5 of Props/C09.lean (defects of the pinned tree, all
/// repaired: 9b7e57b, 9d4386e, 353f983, 0757655), replayed on the implementation as regressions
fn witnesses() -> Vec<(Sexp, Vec<Sexp>, &'static str)> {
    let f15 = app("f", vec![int(0x3fc00000)]);
    let script = |body: Vec<Sexp>| app("script", vec![int(0), Sexp::list(body)]);
    vec![
        (ctx_sexp(&[], &[]), vec![script(vec![app("block", vec![Sexp::list(vec![app("assign", vec![app("ref", vec![atom("r"), int(10000), atom("n")]), atom("assign"), f15.clone()])])])])], "witness-free-block"),
        (ctx_sexp(&[], &[]), vec![script(vec![app("interrupt", vec![f15.clone()])])], "witness-interrupt-label"),
        (ctx_sexp(&[], &[]), vec![script(vec![app("reltime", vec![f15.clone()])])], "witness-rel-time-label"),
        (ctx_sexp(&[(0, 'i')], &[0]), vec![app("const", vec![int(0), f15.clone()]), script(vec![app("assign", vec![app("ref", vec![atom("r"), int(10000), atom("n")]), atom("assign"), app("var", vec![int(0), atom("n")])])])], "witness-const-decl"),
        (ctx_sexp(&[], &[]), vec![script(vec![app("estmt", vec![app("call", vec![int(906), app("i", vec![int(1)]), app("i", vec![int(2)])])])])], "regression-padding"),
        (ctx_sexp(&[], &[]), vec![script(vec![app("ret", vec![])])], "witness-return-outside-function"),
        // `const int v0 = 1; script s0 { v0 = 2; }`: constants cannot be written to
        (ctx_sexp(&[(0, 'i')], &[0]), vec![app("const", vec![int(0), app("i", vec![int(1)])]), script(vec![app("assign", vec![app("ref", vec![atom("v"), int(0), atom("n")]), atom("assign"), app("i", vec![int(2)])])])], "witness-assign-to-const"),
    ]
}

impl Prop for C09 {
    fn id(&self) -> &'static str { "C09" }
    fn relation(&self) -> &'static str {
        "prog: Ok / Err(first diagnostic class) of passes::type_check::run on the parsed, resolved script file == Lean `checkStmts codeCfg` (model of Visitor::visit_stmt incl. which statement kinds it walks); expr: Ok(compute_ty) / Err class == Lean `check`; every result is also judged against an independent reference typer written from the documented rules (executable counterpart of Lean `HasType` / `WellTypedStmts`)"
    }
    fn rule(&self) -> &'static str {
        "type-directed random programs (global consts, inline functions with return, scripts; assignments and compound assignments, declarations with/without initialiser incl. untyped `var`, const declarations, instruction calls against 8 signatures incl. padding and string parameters, if / else-if / else, while, do-while, loop, times with and without clobber, conditional goto/break, interrupt and time labels, free blocks nested up to depth 4) and ALL their single-point mutations: every expression node at every depth (literal, operand, variable, sigil, cast, operator, argument, arity, opcode), every assignment/clobber target, every assignment operator, every return, every declared type; plus standalone expressions with their mutations; non-trivial = mutated program or nesting depth >= 2; distinct by case text"
    }
    fn theorems(&self) -> &'static [&'static str] {
        &["TruthModel.C09.check_sound", "TruthModel.C09.check_complete", "TruthModel.C09.computeTy_agrees", "TruthModel.C09.stmts_accept_iff_welltyped", "TruthModel.C09.stmts_accept_iff_welltyped_for_cfg", "TruthModel.C09.stmts_accept_iff_welltyped_status", "TruthModel.C09.type_preservation"]
    }

    fn gen(&self, tier: Tier, rng: &mut Rng) -> Vec<Case> {
        let scale = if tier == Tier::Quick { 1 } else { 20 };
        let mut out = vec![];
        // (0) the Lean witnesses, on the real code (both as correspondence and through the pipeline)
        for (ctx, items, tag) in witnesses() {
            out.push(Case::corr(app("prog", vec![ctx.clone(), Sexp::list(items.clone())])).tag(tag));
            out.push(Case::search(app("pipe", vec![ctx, Sexp::list(items)])).tag(format!("pipe-{tag}")));
        }
        // (a) programs and all their single-point mutants
        for k in 0..200 * scale {
            let depth = 1 + (k % 4) as u32;
            let (ctx, items) = gen_program(rng, false, depth);
            let d = max_depth(&items);
            out.push(Case::corr(app("prog", vec![ctx.clone(), Sexp::list(items.clone())])).tag("prog-generated").tag(format!("depth-{d}")).trivial(d < 2));
            for (mctx, mitems, tag) in mutants(&ctx, &items, rng, 2) {
                out.push(Case::corr(app("prog", vec![mctx, mitems])).tag(tag));
            }
        }
        // (b) pipeline: generated (tame) programs and a sample of their mutants through the real ANM compiler
        for k in 0..120 * scale {
            let depth = 1 + (k % 3) as u32;
            let (ctx, items) = gen_program(rng, true, depth);
            out.push(Case::search(app("pipe", vec![ctx.clone(), Sexp::list(items.clone())])).tag("pipe-generated"));
            let mut ms = mutants(&ctx, &items, rng, 1);
            rng.shuffle(&mut ms);
            for (mctx, mitems, _) in ms.into_iter().take(6) {
                out.push(Case::search(app("pipe", vec![mctx, mitems])).tag("pipe-mutant"));
            }
        }
        // (c) standalone expressions (registers and literals), mutants, static vs dynamic type
        for k in 0..400 * scale {
            let mut g = Gen { rng, vars: vec![], scopes: vec![vec![]], consts: vec![], loops: 0, label: 0, next_root: 0, tame: false };
            let depth = 1 + (k % 5) as u32;
            let e = match k % 7 { 0..=2 => g.expr('i', depth), 3..=5 => g.expr('f', depth), _ => g.call(depth.min(3)) };
            let ctx = ctx_sexp(&[], &[]);
            out.push(Case::corr(app("expr", vec![ctx.clone(), e.clone()])).tag("expr-generated").trivial(depth < 2));
            let wrapped = vec![app("estmt", vec![e])];
            for (mctx, m, tag) in mutants(&ctx, &wrapped, rng, 2) {
                let me = m.as_list()[0].args()[0].clone();
                out.push(Case::corr(app("expr", vec![mctx, me])).tag(format!("expr-{}", tag.split('@').next().unwrap_or("mut"))));
            }
        }
        out
    }

    fn eval(&self, case: &Sexp) -> Sexp {
        let a = case.args();
        match case.head() {
            Some("prog") => eval_prog(&a[0], a[1].as_list()),
            Some("expr") => eval_expr(&a[1]),
            Some("pipe") => eval_pipe(&a[0], a[1].as_list()),
            _ => Sexp::atom("bad-case"),
        }
    }

    fn judge(&self, case: &Sexp, result: &Sexp) -> Option<Failure> {
        if let Some(f) = default_judge(result) { return Some(f); }
        let a = case.args();
        match (case.head(), result.head()) {
            (Some("prog"), Some(r @ ("ok" | "err"))) => {
                let sites = ill_typed_sites(&a[0], a[1].as_list());
                if r == "ok" && !sites.is_empty() {
                    return Some(Failure { signature: format!("typecheck-accepts-illtyped {}", sites[0]), what: format!("type_check::run accepts an ill-typed program ({} ill-typed statement(s), first: {}): {}", sites.len(), sites[0], program_text(&a[0], a[1].as_list()).replace('\n', " ")) });
                }
                if r == "err" && sites.is_empty() {
                    return Some(Failure { signature: "typecheck-rejects-welltyped".into(), what: format!("type_check::run rejects ({}) a well-typed program: {}", result, program_text(&a[0], a[1].as_list()).replace('\n', " ")) });
                }
                None
            },
            (Some("expr"), Some(r @ ("ok" | "err"))) => {
                let expected = RefTyper::new(&a[0]).expr(&a[1]);
                match (r, expected) {
                    ("ok", Err(why)) => Some(Failure { signature: format!("typecheck-accepts-illtyped {}", if why == Ill::Padding { "call=padding" } else { "expr" }), what: format!("accepted: {}", expr_text(&a[1])) }),
                    ("err", Ok(_)) => Some(Failure { signature: "typecheck-rejects-welltyped expr".into(), what: format!("rejected ({}): {}", result, expr_text(&a[1])) }),
                    ("ok", Ok(t)) => {
                        let name = match t { ET::Void => "void", ET::Val(T::I) => "int", ET::Val(T::F) => "float", ET::Val(T::S) => "string" };
                        if result.args()[0].as_atom() != name { Some(Failure { signature: "typecheck-wrong-type expr".into(), what: format!("{} : rules say {name}, checker says {}", expr_text(&a[1]), result) }) } else { None }
                    },
                    _ => None,
                }
            },
            _ => None,
        }
    }

    fn neighbours(&self, case: &Sexp, _rng: &mut Rng) -> Vec<Case> {
        // a disagreement between model and implementation on a program: does the accepted
        // program survive the rest of the compiler?
        let a = case.args();
        match case.head() {
            Some("prog") => vec![Case::search(app("pipe", vec![a[0].clone(), a[1].clone()]))],
            Some("expr") => vec![Case::search(app("pipe", vec![a[0].clone(), Sexp::list(vec![app("script", vec![int(0), Sexp::list(vec![app("assign", vec![app("ref", vec![atom("r"), int(10000), atom("n")]), atom("assign"), a[1].clone()])])])])]))],
            _ => vec![],
        }
    }
}
