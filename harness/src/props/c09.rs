//! C09 — the type checker accepts exactly the well-typed scripts and predicts value types.
//!
//! Cases (grammar in lean/TruthModel/Driver/C09.lean):
//!   (prog CTX (STMT*))   corr   Ok / Err class of `passes::type_check::run` on the parsed file
//!                               == Lean `checkStmts codeCfg`; judged against the reference typer
//!   (expr CTX EXPR)      corr   Ok(type) / Err class == Lean `check`; VM value type == static type
//!   (pipe CTX (STMT*))   search accepted programs go through the real ANM compiler without panic
//!   (xprog ..) (xexpr ..) (xpipe ..)   the same three relations over the extended language:
//!                               difficulty switches, `++` / `--`, enum constants, label properties,
//!                               pseudo-arguments, user-defined functions with parameters,
//!                               multi-variable declarations, `return` at any depth.  A separate
//!                               stream, so that the `prog` / `pipe` stream (which C04 reuses) is
//!                               unchanged.
//!   (replay NAME)        search the two findings of the extended language (repaired by e098828 /
//!                               e91a1bf) as regressions on the real compiler
//!
//! The reference typer (`RefTyper`) is written from the documented rules and shares no code with
//! `truth` or with the Lean model's `check`; it is the executable counterpart of the Lean
//! relation `HasType` / `WellTypedStmts`.

use super::{Case, Failure, Prop, Tier, fail, default_judge};
use crate::rng::Rng;
use crate::sexp::Sexp;
use crate::util::diag_class;
use truth::{ast, LanguageKey, RegId, ScalarValue};

pub struct C09;

// ---------------------------------------------------------------------------------------------
// the fixed part of the context: registers and instruction signatures

/// (register, type): i/f as in the TH12 ANM core mapfile; 10050 is declared `?` in the user
/// mapfile, 10051 is in no mapfile at all (both untyped).
const REGS: &[(i32, char)] = &[
    (10000, 'i'), (10001, 'i'), (10002, 'i'), (10003, 'i'),
    (10004, 'f'), (10005, 'f'), (10006, 'f'), (10007, 'f'),
    (10050, 'u'), (10051, 'u'),
];
const REG_NOT_IN_MAPFILE: i32 = 10051;

/// (opcode, abi string, parameters as (type, optional))
const SIGS: &[(i32, &str, &[(char, bool)])] = &[
    (900, "S", &[('i', false)]),
    (901, "f", &[('f', false)]),
    (902, "Sf", &[('i', false), ('f', false)]),
    (903, "SSf", &[('i', false), ('i', false), ('f', false)]),
    (904, "", &[]),
    // padding (`_`) is not a call parameter (`abi_to_signature`, since the fix 9d4386e)
    (905, "S__", &[('i', false)]),
    (906, "S_f", &[('i', false), ('f', false)]),
    (907, "z(bs=4)", &[('s', false)]),
];
/// opcode without signature
const OPCODE_NO_SIG: i32 = 999;

const FLOAT_LITS: &[u32] = &[0x3f000000, 0x3fc00000, 0x40000000, 0x40500000, 0x3f800000];
const STR_LITS: &[&str] = &["a", "bc", "xyz"];

fn atom(s: &str) -> Sexp { Sexp::atom(s) }
fn app(h: &str, v: Vec<Sexp>) -> Sexp { Sexp::app(h, v) }
fn int(i: i64) -> Sexp { Sexp::int(i) }

/// `consts`: the variables declared by `const` items (they cannot be assigned to)
fn ctx_sexp(vars: &[(usize, char)], consts: &[usize]) -> Sexp {
    let regs = REGS.iter().map(|&(r, t)| Sexp::list(vec![int(r as i64), atom(&t.to_string())])).collect();
    let vs = vars.iter().map(|&(n, t)| { let mut v = vec![int(n as i64), atom(&t.to_string())]; if consts.contains(&n) { v.push(atom("c")); } Sexp::list(v) }).collect();
    let sigs = SIGS.iter().map(|&(op, _, ps)| {
        let mut v = vec![int(op as i64)];
        for &(t, o) in ps { v.push(Sexp::list(vec![atom(&t.to_string()), atom(if o { "o" } else { "r" })])); }
        Sexp::list(v)
    }).collect();
    app("ctx", vec![app("regs", regs), app("vars", vs), app("sigs", sigs)])
}

/// the enums of the extended context (mapfile enums are int enums): (enum id, [(const var id, value)])
const ENUMS: &[(i64, &[(usize, i32)])] = &[(0, &[(1000, 5), (1001, 6)]), (1, &[(1002, 1)])];
/// the bare names of the enum constants are variables: int, constant
const ENUM_CONST_VARS: &[usize] = &[1000, 1001, 1002];

/// user-defined functions of a program: (id, return type, parameter variable ids)
fn funcs_of(items: &[Sexp], out: &mut Vec<(i64, String, Vec<usize>)>) {
    for s in items {
        let a = s.args();
        match s.head() {
            Some("func") => {
                let params = a.get(3).map(|p| p.args().iter().map(|x| x.as_usize()).collect()).unwrap_or_default();
                out.push((a[0].as_i64(), a[1].as_atom().to_string(), params));
                funcs_of(a[2].as_list(), out);
            },
            Some("if") | Some("ifelif") => { funcs_of(a[1].as_list(), out); funcs_of(a[2].as_list(), out); },
            Some("ifnoelse") | Some("while") | Some("dowhile") | Some("times") | Some("script") => funcs_of(a[1].as_list(), out),
            Some("timesc") => funcs_of(a[2].as_list(), out),
            Some("loop") | Some("block") => funcs_of(a[0].as_list(), out),
            _ => {},
        }
    }
}

/// context of the extended cases: the enum constants are added to the variables, the function
/// signatures are read off the program (parameter types = declared types of the parameter variables)
fn ctx_sexp_ext(vars: &[(usize, char)], consts: &[usize], items: &[Sexp]) -> Sexp {
    let mut vs: Vec<(usize, char)> = vars.iter().copied().filter(|v| !ENUM_CONST_VARS.contains(&v.0)).collect();
    let mut cs: Vec<usize> = consts.iter().copied().filter(|c| !ENUM_CONST_VARS.contains(c)).collect();
    for &n in ENUM_CONST_VARS { vs.push((n, 'i')); cs.push(n); }
    let base = ctx_sexp(&vs, &cs);
    let mut parts = base.args().to_vec();
    parts.push(app("enums", ENUMS.iter().map(|&(e, _)| Sexp::list(vec![int(e), atom("i")])).collect()));
    let mut fs = vec![];
    funcs_of(items, &mut fs);
    let ty = |n: usize| vs.iter().find(|x| x.0 == n).map(|x| x.1).unwrap_or('u');
    parts.push(app("funcs", fs.iter().map(|(id, rt, ps)| {
        let mut v = vec![int(*id), atom(rt)];
        for &p in ps { v.push(atom(&ty(p).to_string())); }
        Sexp::list(v)
    }).collect()));
    app("ctx", parts)
}

fn mapfile_text_ext() -> String {
    let mut s = mapfile_text();
    for &(e, cs) in ENUMS {
        s.push_str(&format!("!enum(name=\"En{e}\")\n"));
        for &(n, v) in cs { s.push_str(&format!("{v} v{n}\n")); }
    }
    s
}

fn mapfile_text() -> String {
    let mut s = String::from("!anmmap\n!gvar_types\n");
    for &(r, t) in REGS {
        if r == REG_NOT_IN_MAPFILE { continue; }
        s.push_str(&format!("{} {}\n", r, match t { 'i' => "$", 'f' => "%", _ => "?" }));
    }
    s.push_str("!ins_signatures\n");
    for &(op, abi, _) in SIGS { s.push_str(&format!("{} {}\n", op, abi)); }
    s
}

// ---------------------------------------------------------------------------------------------
// rendering to truth source text

fn var_kw(t: char) -> &'static str { match t { 'i' => "int", 'f' => "float", 's' => "string", _ => "var" } }
fn sig_text(s: &str) -> &'static str { match s { "i" => "$", "f" => "%", _ => "" } }

fn binop_text(op: &str) -> &'static str {
    match op {
        "add" => "+", "sub" => "-", "mul" => "*", "div" => "/", "rem" => "%",
        "eq" => "==", "ne" => "!=", "lt" => "<", "le" => "<=", "gt" => ">", "ge" => ">=",
        "lor" => "||", "land" => "&&", "xor" => "^", "band" => "&", "bor" => "|",
        "shl" => "<<", "shr" => ">>", "ushr" => ">>>",
        _ => panic!("binop {op}"),
    }
}
fn assignop_text(op: &str) -> &'static str {
    match op {
        "assign" => "=", "add" => "+=", "sub" => "-=", "mul" => "*=", "div" => "/=", "rem" => "%=",
        "bor" => "|=", "xor" => "^=", "band" => "&=", "shl" => "<<=", "shr" => ">>=", "ushr" => ">>>=",
        _ => panic!("assignop {op}"),
    }
}

fn expr_text(e: &Sexp) -> String {
    let a = e.args();
    match e.head().expect("expr head") {
        "i" => format!("{}", a[0].as_i64()),
        "f" => { let x = f32::from_bits(a[0].as_i64() as u32); let mut s = format!("{}", x); if !s.contains('.') { s.push_str(".0"); } s },
        "s" => format!("\"{}\"", a[0].as_atom()),
        "reg" => format!("{}REG[{}]", sig_text(a[1].as_atom()), a[0].as_i64()),
        "var" => format!("{}v{}", sig_text(a[1].as_atom()), a[0].as_i64()),
        "un" => match a[0].as_atom() {
            "castI" => format!("int({})", expr_text(&a[1])),
            "castF" => format!("float({})", expr_text(&a[1])),
            "sigI" => format!("$({})", expr_text(&a[1])),
            "sigF" => format!("%({})", expr_text(&a[1])),
            "neg" => format!("(- {})", expr_text(&a[1])),
            "not" => format!("(! {})", expr_text(&a[1])),
            "bnot" => format!("(~ {})", expr_text(&a[1])),
            f => format!("{}({})", f, expr_text(&a[1])),
        },
        "bin" => format!("({} {} {})", expr_text(&a[1]), binop_text(a[0].as_atom()), expr_text(&a[2])),
        "tern" => format!("({} ? {} : {})", expr_text(&a[0]), expr_text(&a[1]), expr_text(&a[2])),
        "call" => format!("ins_{}({})", a[0].as_i64(), a[1..].iter().map(expr_text).collect::<Vec<_>>().join(", ")),
        "sw" => format!("({})", a.iter().map(|c| if c.head().is_some() { expr_text(c) } else { String::new() }).collect::<Vec<_>>().join(" : ")),
        "xcr" => {
            let op = if a[1].as_atom() == "inc" { "++" } else { "--" };
            if a[0].as_atom() == "pre" { format!("({}{})", op, ref_text(&a[2])) } else { format!("({}{})", ref_text(&a[2]), op) }
        },
        "enum" => format!("En{}.v{}", a[0].as_i64(), a[1].as_i64()),
        "lprop" => format!("{}(lbl{})", a[0].as_atom(), a[1].as_i64()),
        "callx" => {
            let name = if a[0].as_atom() == "u" { format!("fn{}", a[1].as_i64()) } else { format!("ins_{}", a[1].as_i64()) };
            let mut parts: Vec<String> = a[2].as_list().iter().map(|p| format!("@{}={}", p.args()[0].as_atom(), expr_text(&p.args()[1]))).collect();
            parts.extend(a[3..].iter().map(expr_text));
            format!("{}({})", name, parts.join(", "))
        },
        h => panic!("bad expr head {h}"),
    }
}

fn ref_text(r: &Sexp) -> String {
    let a = r.args();
    match a[0].as_atom() {
        "r" => format!("{}REG[{}]", sig_text(a[2].as_atom()), a[1].as_i64()),
        _ => format!("{}v{}", sig_text(a[2].as_atom()), a[1].as_i64()),
    }
}

struct Vars(Vec<(usize, char)>);
impl Vars {
    fn from_ctx(ctx: &Sexp) -> Vars {
        Vars(ctx.args()[1].args().iter().map(|p| { let p = p.as_list(); (p[0].as_usize(), p[1].as_atom().chars().next().unwrap()) }).collect())
    }
    fn ty(&self, n: usize) -> char { self.0.iter().find(|x| x.0 == n).map(|x| x.1).unwrap_or('u') }
}

fn block_text(stmts: &[Sexp], vars: &Vars, out: &mut String, ind: usize) {
    out.push_str("{\n");
    for s in stmts { stmt_text(s, vars, out, ind + 1); }
    for _ in 0..ind { out.push_str("  "); }
    out.push('}');
}

fn stmt_text(s: &Sexp, vars: &Vars, out: &mut String, ind: usize) {
    for _ in 0..ind { out.push_str("  "); }
    let a = s.args();
    match s.head().expect("stmt head") {
        "estmt" => out.push_str(&format!("{};", expr_text(&a[0]))),
        "assign" => out.push_str(&format!("{} {} {};", ref_text(&a[0]), assignop_text(a[1].as_atom()), expr_text(&a[2]))),
        "decl" => {
            let n = a[0].as_usize();
            match a.get(1) {
                Some(e) => out.push_str(&format!("{} v{} = {};", var_kw(vars.ty(n)), n, expr_text(e))),
                None => out.push_str(&format!("{} v{};", var_kw(vars.ty(n)), n)),
            }
        },
        "const" => { let n = a[0].as_usize(); out.push_str(&format!("const {} v{} = {};", var_kw(vars.ty(n)), n, expr_text(&a[1]))); },
        "if" | "ifelif" | "ifnoelse" => {
            out.push_str(&format!("if ({}) ", expr_text(&a[0])));
            block_text(a[1].as_list(), vars, out, ind);
            match s.head().unwrap() {
                "if" => { out.push_str(" else "); block_text(a[2].as_list(), vars, out, ind); },
                "ifelif" => {
                    // the else branch is exactly one `if` statement: render as `else if`
                    out.push_str(" else ");
                    let mut inner = String::new();
                    stmt_text(&a[2].as_list()[0], vars, &mut inner, ind);
                    out.push_str(inner.trim_start().trim_end_matches('\n'));
                },
                _ => {},
            }
        },
        "while" => { out.push_str(&format!("while ({}) ", expr_text(&a[0]))); block_text(a[1].as_list(), vars, out, ind); },
        "dowhile" => { out.push_str("do "); block_text(a[1].as_list(), vars, out, ind); out.push_str(&format!(" while ({});", expr_text(&a[0]))); },
        "loop" => { out.push_str("loop "); block_text(a[0].as_list(), vars, out, ind); },
        "times" => { out.push_str(&format!("times({}) ", expr_text(&a[0]))); block_text(a[1].as_list(), vars, out, ind); },
        "timesc" => { out.push_str(&format!("times({} = {}) ", ref_text(&a[0]), expr_text(&a[1]))); block_text(a[2].as_list(), vars, out, ind); },
        "cjump" => {
            let target = if a[1].as_atom() == "break" { "break".to_string() } else { format!("goto lbl{}", a[2].as_i64()) };
            out.push_str(&format!("{} ({}) {};", a[0].as_atom(), expr_text(&a[3]), target));
        },
        "inert" => match a[0].as_atom() {
            "goto" => out.push_str(&format!("goto lbl{};", a[1].as_i64())),
            "break" => out.push_str("break;"),
            "label" => out.push_str(&format!("lbl{}:", a[1].as_i64())),
            "abstime" => out.push_str(&format!("{}:", a[1].as_i64())),
            k => panic!("inert {k}"),
        },
        "block" => block_text(a[0].as_list(), vars, out, ind),
        "ret" => match a.get(0) { Some(e) => out.push_str(&format!("return {};", expr_text(e))), None => out.push_str("return;") },
        "func" => {
            let params: Vec<String> = a.get(3).map(|p| p.args().iter().map(|x| { let n = x.as_usize(); format!("{} v{}", var_kw(vars.ty(n)), n) }).collect()).unwrap_or_default();
            let qual = match a.get(4).map(|q| q.as_atom()) { None | Some("inline") => "inline ", Some("const") => "const ", _ => "" };
            out.push_str(&format!("{}{} fn{}({}) ", qual, a[1].as_atom(), a[0].as_i64(), params.join(", ")));
            block_text(a[2].as_list(), vars, out, ind);
        },
        "decls" => {
            let n0 = a[0].args()[0].as_usize();
            let ds: Vec<String> = a.iter().map(|d| { let d = d.args(); match d.get(1) { Some(e) => format!("v{} = {}", d[0].as_i64(), expr_text(e)), None => format!("v{}", d[0].as_i64()) } }).collect();
            out.push_str(&format!("{} {};", var_kw(vars.ty(n0)), ds.join(", ")));
        },
        "consts" => {
            let n0 = a[0].args()[0].as_usize();
            let ds: Vec<String> = a.iter().map(|d| { let d = d.args(); format!("v{} = {}", d[0].as_i64(), expr_text(&d[1])) }).collect();
            out.push_str(&format!("const {} {};", var_kw(vars.ty(n0)), ds.join(", ")));
        },
        "script" => { out.push_str(&format!("script s{} ", a[0].as_i64())); block_text(a[1].as_list(), vars, out, ind); },
        "interrupt" => out.push_str(&format!("interrupt[{}]:", expr_text(&a[0]))),
        "reltime" => out.push_str(&format!("+{}:", expr_text(&a[0]))),
        h => panic!("bad stmt head {h}"),
    }
    out.push('\n');
}

pub fn program_text(ctx: &Sexp, items: &[Sexp]) -> String {
    let vars = Vars::from_ctx(ctx);
    let mut out = String::new();
    for s in items { stmt_text(s, &vars, &mut out, 0); }
    out
}

// ---------------------------------------------------------------------------------------------
// reference typer: the documented rules, nothing else

#[derive(Copy, Clone, PartialEq, Eq, Debug)]
enum T { I, F, S }
#[derive(Copy, Clone, PartialEq, Eq, Debug)]
enum ET { Void, Val(T) }

struct RefTyper { regs: Vec<(i64, Option<T>)>, vars: Vec<(i64, Option<T>)>, consts: Vec<i64>, sigs: Vec<(i64, Vec<(Option<T>, bool)>)>,
    /// extended context: the type of every enum, the signature (return type, parameter types) of every user function
    enums: Vec<(i64, T)>, funcs: Vec<(i64, ET, Vec<Option<T>>)> }

/// why an expression is not typable; `Padding` marks calls to a signature whose optional
/// parameters are not all at the end (where "the corresponding parameter" is what the arity
/// rule says, not what a positional zip pairs up)
#[derive(Copy, Clone, PartialEq, Eq, Debug)]
enum Ill { Plain, Padding,
    /// `++` / `--` applied to a constant: the types are fine, but constants cannot be written to
    /// (rejected since e098828; `typecheck-accepts-illtyped xcrement-of-constant` is the regression signature)
    ConstWrite }

fn vt(c: &str) -> Option<T> { match c { "i" => Some(T::I), "f" => Some(T::F), "s" => Some(T::S), _ => None } }
fn numeric(t: T) -> bool { t == T::I || t == T::F }
fn ret_ty(s: &str) -> ET { match s { "int" => ET::Val(T::I), "float" => ET::Val(T::F), "string" => ET::Val(T::S), _ => ET::Void } }

impl RefTyper {
    fn new(ctx: &Sexp) -> RefTyper {
        let a = ctx.args();
        let pairs = |s: &Sexp| s.args().iter().map(|p| { let p = p.as_list(); (p[0].as_i64(), vt(p[1].as_atom())) }).collect::<Vec<_>>();
        RefTyper {
            regs: pairs(&a[0]), vars: pairs(&a[1]),
            consts: a[1].args().iter().filter(|p| p.as_list().get(2).map(|m| m.as_atom() == "c").unwrap_or(false)).map(|p| p.as_list()[0].as_i64()).collect(),
            sigs: a[2].args().iter().map(|s| { let s = s.as_list(); (s[0].as_i64(), s[1..].iter().map(|p| { let p = p.as_list(); (vt(p[0].as_atom()), p[1].as_atom() == "o") }).collect()) }).collect(),
            enums: a.get(3).map(|e| e.args().iter().map(|p| { let p = p.as_list(); (p[0].as_i64(), vt(p[1].as_atom()).unwrap_or(T::I)) }).collect()).unwrap_or_default(),
            funcs: a.get(4).map(|f| f.args().iter().map(|p| { let p = p.as_list(); (p[0].as_i64(), ret_ty(p[1].as_atom()), p[2..].iter().map(|t| vt(t.as_atom())).collect()) }).collect()).unwrap_or_default(),
        }
    }
    fn inherent(&self, is_reg: bool, id: i64) -> Option<T> {
        let tbl = if is_reg { &self.regs } else { &self.vars };
        tbl.iter().find(|x| x.0 == id).and_then(|x| x.1)
    }
    /// a variable access through an optional sigil
    fn access(&self, is_reg: bool, id: i64, sig: &str) -> Result<T, Ill> {
        let inh = self.inherent(is_reg, id);
        match sig {
            "n" => inh.ok_or(Ill::Plain),                                       // needs a type of its own
            s => if inh == Some(T::S) { Err(Ill::Plain) } else { Ok(if s == "i" { T::I } else { T::F }) }, // sigils only on numeric variables
        }
    }
    fn value(&self, e: &Sexp) -> Result<T, Ill> {
        match self.expr(e)? { ET::Val(t) => Ok(t), ET::Void => Err(Ill::Plain) }
    }
    fn expr(&self, e: &Sexp) -> Result<ET, Ill> {
        let a = e.args();
        Ok(ET::Val(match e.head().expect("expr") {
            "i" => T::I, "f" => T::F, "s" => T::S,
            "reg" => self.access(true, a[0].as_i64(), a[1].as_atom())?,
            "var" => self.access(false, a[0].as_i64(), a[1].as_atom())?,
            "un" => {
                let t = self.value(&a[1])?;
                match a[0].as_atom() {
                    "neg" => if numeric(t) { t } else { return Err(Ill::Plain) },
                    "not" | "bnot" => if t == T::I { T::I } else { return Err(Ill::Plain) },
                    "sin" | "cos" | "tan" | "asin" | "acos" | "atan" | "sqrt" => if t == T::F { T::F } else { return Err(Ill::Plain) },
                    "castI" | "sigI" => if numeric(t) { T::I } else { return Err(Ill::Plain) },
                    "castF" | "sigF" => if numeric(t) { T::F } else { return Err(Ill::Plain) },
                    op => panic!("unop {op}"),
                }
            },
            "bin" => {
                let (l, r) = (self.value(&a[1]), self.value(&a[2]));
                let (l, r) = (l?, r?);
                if l != r { return Err(Ill::Plain); }
                match a[0].as_atom() {
                    "add" | "sub" | "mul" | "div" | "rem" => if numeric(l) { l } else { return Err(Ill::Plain) },
                    "eq" | "ne" | "lt" | "le" | "gt" | "ge" => if numeric(l) { T::I } else { return Err(Ill::Plain) },
                    _ => if l == T::I { T::I } else { return Err(Ill::Plain) },
                }
            },
            "tern" => {
                if self.value(&a[0])? != T::I { return Err(Ill::Plain); }
                let (l, r) = (self.value(&a[1])?, self.value(&a[2])?);
                if l != r { return Err(Ill::Plain); }
                l
            },
            "call" => {
                let sig = &self.sigs.iter().find(|s| s.0 == a[0].as_i64()).ok_or(Ill::Plain)?.1;
                let trailing = sig.iter().skip_while(|p| !p.1).all(|p| p.1);
                let why = if trailing { Ill::Plain } else { Ill::Padding };
                let required: Vec<_> = sig.iter().filter(|p| !p.1).collect();
                let args = &a[1..];
                if args.len() != required.len() { return Err(why); }
                for (arg, p) in args.iter().zip(required) {
                    let t = self.value(arg)?;
                    if let Some(pt) = p.0 { if pt != t { return Err(why); } }
                }
                return Ok(ET::Void);
            },
            // all the cases that are written have one value type: the type of the switch
            "sw" => {
                let t = self.value(&a[0])?;
                for c in &a[1..] { if c.head().is_some() && self.value(c)? != t { return Err(Ill::Plain); } }
                t
            },
            // `++` / `--`: int variables only (through a sigil or not); constants cannot be written to
            "xcr" => {
                if self.ref_access(&a[2])? != T::I { return Err(Ill::Plain); }
                if self.assignable(&a[2]).is_err() { return Err(Ill::ConstWrite); }
                T::I
            },
            "enum" => self.enums.iter().find(|e| e.0 == a[0].as_i64()).map(|e| e.1).ok_or(Ill::Plain)?,
            "lprop" => T::I,
            "callx" => {
                let user = a[0].as_atom() == "u";
                let pseudos = a[2].as_list();
                let mut blob = false;
                for p in pseudos {
                    let (k, t) = (p.args()[0].as_atom(), self.value(&p.args()[1])?);
                    if k == "blob" { blob = true; }
                    if t != (if k == "blob" { T::S } else { T::I }) { return Err(Ill::Plain); }
                }
                let args = &a[3..];
                // pseudo-arguments belong to instructions; a blob stands for all the arguments
                if user && !pseudos.is_empty() { return Err(Ill::Plain); }
                if blob { return if args.is_empty() { Ok(ET::Void) } else { Err(Ill::Plain) }; }
                let (params, rt): (Vec<Option<T>>, ET) = if user {
                    let f = self.funcs.iter().find(|f| f.0 == a[1].as_i64()).ok_or(Ill::Plain)?;
                    (f.2.clone(), f.1)
                } else {
                    let sig = &self.sigs.iter().find(|s| s.0 == a[1].as_i64()).ok_or(Ill::Plain)?.1;
                    (sig.iter().filter(|p| !p.1).map(|p| p.0).collect(), ET::Void)
                };
                if args.len() != params.len() { return Err(Ill::Plain); }
                for (arg, p) in args.iter().zip(params) {
                    let t = self.value(arg)?;
                    if let Some(pt) = p { if pt != t { return Err(Ill::Plain); } }
                }
                return Ok(rt);
            },
            h => panic!("bad expr head {h}"),
        }))
    }
    fn ref_access(&self, r: &Sexp) -> Result<T, Ill> {
        let a = r.args();
        self.access(a[0].as_atom() == "r", a[1].as_i64(), a[2].as_atom())
    }
    /// only registers and non-constant variables can be written to
    fn assignable(&self, r: &Sexp) -> Result<(), Ill> {
        let a = r.args();
        if a[0].as_atom() != "r" && self.consts.contains(&a[1].as_i64()) { Err(Ill::Plain) } else { Ok(()) }
    }
    fn int_expr(&self, e: &Sexp) -> Result<(), Ill> { if self.value(e)? == T::I { Ok(()) } else { Err(Ill::Plain) } }

    /// the rule of one statement, not looking into nested statement lists
    fn stmt_rule(&self, s: &Sexp, ret: Option<ET>) -> Result<(), Ill> {
        let a = s.args();
        match s.head().expect("stmt") {
            "estmt" => if self.expr(&a[0])? == ET::Void { Ok(()) } else { Err(Ill::Plain) },
            "assign" => {
                self.assignable(&a[0])?;
                let (tv, te) = (self.ref_access(&a[0])?, self.value(&a[2])?);
                if tv != te { return Err(Ill::Plain); }
                match a[1].as_atom() {
                    "assign" => Ok(()),
                    "add" | "sub" | "mul" | "div" | "rem" => if numeric(tv) { Ok(()) } else { Err(Ill::Plain) },
                    _ => if tv == T::I { Ok(()) } else { Err(Ill::Plain) },
                }
            },
            "decl" => match a.get(1) {
                None => Ok(()),
                Some(e) => { let t = self.value(e)?; if self.inherent(false, a[0].as_i64()) == Some(t) { Ok(()) } else { Err(Ill::Plain) } },
            },
            "const" => { let t = self.value(&a[1])?; if self.inherent(false, a[0].as_i64()) == Some(t) { Ok(()) } else { Err(Ill::Plain) } },
            "if" | "ifelif" | "ifnoelse" | "while" | "dowhile" => self.int_expr(&a[0]),
            "times" => self.int_expr(&a[0]),
            "timesc" => { self.int_expr(&a[1])?; self.assignable(&a[0])?; if self.ref_access(&a[0])? == T::I { Ok(()) } else { Err(Ill::Plain) } },
            "cjump" => self.int_expr(&a[3]),
            "interrupt" | "reltime" => self.int_expr(&a[0]),
            "ret" => match (a.get(0), ret) {
                (_, None) => Err(Ill::Plain),
                (None, Some(rt)) => if rt == ET::Void { Ok(()) } else { Err(Ill::Plain) },
                (Some(e), Some(rt)) => if ET::Val(self.value(e)?) == rt { Ok(()) } else { Err(Ill::Plain) },
            },
            "decls" => {
                for d in a { let d = d.args(); if let Some(e) = d.get(1) { let t = self.value(e)?; if self.inherent(false, d[0].as_i64()) != Some(t) { return Err(Ill::Plain); } } }
                Ok(())
            },
            "consts" => {
                for d in a { let d = d.args(); let t = self.value(&d[1])?; if self.inherent(false, d[0].as_i64()) != Some(t) { return Err(Ill::Plain); } }
                Ok(())
            },
            "loop" | "inert" | "block" | "func" | "script" => Ok(()),
            h => panic!("bad stmt head {h}"),
        }
    }

    /// Collects, for every ill-typed statement, the construct to blame if the program is
    /// accepted anyway: the outermost enclosing construct the visitor is known not to look into
    /// (`within`), else the padding rule, else the statement kind itself.
    fn sites(&self, stmts: &[Sexp], ret: Option<ET>, within: Option<&'static str>, out: &mut Vec<String>) {
        for s in stmts {
            let head = s.head().expect("stmt");
            if let Err(why) = self.stmt_rule(s, ret) {
                let own: &'static str = match head {
                    "interrupt" => "stmt=interrupt-label", "reltime" => "stmt=rel-time-label", "const" => "stmt=const-decl",
                    "estmt" => "stmt=expr", "assign" => "stmt=assign", "decl" => "stmt=decl", "if" | "ifelif" | "ifnoelse" => "stmt=if-cond",
                    "while" | "dowhile" => "stmt=while-cond", "times" | "timesc" => "stmt=times", "cjump" => "stmt=cond-jump", "ret" => "stmt=return",
                    "decls" => "stmt=decls", "consts" => "stmt=const-decls",
                    _ => "stmt=other",
                };
                let culprit = within.unwrap_or(match why { Ill::Padding => "call=padding", Ill::ConstWrite => "xcrement-of-constant", Ill::Plain => own });
                out.push(culprit.to_string());
            }
            let a = s.args();
            match head {
                "if" | "ifelif" => { self.sites(a[1].as_list(), ret, within, out); self.sites(a[2].as_list(), ret, within, out); },
                "ifnoelse" | "while" | "dowhile" | "times" => self.sites(a[1].as_list(), ret, within, out),
                "timesc" => self.sites(a[2].as_list(), ret, within, out),
                "loop" => self.sites(a[0].as_list(), ret, within, out),
                // free blocks are walked since the repair 9b7e57b: not a construct to blame any more
                "block" => self.sites(a[0].as_list(), ret, within, out),
                "script" => self.sites(a[1].as_list(), ret, within, out),
                "func" => {
                    let rt = match a[1].as_atom() { "int" => ET::Val(T::I), "float" => ET::Val(T::F), "string" => ET::Val(T::S), _ => ET::Void };
                    self.sites(a[2].as_list(), Some(rt), within, out)
                },
                _ => {},
            }
        }
    }
}

fn ill_typed_sites(ctx: &Sexp, items: &[Sexp]) -> Vec<String> {
    let mut out = vec![];
    RefTyper::new(ctx).sites(items, None, None, &mut out);
    out
}

// ---------------------------------------------------------------------------------------------
// generator: type-directed, well-typed by construction

struct Gen<'a> {
    rng: &'a mut Rng,
    vars: Vec<(usize, char)>,
    /// variables in scope (innermost scope last)
    scopes: Vec<Vec<usize>>,
    /// `const` variables: never assignment / clobber targets in generated (well-typed) programs;
    /// the `const-target` mutation and `witness-assign-to-const` put one there
    consts: Vec<usize>,
    loops: u32,
    label: i64,
    next_root: i64,
    /// restrict to what the ANM lowering can reasonably compile (pipeline cases)
    tame: bool,
    /// the extended language (difficulty switches, `++` / `--`, enum constants, label properties,
    /// pseudo-arguments, user functions, multi-variable declarations, `return` at any depth).
    /// Every random draw that exists only for it is guarded by this flag, so the stream of the
    /// non-extended generator is what it always was.
    ext: bool,
    /// user-defined functions that can be called: (id, return type 'v' / 'i' / 'f', parameter types)
    funcs: Vec<(i64, char, Vec<char>)>,
    /// return type of the function whose body is being generated
    ret: Option<char>,
}

impl Gen<'_> {
    fn in_scope(&self, t: char) -> Vec<usize> {
        self.scopes.iter().flatten().copied().filter(|&n| self.vars.iter().any(|v| v.0 == n && v.1 == t)).collect()
    }
    fn new_var(&mut self, t: char) -> usize {
        let n = self.vars.len();
        self.vars.push((n, t));
        n
    }
    fn reg_of(&mut self, t: char) -> i64 {
        let c: Vec<i32> = REGS.iter().filter(|r| r.1 == t).map(|r| r.0).collect();
        *self.rng.pick(&c) as i64
    }
    fn lit(&mut self, t: char) -> Sexp {
        match t {
            'i' => app("i", vec![int(self.rng.below(10) as i64)]),
            'f' => app("f", vec![int(*self.rng.pick(FLOAT_LITS) as i64)]),
            _ => app("s", vec![Sexp::str(*self.rng.pick(STR_LITS))]),
        }
    }
    fn leaf(&mut self, t: char) -> Sexp {
        if self.ext && self.rng.chance(1, 5) { if let Some(e) = self.ext_leaf(t) { return e; } }
        if t == 's' {
            let vs = self.in_scope('s');
            if !vs.is_empty() && self.rng.chance(1, 2) { return app("var", vec![int(*self.rng.pick(&vs) as i64), atom("n")]); }
            return self.lit('s');
        }
        let other = if t == 'i' { 'f' } else { 'i' };
        let sig = if t == 'i' { "i" } else { "f" };
        match self.rng.below(10) {
            0..=2 => self.lit(t),
            3..=4 => { let r = self.reg_of(t); app("reg", vec![int(r), atom(if self.rng.chance(1, 2) { "n" } else { sig })]) },
            5 => { let r = self.reg_of(other); app("reg", vec![int(r), atom(sig)]) },         // cast read
            6 if !self.tame => { let r = self.reg_of('u'); app("reg", vec![int(r), atom(sig)]) }, // untyped needs the sigil
            7..=8 => {
                let vs = self.in_scope(t);
                if vs.is_empty() { return self.lit(t); }
                app("var", vec![int(*self.rng.pick(&vs) as i64), atom(if self.rng.chance(3, 4) { "n" } else { sig })])
            },
            _ => {
                let vs = self.in_scope('u');
                if vs.is_empty() { return self.lit(t); }
                app("var", vec![int(*self.rng.pick(&vs) as i64), atom(sig)])
            },
        }
    }
    fn expr(&mut self, t: char, depth: u32) -> Sexp {
        if depth == 0 || self.rng.chance(1, 4) { return self.leaf(t); }
        let d = depth - 1;
        if self.ext && self.rng.chance(1, 4) { if let Some(e) = self.ext_expr(t, d) { return e; } }
        if self.tame {
            // what the TH12 ANM instruction set can lower: arithmetic, negation, sin/cos, casts, ternary
            return match (t, self.rng.below(8)) {
                ('s', _) => self.leaf('s'),
                (_, 0..=3) => { let op = *self.rng.pick(&["add", "sub", "mul", "div", "rem"]); app("bin", vec![atom(op), self.expr(t, d), self.expr(t, d)]) },
                ('i', 4) => { let op = *self.rng.pick(&["neg", "castI", "sigI"]); app("un", vec![atom(op), self.expr('i', d)]) },
                ('i', 5) => { let op = *self.rng.pick(&["castI", "sigI"]); app("un", vec![atom(op), self.expr('f', d)]) },
                ('f', 4) => { let op = *self.rng.pick(&["neg", "sin", "cos", "castF", "sigF"]); app("un", vec![atom(op), self.expr('f', d)]) },
                ('f', 5) => { let op = *self.rng.pick(&["castF", "sigF"]); app("un", vec![atom(op), self.expr('i', d)]) },
                (_, 6) => app("tern", vec![self.cond(d), self.expr(t, d), self.expr(t, d)]),
                _ => self.leaf(t),
            };
        }
        match t {
            'i' => match self.rng.below(12) {
                0..=3 => {
                    let ops = ["add", "sub", "mul", "div", "rem", "lor", "land", "xor", "band", "bor", "shl", "shr", "ushr", "eq", "ne", "lt", "le", "gt", "ge"];
                    let op = *self.rng.pick(&ops);
                    app("bin", vec![atom(op), self.expr('i', d), self.expr('i', d)])
                },
                4..=5 => { let op = *self.rng.pick(&["eq", "ne", "lt", "le", "gt", "ge"]); app("bin", vec![atom(op), self.expr('f', d), self.expr('f', d)]) },
                6 => { let op = *self.rng.pick(&["neg", "not", "bnot", "castI", "sigI"]); app("un", vec![atom(op), self.expr('i', d)]) },
                7 => { let op = *self.rng.pick(&["castI", "sigI"]); app("un", vec![atom(op), self.expr('f', d)]) },
                8..=9 => app("tern", vec![self.expr('i', d), self.expr('i', d), self.expr('i', d)]),
                _ => self.leaf('i'),
            },
            'f' => match self.rng.below(12) {
                0..=3 => { let op = *self.rng.pick(&["add", "sub", "mul", "div", "rem"]); app("bin", vec![atom(op), self.expr('f', d), self.expr('f', d)]) },
                4..=5 => { let op = *self.rng.pick(&["neg", "castF", "sigF", "sin", "cos", "tan", "asin", "acos", "atan", "sqrt"]); app("un", vec![atom(op), self.expr('f', d)]) },
                6..=7 => { let op = *self.rng.pick(&["castF", "sigF"]); app("un", vec![atom(op), self.expr('i', d)]) },
                8..=9 => app("tern", vec![self.expr('i', d), self.expr('f', d), self.expr('f', d)]),
                _ => self.leaf('f'),
            },
            _ => if self.rng.chance(1, 3) { app("tern", vec![self.expr('i', d), self.expr('s', d), self.expr('s', d)]) } else { self.leaf('s') },
        }
    }
    /// an int-typed condition; in `tame` mode comparisons only appear here (they lower to
    /// conditional jumps, not to values)
    fn cond(&mut self, depth: u32) -> Sexp {
        if !self.tame { return self.expr('i', depth); }
        if self.rng.chance(2, 3) {
            let t = self.numeric_ty();
            let op = *self.rng.pick(&["eq", "ne", "lt", "le", "gt", "ge"]);
            app("bin", vec![atom(op), self.expr(t, depth), self.expr(t, depth)])
        } else { self.expr('i', depth) }
    }
    fn call(&mut self, depth: u32) -> Sexp {
        if self.ext && self.rng.chance(1, 3) { return self.ext_call(depth); }
        // mostly signatures with trailing-only padding; `S_f` (906) rarely, strings outside `tame`
        let mut pool: Vec<usize> = vec![0, 1, 2, 3, 4, 5];
        if !self.tame { pool.push(7); if self.rng.chance(1, 6) { pool.push(6); } }
        let &(op, _, ps) = &SIGS[*self.rng.pick(&pool)];
        let mut v = vec![int(op as i64)];
        for &(t, optional) in ps { if !optional { v.push(self.expr(t, depth)); } }
        app("call", v)
    }
    // ---- the extended language ------------------------------------------------------------
    fn xcr(&mut self) -> Sexp {
        let r = self.target('i');
        app("xcr", vec![atom(if self.rng.chance(1, 2) { "pre" } else { "post" }), atom(if self.rng.chance(1, 2) { "inc" } else { "dec" }), r])
    }
    fn ext_leaf(&mut self, t: char) -> Option<Sexp> {
        if t != 'i' { return None; }
        Some(match self.rng.below(4) {
            0 => self.xcr(),
            // qualified and bare enum constants
            1 => { let &(e, cs) = self.rng.pick(ENUMS); let c = self.rng.pick(cs).0; app("enum", vec![int(e), int(c as i64)]) },
            2 => { let &(_, cs) = self.rng.pick(ENUMS); let c = self.rng.pick(cs).0; app("var", vec![int(c as i64), atom("n")]) },
            _ => app("lprop", vec![atom(if self.rng.chance(1, 2) { "offsetof" } else { "timeof" }), int(self.label)]),
        })
    }
    fn ext_expr(&mut self, t: char, d: u32) -> Option<Sexp> {
        match self.rng.below(3) {
            // a difficulty switch of 2..4 cases, blank ones after the first
            0 | 1 => {
                let mut v = vec![self.expr(t, d)];
                for _ in 0..1 + self.rng.below(3) { if self.rng.chance(1, 4) { v.push(atom("_")); } else { v.push(self.expr(t, d)); } }
                Some(app("sw", v))
            },
            // a value-returning user function
            _ => {
                let c: Vec<(i64, char, Vec<char>)> = self.funcs.iter().filter(|f| f.1 == t).cloned().collect();
                if c.is_empty() { return None; }
                let (id, _, ps) = self.rng.pick(&c).clone();
                Some(self.user_call(id, &ps, d))
            },
        }
    }
    fn user_call(&mut self, id: i64, params: &[char], d: u32) -> Sexp {
        let mut v = vec![atom("u"), int(id), Sexp::list(vec![])];
        for &p in params { let t = if p == 'u' { *self.rng.pick(&['i', 'f', 's']) } else { p }; v.push(self.expr(t, d)); }
        app("callx", v)
    }
    /// a void call: an instruction with pseudo-arguments, a blob, or a void user function
    fn ext_call(&mut self, depth: u32) -> Sexp {
        let voids: Vec<(i64, char, Vec<char>)> = self.funcs.iter().filter(|f| f.1 == 'v').cloned().collect();
        match self.rng.below(4) {
            0 if !voids.is_empty() => { let (id, _, ps) = self.rng.pick(&voids).clone(); self.user_call(id, &ps, depth) },
            1 => {
                // `ins_N(@blob="..")`, sometimes with int pseudo-arguments in front; no signature needed
                let mut ps = vec![];
                if self.rng.chance(1, 3) { ps.push(app("ps", vec![atom("mask"), self.expr('i', 1)])); }
                ps.push(app("ps", vec![atom("blob"), app("s", vec![Sexp::str(*self.rng.pick(&["00000000", "0100000002000000"]))])]));
                let op = *self.rng.pick(&[900, 902, OPCODE_NO_SIG]);
                app("callx", vec![atom("i"), int(op as i64), Sexp::list(ps)])
            },
            _ => {
                let &(op, _, sig) = &SIGS[*self.rng.pick(&[0usize, 1, 2, 3, 4])];
                let mut ps = vec![];
                for _ in 0..1 + self.rng.below(2) { ps.push(app("ps", vec![atom(*self.rng.pick(&["mask", "pop", "arg0", "nargs"])), self.expr('i', depth.min(2))])); }
                let mut v = vec![atom("i"), int(op as i64), Sexp::list(ps)];
                for &(t, optional) in sig { if !optional { v.push(self.expr(t, depth)); } }
                app("callx", v)
            },
        }
    }
    fn ext_stmt(&mut self) -> Option<Sexp> {
        let ed = 1 + self.rng.below(2) as u32;
        match self.rng.below(6) {
            // `interrupt[(1 : 2)]:` / `+En0.v1000:` (label expressions are int-only positions too)
            5 => {
                let e = if self.rng.chance(1, 2) { app("sw", vec![self.lit('i'), self.lit('i')]) } else { let &(e, cs) = self.rng.pick(ENUMS); let c = self.rng.pick(cs).0; app("enum", vec![int(e), int(c as i64)]) };
                Some(app(if self.rng.chance(1, 2) { "interrupt" } else { "reltime" }, vec![e]))
            },
            // `int a = e, b, c = e;`
            0 | 1 => {
                let t = self.numeric_ty();
                let mut ds = vec![];
                for _ in 0..2 + self.rng.below(2) {
                    let init = if self.rng.chance(2, 3) { Some(self.expr(t, ed)) } else { None };
                    let n = self.new_var(t);
                    self.scopes.last_mut().unwrap().push(n);
                    ds.push(match init { Some(e) => app("d", vec![int(n as i64), e]), None => app("d", vec![int(n as i64)]) });
                }
                Some(app("decls", ds))
            },
            // `const float a = e, b = e;`
            2 => {
                let t = self.numeric_ty();
                let mut ds = vec![];
                for _ in 0..2 + self.rng.below(2) {
                    let e = self.const_expr(t, 2);
                    let n = self.new_var(t);
                    self.consts.push(n);
                    self.scopes.last_mut().unwrap().push(n);
                    ds.push(app("d", vec![int(n as i64), e]));
                }
                Some(app("consts", ds))
            },
            // `return e;` / `return;` wherever we are inside a function
            3 => match self.ret {
                Some('v') => Some(app("ret", vec![])),
                Some(t) => Some(app("ret", vec![self.expr(t, ed)])),
                None => None,
            },
            // `++x;` is not a statement of the language: an expression statement must be void
            _ => Some(app("estmt", vec![self.ext_call(ed)])),
        }
    }
    /// `inline int fnK(int a, float b, var c) { .. }`; the parameters are variables of the body
    fn func_item(&mut self, depth: u32) -> Sexp {
        let rt = *self.rng.pick(&['v', 'i', 'f']);
        let id = self.next_root;
        let qual = match self.rng.below(6) { 0 => "sub", 1 => "const", _ => "inline" };
        let mut params = vec![];
        let mut ptys = vec![];
        self.scopes.push(vec![]);
        for _ in 0..self.rng.below(4) {
            let t = *self.rng.pick(&['i', 'f', 'i', 'f', 'u']);
            let n = self.new_var(t);
            self.scopes.last_mut().unwrap().push(n);
            params.push(int(n as i64));
            ptys.push(t);
        }
        // callable from its own body (recursion type-checks like any other call) and from everything after it
        self.funcs.push((id, rt, ptys));
        let body = if qual == "const" {
            // `const` functions may not name registers or instructions: a single `return` over parameters and literals
            self.label = self.next_root; self.next_root += 1;
            match rt { 'v' => Sexp::list(vec![app("ret", vec![])]), t => { let e = self.param_expr(t, 2); Sexp::list(vec![app("ret", vec![e])]) } }
        } else {
            let saved = self.ret.replace(rt);
            let b = self.root_body(depth.min(2), Some(rt));
            self.ret = saved;
            b
        };
        self.scopes.pop();
        app("func", vec![int(id), atom(match rt { 'i' => "int", 'f' => "float", _ => "void" }), body, app("params", params), atom(qual)])
    }
    /// an expression over the variables in scope and literals only
    fn param_expr(&mut self, t: char, depth: u32) -> Sexp {
        let vs = self.in_scope(t);
        if depth == 0 || self.rng.chance(1, 3) {
            if !vs.is_empty() && self.rng.chance(2, 3) { return app("var", vec![int(*self.rng.pick(&vs) as i64), atom("n")]); }
            return self.lit(t);
        }
        let op = *self.rng.pick(&["add", "sub", "mul"]);
        app("bin", vec![atom(op), self.param_expr(t, depth - 1), self.param_expr(t, depth - 1)])
    }

    fn numeric_ty(&mut self) -> char { if self.rng.chance(1, 2) { 'i' } else { 'f' } }
    fn target(&mut self, t: char) -> Sexp {
        let sig = if t == 'i' { "i" } else { "f" };
        let vs: Vec<usize> = self.in_scope(t).into_iter().filter(|n| !self.consts.contains(n)).collect();
        if !vs.is_empty() && self.rng.chance(1, 2) {
            return app("ref", vec![atom("v"), int(*self.rng.pick(&vs) as i64), atom(if self.rng.chance(3, 4) { "n" } else { sig })]);
        }
        let r = self.reg_of(t);
        app("ref", vec![atom("r"), int(r), atom(if self.rng.chance(1, 2) { "n" } else { sig })])
    }
    fn body(&mut self, depth: u32, max: usize) -> Sexp {
        self.scopes.push(vec![]);
        let n = self.rng.below(max + 1);
        let mut v = vec![];
        for _ in 0..n { v.push(self.stmt(depth)); }
        self.scopes.pop();
        Sexp::list(v)
    }
    fn stmt(&mut self, depth: u32) -> Sexp {
        if self.ext && self.rng.chance(1, 5) { if let Some(st) = self.ext_stmt() { return st; } }
        let ed = 1 + self.rng.below(3) as u32;
        let k = if depth == 0 { self.rng.below(9) } else { self.rng.below(20) };
        match k {
            0..=1 => { let t = self.numeric_ty(); app("assign", vec![self.target(t), atom("assign"), self.expr(t, ed)]) },
            2 => {
                let t = self.numeric_ty();
                let op = if t == 'i' && !self.tame { *self.rng.pick(&["add", "sub", "mul", "div", "rem", "bor", "xor", "band", "shl", "shr", "ushr"]) } else { *self.rng.pick(&["add", "sub", "mul", "div", "rem"]) };
                app("assign", vec![self.target(t), atom(op), self.expr(t, ed)])
            },
            3..=4 => {
                let t = if !self.tame && self.rng.chance(1, 8) { 'u' } else { self.numeric_ty() };
                let init = if t != 'u' && self.rng.chance(3, 4) { Some(self.expr(t, ed)) } else { None };
                let n = self.new_var(t);
                self.scopes.last_mut().unwrap().push(n);
                match init { Some(e) => app("decl", vec![int(n as i64), e]), None => app("decl", vec![int(n as i64)]) }
            },
            5 => {
                let t = *self.rng.pick(&['i', 'f', 's']);
                let e = match t { 's' => self.lit('s'), _ => self.const_expr(t, 2) };
                let n = self.new_var(t);
                self.consts.push(n);
                self.scopes.last_mut().unwrap().push(n);
                app("const", vec![int(n as i64), e])
            },
            6..=7 => app("estmt", vec![self.call(ed)]),
            8 => match self.rng.below(4) {
                0 => app("cjump", vec![atom(*self.rng.pick(&["if", "unless"])), atom("goto"), int(self.label), self.cond(ed)]),
                1 if self.loops > 0 => app("cjump", vec![atom("if"), atom("break"), int(0), self.cond(ed)]),
                2 => app("interrupt", vec![app("i", vec![int(1 + self.rng.below(5) as i64)])]),
                _ => app("reltime", vec![app("i", vec![int(self.rng.below(30) as i64)])]),
            },
            9..=10 => {
                let c = self.cond(ed);
                let t = self.body(depth - 1, 3);
                match self.rng.below(3) {
                    0 => app("ifnoelse", vec![c, t]),
                    1 => app("if", vec![c, t, self.body(depth - 1, 2)]),
                    _ => {
                        let c2 = self.cond(ed);
                        let t2 = self.body(depth - 1, 2);
                        let inner = if self.rng.chance(1, 2) { app("ifnoelse", vec![c2, t2]) } else { app("if", vec![c2, t2, self.body(depth - 1, 2)]) };
                        app("ifelif", vec![c, t, Sexp::list(vec![inner])])
                    },
                }
            },
            11 => { let c = self.cond(ed); self.loops += 1; let b = self.body(depth - 1, 3); self.loops -= 1; app("while", vec![c, b]) },
            12 => { let c = self.cond(ed); self.loops += 1; let b = self.body(depth - 1, 3); self.loops -= 1; app("dowhile", vec![c, b]) },
            13 => { self.loops += 1; let b = self.body(depth - 1, 3); self.loops -= 1; app("loop", vec![b]) },
            14..=15 => {
                let c = self.expr('i', ed);
                let clobber = if self.rng.chance(1, 3) { Some(self.target('i')) } else { None };
                self.loops += 1; let b = self.body(depth - 1, 3); self.loops -= 1;
                match clobber { Some(r) => app("timesc", vec![r, c, b]), None => app("times", vec![c, b]) }
            },
            _ => app("block", vec![self.body(depth - 1, 3)]),
        }
    }
    /// closed constant expression (so that `const` definitions evaluate)
    fn const_expr(&mut self, t: char, depth: u32) -> Sexp {
        if depth == 0 || self.rng.chance(1, 2) { return self.lit(t); }
        match t {
            'i' => { let op = *self.rng.pick(&["add", "sub", "mul", "xor", "shl", "lt"]); app("bin", vec![atom(op), self.const_expr('i', depth - 1), self.const_expr('i', depth - 1)]) },
            _ => { let op = *self.rng.pick(&["add", "sub", "mul"]); app("bin", vec![atom(op), self.const_expr('f', depth - 1), self.const_expr('f', depth - 1)]) },
        }
    }
    fn root_body(&mut self, depth: u32, ret: Option<char>) -> Sexp {
        self.label = self.next_root;
        self.next_root += 1;
        self.scopes.push(vec![]);
        let n = 1 + self.rng.below(5);
        let mut v = vec![];
        for _ in 0..n { v.push(self.stmt(depth)); }
        match ret {
            Some('v') => if self.rng.chance(1, 2) { v.push(app("ret", vec![])) },
            Some(t) => v.push(app("ret", vec![self.expr(t, 2)])),
            None => {},
        }
        v.push(app("inert", vec![atom("label"), int(self.label)]));
        self.scopes.pop();
        Sexp::list(v)
    }
    /// a whole file: global consts, sometimes functions, scripts
    fn program(&mut self, depth: u32) -> Vec<Sexp> {
        let mut items = vec![];
        self.scopes.push(vec![]);
        for _ in 0..self.rng.below(3) {
            let t = *self.rng.pick(&['i', 'f', 's']);
            let e = match t { 's' => self.lit('s'), _ => self.const_expr(t, 2) };
            let n = self.new_var(t);
            self.consts.push(n);
            self.scopes.last_mut().unwrap().push(n);
            items.push(app("const", vec![int(n as i64), e]));
        }
        if self.ext {
            for _ in 0..1 + self.rng.below(3) { let f = self.func_item(depth); items.push(f); }
        }
        if !self.ext && !self.tame && self.rng.chance(1, 4) {
            let rt = *self.rng.pick(&['v', 'i', 'f']);
            let id = self.next_root;
            let body = self.root_body(depth.min(2), Some(rt));
            items.push(app("func", vec![int(id), atom(match rt { 'i' => "int", 'f' => "float", _ => "void" }), body]));
        }
        for _ in 0..1 + self.rng.below(2) {
            let id = self.next_root;
            let body = self.root_body(depth, None);
            items.push(app("script", vec![int(id), body]));
        }
        self.scopes.pop();
        items
    }
}

// ---------------------------------------------------------------------------------------------
// single-point mutations

const EXPR_HEADS: &[&str] = &["i", "f", "s", "reg", "var", "un", "bin", "tern", "call", "sw", "xcr", "enum", "lprop", "callx"];
/// list nodes that are neither expressions nor statements (parts of the extended grammar)
const PART_HEADS: &[&str] = &["ref", "ps", "d", "params"];

fn other_ty(t: char, rng: &mut Rng) -> char {
    let c: Vec<char> = ['i', 'f', 's'].iter().copied().filter(|&x| x != t).collect();
    *rng.pick(&c)
}
fn lit_of(t: char, rng: &mut Rng) -> Sexp {
    match t {
        'i' => app("i", vec![int(rng.below(10) as i64)]),
        'f' => app("f", vec![int(*rng.pick(FLOAT_LITS) as i64)]),
        _ => app("s", vec![Sexp::str(*rng.pick(STR_LITS))]),
    }
}
fn reg_of(t: char, rng: &mut Rng) -> i64 {
    let c: Vec<i32> = REGS.iter().filter(|r| r.1 == t).map(|r| r.0).collect();
    *rng.pick(&c) as i64
}

/// variants of one expression node (the node itself changed, children untouched), each with a tag
fn expr_node_mutations(e: &Sexp, typer: &RefTyper, rng: &mut Rng) -> Vec<(Sexp, &'static str)> {
    let a = e.args();
    let mut out = vec![];
    let head = e.head().unwrap();
    let here: Option<char> = match typer.expr(e) { Ok(ET::Val(T::I)) => Some('i'), Ok(ET::Val(T::F)) => Some('f'), Ok(ET::Val(T::S)) => Some('s'), _ => None };
    match head {
        "i" | "f" | "s" => {
            let t = head.chars().next().unwrap();
            out.push((lit_of(other_ty(t, rng), rng), "literal"));
            if t != 's' { let o = if t == 'i' { 'f' } else { 'i' }; out.push((app("reg", vec![int(reg_of(o, rng)), atom("n")]), "operand")); }
        },
        "reg" | "var" => {
            // sigil changes
            for s in ["n", "i", "f"] { if s != a[1].as_atom() { out.push((app(head, vec![a[0].clone(), atom(s)]), "sigil")); } }
            // another variable: a register of another type / untyped
            if let Some(t) = here {
                let o = if t == 'i' { 'f' } else { 'i' };
                out.push((app("reg", vec![int(reg_of(o, rng)), atom("n")]), "variable"));
                out.push((app("reg", vec![int(reg_of('u', rng)), atom("n")]), "variable"));
                out.push((lit_of(other_ty(t, rng), rng), "operand"));
            }
        },
        "un" => {
            let op = a[0].as_atom();
            let alt: &[&str] = match op {
                "castI" => &["castF", "sigF"], "castF" => &["castI", "sigI"], "sigI" => &["sigF", "castF"], "sigF" => &["sigI", "castI"],
                "neg" => &["not", "sin"], "not" | "bnot" => &["neg", "sqrt", "castF"], _ => &["neg", "bnot", "castI"],
            };
            for o in alt { out.push((app("un", vec![atom(o), a[1].clone()]), "cast")); }
            out.push((a[1].clone(), "cast")); // drop the operator
        },
        "bin" => {
            let op = a[0].as_atom();
            let alt: &[&str] = match op {
                "add" | "sub" | "mul" | "div" | "rem" => &["lt", "band", "land"],
                "eq" | "ne" | "lt" | "le" | "gt" | "ge" => &["add", "shl", "lor"],
                _ => &["add", "eq"],
            };
            for o in alt { out.push((app("bin", vec![atom(o), a[1].clone(), a[2].clone()]), "operator")); }
        },
        "tern" => {
            out.push((app("tern", vec![a[1].clone(), a[1].clone(), a[2].clone()]), "operand"));
            out.push((app("tern", vec![a[0].clone(), a[2].clone(), a[0].clone()]), "operand"));
        },
        "call" => {
            // arity and opcode
            let mut fewer = a.to_vec(); if fewer.len() > 1 { fewer.pop(); out.push((app("call", fewer), "argument")); }
            let mut more = a.to_vec(); more.push(lit_of('i', rng)); out.push((app("call", more), "argument"));
            let other = SIGS[rng.below(SIGS.len())].0 as i64;
            if other != a[0].as_i64() { let mut v = a.to_vec(); v[0] = int(other); out.push((app("call", v), "argument")); }
            let mut v = a.to_vec(); v[0] = int(OPCODE_NO_SIG as i64); out.push((app("call", v), "argument"));
        },
        "sw" => {
            // one case (the first, a later one, one after a blank) becomes a value of another type
            if let Some(t) = here {
                for k in 0..a.len() {
                    if a[k].head().is_none() { continue; }
                    let mut v = a.to_vec(); v[k] = lit_of(other_ty(t, rng), rng); out.push((app("sw", v), "switch-case"));
                }
                // a blank case more, a case less: still well-typed
                let mut v = a.to_vec(); v.insert(1, atom("_")); out.push((app("sw", v), "switch-blank"));
                if a.len() > 2 { let mut v = a.to_vec(); v.pop(); out.push((app("sw", v), "switch-blank")); }
            }
        },
        "xcr" => {
            // the operand becomes a float register / an untyped one; sigils and constants through the `ref` node
            out.push((app("xcr", vec![a[0].clone(), a[1].clone(), app("ref", vec![atom("r"), int(reg_of('f', rng)), atom("n")])]), "xcrement"));
            out.push((app("xcr", vec![a[0].clone(), a[1].clone(), app("ref", vec![atom("r"), int(reg_of('u', rng)), atom("n")])]), "xcrement"));
            out.push((app("xcr", vec![a[0].clone(), a[1].clone(), app("ref", vec![atom("r"), int(reg_of('f', rng)), atom("i")])]), "xcrement"));
        },
        "enum" | "lprop" => { out.push((lit_of(other_ty('i', rng), rng), "operand")); },
        "callx" => {
            let user = a[0].as_atom() == "u";
            let pseudos = a[2].as_list();
            let with = |ps: Vec<Sexp>, args: &[Sexp]| { let mut v = vec![a[0].clone(), a[1].clone(), Sexp::list(ps)]; v.extend(args.iter().cloned()); app("callx", v) };
            // arity
            if a.len() > 3 { out.push((with(pseudos.to_vec(), &a[3..a.len() - 1]), "argument")); }
            let mut more = a[3..].to_vec(); more.push(lit_of('i', rng)); out.push((with(pseudos.to_vec(), &more), "argument"));
            // a pseudo-argument of the wrong type, of another kind, a blob next to normal arguments, a pseudo-argument on a user function
            if let Some(p) = pseudos.first() {
                let k = p.args()[0].as_atom();
                let mut ps = pseudos.to_vec(); ps[0] = app("ps", vec![atom(k), lit_of(if k == "blob" { 'i' } else { 'f' }, rng)]); out.push((with(ps, &a[3..]), "pseudo"));
                let mut ps = pseudos.to_vec(); ps[0] = app("ps", vec![atom(if k == "blob" { "mask" } else { "blob" }), p.args()[1].clone()]); out.push((with(ps, &a[3..]), "pseudo"));
                out.push((with(pseudos[1..].to_vec(), &a[3..]), "pseudo"));
            }
            let mut ps = pseudos.to_vec(); ps.push(app("ps", vec![atom("blob"), lit_of('s', rng)])); out.push((with(ps, &a[3..]), "pseudo"));
            let mut ps = pseudos.to_vec(); ps.insert(0, app("ps", vec![atom("mask"), lit_of('i', rng)])); out.push((with(ps, &a[3..]), "pseudo"));
            if !user { let mut v = a.to_vec(); v[1] = int(OPCODE_NO_SIG as i64); out.push((app("callx", v), "argument")); }
        },
        _ => {},
    }
    // wrap in a cast to another type (any value-typed node)
    if let Some(t) = here {
        if t != 's' && head != "un" {
            let w = if t == 'i' { *rng.pick(&["castF", "sigF"]) } else { *rng.pick(&["castI", "sigI"]) };
            out.push((app("un", vec![atom(w), e.clone()]), "cast"));
        }
    }
    out
}

/// all single-point mutants of a tree of statements: every expression node at every depth,
/// every assignment / clobber target, every declared type (through the context).
fn mutants(ctx: &Sexp, items: &[Sexp], rng: &mut Rng, per_node: usize) -> Vec<(Sexp, Sexp, String)> {
    let typer = RefTyper::new(ctx);
    let whole = Sexp::list(items.to_vec());
    let mut out: Vec<(Sexp, Sexp, String)> = vec![];
    // paths to every list node
    fn walk(node: &Sexp, path: &mut Vec<usize>, f: &mut dyn FnMut(&Sexp, &[usize])) {
        if let Sexp::List(v) = node {
            f(node, path);
            for (i, c) in v.iter().enumerate() { path.push(i); walk(c, path, f); path.pop(); }
        }
    }
    fn replace(node: &Sexp, path: &[usize], new: &Sexp) -> Sexp {
        if path.is_empty() { return new.clone(); }
        match node { Sexp::List(v) => { let mut v = v.clone(); v[path[0]] = replace(&v[path[0]], &path[1..], new); Sexp::List(v) }, _ => node.clone() }
    }
    fn stmt_kind_at(whole: &Sexp, path: &[usize]) -> String {
        // innermost enclosing statement head and whether a free block is on the way
        let mut node = whole; let mut kinds: Vec<&str> = vec![];
        for &i in path {
            if let Some(h) = node.head() { if !EXPR_HEADS.contains(&h) && !PART_HEADS.contains(&h) { kinds.push(h); } }
            node = &node.as_list()[i];
        }
        if let Some(h) = node.head() { if !EXPR_HEADS.contains(&h) && !PART_HEADS.contains(&h) { kinds.push(h); } }
        let inner = kinds.last().copied().unwrap_or("?");
        format!("{}{}", if kinds.contains(&"block") { "in-block/" } else { "" }, inner)
    }
    fn in_const(whole: &Sexp, path: &[usize]) -> bool {
        let mut node = whole;
        let is_const = |n: &Sexp| matches!(n.head(), Some("const") | Some("consts")) || (n.head() == Some("func") && n.args().get(4).map(|q| q.as_atom() == "const").unwrap_or(false));
        for &i in path { if is_const(node) { return true; } node = &node.as_list()[i]; }
        is_const(node)
    }
    // top-level `const` items are in scope in everything that follows them
    let ctx_vars = Vars::from_ctx(ctx);
    let top_consts: Vec<(usize, char)> = items.iter().filter(|s| s.head() == Some("const")).map(|s| { let n = s.args()[0].as_usize(); (n, ctx_vars.ty(n)) }).collect();
    let mut sites: Vec<(Vec<usize>, Sexp)> = vec![];
    walk(&whole, &mut vec![], &mut |n, p| { sites.push((p.to_vec(), n.clone())); });
    for (path, node) in &sites {
        let head = match node.head() { Some(h) => h, None => continue };
        let mut variants: Vec<(Sexp, &'static str)> = vec![];
        // two-point variants (kept apart: they are sampled separately from the single-point ones)
        let mut coherent: Vec<(Sexp, &'static str)> = vec![];
        if EXPR_HEADS.contains(&head) {
            variants = expr_node_mutations(node, &typer, rng);
        } else if head == "ref" {
            let a = node.args();
            for s in ["n", "i", "f"] { if s != a[2].as_atom() { variants.push((app("ref", vec![a[0].clone(), a[1].clone(), atom(s)]), "sigil")); } }
            if let Ok(t) = typer.ref_access(node) {
                let o = if t == T::I { 'f' } else { 'i' };
                variants.push((app("ref", vec![atom("r"), int(reg_of(o, rng)), atom("n")]), "variable"));
                variants.push((app("ref", vec![atom("r"), int(reg_of('u', rng)), atom("n")]), "variable"));
                // a constant of the SAME type as target: well-typed operands, but constants cannot be written to
                let tc = if t == T::I { 'i' } else { 'f' };
                if let Some(&(n, _)) = top_consts.iter().find(|c| c.1 == tc) {
                    variants.insert(0, (app("ref", vec![atom("v"), int(n as i64), atom("n")]), "const-target"));
                }
            }
        } else if head == "assign" {
            let a = node.args();
            let alt: &[&str] = match a[1].as_atom() { "assign" => &["add", "band"], "add" | "sub" | "mul" | "div" | "rem" => &["shl", "bor"], _ => &["add", "assign"] };
            for o in alt { variants.push((app("assign", vec![a[0].clone(), atom(o), a[2].clone()]), "operator")); }
            // target and value retyped together under every operator class (two-point changes: the sides agree
            // with each other, the operator may not take that type; or they differ while the result type of the
            // operator equals the target's)
            for o in ["assign", "add", "rem", "band", "bor", "xor", "shl", "ushr"] {
                for (tt, vt) in [('f', 'f'), ('i', 'f'), ('f', 'i')] {
                    if o == a[1].as_atom() && tt != vt { continue; }
                    let target = app("ref", vec![atom("r"), int(reg_of(tt, rng)), atom("n")]);
                    let value = if rng.chance(1, 2) { lit_of(vt, rng) } else { app("reg", vec![int(reg_of(vt, rng)), atom("n")]) };
                    coherent.push((app("assign", vec![target, atom(o), value]), "both-slots"));
                }
            }
        } else if head == "timesc" {
            // both slots of `times(x = n)` retyped together: the counter and the count agree with each other but not with
            // the rule that both are int (a check that only compares the two sides accepts it)
            let a = node.args();
            for (rt, lt) in [('f', 'f'), ('u', 'i')] {
                let mut v = a.to_vec();
                v[0] = app("ref", vec![atom("r"), int(reg_of(rt, rng)), atom(if rt == 'u' { "f" } else { "n" })]);
                v[1] = if rt == 'u' { let _ = lt; lit_of('f', rng) } else if rng.chance(1, 2) { lit_of('f', rng) } else { app("reg", vec![int(reg_of('f', rng)), atom("n")]) };
                coherent.push((app("timesc", v), "both-slots"));
            }
        } else if head == "func" && node.args().len() > 3 {
            // another return type: every `return` of the body is affected
            let a = node.args();
            for rt in ["int", "float", "void"] { if rt != a[1].as_atom() { let mut v = a.to_vec(); v[1] = atom(rt); variants.push((app("func", v), "return-type")); } }
        } else if head == "ret" {
            let a = node.args();
            if a.is_empty() { variants.push((app("ret", vec![lit_of('i', rng)]), "operand")); } else { variants.push((app("ret", vec![]), "operand")); }
        }
        if head == "bin" {
            // both operands of a binary operator retyped together
            let a = node.args();
            for t in ['i', 'f'] {
                let l = if rng.chance(1, 2) { lit_of(t, rng) } else { app("reg", vec![int(reg_of(t, rng)), atom("n")]) };
                let r = if rng.chance(1, 2) { lit_of(t, rng) } else { app("reg", vec![int(reg_of(t, rng)), atom("n")]) };
                coherent.push((app("bin", vec![a[0].clone(), l, r]), "both-slots"));
            }
        }
        let kind = stmt_kind_at(&whole, path);
        // `const` initialisers may not mention raw registers or instructions (rejected before
        // type checking, by `assign_languages`)
        if in_const(&whole, path) { variants.retain(|(v, _)| !has_head(v, "reg") && !has_head(v, "call") && !has_head(v, "callx") && !has_head(v, "ref")); }
        if variants.len() > per_node { rng.shuffle(&mut variants); variants.truncate(per_node); }
        if in_const(&whole, path) { coherent.clear(); }
        if coherent.len() > per_node { rng.shuffle(&mut coherent); coherent.truncate(per_node); }
        variants.extend(coherent);
        for (v, tag) in variants {
            out.push((ctx.clone(), replace(&whole, path, &v), format!("mut-{tag}@{kind}")));
        }
    }
    // declared types: change the type of one declared variable in the context (`int x = e;` ->
    // `float x = e;` / `var x = e;`); every use of the variable is affected
    let vars = Vars::from_ctx(ctx);
    let mut const_ids: Vec<usize> = vec![];
    walk(&whole, &mut vec![], &mut |n, _| {
        if n.head() == Some("const") { const_ids.push(n.args()[0].as_usize()); }
        if n.head() == Some("consts") { for d in n.args() { const_ids.push(d.args()[0].as_usize()); } }
    });
    // the variables of one `T a, b, c;` share the keyword
    let mut groups: Vec<Vec<usize>> = vec![];
    walk(&whole, &mut vec![], &mut |n, _| { if matches!(n.head(), Some("decls") | Some("consts")) { groups.push(n.args().iter().map(|d| d.args()[0].as_usize()).collect()); } });
    for &(n, t) in &vars.0 {
        if ENUM_CONST_VARS.contains(&n) { continue; }
        let group: Vec<usize> = groups.iter().find(|g| g.contains(&n)).cloned().unwrap_or_else(|| vec![n]);
        if group[0] != n { continue; }
        let mut nts = vec![match t { 'i' => 'f', 'f' => 'i', _ => 'i' }];
        if !const_ids.contains(&n) && t != 'u' { nts.push('u'); }
        for nt in nts {
            let mut nv = vars.0.clone();
            for x in nv.iter_mut() { if group.contains(&x.0) { x.1 = nt; } }
            let nctx = if ctx.args().len() > 3 { ctx_sexp_ext(&nv, &const_ids, items) } else { ctx_sexp(&nv, &const_ids) };
            out.push((nctx, whole.clone(), "mut-declared-type".to_string()));
        }
    }
    out
}

fn max_depth(stmts: &[Sexp]) -> usize {
    stmts.iter().map(|s| {
        let a = s.args();
        match s.head() {
            Some("if") | Some("ifelif") => 1 + max_depth(a[1].as_list()).max(max_depth(a[2].as_list())),
            Some("ifnoelse") | Some("while") | Some("dowhile") | Some("times") | Some("script") => 1 + max_depth(a[1].as_list()),
            Some("timesc") | Some("func") => 1 + max_depth(a[2].as_list()),
            Some("loop") | Some("block") => 1 + max_depth(a[0].as_list()),
            _ => 0,
        }
    }).max().unwrap_or(0)
}

// ---------------------------------------------------------------------------------------------
// running the real implementation

enum Front { Accepted, Rejected(String), Invalid(String) }

/// parse + assign_languages + resolve_names + type_check::run on a whole script file
fn front(text: &str) -> Front { front_with(text, &mapfile_text()) }

fn front_with(text: &str, mapfile: &str) -> Front {
    let mut scope = truth::Builder::new().capture_diagnostics(true).build();
    let mut truth = scope.truth();
    truth.apply_mapfile_str(mapfile, truth::Game::Th12).expect("mapfile");
    let mut script = match truth.parse::<ast::ScriptFile>("<input>", text.as_bytes()) {
        Ok(x) => x.value,
        Err(e) => { e.ignore(); return Front::Invalid(format!("parse: {}", diag_class(&truth.get_captured_diagnostics().unwrap_or_default()))); },
    };
    let ctx = truth.ctx();
    let r = truth::passes::resolution::assign_languages(&mut script, LanguageKey::Anm, ctx)
        .and_then(|_| truth::passes::resolution::resolve_names(&script, ctx));
    if let Err(e) = r { e.ignore(); return Front::Invalid(format!("resolve: {}", diag_class(&truth.get_captured_diagnostics().unwrap_or_default()))); }
    match truth::passes::type_check::run(&script, ctx) {
        Ok(()) => Front::Accepted,
        Err(e) => { e.ignore(); Front::Rejected(diag_class(&truth.get_captured_diagnostics().unwrap_or_default())) },
    }
}

fn is_ext(ctx: &Sexp) -> bool { ctx.args().len() > 3 }
fn mapfile_for(ctx: &Sexp) -> String { if is_ext(ctx) { mapfile_text_ext() } else { mapfile_text() } }

/// the context of an extended case with the function signatures read off (mutated) `items`
fn refresh_ext_ctx(ctx: &Sexp, items: &[Sexp]) -> Sexp {
    let vars = Vars::from_ctx(ctx);
    let consts: Vec<usize> = ctx.args()[1].args().iter().filter(|p| p.as_list().get(2).map(|m| m.as_atom() == "c").unwrap_or(false)).map(|p| p.as_list()[0].as_usize()).collect();
    ctx_sexp_ext(&vars.0, &consts, items)
}

fn eval_prog(ctx: &Sexp, items: &[Sexp]) -> Sexp {
    match front_with(&program_text(ctx, items), &mapfile_for(ctx)) {
        Front::Accepted => app("ok", vec![]),
        Front::Rejected(c) => app("err", vec![Sexp::str(c)]),
        Front::Invalid(c) => app("invalid", vec![Sexp::str(c), Sexp::str(program_text(ctx, items))]),
    }
}

fn ty_name(t: Option<truth::ScalarType>) -> &'static str {
    use truth::ScalarType as S;
    match t { None => "void", Some(S::Int) => "int", Some(S::Float) => "float", Some(S::String) => "string" }
}

fn has_head(e: &Sexp, h: &str) -> bool {
    match e { Sexp::List(v) => e.head() == Some(h) || v.iter().any(|x| has_head(x, h)), _ => false }
}
fn has_call(e: &Sexp) -> bool { has_head(e, "call") }

fn has_sigil_xcrement(e: &Sexp) -> bool {
    match e {
        Sexp::List(v) => (e.head() == Some("xcr") && v.last().map(|r| r.head() == Some("ref") && r.args().get(2).map(|s| s.as_atom() != "n").unwrap_or(false)).unwrap_or(false)) || v.iter().any(has_sigil_xcrement),
        _ => false,
    }
}

fn eval_expr(ectx: &Sexp, e: &Sexp) -> Sexp {
    let mut scope = truth::Builder::new().capture_diagnostics(true).build();
    let mut truth = scope.truth();
    truth.apply_mapfile_str(&mapfile_for(ectx), truth::Game::Th12).expect("mapfile");
    let text = expr_text(e);
    let mut expr = match truth.parse::<ast::Expr>("<input>", text.as_bytes()) {
        Ok(x) => x,
        Err(err) => { err.ignore(); return app("invalid", vec![Sexp::str(format!("parse: {}", diag_class(&truth.get_captured_diagnostics().unwrap_or_default()))), Sexp::str(text)]); },
    };
    let ctx = truth.ctx();
    let r = truth::passes::resolution::assign_languages(&mut expr, LanguageKey::Anm, ctx)
        .and_then(|_| truth::passes::resolution::resolve_names(&expr, ctx));
    if let Err(err) = r { err.ignore(); return app("invalid", vec![Sexp::str("resolve")]); }
    if let Err(err) = truth::passes::type_check::run(&expr, ctx) {
        err.ignore();
        return app("err", vec![Sexp::str(diag_class(&truth.get_captured_diagnostics().unwrap_or_default()))]);
    }
    let static_ty = expr.compute_ty(ctx).as_value_ty();
    // dynamic type: evaluate in the VM under a valuation that respects the register types
    // (the VM has no calls, enum constants or label properties)
    for difficulty in 0..(if is_ext(ectx) { 3u32 } else { 1 }) {
    // (`++$REG[f]` with a sigil writes through a cast view: AstVm keeps registers dynamically typed and stores the int, so a
    // later natural read of the same register in the same expression comes back as an int - a trait of the test VM,
    // not a statement about the checker; such expressions are compared with the model only)
    if !has_call(e) && !has_head(e, "callx") && !has_head(e, "enum") && !has_head(e, "lprop") && !has_sigil_xcrement(e) {
        let value = std::panic::catch_unwind(std::panic::AssertUnwindSafe(|| {
            let mut vm = truth::vm::AstVm::new().with_difficulty(difficulty);
            for &(r, t) in REGS {
                match t {
                    'f' => vm.set_reg(RegId(r), ScalarValue::Float(1.5 + (r % 4) as f32)),
                    _ => vm.set_reg(RegId(r), ScalarValue::Int(3 + (r % 4))),
                }
            }
            vm.eval(&expr.value, &ctx.resolutions)
        }));
        match value {
            Ok(v) => {
                let dynamic = Some(v.ty());
                if dynamic != static_ty {
                    return fail("static-type-differs-from-dynamic", format!("{text}: compute_ty {} but the VM value is {}", ty_name(static_ty), ty_name(dynamic)));
                }
            },
            Err(_) => {}, // undefined at run time (integer division by zero, a difficulty without a case): nothing to compare
        }
    }
    }
    app("ok", vec![atom(ty_name(static_ty))])
}

const ENTRY: &str = "entry { path: \"a.png\", has_data: false, img_width: 16, img_height: 16, img_format: 3, offset_x: 0, offset_y: 0, colorkey: 0, memory_priority: 0, low_res_scale: false, sprites: {} }\n";

/// oracle: whatever the type checker accepts must get through the rest of the compiler without
/// a panic (a diagnostic is fine).  When the reference typer says the accepted program is
/// ill-typed, that acceptance is the failure (and what happens later is reported as detail).
fn eval_pipe(ctx: &Sexp, items: &[Sexp]) -> Sexp {
    let text = program_text(ctx, items);
    match front_with(&text, &mapfile_for(ctx)) {
        Front::Rejected(c) => return app("pass-rejected-by-typecheck", vec![Sexp::str(c)]),
        Front::Invalid(c) => return app("invalid", vec![Sexp::str(c)]),
        Front::Accepted => {},
    }
    let full = format!("{ENTRY}{text}");
    let maps = vec![mapfile_for(ctx)];
    let sites = ill_typed_sites(ctx, items);
    if !sites.is_empty() {
        let later = std::panic::catch_unwind(|| crate::tc::compile(crate::tc::Format::Anm, truth::Game::Th12, &maps, full.as_bytes()));
        let later = match later {
            Ok(o) => if o.value.is_some() { "compiled to a file".to_string() } else { format!("diagnostic: {}", diag_class(&o.diagnostics)) },
            Err(p) => format!("PANIC later in the compiler: {}", p.downcast_ref::<String>().cloned().or_else(|| p.downcast_ref::<&str>().map(|s| s.to_string())).unwrap_or_default().lines().next().unwrap_or("")),
        };
        return fail(format!("typecheck-accepts-illtyped {}", sites[0]), format!("accepted by type_check::run; then {later}; source: {}", text.replace('\n', " ")));
    }
    let o = crate::tc::compile(crate::tc::Format::Anm, truth::Game::Th12, &maps, full.as_bytes());
    match o.value {
        Some(bytes) => app("pass-compiled", vec![int(bytes.len() as i64)]),
        None => {
            if !o.has_error_diag() { return fail("failure-without-error-diagnostic", text.replace('\n', " ")); }
            app(&format!("pass-later-diagnostic:{}", diag_class(&o.diagnostics).replace(' ', "_")), vec![])
        },
    }
}

// ---------------------------------------------------------------------------------------------

fn gen_program(rng: &mut Rng, tame: bool, depth: u32) -> (Sexp, Vec<Sexp>) {
    let mut g = Gen { rng, vars: vec![], scopes: vec![], consts: vec![], loops: 0, label: 0, next_root: 0, tame, ext: false, funcs: vec![], ret: None };
    let items = g.program(depth);
    let ctx = ctx_sexp(&g.vars, &g.consts);
    (ctx, items)
}

fn gen_program_ext(rng: &mut Rng, tame: bool, depth: u32) -> (Sexp, Vec<Sexp>) {
    let mut g = Gen { rng, vars: vec![], scopes: vec![], consts: vec![], loops: 0, label: 0, next_root: 0, tame, ext: true, funcs: vec![], ret: None };
    let items = g.program(depth);
    let ctx = ctx_sexp_ext(&g.vars, &g.consts, &items);
    (ctx, items)
}

/// The two findings of the extended language (both repaired), as regressions on the real compiler
/// (full `compile` of a source text, in the game where the defect showed); each must end in a
/// file or a diagnostic:
/// * `xcrement-const`: `--c` on a constant was accepted by the type checker (an assignment to it is
///   rejected since 0757655) and lowering panicked (TH08 ANM has the count jump `if (--x > 0) goto`);
///   since e098828 `cannot assign to a constant`;
/// * `string-enum-const`: `EclSubName.foo` (the built-in string enum of TH10+ ECL sub names):
///   `check_expr` answered string, `compute_ty` int, the `debug_assert_eq!` of `check_expr` fired;
///   since e91a1bf both answer string.
fn eval_replay(name: &str) -> Sexp {
    let entry8 = ENTRY;
    let (format, game, maps, text): (crate::tc::Format, truth::Game, Vec<String>, String) = match name {
        "xcrement-const" => (crate::tc::Format::Anm, truth::Game::Th08, vec![], format!("{entry8}const int c = 3;\nscript s0 {{ l: if (--c > 0) goto l; }}\n")),
        "xcrement-local" => (crate::tc::Format::Anm, truth::Game::Th08, vec![], format!("{entry8}script s0 {{ int c = 3; l: if (--c > 0) goto l; }}\n")),
        "string-enum-const" => (crate::tc::Format::Ecl, truth::Game::Th10, vec!["!eclmap\n!ins_signatures\n11 P(bs=4)\n".to_string()], "void foo() { ins_11(EclSubName.foo); }\n".to_string()),
        "string-enum-bare" => (crate::tc::Format::Ecl, truth::Game::Th10, vec!["!eclmap\n!ins_signatures\n11 P(bs=4)\n".to_string()], "void foo() { ins_11(foo); }\n".to_string()),
        _ => return atom("bad-case"),
    };
    let o = crate::tc::compile(format, game, &maps, text.as_bytes());
    match o.value {
        Some(bytes) => app("pass-compiled", vec![int(bytes.len() as i64)]),
        None => if o.has_error_diag() { app("pass-diagnostic", vec![Sexp::str(diag_class(&o.diagnostics))]) } else { fail("failure-without-error-diagnostic", text.replace('\n', " ")) },
    }
}

/// the hand-written witnesses of section 5 of Props/C09.lean (defects of the pinned tree, all
/// repaired: 9b7e57b, 9d4386e, 353f983, 0757655), replayed on the implementation as regressions
fn witnesses() -> Vec<(Sexp, Vec<Sexp>, &'static str)> {
    let f15 = app("f", vec![int(0x3fc00000)]);
    let script = |body: Vec<Sexp>| app("script", vec![int(0), Sexp::list(body)]);
    vec![
        (ctx_sexp(&[], &[]), vec![script(vec![app("block", vec![Sexp::list(vec![app("assign", vec![app("ref", vec![atom("r"), int(10000), atom("n")]), atom("assign"), f15.clone()])])])])], "witness-free-block"),
        (ctx_sexp(&[], &[]), vec![script(vec![app("interrupt", vec![f15.clone()])])], "witness-interrupt-label"),
        (ctx_sexp(&[], &[]), vec![script(vec![app("reltime", vec![f15.clone()])])], "witness-rel-time-label"),
        (ctx_sexp(&[(0, 'i')], &[0]), vec![app("const", vec![int(0), f15.clone()]), script(vec![app("assign", vec![app("ref", vec![atom("r"), int(10000), atom("n")]), atom("assign"), app("var", vec![int(0), atom("n")])])])], "witness-const-decl"),
        (ctx_sexp(&[], &[]), vec![script(vec![app("estmt", vec![app("call", vec![int(906), app("i", vec![int(1)]), app("i", vec![int(2)])])])])], "regression-padding"),
        (ctx_sexp(&[], &[]), vec![script(vec![app("ret", vec![])])], "witness-return-outside-function"),
        // `const int v0 = 1; script s0 { v0 = 2; }`: constants cannot be written to
        (ctx_sexp(&[(0, 'i')], &[0]), vec![app("const", vec![int(0), app("i", vec![int(1)])]), script(vec![app("assign", vec![app("ref", vec![atom("v"), int(0), atom("n")]), atom("assign"), app("i", vec![int(2)])])])], "witness-assign-to-const"),
    ]
}

impl Prop for C09 {
    fn id(&self) -> &'static str { "C09" }
    fn relation(&self) -> &'static str {
        "prog / xprog: Ok / Err(first diagnostic class) of passes::type_check::run on the parsed, resolved script file == Lean `checkStmts codeCfg` (model of Visitor::visit_stmt incl. which statement kinds it walks); expr / xexpr: Ok(compute_ty) / Err class == Lean `check`; every result is also judged against an independent reference typer written from the documented rules (executable counterpart of Lean `HasType` / `WellTypedStmts` / `WritesOk`); x* = the extended language (difficulty switches, ++ / --, enum constants, label properties, pseudo-arguments, user-defined functions with parameters, multi-variable declarations, return at any depth)"
    }
    fn rule(&self) -> &'static str {
        "type-directed random programs (global consts, inline functions with return, scripts; assignments and compound assignments, declarations with/without initialiser incl. untyped `var`, const declarations, instruction calls against 8 signatures incl. padding and string parameters, if / else-if / else, while, do-while, loop, times with and without clobber, conditional goto/break, interrupt and time labels, free blocks nested up to depth 4) and ALL their single-point mutations: every expression node at every depth (literal, operand, variable, sigil, cast, operator, argument, arity, opcode), every assignment/clobber target, every assignment operator, every return, every declared type; two-point changes where both slots of one construct are retyped together (target and value of an assignment under every operator class, counter and count of `times(x = n)`, both operands of a binary operator); plus standalone expressions with their mutations; a second stream of the same shape over the extended language: every expression position may hold a difficulty switch (blank cases), ++ / --, a qualified or bare enum constant, offsetof / timeof, a call of a user-defined function; calls with @mask / @pop / @arg0 / @nargs / @blob; 1-3 functions with int / float / var parameters (inline, const, exported) per file, multi-variable declarations and const items, return at every depth, label expressions that are switches / enum constants; additional mutations: one switch case to another type, blank cases added / removed, ++ / -- operand to a float / untyped / constant variable, pseudo-argument kind / value type / blob next to arguments / on a user function, user-call arity and argument types, parameter types, function return types; the two repaired findings (e098828, e91a1bf) replayed on the real compiler (TH08 ANM, TH10 ECL); non-trivial = mutated program or nesting depth >= 2; distinct by case text"
    }
    fn theorems(&self) -> &'static [&'static str] {
        &["TruthModel.C09.check_sound", "TruthModel.C09.check_complete", "TruthModel.C09.computeTy_agrees", "TruthModel.C09.stmts_accept_iff_welltyped", "TruthModel.C09.stmts_accept_iff_welltyped_for_cfg", "TruthModel.C09.stmts_accept_iff_welltyped_status", "TruthModel.C09.type_preservation", "TruthModel.C09.computeTy_agrees_status", "TruthModel.C09.check_rejects_const_xcrement", "TruthModel.C09.check_rejects_const_xcrement_status", "TruthModel.C09.xcrement_const_rejected", "TruthModel.C09.decls_eq_sequence", "TruthModel.C09.return_checked_at_every_depth"]
    }

    fn gen(&self, tier: Tier, rng: &mut Rng) -> Vec<Case> {
        let scale = if tier == Tier::Quick { 1 } else { 20 };
        let mut out = vec![];
        // (0) the Lean witnesses, on the real code (both as correspondence and through the pipeline)
        for (ctx, items, tag) in witnesses() {
            out.push(Case::corr(app("prog", vec![ctx.clone(), Sexp::list(items.clone())])).tag(tag));
            out.push(Case::search(app("pipe", vec![ctx, Sexp::list(items)])).tag(format!("pipe-{tag}")));
        }
        // (a) programs and all their single-point mutants
        for k in 0..200 * scale {
            let depth = 1 + (k % 4) as u32;
            let (ctx, items) = gen_program(rng, false, depth);
            let d = max_depth(&items);
            out.push(Case::corr(app("prog", vec![ctx.clone(), Sexp::list(items.clone())])).tag("prog-generated").tag(format!("depth-{d}")).trivial(d < 2));
            for (mctx, mitems, tag) in mutants(&ctx, &items, rng, 2) {
                out.push(Case::corr(app("prog", vec![mctx, mitems])).tag(tag));
            }
        }
        // (b) pipeline: generated (tame) programs and a sample of their mutants through the real ANM compiler
        for k in 0..120 * scale {
            let depth = 1 + (k % 3) as u32;
            let (ctx, items) = gen_program(rng, true, depth);
            out.push(Case::search(app("pipe", vec![ctx.clone(), Sexp::list(items.clone())])).tag("pipe-generated"));
            let mut ms = mutants(&ctx, &items, rng, 1);
            rng.shuffle(&mut ms);
            for (mctx, mitems, _) in ms.into_iter().take(6) {
                out.push(Case::search(app("pipe", vec![mctx, mitems])).tag("pipe-mutant"));
            }
        }
        // (c) standalone expressions (registers and literals), mutants, static vs dynamic type
        for k in 0..400 * scale {
            let mut g = Gen { rng, vars: vec![], scopes: vec![vec![]], consts: vec![], loops: 0, label: 0, next_root: 0, tame: false, ext: false, funcs: vec![], ret: None };
            let depth = 1 + (k % 5) as u32;
            let e = match k % 7 { 0..=2 => g.expr('i', depth), 3..=5 => g.expr('f', depth), _ => g.call(depth.min(3)) };
            let ctx = ctx_sexp(&[], &[]);
            out.push(Case::corr(app("expr", vec![ctx.clone(), e.clone()])).tag("expr-generated").trivial(depth < 2));
            let wrapped = vec![app("estmt", vec![e])];
            for (mctx, m, tag) in mutants(&ctx, &wrapped, rng, 2) {
                let me = m.as_list()[0].args()[0].clone();
                out.push(Case::corr(app("expr", vec![mctx, me])).tag(format!("expr-{}", tag.split('@').next().unwrap_or("mut"))));
            }
        }
        // ---- the extended language: a separate stream after everything else --------------------
        // (d) programs with the new constructs at every nesting position, and all their single-point mutants
        for k in 0..150 * scale {
            let depth = 1 + (k % 4) as u32;
            let (ctx, items) = gen_program_ext(rng, false, depth);
            let d = max_depth(&items);
            let mut c = Case::corr(app("xprog", vec![ctx.clone(), Sexp::list(items.clone())])).tag("xprog-generated").tag(format!("xdepth-{d}")).trivial(d < 2);
            for h in ["sw", "xcr", "enum", "lprop", "callx", "decls", "consts"] { if items.iter().any(|s| has_head(s, h)) { c = c.tag(format!("has-{h}")); } }
            out.push(c);
            for (mctx, mitems, tag) in mutants(&ctx, &items, rng, 2) {
                let mctx = refresh_ext_ctx(&mctx, mitems.as_list());
                out.push(Case::corr(app("xprog", vec![mctx, mitems])).tag(format!("x{tag}")));
            }
        }
        // (e) through the real ANM compiler
        for k in 0..60 * scale {
            let depth = 1 + (k % 3) as u32;
            let (ctx, items) = gen_program_ext(rng, true, depth);
            out.push(Case::search(app("xpipe", vec![ctx.clone(), Sexp::list(items.clone())])).tag("xpipe-generated"));
            let mut ms = mutants(&ctx, &items, rng, 1);
            rng.shuffle(&mut ms);
            for (mctx, mitems, _) in ms.into_iter().take(6) {
                let mctx = refresh_ext_ctx(&mctx, mitems.as_list());
                out.push(Case::search(app("xpipe", vec![mctx, mitems])).tag("xpipe-mutant"));
            }
        }
        // (f) standalone expressions (no user functions: there is no file to define them in)
        for k in 0..300 * scale {
            let mut g = Gen { rng, vars: vec![], scopes: vec![vec![]], consts: vec![], loops: 0, label: 0, next_root: 0, tame: false, ext: true, funcs: vec![], ret: None };
            let depth = 1 + (k % 4) as u32;
            let e = match k % 7 { 0..=2 => g.expr('i', depth), 3..=4 => g.expr('f', depth), 5 => g.ext_call(depth.min(3)), _ => { let t = *g.rng.pick(&['i', 'f', 's']); g.ext_expr(t, depth).unwrap_or_else(|| g.xcr()) } };
            let ctx = ctx_sexp_ext(&[], &[], &[]);
            out.push(Case::corr(app("xexpr", vec![ctx.clone(), e.clone()])).tag("xexpr-generated").trivial(depth < 2));
            let wrapped = vec![app("estmt", vec![e])];
            for (mctx, m, tag) in mutants(&ctx, &wrapped, rng, 2) {
                let me = m.as_list()[0].args()[0].clone();
                out.push(Case::corr(app("xexpr", vec![mctx, me])).tag(format!("xexpr-{}", tag.split('@').next().unwrap_or("mut"))));
            }
        }
        // (g) the two repaired findings, on the real compiler
        for name in ["xcrement-const", "xcrement-local", "string-enum-const", "string-enum-bare"] {
            out.push(Case::search(app("replay", vec![atom(name)])).tag(format!("replay-{name}")));
        }
        out
    }

    fn eval(&self, case: &Sexp) -> Sexp {
        let a = case.args();
        match case.head() {
            Some("prog") | Some("xprog") => eval_prog(&a[0], a[1].as_list()),
            Some("expr") | Some("xexpr") => eval_expr(&a[0], &a[1]),
            Some("pipe") | Some("xpipe") => eval_pipe(&a[0], a[1].as_list()),
            Some("replay") => eval_replay(a[0].as_atom()),
            _ => Sexp::atom("bad-case"),
        }
    }

    fn judge(&self, case: &Sexp, result: &Sexp) -> Option<Failure> {
        if let Some(f) = default_judge(result) { return Some(f); }
        let a = case.args();
        match (case.head(), result.head()) {
            (Some("prog" | "xprog"), Some(r @ ("ok" | "err"))) => {
                let sites = ill_typed_sites(&a[0], a[1].as_list());
                if r == "ok" && !sites.is_empty() {
                    return Some(Failure { signature: format!("typecheck-accepts-illtyped {}", sites[0]), what: format!("type_check::run accepts an ill-typed program ({} ill-typed statement(s), first: {}): {}", sites.len(), sites[0], program_text(&a[0], a[1].as_list()).replace('\n', " ")) });
                }
                if r == "err" && sites.is_empty() {
                    return Some(Failure { signature: "typecheck-rejects-welltyped".into(), what: format!("type_check::run rejects ({}) a well-typed program: {}", result, program_text(&a[0], a[1].as_list()).replace('\n', " ")) });
                }
                None
            },
            (Some("expr" | "xexpr"), Some(r @ ("ok" | "err"))) => {
                let expected = RefTyper::new(&a[0]).expr(&a[1]);
                match (r, expected) {
                    ("ok", Err(why)) => Some(Failure { signature: format!("typecheck-accepts-illtyped {}", match why { Ill::Padding => "call=padding", Ill::ConstWrite => "xcrement-of-constant", Ill::Plain => "expr" }), what: format!("accepted: {}", expr_text(&a[1])) }),
                    ("err", Ok(_)) => Some(Failure { signature: "typecheck-rejects-welltyped expr".into(), what: format!("rejected ({}): {}", result, expr_text(&a[1])) }),
                    ("ok", Ok(t)) => {
                        let name = match t { ET::Void => "void", ET::Val(T::I) => "int", ET::Val(T::F) => "float", ET::Val(T::S) => "string" };
                        if result.args()[0].as_atom() != name { Some(Failure { signature: "typecheck-wrong-type expr".into(), what: format!("{} : rules say {name}, checker says {}", expr_text(&a[1]), result) }) } else { None }
                    },
                    _ => None,
                }
            },
            _ => None,
        }
    }

    fn neighbours(&self, case: &Sexp, _rng: &mut Rng) -> Vec<Case> {
        // a disagreement between model and implementation on a program: does the accepted
        // program survive the rest of the compiler?
        let a = case.args();
        match case.head() {
            Some("xprog") => vec![Case::search(app("xpipe", vec![a[0].clone(), a[1].clone()]))],
            Some("prog") => vec![Case::search(app("pipe", vec![a[0].clone(), a[1].clone()]))],
            Some("expr") | Some("xexpr") => vec![Case::search(app("pipe", vec![a[0].clone(), Sexp::list(vec![app("script", vec![int(0), Sexp::list(vec![app("assign", vec![app("ref", vec![atom("r"), int(10000), atom("n")]), atom("assign"), a[1].clone()])])])])]))],
            _ => vec![],
        }
    }
}
