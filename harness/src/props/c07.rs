//! C07 — recovering loops and conditionals while decompiling preserves behaviour.
//!
//! Cases
//!   (pp S...)                    corr:   structure tree of `passes::postprocess_decompiled` on the flat block S...
//!   (vm (S...) (VAL...))         search: AstVm(flat) == AstVm(reconstructed) and == AstVm(desugar(reconstructed))
//!   (e2e FORMAT (T...) (VAL...)) search: compile structured source, decompile with blocks off / on,
//!                                        both must recompile to the same bytes and run alike in AstVm
//!
//! Flat statements S (same syntax in the output tree, which adds loop / dowhile / chain / break):
//!   (lab N) (goto N [T]) (cj if|unless C (goto N [T])) (int N) (abs T) (rel D)
//!   (ins OP A...) (set R E) (diff TAG S)
//!   C, E ::= (bin OP A A) | A          A ::= (r N) | (i V) | (dec N) | (timeof N) | (offsetof N)

use super::{Case, Prop, Tier, Failure, fail};
use crate::rng::Rng;
use crate::sexp::Sexp;
use crate::util::diag_class;
use std::collections::HashMap;
use truth::{ast, LanguageKey, RegId, ScalarValue};
use truth::ast::BinOpKind as B;

pub struct C07;

const OPS: &[(&str, B)] = &[
    ("eq", B::Eq), ("ne", B::Ne), ("lt", B::Lt), ("le", B::Le), ("gt", B::Gt), ("ge", B::Ge),
    ("add", B::Add), ("sub", B::Sub), ("band", B::BitAnd),
];
fn op_by_name(s: &str) -> B { OPS.iter().find(|x| x.0 == s).unwrap_or_else(|| panic!("op {s}")).1 }
fn op_name(b: B) -> Option<&'static str> { OPS.iter().find(|x| x.1 == b).map(|x| x.0) }

const REGS: &[i64] = &[10000, 10001, 10002, 10003];
const DIFF_MAPFILE: &str = "!eclmap\n!difficulty_flags\n0 E-\n1 N-\n2 H-\n3 L-\n";
const TAGS: &[&str] = &["E", "NH", "L", "ENH", "HL"];

// ---------------------------------------------------------------------------------------------
// sexp -> truth source text

fn operand_text(a: &Sexp) -> String {
    let x = a.args();
    match a.head().expect("operand head") {
        "r" => format!("$REG[{}]", x[0].as_i64()),
        // unsigned decimal: the parser accepts 2^31..2^32 and it stays a literal (a `-` would be a unary operator)
        "i" => format!("{}", x[0].as_i64() as i32 as u32),
        "dec" => format!("--$REG[{}]", x[0].as_i64()),
        "timeof" => format!("timeof(L{})", x[0].as_i64()),
        "offsetof" => format!("offsetof(L{})", x[0].as_i64()),
        h => panic!("bad operand {h}"),
    }
}

fn expr_text(e: &Sexp) -> String {
    match e.head() {
        Some("bin") => { let a = e.args(); format!("{} {} {}", operand_text(&a[1]), op_by_name(a[0].as_atom()), operand_text(&a[2])) },
        _ => operand_text(e),
    }
}

fn goto_text(j: &Sexp) -> String {
    match j.head() {
        Some("break") => "break".to_string(),
        _ => {
            let a = j.args();
            if a.len() > 1 { format!("goto L{} @ {}", a[0].as_i64(), a[1].as_i64()) } else { format!("goto L{}", a[0].as_i64()) }
        },
    }
}

fn stmts_text(out: &mut String, stmts: &[Sexp], indent: usize) {
    for s in stmts { stmt_text(out, s, indent); }
}

fn stmt_text(out: &mut String, s: &Sexp, indent: usize) {
    let pad = "    ".repeat(indent);
    let a = s.args();
    match s.head().expect("stmt head") {
        "lab" => out.push_str(&format!("{pad}L{}:\n", a[0].as_i64())),
        "goto" | "break" => out.push_str(&format!("{pad}{};\n", goto_text(s))),
        "cj" => out.push_str(&format!("{pad}{} ({}) {};\n", a[0].as_atom(), expr_text(&a[1]), goto_text(&a[2]))),
        "int" => out.push_str(&format!("{pad}interrupt[{}]:\n", a[0].as_i64())),
        "abs" => out.push_str(&format!("{pad}{}:\n", a[0].as_i64())),
        "rel" => out.push_str(&format!("{pad}+{}:\n", a[0].as_i64())),
        "ins" => {
            let args: Vec<String> = a[1..].iter().map(operand_text).collect();
            out.push_str(&format!("{pad}ins_{}({});\n", a[0].as_i64(), args.join(", ")));
        },
        "set" => out.push_str(&format!("{pad}$REG[{}] = {};\n", a[0].as_i64(), expr_text(&a[1]))),
        "diff" => {
            let mut inner = String::new();
            stmt_text(&mut inner, &a[1], 0);
            out.push_str(&format!("{pad}{{\"{}\"}}: {}", a[0].as_atom(), inner));
        },
        // structured statements (generators of structured programs, and the e2e cases)
        "loop" => { out.push_str(&format!("{pad}loop {{\n")); stmts_text(out, a, indent + 1); out.push_str(&format!("{pad}}}\n")); },
        "dowhile" => { out.push_str(&format!("{pad}do {{\n")); stmts_text(out, &a[1..], indent + 1); out.push_str(&format!("{pad}}} while ({});\n", expr_text(&a[0]))); },
        "while" => { out.push_str(&format!("{pad}while ({}) {{\n", expr_text(&a[0]))); stmts_text(out, &a[1..], indent + 1); out.push_str(&format!("{pad}}}\n")); },
        "times" => { out.push_str(&format!("{pad}times({}) {{\n", operand_text(&a[0]))); stmts_text(out, &a[1..], indent + 1); out.push_str(&format!("{pad}}}\n")); },
        "timesc" => { out.push_str(&format!("{pad}times($REG[{}] = {}) {{\n", a[0].as_i64(), operand_text(&a[1]))); stmts_text(out, &a[2..], indent + 1); out.push_str(&format!("{pad}}}\n")); },
        "chain" => {
            for (k, arm) in a.iter().enumerate() {
                let b = arm.args();
                match arm.head() {
                    Some("arm") => {
                        out.push_str(&format!("{}{} ({}) {{\n", if k == 0 { pad.clone() } else { format!("{pad}}} else ") }, b[0].as_atom(), expr_text(&b[1])));
                        stmts_text(out, &b[2..], indent + 1);
                    },
                    _ => { out.push_str(&format!("{pad}}} else {{\n")); stmts_text(out, b, indent + 1); },
                }
            }
            out.push_str(&format!("{pad}}}\n"));
        },
        h => panic!("bad stmt {h}"),
    }
}

pub fn block_text(stmts: &[Sexp]) -> String {
    let mut s = String::from("{\n");
    stmts_text(&mut s, stmts, 1);
    s.push_str("}\n");
    s
}

// ---------------------------------------------------------------------------------------------
// AST -> sexp (structure tree; bookends dropped; labels `L<n>` -> n, any other label name is numbered
// 1000, 1001, ... by first occurrence)

struct Namer { map: HashMap<String, i64> }
impl Namer {
    fn new() -> Self { Namer { map: HashMap::new() } }
    fn label(&mut self, id: &truth::Ident) -> i64 {
        let s = id.to_string();
        if let Some(n) = s.strip_prefix('L').and_then(|d| d.parse::<i64>().ok()) { return n; }
        let next = 1000 + self.map.len() as i64;
        *self.map.entry(s).or_insert(next)
    }
}

fn operand_sexp(nm: &mut Namer, e: &ast::Expr) -> Sexp {
    match e {
        ast::Expr::LitInt { value, .. } => Sexp::app("i", vec![Sexp::int(*value)]),
        ast::Expr::Var(v) => match &v.value.name {
            ast::VarName::Reg { reg, .. } => Sexp::app("r", vec![Sexp::int(reg.0)]),
            ast::VarName::Normal { ident, .. } => Sexp::app("var", vec![Sexp::atom(ident.as_raw().to_string())]),
        },
        ast::Expr::XcrementOp { op, order: ast::XcrementOpOrder::Pre, var } if op.value == ast::XcrementOpKind::Dec => match &var.value.name {
            ast::VarName::Reg { reg, .. } => Sexp::app("dec", vec![Sexp::int(reg.0)]),
            _ => Sexp::atom("other-xcrement"),
        },
        ast::Expr::LabelProperty { label, keyword } => {
            let kw = match keyword.value { ast::LabelPropertyKeyword::TimeOf => "timeof", ast::LabelPropertyKeyword::OffsetOf => "offsetof" };
            Sexp::app(kw, vec![Sexp::int(nm.label(&label.value))])
        },
        _ => Sexp::atom("other-expr"),
    }
}

fn expr_sexp(nm: &mut Namer, e: &ast::Expr) -> Sexp {
    match e {
        ast::Expr::BinOp(a, op, b) => match op_name(op.value) {
            Some(n) => Sexp::app("bin", vec![Sexp::atom(n), operand_sexp(nm, &a.value), operand_sexp(nm, &b.value)]),
            None => Sexp::atom("other-binop"),
        },
        _ => operand_sexp(nm, e),
    }
}

fn jump_sexp(nm: &mut Namer, j: &ast::StmtJumpKind) -> Sexp {
    match j {
        ast::StmtJumpKind::Goto(g) => {
            let mut v = vec![Sexp::int(nm.label(&g.destination.value))];
            if let Some(t) = g.time { v.push(Sexp::int(t.value)); }
            Sexp::app("goto", v)
        },
        ast::StmtJumpKind::BreakContinue { .. } => Sexp::app("break", vec![]),
    }
}

fn block_sexp(nm: &mut Namer, b: &ast::Block) -> Vec<Sexp> { b.0.iter().filter_map(|s| stmt_sexp(nm, &s.value)).collect() }

fn stmt_sexp(nm: &mut Namer, s: &ast::Stmt) -> Option<Sexp> {
    let core = match &s.kind {
        ast::StmtKind::NoInstruction => return None,
        ast::StmtKind::ScopeEnd(_) => return None,
        ast::StmtKind::Label(id) => Sexp::app("lab", vec![Sexp::int(nm.label(&id.value))]),
        ast::StmtKind::Jump(j) => jump_sexp(nm, j),
        ast::StmtKind::CondJump { keyword, cond, jump } => Sexp::app("cj", vec![
            Sexp::atom(if keyword.value == ast::CondKeyword::If { "if" } else { "unless" }), expr_sexp(nm, &cond.value), jump_sexp(nm, jump)]),
        ast::StmtKind::InterruptLabel(e) => match &e.value { ast::Expr::LitInt { value, .. } => Sexp::app("int", vec![Sexp::int(*value)]), _ => Sexp::atom("other-interrupt") },
        ast::StmtKind::AbsTimeLabel(t) => Sexp::app("abs", vec![Sexp::int(t.value)]),
        ast::StmtKind::RelTimeLabel { delta, .. } => match &delta.value { ast::Expr::LitInt { value, .. } => Sexp::app("rel", vec![Sexp::int(*value)]), _ => Sexp::atom("other-rel") },
        ast::StmtKind::Expr(e) => match &e.value {
            ast::Expr::Call(call) => match call.name.value {
                ast::CallableName::Ins { opcode, .. } => {
                    let mut v = vec![Sexp::int(opcode as i64)];
                    for a in &call.args { v.push(operand_sexp(nm, &a.value)); }
                    Sexp::app("ins", v)
                },
                _ => Sexp::atom("other-call"),
            },
            _ => Sexp::atom("other-expr-stmt"),
        },
        ast::StmtKind::Assignment { var, op, value } if op.value == ast::AssignOpKind::Assign => match &var.value.name {
            ast::VarName::Reg { reg, .. } => Sexp::app("set", vec![Sexp::int(reg.0), expr_sexp(nm, &value.value)]),
            _ => Sexp::atom("other-assign"),
        },
        ast::StmtKind::Loop { block, .. } => Sexp::app("loop", block_sexp(nm, block)),
        ast::StmtKind::While { do_keyword: Some(_), cond, block, .. } => {
            let mut v = vec![expr_sexp(nm, &cond.value)];
            v.extend(block_sexp(nm, block));
            Sexp::app("dowhile", v)
        },
        ast::StmtKind::CondChain(chain) => {
            let mut arms = vec![];
            for cb in &chain.cond_blocks {
                let mut v = vec![Sexp::atom(if cb.keyword.value == ast::CondKeyword::If { "if" } else { "unless" }), expr_sexp(nm, &cb.cond.value)];
                v.extend(block_sexp(nm, &cb.block));
                arms.push(Sexp::app("arm", v));
            }
            if let Some(b) = &chain.else_block { arms.push(Sexp::app("else", block_sexp(nm, b))); }
            Sexp::app("chain", arms)
        },
        _ => Sexp::atom("other-stmt"),
    };
    Some(match &s.diff_label {
        Some(d) => Sexp::app("diff", vec![Sexp::atom(d.string.string.clone()), core]),
        None => core,
    })
}

// ---------------------------------------------------------------------------------------------
// running the real passes

fn with_env<T>(f: impl FnOnce(&mut truth::Truth) -> Result<T, truth::ErrorReported>) -> Result<T, String> {
    let mut scope = truth::Builder::new().capture_diagnostics(true).build();
    let mut truth = scope.truth();
    truth.apply_mapfile_str(DIFF_MAPFILE, truth::Game::Th07).expect("mapfile");
    match f(&mut truth) {
        Ok(v) => Ok(v),
        Err(e) => { e.ignore(); Err(diag_class(&truth.get_captured_diagnostics().unwrap_or_default())) },
    }
}

/// parse a block and bring it to the state `postprocess_decompiled` sees in `raise.rs` / the
/// format decompilers: resolved names, raw registers, node ids, difficulty masks.
fn parse_block(truth: &mut truth::Truth, text: &str) -> Result<ast::Block, truth::ErrorReported> {
    let mut block = truth.parse::<ast::Block>("<input>", text.as_bytes())?.value;
    let ctx = truth.ctx();
    truth::passes::resolution::assign_languages(&mut block, LanguageKey::Anm, ctx)?;
    truth::passes::resolution::resolve_names(&block, ctx)?;
    truth::passes::resolution::aliases_to_raw(&mut block, ctx)?;
    truth::passes::resolution::compute_diff_label_masks(&mut block, ctx)?;
    Ok(block)
}

fn postprocess(truth: &mut truth::Truth, block: &ast::Block, blocks: bool) -> Result<ast::Block, truth::ErrorReported> {
    let mut out = block.clone();
    let ctx = truth.ctx();
    let options = truth::DecompileOptions { blocks, ..Default::default() };
    truth::passes::postprocess_decompiled(&mut out, ctx, &options)?;
    truth::passes::resolution::aliases_to_raw(&mut out, ctx)?;
    Ok(out)
}

fn is_unimplemented_panic(p: &Sexp) -> bool {
    p.head() == Some("panic") && p.args()[0].as_atom().contains("decompile_loop.rs") && p.args()[1].as_atom().starts_with("not implemented")
}

/// (ok S...) | (unsupported) | (err class)
fn eval_pp(stmts: &[Sexp]) -> Sexp {
    let text = block_text(stmts);
    let r = crate::pool::guarded(std::panic::AssertUnwindSafe(|| {
        match with_env(|truth| {
            let flat = parse_block(truth, &text)?;
            let rec = postprocess(truth, &flat, true)?;
            Ok(Sexp::app("ok", block_sexp(&mut Namer::new(), &rec)))
        }) { Ok(s) => s, Err(c) => Sexp::app("err", vec![Sexp::str(c)]) }
    }));
    // `unless` jumps and `break` are "not present in decompiled code": unimplemented!() in JmpInfo::from_stmt
    if is_unimplemented_panic(&r) { return Sexp::app("unsupported", vec![]); }
    r
}

/// flat code for a structured program, produced by the real `desugar_blocks::run`
fn real_desugar(stmts: &[Sexp]) -> Result<Vec<Sexp>, String> {
    let text = block_text(stmts);
    let r = crate::pool::guarded(std::panic::AssertUnwindSafe(|| {
        match with_env(|truth| {
            let mut block = parse_block(truth, &text)?;
            truth::passes::desugar_blocks::run(&mut block, truth.ctx(), LanguageKey::Anm)?;
            Ok(Sexp::app("ok", block_sexp(&mut Namer::new(), &block)))
        }) { Ok(s) => s, Err(c) => Sexp::app("err", vec![Sexp::str(c)]) }
    }));
    if r.head() == Some("ok") { Ok(r.args().to_vec()) } else { Err(format!("{r}")) }
}

// ---------------------------------------------------------------------------------------------
// VM oracle

#[derive(Debug, PartialEq, Clone)]
struct Trace { log: Vec<(i32, u16, Vec<String>)>, time: i32, real_time: i32, regs: Vec<Option<String>>, iterations_hint: usize }

enum VmOut { Done(Trace), Limit, NoInnerLabel(String), Panic(String, String) }

/// every label defined anywhere in the tree
fn defined_labels(block: &ast::Block) -> Vec<String> {
    struct V(Vec<String>);
    impl ast::Visit for V {
        fn visit_stmt(&mut self, s: &truth::pos::Sp<ast::Stmt>) {
            if let ast::StmtKind::Label(l) = &s.kind { self.0.push(l.value.to_string()); }
            ast::walk_stmt(self, s);
        }
    }
    let mut v = V(vec![]);
    ast::Visit::visit_block(&mut v, block);
    v.0
}

fn make_vm(val: &Sexp, limit: u32) -> truth::vm::AstVm {
    let a = val.as_list();
    let mut vm = truth::vm::AstVm::new().with_max_iterations(limit).with_difficulty(a[0].as_i64() as u32);
    for (k, &r) in REGS.iter().enumerate() { vm.set_reg(RegId(r as i32), ScalarValue::Int(a[1 + k].as_i64() as i32)); }
    vm
}

fn run_vm(stmts: &[truth::pos::Sp<ast::Stmt>], ctx: &truth::context::CompilerContext<'_>, val: &Sexp, limit: u32) -> VmOut {
    let mut result: Option<Trace> = None;
    let r = crate::pool::guarded(std::panic::AssertUnwindSafe(|| {
        let mut vm = make_vm(val, limit);
        vm.run(stmts, ctx);
        result = Some(Trace {
            log: vm.instr_log.iter().map(|c| (c.real_time, c.opcode, c.args.iter().map(|x| x.to_string()).collect())).collect(),
            time: vm.time, real_time: vm.real_time,
            regs: REGS.iter().map(|&r| vm.get_reg(RegId(r as i32)).map(|v| v.to_string())).collect(),
            iterations_hint: 0,
        });
        Sexp::atom("done")
    }));
    if r.head() == Some("panic") {
        let msg = r.args()[1].as_atom().to_string();
        if msg.starts_with("iteration limit exceeded") { return VmOut::Limit; }
        if msg.contains("this label did not exist within the same or outer scopes") {
            let name = msg.strip_prefix("AST VM tried to jump to ").and_then(|m| m.split(' ').next()).unwrap_or("?").to_string();
            return VmOut::NoInnerLabel(name);
        }
        return VmOut::Panic(r.args()[0].as_atom().to_string(), msg);
    }
    VmOut::Done(result.unwrap())
}

/// (what differs, detail)
fn trace_diff(a: &Trace, b: &Trace) -> Option<(&'static str, String)> {
    if a.log != b.log {
        let k = a.log.iter().zip(&b.log).position(|(x, y)| x != y).unwrap_or(a.log.len().min(b.log.len()));
        return Some(("instr_log", format!("instr_log differs at entry {k}: flat {:?} vs reconstructed {:?} (lengths {} / {})", a.log.get(k), b.log.get(k), a.log.len(), b.log.len())));
    }
    if a.time != b.time { return Some(("time", format!("time {} vs {}", a.time, b.time))); }
    if a.real_time != b.real_time { return Some(("real_time", format!("real_time {} vs {}", a.real_time, b.real_time))); }
    if a.regs != b.regs { return Some(("registers", format!("registers {:?} vs {:?}", a.regs, b.regs))); }
    None
}

const FLAT_LIMIT: u32 = 1500;

/// Compare the flat block with `other` (a reconstructed block, maybe desugared again) on all valuations.
fn compare_vm(truth: &mut truth::Truth, flat: &ast::Block, other: &ast::Block, vals: &[Sexp], what: &str, stats: &mut (usize, usize, usize)) -> Option<Sexp> {
    let ctx = truth.ctx();
    for val in vals {
        let a = match run_vm(&flat.0, ctx, val, FLAT_LIMIT) {
            VmOut::Done(t) => t,
            VmOut::Limit => { stats.1 += 1; continue; },
            // the flat program itself misbehaves in the VM (jump to a label that does not exist, ...): not in the domain
            VmOut::NoInnerLabel(_) => { stats.1 += 1; continue; },
            VmOut::Panic(loc, msg) => { if std::env::var("C07_DEBUG").is_ok() { eprintln!("flat VM panic {loc} {msg}\n{}", truth::fmt::stringify(flat)); } stats.1 += 1; continue; },
        };
        match run_vm(&other.0, ctx, val, FLAT_LIMIT * 12 + 500) {
            VmOut::Done(b) => {
                if let Some((kind, d)) = trace_diff(&a, &b) {
                    return Some(fail(format!("{what}: trace differs ({kind})"),
                        format!("valuation {val}: {d}\n--- flat ---\n{}--- {what} ---\n{}", truth::fmt::stringify(flat), truth::fmt::stringify(other))));
                }
                stats.0 += 1;
            },
            VmOut::Limit => return Some(fail(format!("{what}: does not terminate where the flat program does"),
                format!("valuation {val}\n--- flat ---\n{}--- {what} ---\n{}", truth::fmt::stringify(flat), truth::fmt::stringify(other)))),
            // AstVm cannot jump into a block (covered by the desugared comparison); but the label must still exist somewhere
            VmOut::NoInnerLabel(name) => {
                if !defined_labels(other).contains(&name) {
                    return Some(fail(format!("{what}: executes a jump to a label that no longer exists"),
                        format!("valuation {val}: label {name}\n--- flat ---\n{}--- {what} ---\n{}", truth::fmt::stringify(flat), truth::fmt::stringify(other))));
                }
                stats.2 += 1;
            },
            VmOut::Panic(loc, msg) => return Some(fail(format!("{what}: VM panics ({})", super::strip_digits(&msg).chars().take(60).collect::<String>()),
                format!("valuation {val}: {loc}: {msg}\n--- flat ---\n{}--- {what} ---\n{}", truth::fmt::stringify(flat), truth::fmt::stringify(other)))),
        }
    }
    None
}

fn time_monotone(stmts: &[Sexp]) -> bool {
    let mut t = 0i64;
    for s in stmts {
        let s = if s.head() == Some("diff") { &s.args()[1] } else { s };
        let a = s.args();
        match s.head() {
            Some("abs") => { if a[0].as_i64() < t { return false; } t = a[0].as_i64(); },
            Some("rel") => { if a[0].as_i64() < 0 { return false; } t += a[0].as_i64(); },
            Some("goto") if a.len() > 1 => return false,
            Some("cj") if a[2].args().len() > 1 => return false,
            _ => {},
        }
    }
    true
}

fn eval_vm(stmts: &[Sexp], vals: &[Sexp]) -> Sexp {
    let text = block_text(stmts);
    let r = crate::pool::guarded(std::panic::AssertUnwindSafe(|| {
        match with_env(|truth| {
            let flat = parse_block(truth, &text)?;
            let rec = postprocess(truth, &flat, true)?;
            let flat_pp = postprocess(truth, &flat, false)?;   // what `--no-blocks` prints
            let mut stats = (0, 0, 0);
            // AstVm's rule "time := end time of the block" after a cond chain / at `break` equals the flat
            // semantics only while the VM clock equals the statement time, i.e. for non-decreasing time labels
            // and no executed `goto L @ t`; other programs are compared through the desugared form only.
            if time_monotone(stmts) {
                if let Some(f) = compare_vm(truth, &flat_pp, &rec, vals, "reconstructed", &mut stats) { return Ok(f); }
            }
            let direct = stats;
            // semantics of the reconstructed program as the compiler sees it: desugar it again
            let mut des = rec.clone();
            truth::passes::desugar_blocks::run(&mut des, truth.ctx(), LanguageKey::Anm)?;
            let mut stats = (0, 0, 0);
            if let Some(f) = compare_vm(truth, &flat_pp, &des, vals, "desugar(reconstructed)", &mut stats) { return Ok(f); }
            let changed = block_sexp(&mut Namer::new(), &rec) != block_sexp(&mut Namer::new(), &flat_pp);
            Ok(Sexp::app("pass", vec![
                Sexp::atom(if changed { "restructured" } else { "unchanged" }),
                Sexp::int(direct.0 as i64), Sexp::int(stats.0 as i64), Sexp::int(stats.1 as i64), Sexp::int(direct.2 as i64)]))
        }) { Ok(s) => s, Err(c) => Sexp::app("err", vec![Sexp::str(c)]) }
    }));
    if is_unimplemented_panic(&r) { return Sexp::app("unsupported", vec![]); }
    r
}

// ---------------------------------------------------------------------------------------------
// `sem`: AstVm traces in the canonical form the Lean machine prints (validates the machine `C07_full` is stated with)

fn trace_sexp(vm: &truth::vm::AstVm) -> Sexp {
    let log = vm.instr_log.iter().map(|c| {
        let mut v = vec![Sexp::int(c.real_time), Sexp::int(c.opcode as i64)];
        for a in &c.args { v.push(match a { ScalarValue::Int(i) => Sexp::int(*i), other => Sexp::atom(other.to_string()) }); }
        Sexp::list(v)
    }).collect();
    let regs = REGS.iter().map(|&r| match vm.get_reg(RegId(r as i32)) { Some(ScalarValue::Int(i)) => Sexp::int(i), _ => Sexp::atom("?") }).collect();
    Sexp::app("t", vec![Sexp::list(log), Sexp::int(vm.time), Sexp::int(vm.real_time), Sexp::list(regs)])
}

/// `Some(trace)` or `None` on iteration limit; other panics propagate
fn run_trace(stmts: &[truth::pos::Sp<ast::Stmt>], ctx: &truth::context::CompilerContext<'_>, val: &Sexp, limit: u32) -> Result<Option<Sexp>, Sexp> {
    let mut out = None;
    let r = crate::pool::guarded(std::panic::AssertUnwindSafe(|| {
        let mut vm = make_vm(val, limit);
        vm.run(stmts, ctx);
        out = Some(trace_sexp(&vm));
        Sexp::atom("done")
    }));
    if r.head() == Some("panic") {
        if r.args()[1].as_atom().starts_with("iteration limit exceeded") { return Ok(None); }
        return Err(r);
    }
    Ok(out)
}

fn eval_sem(stmts: &[Sexp], vals: &[Sexp]) -> Sexp {
    let text = block_text(stmts);
    let r = crate::pool::guarded(std::panic::AssertUnwindSafe(|| {
        match with_env(|truth| {
            let flat = parse_block(truth, &text)?;
            let mut des = None;
            let rec = crate::pool::guarded(std::panic::AssertUnwindSafe(|| {
                match postprocess(truth, &flat, true) { Ok(b) => { des = Some(b); Sexp::atom("ok") }, Err(e) => { e.ignore(); Sexp::atom("err") } }
            }));
            if rec.head() == Some("panic") && !is_unimplemented_panic(&rec) { return Ok(rec); }
            if let Some(d) = des.as_mut() { truth::passes::desugar_blocks::run(d, truth.ctx(), LanguageKey::Anm)?; }
            let ctx = truth.ctx();
            let mut out = vec![];
            for val in vals {
                let a = match run_trace(&flat.0, ctx, val, FLAT_LIMIT) { Ok(Some(t)) => t, Ok(None) => { out.push(Sexp::atom("skip")); continue; }, Err(p) => return Ok(p) };
                let verdict = match &des {
                    None => Sexp::atom("unsupported"),
                    Some(d) => match run_trace(&d.0, ctx, val, FLAT_LIMIT * 14) {
                        Ok(Some(b)) => if a == b { Sexp::atom("same") } else { Sexp::app("reconstructed", vec![b]) },
                        Ok(None) => Sexp::atom("reconstructed-does-not-terminate"),
                        Err(p) => return Ok(p),
                    },
                };
                out.push(Sexp::app("sem", vec![a, verdict]));
            }
            Ok(Sexp::list(out))
        }) { Ok(s) => s, Err(c) => Sexp::app("err", vec![Sexp::str(c)]) }
    }));
    r
}

// ---------------------------------------------------------------------------------------------
// end to end: structured source -> bytes -> decompile with blocks off / on -> recompile + VM

const ANM_HEAD: &str = "entry { path: \"a.png\", has_data: false, img_width: 16, img_height: 16, img_format: 3, offset_x: 0, offset_y: 0, colorkey: 0, memory_priority: 0, low_res_scale: false, sprites: {} }\n";

fn e2e_source(format: crate::tc::Format, stmts: &[Sexp]) -> String {
    let mut body = String::new();
    stmts_text(&mut body, stmts, 1);
    match format {
        crate::tc::Format::Anm => format!("{ANM_HEAD}script s0 {{\n{body}}}\n"),
        _ => format!("script timeline0 {{}}\nvoid sub0() {{\n{body}}}\n"),
    }
}

/// parse decompiled text back and bring the first script body into the state the VM wants
fn parse_body(truth: &mut truth::Truth, format: crate::tc::Format, text: &str) -> Result<ast::Block, truth::ErrorReported> {
    let script = truth.parse::<ast::ScriptFile>("<decompiled>", text.as_bytes())?.value;
    let lang = if format == crate::tc::Format::Anm { LanguageKey::Anm } else { LanguageKey::Ecl };
    let mut body = None;
    for item in &script.items {
        match &item.value {
            ast::Item::Script { code, ident, .. } if format == crate::tc::Format::Anm || !ident.value.to_string().starts_with("timeline") => { body = Some(code.clone()); break; },
            ast::Item::Func(ast::ItemFunc { code: Some(code), .. }) => { body = Some(code.clone()); break; },
            _ => {},
        }
    }
    let mut block = body.unwrap_or(ast::Block(vec![]));
    let ctx = truth.ctx();
    truth::passes::resolution::assign_languages(&mut block, lang, ctx)?;
    truth::passes::resolution::resolve_names(&block, ctx)?;
    truth::passes::resolution::aliases_to_raw(&mut block, ctx)?;
    truth::passes::resolution::compute_diff_label_masks(&mut block, ctx)?;
    Ok(block)
}

/// flat block: time labels never go back and no jump has an explicit time
fn ast_time_monotone(flat: &ast::Block) -> bool {
    let mut t = 0i64;
    for s in &flat.0 {
        match &s.kind {
            ast::StmtKind::AbsTimeLabel(v) => { if (v.value as i64) < t { return false; } t = v.value as i64; },
            ast::StmtKind::RelTimeLabel { delta, .. } => match &delta.value { ast::Expr::LitInt { value, .. } if *value >= 0 => t += *value as i64, _ => return false },
            ast::StmtKind::Jump(ast::StmtJumpKind::Goto(g)) if g.time.is_some() => return false,
            ast::StmtKind::CondJump { jump: ast::StmtJumpKind::Goto(g), .. } if g.time.is_some() => return false,
            _ => {},
        }
    }
    true
}

fn has_timed_goto(stmts: &[Sexp]) -> bool {
    stmts.iter().any(|s| match s {
        Sexp::List(v) => (s.head() == Some("goto") && v.len() > 2) || has_timed_goto(v),
        _ => false,
    })
}

fn eval_e2e(format_name: &str, stmts: &[Sexp], vals: &[Sexp]) -> Sexp {
    use crate::tc;
    let format = tc::Format::from_name(format_name);
    let game = if format == tc::Format::Anm { truth::Game::Th12 } else { truth::Game::Th07 };
    let src = e2e_source(format, stmts);
    let maps: Vec<String> = if format == tc::Format::Anm { vec![] } else { vec![DIFF_MAPFILE.to_string()] };
    let maps = &maps[..];
    let c0 = tc::compile(format, game, maps, src.as_bytes());
    let bytes0 = match c0.value { Some(b) => b, None => return Sexp::app("skip", vec![Sexp::atom("source-does-not-compile"), Sexp::str(diag_class(&c0.diagnostics))]) };
    let off = tc::decompile(format, game, maps, &bytes0, &truth::DecompileOptions { blocks: false, ..Default::default() }, 100);
    let on = tc::decompile(format, game, maps, &bytes0, &truth::DecompileOptions::default(), 100);
    let (text_off, text_on) = match (off.value, on.value) {
        (Some(a), Some(b)) => (a, b),
        (None, _) => return Sexp::app("skip", vec![Sexp::atom("decompile-without-blocks-fails"), Sexp::str(diag_class(&off.diagnostics))]),
        (Some(_), None) => return fail("decompile fails only with block reconstruction on", format!("{}\n{src}", diag_class(&on.diagnostics))),
    };
    let r_off = tc::compile(format, game, maps, text_off.as_bytes());
    let r_on = tc::compile(format, game, maps, text_on.as_bytes());
    // the flat text has to reproduce the binary (C01's business if not); then the reconstructed text must too
    match r_off.value {
        Some(b) if b == bytes0 => {},
        Some(_) => return Sexp::app("skip", vec![Sexp::atom("flat-decompilation-does-not-roundtrip")]),
        None => return Sexp::app("skip", vec![Sexp::atom("flat-decompilation-does-not-recompile"), Sexp::str(diag_class(&r_off.diagnostics))]),
    }
    let b_on = match r_on.value {
        Some(b) => b,
        None => return fail(format!("reconstructed text does not recompile ({})", diag_class(&r_on.diagnostics)), format!("--- blocks on ---\n{text_on}--- blocks off ---\n{text_off}")),
    };
    if b_on != bytes0 {
        return fail("reconstructed text recompiles to different bytes", format!("--- blocks on ---\n{text_on}--- blocks off ---\n{text_off}"));
    }
    let same_as_source = true;
    // VM on the two texts
    let r = crate::pool::guarded(std::panic::AssertUnwindSafe(|| {
        let o = tc::with_truth(format, game, maps, |truth| {
            let flat = parse_body(truth, format, &text_off)?;
            let rec = parse_body(truth, format, &text_on)?;
            let mut stats = (0, 0, 0);
            // (direct comparison only where AstVm's block-end time rule is exact, see `eval_vm`)
            if !has_timed_goto(stmts) && ast_time_monotone(&flat) {
                if let Some(f) = compare_vm(truth, &flat, &rec, vals, "decompiled with blocks", &mut stats) { return Ok(f); }
            }
            let mut des = rec.clone();
            truth::passes::desugar_blocks::run(&mut des, truth.ctx(), if format == tc::Format::Anm { LanguageKey::Anm } else { LanguageKey::Ecl })?;
            let mut dstats = (0, 0, 0);
            if let Some(f) = compare_vm(truth, &flat, &des, vals, "desugar(decompiled with blocks)", &mut dstats) { return Ok(f); }
            let restructured = text_on != text_off;
            Ok(Sexp::app("pass", vec![Sexp::atom(if restructured { "restructured" } else { "unchanged" }), Sexp::int(stats.0 as i64), Sexp::int(dstats.0 as i64), Sexp::int(dstats.1 as i64), Sexp::int(stats.2 as i64),
                Sexp::atom(if same_as_source { "bytes-roundtrip" } else { "bytes-differ-from-source" })]))
        });
        match o.value { Some(s) => s, None => { if std::env::var("C07_DEBUG").is_ok() { eprintln!("{}\n{text_on}", o.diagnostics); } Sexp::app("skip", vec![Sexp::atom("decompiled-text-does-not-parse"), Sexp::str(diag_class(&o.diagnostics))]) } }
    }));
    r
}

// ---------------------------------------------------------------------------------------------

impl Prop for C07 {
    fn id(&self) -> &'static str { "C07" }
    fn relation(&self) -> &'static str {
        "pp: structure tree (loops, do-while, cond chains, breaks, surviving labels; bookends dropped) of passes::postprocess_decompiled on a flat block == Lean `Decomp.postprocess`; sem: AstVm trace (instr_log, time, real_time, registers) of the flat block and verdict `same` for desugar_blocks(reconstructed) == Lean machine `Decomp.run` on the flat block and on `Decomp.lower (postprocess ..)` (the definitions the theorem `C07_sound_partial` is stated with)"
    }
    fn rule(&self) -> &'static str {
        "flat blocks from (a) generated structured programs (cond chains with 1-3 arms +- else, loop with break, do-while incl. count jumps, while, times with clobber; depth <= 3) through the REAL desugar_blocks::run, `unless (c)` rewritten to `if (!c)` like the compiler+raiser do, then 0-3 mutations (retarget a jump, explicit time, difficulty tag, interrupt label, extra referrer, delete, swap, time label, new label; rarely `unless`, undefined label, offsetof/timeof); (b) random jump graphs of 3-28 statements over 1-5 labels; (b2) near-chains: jump patterns laid out like an if / else-if (/ else) chain of 2-4 arms followed by three labelled tails, where the last conditional jump and some of the `goto end`s go to the end label, beyond it, or back to an earlier arm; every flat block gives a `pp` case (model vs implementation) and, when it is something the raiser can produce, a `vm` case: AstVm on the --no-blocks form vs the reconstructed form (only when time labels are monotone and no jump has an explicit time, because AstVm's block-end time rule is exact only then) and vs desugar_blocks(reconstructed) (always), 4 (quick) / 8 (thorough) valuations of difficulty + 4 int registers, iteration limit => skipped; (c) end to end: structured sources with explicit labels/gotos compiled as TH12 ANM and TH07 ECL, decompiled with blocks off/on, both texts recompiled (must reproduce the bytes) and run in AstVm. non-trivial = contains at least one jump"
    }
    fn theorems(&self) -> &'static [&'static str] {
        &["TruthModel.C07.postprocess_observation", "TruthModel.C07.time_labels_preserved", "TruthModel.C07.timed_jumps_untouched",
          "TruthModel.C07.difficulty_tagged_jumps_untouched", "TruthModel.C07.difficulty_tagged_jumps_kept",
          "TruthModel.C07.labels_not_duplicated", "TruthModel.C07.labels_with_referrers_survive",
          "TruthModel.C07.interrupts_not_captured", "TruthModel.C07.desugar_postprocess_partial",
          "TruthModel.C07.postprocess_resolved", "TruthModel.C07.C07_sound_partial", "TruthModel.C07.nobreak_necessary",
          "TruthModel.C07.nonneg_time_necessary", "TruthModel.C07.C07_full_false"]
    }

    fn gen(&self, tier: Tier, rng: &mut Rng) -> Vec<Case> {
        let scale = if tier == Tier::Quick { 1 } else { 30 };
        let nvals = if tier == Tier::Quick { 4 } else { 8 };
        let mut out = vec![];
        // (a) structured programs through the real desugarer, then 0-3 mutations
        for k in 0..1200 * scale {
            let mut g = G { rng, next_label: 0, next_op: 0, ins_table: &[], allow_diff: true, allow_int: true, gt_count: false, src_labels: false };
            let len = 1 + g.rng.below(5);
            let depth = 1 + g.rng.below(3) as u32;
            let prog = g.block(depth, len, false);
            let flat = match real_desugar(&prog) { Ok(f) => normalize_unless(f), Err(_) => continue };
            let mut flat = flat;
            g.next_label = 2000;
            let mut muts = vec![];
            if k % 3 != 0 { for _ in 0..1 + g.rng.below(3) { muts.push(mutate(&mut g, &mut flat, k % 7 == 0)); } }
            self.push_flat(&mut out, rng, flat, if muts.is_empty() { "desugared" } else { "desugared-mutated" }, &muts, nvals);
        }
        // (b) random jump graphs
        for k in 0..1800 * scale {
            let mut g = G { rng, next_label: 0, next_op: 0, ins_table: &[], allow_diff: true, allow_int: true, gt_count: false, src_labels: false };
            let wild = k % 3 == 0;
            let mut flat = g.graph(wild);
            let mut muts = vec![];
            if wild { for _ in 0..g.rng.below(3) { muts.push(mutate(&mut g, &mut flat, k % 9 == 0)); } }
            self.push_flat(&mut out, rng, flat, "graph", &muts, nvals);
        }
        // (b2) near-chains
        for _ in 0..400 * scale {
            let mut g = G { rng, next_label: 0, next_op: 0, ins_table: &[], allow_diff: true, allow_int: true, gt_count: false, src_labels: false };
            let flat = g.near_chain();
            self.push_flat(&mut out, rng, flat, "near-chain", &[], nvals);
        }
        // (c) end to end through real formats
        for k in 0..160 * scale {
            let ecl = k % 2 == 1;
            let mut g = G { rng, next_label: 0, next_op: 0, ins_table: if ecl { &[(45, 1), (43, 3), (10, 2)] } else { &[(75, 1), (77, 1), (84, 1), (99, 1), (76, 3), (40, 2)] },
                allow_diff: ecl, allow_int: !ecl, gt_count: ecl, src_labels: k % 4 >= 2 };
            let len = 1 + g.rng.below(5);
            let depth = 1 + g.rng.below(3) as u32;
            let prog = g.block(depth, len, false);
            let mut labels = vec![]; all_labels(&prog, &mut labels);
            let prog = patch_gotos(rng, prog, &labels);
            let jumps = count_heads(&prog, &["goto", "loop", "dowhile", "while", "times", "timesc", "chain"]);
            out.push(Case::search(app("e2e", vec![Sexp::atom(if ecl { "ecl" } else { "anm" }), Sexp::list(prog), valuations(rng, nvals)]))
                .tag(if ecl { "e2e-ecl-th07" } else { "e2e-anm-th12" }).tag(if k % 4 >= 2 { "e2e-with-source-gotos" } else { "e2e-structured-only" }).trivial(jumps == 0));
        }
        if let Ok(p) = std::env::var("C07_DUMP") {
            let text: String = out.iter().map(|c| format!("{}\n", c.sexp)).collect();
            let _ = std::fs::write(p, text);
        }
        out
    }

    fn eval(&self, case: &Sexp) -> Sexp {
        let a = case.args();
        match case.head() {
            Some("pp") => eval_pp(a),
            Some("vm") => eval_vm(a[0].as_list(), a[1].as_list()),
            Some("sem") => eval_sem(a[0].as_list(), a[1].as_list()),
            Some("e2e") => eval_e2e(a[0].as_atom(), a[1].as_list(), a[2].as_list()),
            Some("desugar") => match real_desugar(a) { Ok(v) => Sexp::app("ok", v), Err(e) => Sexp::str(e) },
            _ => Sexp::atom("bad-case"),
        }
    }

    fn judge(&self, _case: &Sexp, result: &Sexp) -> Option<Failure> { super::default_judge(result) }
}

// ---------------------------------------------------------------------------------------------
// generators

fn app(h: &str, v: Vec<Sexp>) -> Sexp { Sexp::app(h, v) }
fn int(i: i64) -> Sexp { Sexp::int(i) }
fn lab(n: i64) -> Sexp { app("lab", vec![int(n)]) }
fn goto(n: i64) -> Sexp { app("goto", vec![int(n)]) }
fn reg(r: i64) -> Sexp { app("r", vec![int(r)]) }
fn lit(v: i64) -> Sexp { app("i", vec![int(v)]) }

struct G<'a> { rng: &'a mut Rng, next_label: i64, next_op: i64, ins_table: &'static [(i64, usize)], allow_diff: bool, allow_int: bool, gt_count: bool, src_labels: bool }

impl G<'_> {
    fn fresh_label(&mut self) -> i64 { self.next_label += 1; self.next_label }
    fn a_reg(&mut self) -> i64 { *self.rng.pick(REGS) }
    fn operand(&mut self) -> Sexp {
        if self.rng.chance(1, 2) { reg(self.a_reg()) } else { lit(self.rng.range(-2, 4)) }
    }
    /// condition of a conditional jump / block
    fn cond(&mut self) -> Sexp { self.cond_(true) }
    fn scond(&mut self) -> Sexp { let any = self.rng.chance(1, 6); self.cond_(any) }
    /// `any = false`: only conditions whose negation the compiler can express as one jump
    fn cond_(&mut self, any: bool) -> Sexp {
        match self.rng.below(if any { 20 } else { 12 }) {
            0..=11 => { let op = *self.rng.pick(&["eq", "ne", "lt", "le", "gt", "ge"]); app("bin", vec![Sexp::atom(op), reg(self.a_reg()), self.operand()]) },
            12 => app("bin", vec![Sexp::atom(*self.rng.pick(&["add", "sub", "band"])), reg(self.a_reg()), self.operand()]),
            13 | 14 => reg(self.a_reg()),
            15 | 16 if !self.gt_count => app("dec", vec![int(self.a_reg())]),
            15 | 16 => app("bin", vec![Sexp::atom("gt"), app("dec", vec![int(self.a_reg())]), lit(0)]),
            17 => app("bin", vec![Sexp::atom(*self.rng.pick(&["ne", "gt", "eq"])), app("dec", vec![int(self.a_reg())]), lit(0)]),
            // (two literals only outside the end-to-end cases: the compiler folds constant conditions, which is C11's business)
            _ => { let op = *self.rng.pick(&["eq", "ne", "lt", "ge"]); let a = if self.ins_table.is_empty() { self.operand() } else { reg(self.a_reg()) }; app("bin", vec![Sexp::atom(op), a, self.operand()]) },
        }
    }
    fn ins(&mut self) -> Sexp {
        if !self.ins_table.is_empty() {
            let (op, n) = *self.rng.pick(self.ins_table);
            let mut v = vec![int(op)];
            for _ in 0..n { v.push(self.operand()); }
            return app("ins", v);
        }
        self.next_op += 1;
        let mut v = vec![int(100 + self.next_op % 400)];
        for _ in 0..self.rng.below(3) { v.push(self.operand()); }
        app("ins", v)
    }
    fn set(&mut self) -> Sexp {
        let r = self.a_reg();
        match self.rng.below(4) {
            0 => app("set", vec![int(r), lit(self.rng.range(0, 3))]),
            1 => app("set", vec![int(r), app("bin", vec![Sexp::atom("add"), reg(r), lit(1)])]),
            _ => app("set", vec![int(r), app("bin", vec![Sexp::atom("sub"), reg(r), lit(1)])]),
        }
    }
    fn time_label(&mut self) -> Sexp {
        if self.rng.chance(3, 4) { app("rel", vec![int(self.rng.range(1, 30))]) } else { app("abs", vec![int(self.rng.range(0, 60))]) }
    }
    fn maybe_diff(&mut self, s: Sexp, num: u32, den: u32) -> Sexp {
        if self.allow_diff && self.rng.chance(num, den) { app("diff", vec![Sexp::atom(*self.rng.pick(TAGS)), s]) } else { s }
    }

    // ---- random jump graphs ----
    fn graph(&mut self, wild: bool) -> Vec<Sexp> {
        let big = self.rng.chance(1, 4);
        let n = 3 + self.rng.below(if big { 26 } else { 12 });
        let m = 1 + self.rng.below(5) as i64;
        let p_time = if wild { 10 } else { 4 };
        let mut out = vec![];
        let mut pending: Vec<i64> = (1..=m).collect();
        self.rng.shuffle(&mut pending);
        self.next_label = m;
        for k in 0..n {
            // make sure all labels get placed
            let must_place = pending.len() >= n - k;
            let kind = if must_place { 0 } else { self.rng.below(100) };
            let s = match kind {
                0..=15 if !pending.is_empty() => lab(pending.pop().unwrap()),
                0..=45 => { let s = self.ins(); self.maybe_diff(s, 1, 12) },
                46..=60 => {
                    let mut v = vec![int(1 + self.rng.below(m as usize) as i64)];
                    if self.rng.chance(p_time, 100) { v.push(int(self.rng.range(0, 40))); }
                    let s = app("goto", v);
                    self.maybe_diff(s, 1, 12)
                },
                61..=82 => {
                    let mut v = vec![int(1 + self.rng.below(m as usize) as i64)];
                    if self.rng.chance(p_time, 100) { v.push(int(self.rng.range(0, 40))); }
                    let s = app("cj", vec![Sexp::atom("if"), self.cond(), app("goto", v)]);
                    self.maybe_diff(s, 1, 12)
                },
                83..=89 => self.time_label(),
                90..=92 => app("int", vec![int(self.rng.range(1, 5))]),
                _ => self.set(),
            };
            out.push(s);
        }
        out
    }

    // ---- jump patterns shaped like an if / else-if chain, with one or two of its jumps going elsewhere ----
    /// `if (c1) goto n1; A; goto end; n1: if (c2) goto n2; B; goto end; n2: ... end: C; other: D; other2: E` where the
    /// last conditional jump and the `goto end`s may go to `end`, beyond it, or back to an earlier arm
    fn near_chain(&mut self) -> Vec<Sexp> {
        let arms = 2 + self.rng.below(3);
        let has_else = self.rng.chance(1, 3);
        let next: Vec<i64> = (0..arms).map(|_| self.fresh_label()).collect();
        let (end, other, other2) = (self.fresh_label(), self.fresh_label(), self.fresh_label());
        let mut out = vec![];
        for _ in 0..self.rng.below(2) { out.push(self.ins()); }
        let elsewhere = |g: &mut G, usual: i64| -> i64 {
            match g.rng.below(8) { 0 => other, 1 => other2, 2 => end, 3 => next[g.rng.below(arms)], _ => usual }
        };
        for i in 0..arms {
            if i > 0 { out.push(lab(next[i - 1])); }
            let last = i + 1 == arms;
            let usual = if last && !has_else { end } else { next[i] };
            let t = if last { elsewhere(self, usual) } else if self.rng.chance(1, 10) { elsewhere(self, usual) } else { usual };
            let c = self.cond();
            out.push(app("cj", vec![Sexp::atom("if"), c, goto(t)]));
            for _ in 0..self.rng.below(3) { let s = if self.rng.chance(1, 4) { self.set() } else { self.ins() }; out.push(s); }
            if self.rng.chance(1, 8) { let t = self.time_label(); out.push(t); }
            if !last || has_else { let t = if self.rng.chance(1, 5) { elsewhere(self, end) } else { end }; out.push(goto(t)); }
        }
        if has_else { out.push(lab(next[arms - 1])); for _ in 0..1 + self.rng.below(2) { out.push(self.ins()); } }
        out.push(lab(end));
        for _ in 0..self.rng.below(3) { out.push(self.ins()); }
        out.push(lab(other));
        for _ in 0..self.rng.below(2) { out.push(self.ins()); }
        out.push(lab(other2));
        out.push(self.ins());
        // labels that nothing refers to would be dropped by the raiser anyway; keep the stream as the raiser would give it
        let used: Vec<i64> = out.iter().filter_map(|s| match s.head() { Some("goto") => Some(s.args()[0].as_i64()), Some("cj") => Some(s.args()[2].args()[0].as_i64()), _ => None }).collect();
        out.into_iter().filter(|s| s.head() != Some("lab") || used.contains(&s.args()[0].as_i64())).collect()
    }

    // ---- structured programs ----
    fn block(&mut self, depth: u32, len: usize, in_loop: bool) -> Vec<Sexp> {
        let mut out = vec![];
        for _ in 0..len {
            let k = self.rng.below(100);
            let s = match k {
                0..=34 => { let s = self.ins(); self.maybe_diff(s, 1, 15) },
                35..=44 => self.set(),
                45..=52 => self.time_label(),
                53..=54 if self.allow_int => app("int", vec![int(self.rng.range(1, 5))]),
                53 if self.src_labels => lab(self.fresh_label()),
                54 if self.src_labels => {
                    // destination patched afterwards (`patch_gotos`)
                    let mut v = vec![int(0)];
                    if self.rng.chance(1, 5) { v.push(int(self.rng.range(0, 40))); }
                    if self.rng.chance(1, 2) { app("goto", v) } else { app("cj", vec![Sexp::atom("if"), self.scond(), app("goto", v)]) }
                },
                55..=58 if in_loop => {
                    if self.rng.chance(1, 2) { app("cj", vec![Sexp::atom("if"), self.scond(), app("break", vec![])]) }
                    else { app("chain", vec![{ let mut v = vec![Sexp::atom("if"), self.scond()]; v.extend(self.block(0, 1, false)); v.push(app("break", vec![])); app("arm", v) }]) }
                },
                55..=75 if depth > 0 => {
                    let arms = 1 + self.rng.below(3);
                    let mut v = vec![];
                    for _ in 0..arms {
                        let mut a = vec![Sexp::atom("if"), self.scond()];
                        let l = self.rng.below(4);
                        a.extend(self.block(depth - 1, l, in_loop));
                        v.push(app("arm", a));
                    }
                    if self.rng.chance(1, 2) { let l = self.rng.below(4); v.push(app("else", self.block(depth - 1, l, in_loop))); }
                    app("chain", v)
                },
                76..=82 if depth > 0 => {
                    let l = 1 + self.rng.below(4);
                    let mut body = self.block(depth - 1, l, true);
                    // a guaranteed exit
                    let r = self.a_reg();
                    let pos = self.rng.below(body.len() + 1);
                    body.insert(pos, app("cj", vec![Sexp::atom("if"), app("bin", vec![Sexp::atom("le"), reg(r), lit(0)]), app("break", vec![])]));
                    body.push(app("set", vec![int(r), app("bin", vec![Sexp::atom("sub"), reg(r), lit(1)])]));
                    app("loop", body)
                },
                83..=90 if depth > 0 => {
                    let l = self.rng.below(4);
                    let mut v = vec![if self.rng.chance(2, 3) { if self.gt_count { app("bin", vec![Sexp::atom("gt"), app("dec", vec![int(self.a_reg())]), lit(0)]) } else { app("dec", vec![int(self.a_reg())]) } } else { self.scond() }];
                    v.extend(self.block(depth - 1, l, true));
                    app("dowhile", v)
                },
                91..=94 if depth > 0 => {
                    let r = self.a_reg();
                    let l = self.rng.below(3);
                    let mut v = vec![app("bin", vec![Sexp::atom("gt"), reg(r), lit(0)])];
                    v.extend(self.block(depth - 1, l, true));
                    v.push(app("set", vec![int(r), app("bin", vec![Sexp::atom("sub"), reg(r), lit(1)])]));
                    app("while", v)
                },
                95..=97 if depth > 0 => {
                    let l = self.rng.below(3);
                    let mut v = vec![int(self.a_reg()), if self.rng.chance(1, 2) { lit(self.rng.range(0, 3)) } else { reg(self.a_reg()) }];
                    v.extend(self.block(depth - 1, l, true));
                    app("timesc", v)
                },
                _ => { let s = self.ins(); s },
            };
            out.push(s);
        }
        out
    }
}

/// gives every `(goto 0 ..)` placeholder a random label of the program (or removes it when there is none)
fn patch_gotos(rng: &mut Rng, stmts: Vec<Sexp>, labels: &[i64]) -> Vec<Sexp> {
    stmts.into_iter().filter_map(|s| patch_goto(rng, s, labels)).collect()
}
fn patch_goto(rng: &mut Rng, s: Sexp, labels: &[i64]) -> Option<Sexp> {
    match &s {
        Sexp::List(v) if s.head() == Some("goto") && v[1].as_i64() == 0 => {
            if labels.is_empty() { return None; }
            let mut w = v.clone(); w[1] = int(*rng.pick(labels)); Some(Sexp::List(w))
        },
        Sexp::List(v) if s.head() == Some("cj") => {
            let j = patch_goto(rng, v[3].clone(), labels)?;
            Some(Sexp::List(vec![v[0].clone(), v[1].clone(), v[2].clone(), j]))
        },
        Sexp::List(v) if matches!(s.head(), Some("loop" | "dowhile" | "while" | "times" | "timesc" | "chain" | "arm" | "else")) => {
            Some(Sexp::List(v.iter().cloned().filter_map(|x| match x { Sexp::List(_) if !matches!(x.head(), Some("bin" | "r" | "i" | "dec")) => patch_goto(rng, x, labels), other => Some(other) }).collect()))
        },
        _ => Some(s),
    }
}
fn all_labels(stmts: &[Sexp], out: &mut Vec<i64>) {
    for s in stmts {
        if let Sexp::List(v) = s {
            if s.head() == Some("lab") { out.push(v[1].as_i64()); }
            else if matches!(s.head(), Some("loop" | "dowhile" | "while" | "times" | "timesc" | "chain" | "arm" | "else")) { all_labels(v, out); }
        }
    }
}

/// what the compiler + raiser make of the desugarer's `unless (c) goto`: `if (!c) goto`
fn normalize_unless(stmts: Vec<Sexp>) -> Vec<Sexp> {
    stmts.into_iter().map(|s| {
        if s.head() == Some("cj") && s.args()[0].as_atom() == "unless" {
            let a = s.args();
            let c = &a[1];
            let neg = match c.head() {
                Some("bin") => {
                    let b = c.args();
                    let n = match b[0].as_atom() { "eq" => "ne", "ne" => "eq", "lt" => "ge", "ge" => "lt", "le" => "gt", "gt" => "le", _ => "" };
                    if n.is_empty() { None } else { Some(app("bin", vec![Sexp::atom(n), b[1].clone(), b[2].clone()])) }
                },
                _ => Some(app("bin", vec![Sexp::atom("eq"), c.clone(), lit(0)])),
            };
            match neg { Some(n) => app("cj", vec![Sexp::atom("if"), n, a[2].clone()]), None => s }
        } else { s }
    }).collect()
}

fn is_phys(s: &Sexp) -> bool { matches!(s.head(), Some("goto") | Some("cj") | Some("ins") | Some("set")) }
fn labels_of(stmts: &[Sexp]) -> Vec<i64> { stmts.iter().filter(|s| s.head() == Some("lab")).map(|s| s.args()[0].as_i64()).collect() }

fn mutate(g: &mut G, stmts: &mut Vec<Sexp>, wild: bool) -> &'static str {
    let labels = labels_of(stmts);
    let n = stmts.len();
    if n == 0 { return "none"; }
    let jumps: Vec<usize> = (0..n).filter(|&i| matches!(stmts[i].head(), Some("goto") | Some("cj"))).collect();
    let set_jump = |s: &Sexp, f: &dyn Fn(&[Sexp]) -> Vec<Sexp>| -> Sexp {
        match s.head() {
            Some("goto") => app("goto", f(s.args())),
            _ => { let a = s.args(); app("cj", vec![a[0].clone(), a[1].clone(), if a[2].head() == Some("goto") { app("goto", f(a[2].args())) } else { a[2].clone() }]) },
        }
    };
    match g.rng.below(if wild { 14 } else { 11 }) {
        0 | 1 if !jumps.is_empty() && !labels.is_empty() => { // retarget
            let i = *g.rng.pick(&jumps); let l = *g.rng.pick(&labels);
            stmts[i] = set_jump(&stmts[i], &|a| { let mut v = a.to_vec(); v[0] = int(l); v });
            "retarget"
        },
        2 if !jumps.is_empty() => { // explicit time
            let i = *g.rng.pick(&jumps); let t = g.rng.range(0, 40);
            stmts[i] = set_jump(&stmts[i], &|a| vec![a[0].clone(), int(t)]);
            "time-arg"
        },
        3 => { // difficulty tag
            let phys: Vec<usize> = (0..n).filter(|&i| is_phys(&stmts[i])).collect();
            if phys.is_empty() { return "none"; }
            let i = *g.rng.pick(&phys);
            stmts[i] = app("diff", vec![Sexp::atom(*g.rng.pick(TAGS)), stmts[i].clone()]);
            "diff-tag"
        },
        4 => { let p = g.rng.below(n + 1); stmts.insert(p, app("int", vec![int(g.rng.range(1, 5))])); "interrupt" },
        5 | 6 if !labels.is_empty() => { // extra referrer
            let l = *g.rng.pick(&labels); let p = g.rng.below(n + 1);
            let s = if g.rng.chance(1, 2) { goto(l) } else { app("cj", vec![Sexp::atom("if"), g.cond(), goto(l)]) };
            stmts.insert(p, s);
            "extra-jump"
        },
        7 => { let i = g.rng.below(n); stmts.remove(i); "delete" },
        8 if n >= 2 => { let i = g.rng.below(n - 1); stmts.swap(i, i + 1); "swap" },
        9 => { let p = g.rng.below(n + 1); let t = g.time_label(); stmts.insert(p, t); "time-label" },
        10 => { let p = g.rng.below(n + 1); let l = g.fresh_label(); stmts.insert(p, lab(l)); "new-label" },
        // outside what the raiser produces: compared with the model only
        11 if !jumps.is_empty() => {
            let i = *g.rng.pick(&jumps);
            if stmts[i].head() == Some("cj") { let a = stmts[i].args(); stmts[i] = app("cj", vec![Sexp::atom("unless"), a[1].clone(), a[2].clone()]); }
            "unless"
        },
        12 if !jumps.is_empty() => { let i = *g.rng.pick(&jumps); stmts[i] = set_jump(&stmts[i], &|a| { let mut v = a.to_vec(); v[0] = int(99); v }); "undefined-label" },
        13 if !labels.is_empty() => {
            let l = *g.rng.pick(&labels); let p = g.rng.below(n + 1);
            let kw = *g.rng.pick(&["timeof", "offsetof"]);
            stmts.insert(p, app("ins", vec![int(77), app(kw, vec![int(l)])]));
            "label-property"
        },
        _ => "none",
    }
}

fn vm_eligible(stmts: &[Sexp]) -> bool {
    let labels = labels_of(stmts);
    fn scan(s: &Sexp, labels: &[i64]) -> bool {
        match s {
            Sexp::List(v) => {
                match s.head() {
                    Some("timeof") | Some("offsetof") => return false,
                    Some("cj") if v[1].as_atom() == "unless" => return false,
                    Some("goto") if !labels.contains(&v[1].as_i64()) => return false,
                    _ => {},
                }
                v.iter().all(|x| scan(x, labels))
            },
            _ => true,
        }
    }
    let mut sorted = labels.clone(); sorted.sort(); sorted.dedup();
    sorted.len() == labels.len() && stmts.iter().all(|s| scan(s, &labels))
}

fn valuations(rng: &mut Rng, n: usize) -> Sexp {
    let mut v = vec![];
    for k in 0..n {
        let mut one = vec![int(rng.below(4) as i64)];
        for _ in 0..REGS.len() {
            one.push(int(match (k, rng.below(10)) {
                (0, _) => rng.range(1, 3),
                (_, 0..=5) => rng.range(-1, 4),
                (_, 6..=7) => rng.range(-3, 9),
                _ => *rng.pick(&[0, 1, -1, i32::MAX as i64, i32::MIN as i64, 2, 100]),
            }));
        }
        v.push(Sexp::list(one));
    }
    Sexp::list(v)
}

fn count_heads(stmts: &[Sexp], heads: &[&str]) -> usize {
    fn go(s: &Sexp, heads: &[&str]) -> usize {
        match s { Sexp::List(v) => (if s.head().map(|h| heads.contains(&h)).unwrap_or(false) { 1 } else { 0 }) + v.iter().map(|x| go(x, heads)).sum::<usize>(), _ => 0 }
    }
    stmts.iter().map(|s| go(s, heads)).sum()
}

impl C07 {
    fn push_flat(&self, out: &mut Vec<Case>, rng: &mut Rng, flat: Vec<Sexp>, tag: &str, extra_tags: &[&str], nvals: usize) {
        let jumps = count_heads(&flat, &["goto"]);
        let mut c = Case::corr(Sexp::app("pp", flat.clone())).tag(format!("pp-{tag}")).trivial(jumps == 0);
        for t in extra_tags { c = c.tag(format!("mut-{t}")); }
        out.push(c);
        if vm_eligible(&flat) {
            let vals = valuations(rng, nvals);
            out.push(Case::search(app("vm", vec![Sexp::list(flat.clone()), vals.clone()])).tag(format!("vm-{tag}")).trivial(jumps == 0));
            // the same runs on the Lean machine (the semantics `C07_full` is stated with) vs AstVm
            out.push(Case::corr(app("sem", vec![Sexp::list(flat), vals])).tag(format!("sem-{tag}")).trivial(jumps == 0));
        }
    }
}
