//! C14 — difficulty labels and switches select exactly the stated difficulties.
//!
//! Implementation side: the real `DiffFlagDefs` as filled by a user mapfile's `!difficulty_flags`
//! section, and the real TH06 ECL compiler / decompiler (only old ECL supports difficulty).
//!
//!   LINE ::= (INDEX "cs")
//!   (table (LINE...))                  label text of all 256 masks and what it parses back to   [corr + oracle via judge]
//!   (parse (LINE...) "str")            parse_diff_string                                        [corr]
//!   (switch (LINE...) LABEL ARG...)    `{LABEL}: ins(ARG...)` -> (difficulty, args) of the emitted instructions [corr]
//!   (assign (LINE...) LABEL CASE...)   `{LABEL}: I0 = c0:c1:...` -> (difficulty, value)         [corr]
//!   (unit CASE...)                     the private helpers of diff_switch_utils                 [corr]
//!   (file (LINE...))                   256 stored masks -> decompile -> labels -> recompile     [oracle]
//!   (swspec (LINE...) LABEL ARG...)    exactly-one / per-difficulty value / aux bits            [oracle]
//!   (swrt (LINE...) LABEL ARG...)      compile -> decompile (switch recovery on) -> recompile   [oracle]
//!   (raise GAME (LINE...) SIGS INSTR...)   raw instructions -> the real raiser vs `DiffRaise.recognize`   [corr]    (c14_raise.rs)
//!   (raisert GAME (LINE...) SIGS INSTR...) raw instructions -> decompile -> recompile                      [oracle]  (c14_raise.rs)

use super::{Case, Prop, Tier, Failure, fail, default_judge};
use crate::rng::Rng;
use crate::sexp::Sexp;
use crate::tc::{self, Format, Compiled};
use crate::util::diag_class;
use truth::ast;
use truth::llir::RawInstr;
use truth::verif_hooks::BitSet32;
use truth::verif_hooks::diff_switch as ds;

pub struct C14;

const GAME: truth::Game = truth::Game::Th06;
const REG_OUT: &str = "$REG[-10001]";
const REG_IN: &str = "$REG[-10002]";

// ---------------------------------------------------------------------------------------------
// flag tables

fn lines_of(s: &Sexp) -> Vec<(i64, String)> {
    s.as_list().iter().map(|l| { let l = l.as_list(); (l[0].as_i64(), l[1].as_atom().to_string()) }).collect()
}

fn mapfile_text(lines: &[(i64, String)]) -> String {
    let mut t = String::from("!eclmap\n!ins_signatures\n1001 S\n1002 SS\n1003 SSS\n1004 f\n1005 ff\n");
    if !lines.is_empty() {
        t.push_str("!difficulty_flags\n");
        for (i, s) in lines { t.push_str(&format!("{i} {s}\n")); }
    }
    t
}

/// The harness' own bookkeeping of a table (independent of the implementation): which character
/// names which bit last, and which bit is printed with which character.  Used to *classify*
/// generated tables (does a name end up on two bits?) and failures, never to compute expected output.
struct TableSim { by_flag: [char; 8], by_name: std::collections::BTreeMap<char, usize>, valid: bool, dup: bool }

fn simulate(lines: &[(i64, String)]) -> TableSim {
    let mut t = TableSim { by_flag: ['0', '1', '2', '3', '4', '5', '6', '7'], by_name: Default::default(), valid: true, dup: false };
    for i in 0..8 { t.by_name.insert(t.by_flag[i], i); }
    for (i, s) in lines {
        let cs: Vec<char> = s.chars().collect();
        let ok = (0..8).contains(i) && s.len() == 2 && cs.len() == 2 && cs[0].is_ascii_alphanumeric() && (cs[1] == '+' || cs[1] == '-');
        if !ok { t.valid = false; continue; }
        // a name that already names another flag is rejected (since the fix of `diff-flag-name-at-two-indices`)
        if (0..8).any(|k| k != *i as usize && t.by_flag[k] == cs[0]) { t.valid = false; t.dup = true; continue; }
        t.by_flag[*i as usize] = cs[0];
        t.by_name.insert(cs[0], *i as usize);
    }
    t
}

impl TableSim {
    /// the table invariant of the Lean model (`Inv`): the name printed for a bit looks up to that bit
    fn inv(&self) -> bool { (0..8).all(|i| self.by_name.get(&self.by_flag[i]) == Some(&i)) }
}

fn table_signature(_lines: &[(i64, String)]) -> &'static str { "diff-label-does-not-parse-back" }

fn with_table<T>(lines: &[(i64, String)], f: impl FnOnce(&mut truth::Truth) -> Result<T, truth::ErrorReported>) -> tc::Outcome<T> {
    tc::with_truth(Format::Ecl, GAME, &[mapfile_text(lines)], f)
}

fn err_sexp<T>(o: &tc::Outcome<T>) -> Sexp { Sexp::app("err", vec![Sexp::str(diag_class(&o.diagnostics))]) }

fn table_case(lines: &Sexp) -> Sexp {
    let lines = lines_of(lines);
    let o = with_table(&lines, |truth| {
        let ctx = truth.ctx();
        let mut out = vec![];
        for m in 0u32..256 {
            let label = ctx.diff_flag_defs.mask_to_diff_label(BitSet32::from_mask(m));
            let text = label.string.clone();
            let parsed = match ctx.diff_flag_defs.parse_diff_string(sp!(text.as_str())) {
                Ok(mask) => Sexp::int(mask.value.mask() as i64),
                Err(_) => Sexp::app("err", vec![Sexp::str("parse")]),
            };
            out.push(Sexp::list(vec![Sexp::str(text), parsed]));
        }
        Ok(out)
    });
    match o.value { Some(v) => Sexp::app("ok", v), None => err_sexp(&o) }
}

/// `parse_diff_string` as the user reaches it: the difficulty byte of `{"text"}: ins_1001(1);`
fn parse_case(lines: &Sexp, text: &str) -> Sexp {
    let lines = lines_of(lines);
    let src = format!("void Sub0() {{\n    {{\"{text}\"}}: ins_1001(1);\n}}\n");
    let o = compile_sub(&lines, &src);
    match &o.value {
        Some(instrs) => match instrs.iter().find(|i| i.opcode == 1001) {
            Some(i) => Sexp::app("ok", vec![Sexp::int(i.difficulty as i64)]),
            None => Sexp::app("ok", vec![Sexp::atom("no-instruction")]),
        },
        None => err_sexp(&o),
    }
}

// ---------------------------------------------------------------------------------------------
// switches through the real compiler

fn arg_text(a: &Sexp) -> String {
    match a.head() {
        Some("sw") => {
            let cases: Vec<String> = a.args().iter().map(|c| if matches!(c, Sexp::Atom(s) if s == "_") { String::new() } else { arg_text(c) }).collect();
            format!("({})", cases.join(":"))
        },
        _ => format!("{}", a.args()[0].as_i32()),
    }
}

fn label_prefix(label: &Sexp) -> String {
    match label { Sexp::Atom(s) if s == "none" => String::new(), l => format!("{{\"{}\"}}: ", l.as_atom()) }
}

fn switch_source(label: &Sexp, args: &[Sexp]) -> String {
    let texts: Vec<String> = args.iter().map(arg_text).collect();
    format!("void Sub0() {{\n    {}ins_{}({});\n}}\n", label_prefix(label), 1000 + args.len(), texts.join(", "))
}

fn blob_ints(i: &RawInstr) -> Vec<i32> {
    i.args_blob.chunks(4).filter(|c| c.len() == 4).map(|c| i32::from_le_bytes([c[0], c[1], c[2], c[3]])).collect()
}

fn sub0(c: &Compiled) -> Vec<RawInstr> {
    match c { Compiled::Ecl(truth::EclFile::Olde(f)) => f.subs[0].instrs.clone(), _ => panic!("not olde ecl") }
}

fn compile_sub(lines: &[(i64, String)], text: &str) -> tc::Outcome<Vec<RawInstr>> {
    with_table(lines, |truth| {
        let script = truth.parse::<ast::ScriptFile>("<input>", text.as_bytes())?.value;
        let compiled = tc::compile_ast(truth, Format::Ecl, GAME, &script)?;
        Ok(sub0(&compiled))
    })
}

fn switch_case(lines: &Sexp, label: &Sexp, args: &[Sexp]) -> Sexp {
    let lines = lines_of(lines);
    let o = compile_sub(&lines, &switch_source(label, args));
    match &o.value {
        None => err_sexp(&o),
        Some(instrs) => Sexp::app("ok", instrs.iter().filter(|i| (1001..=1003).contains(&i.opcode))
            .map(|i| Sexp::list(vec![Sexp::int(i.difficulty as i64), Sexp::list(blob_ints(i).into_iter().map(Sexp::int).collect())])).collect()),
    }
}

fn assign_source(label: &Sexp, cases: &[Sexp]) -> String {
    let texts: Vec<String> = cases.iter().map(|c| match c.head() {
        Some("lit") => format!("{}", c.args()[0].as_i32()),
        Some("add") => format!("({REG_IN} + {})", c.args()[0].as_i32()),
        _ => String::new(),
    }).collect();
    format!("void Sub0() {{\n    {}{REG_OUT} = {};\n}}\n", label_prefix(label), texts.join(" : "))
}

fn assign_case(lines: &Sexp, label: &Sexp, cases: &[Sexp]) -> Sexp {
    let lines = lines_of(lines);
    let o = compile_sub(&lines, &assign_source(label, cases));
    match &o.value {
        None => err_sexp(&o),
        Some(instrs) => Sexp::app("ok", instrs.iter().filter(|i| blob_ints(i).first() == Some(&-10001))
            .map(|i| Sexp::list(vec![Sexp::int(i.difficulty as i64), Sexp::int(*blob_ints(i).last().unwrap())])).collect()),
    }
}

fn unit_case(cases: &[Sexp]) -> Sexp {
    let vals: Vec<Option<i32>> = cases.iter().map(|c| if matches!(c, Sexp::Atom(s) if s == "_") { None } else { Some(c.as_i32()) }).collect();
    let sel: Vec<Sexp> = (0..vals.len()).map(|d| Sexp::int(*ds::select_diff_switch_case(&vals, d as u32))).collect();
    let ec: Vec<Sexp> = ds::explicit_difficulty_cases(&vals).into_iter().map(|(m, v)| Sexp::list(vec![Sexp::int(m.mask() as i64), Sexp::int(*v)])).collect();
    let mut meta = ds::DiffSwitchMeta::new();
    meta.update(&vals);
    let bm: Vec<Sexp> = meta.explicit_case_bitmasks().map(|m| Sexp::int(m.mask() as i64)).collect();
    Sexp::app("ok", vec![Sexp::app("select", sel), Sexp::app("cases", ec), Sexp::app("bitmasks", bm)])
}

// ---------------------------------------------------------------------------------------------
// oracles

fn func_body(script: &ast::ScriptFile) -> Vec<&truth::Sp<ast::Stmt>> {
    let mut out = vec![];
    for item in &script.items {
        if let ast::Item::Func(ast::ItemFunc { code: Some(block), .. }) = &item.value { out.extend(block.0.iter()); }
    }
    out
}

/// 256 stored masks -> decompile under the table -> every label must select its mask again when
/// the printed script is recompiled under the same table
fn file_case(lines: &Sexp) -> Sexp {
    let lines = lines_of(lines);
    let sig = table_signature(&lines);
    let instrs: Vec<RawInstr> = (0..256).map(|m| RawInstr { time: 0, opcode: 1001, args_blob: (m as i32).to_le_bytes().to_vec(), difficulty: m as u8, ..RawInstr::DEFAULTS }).collect();
    let template = "void Sub0() {\n}\n";
    for bits in [16u32, 0] {   // switch recovery off, then the default options
        let d = with_table(&lines, |truth| {
            let script = truth.parse::<ast::ScriptFile>("<input>", template.as_bytes())?.value;
            let mut compiled = tc::compile_ast(truth, Format::Ecl, GAME, &script)?;
            match &mut compiled { Compiled::Ecl(truth::EclFile::Olde(f)) => f.subs[0].instrs = instrs.clone(), _ => unreachable!() }
            let out = tc::decompile_ast(truth, Format::Ecl, GAME, &compiled, &tc::options_from_bits(bits))?;
            let labels: Vec<Option<String>> = func_body(&out).iter()
                .filter(|s| !matches!(s.kind, ast::StmtKind::NoInstruction))
                .map(|s| s.diff_label.as_ref().map(|l| l.string.string.clone())).collect();
            Ok((labels, truth::fmt::stringify_with(&out, truth::fmt::Config::new().max_columns(100))))
        });
        let Some((labels, text)) = d.value else {
            if !simulate(&lines).valid { return Sexp::app("skip", vec![Sexp::str(diag_class(&d.diagnostics))]); }
            return fail("stored-masks-do-not-decompile", diag_class(&d.diagnostics));
        };
        let re = compile_sub(&lines, &text);
        let Some(new) = re.value else {
            return fail(format!("{sig}"), format!("decompiled script does not recompile: {} | {}", diag_class(&re.diagnostics), first_lines(&text)));
        };
        let got: Vec<(u8, Vec<u8>)> = new.iter().map(|i| (i.difficulty, i.args_blob.clone())).collect();
        let want: Vec<(u8, Vec<u8>)> = instrs.iter().map(|i| (i.difficulty, i.args_blob.clone())).collect();
        if got != want {
            let bad: Vec<String> = want.iter().zip(&got).filter(|(a, b)| a != b).take(4)
                .map(|(a, b)| format!("mask {:#04x} printed as {:?} recompiles to {:#04x}", a.0, if bits == 16 { labels.get(a.0 as usize).cloned().flatten() } else { None }, b.0)).collect();
            return fail(format!("{sig}"), format!("options {bits}: {} instructions differ after decompile+recompile ({} -> {}): {}", want.iter().zip(&got).filter(|(a, b)| a != b).count() + want.len().abs_diff(got.len()), want.len(), got.len(), bad.join("; ")));
        }
    }
    Sexp::app("pass", vec![Sexp::int(256)])
}

fn first_lines(text: &str) -> String { text.lines().take(6).collect::<Vec<_>>().join(" ") }

/// per-difficulty value of an argument as the language defines it (the VM's `Expr::DiffSwitch`
/// arm: select the case for the difficulty, then evaluate *that* at the same difficulty)
fn value_at(a: &Sexp, d: usize) -> Option<i32> {
    match a.head() {
        Some("sw") => {
            let cases = a.args();
            if d >= cases.len() { return None; }
            let case = (0..=d).rev().map(|i| &cases[i]).find(|c| !matches!(c, Sexp::Atom(s) if s == "_"))?;
            value_at(case, d)
        },
        _ => Some(a.args()[0].as_i32()),
    }
}

fn switch_len(args: &[Sexp]) -> Option<usize> { args.iter().find(|a| a.head() == Some("sw")).map(|a| a.args().len()) }

fn swspec_case(lines: &Sexp, label: &Sexp, args: &[Sexp]) -> Sexp {
    let lines = lines_of(lines);
    let o = with_table(&lines, |truth| {
        let text = switch_source(label, args);
        let script = truth.parse::<ast::ScriptFile>("<input>", text.as_bytes())?.value;
        let compiled = tc::compile_ast(truth, Format::Ecl, GAME, &script)?;
        let ctx = truth.ctx();
        let aux = ctx.diff_flag_defs.aux_bits().mask() as u8;
        let mask = match label {
            Sexp::Atom(s) if s == "none" => 0xFFu8,
            l => match ctx.diff_flag_defs.parse_diff_string(sp!(l.as_atom())) { Ok(m) => m.value.mask() as u8, Err(_) => 0 /* unreachable: the compile above parsed it */ },
        };
        Ok((sub0(&compiled), aux, mask))
    });
    let Some((instrs, aux, mask)) = o.value else { return Sexp::app("skip", vec![Sexp::str(diag_class(&o.diagnostics))]); };
    let copies: Vec<&RawInstr> = instrs.iter().filter(|i| (1001..=1003).contains(&i.opcode)).collect();
    let n = switch_len(args).unwrap_or(0);
    let sig = "diff-switch-wrong-copy-for-difficulty";
    let src = switch_source(label, args).replace('\n', " ");
    for c in &copies {
        if c.difficulty & aux != mask & aux {
            return fail("diff-switch-changes-aux-bits", format!("{src}: statement mask {mask:#04x}, default-on bits {aux:#04x}, emitted copy has {:#04x}", c.difficulty));
        }
    }
    for j in 0..8usize {
        if aux & (1 << j) != 0 { continue; }       // not a difficulty
        let with_bit: Vec<&&RawInstr> = copies.iter().filter(|c| c.difficulty & (1 << j) != 0).collect();
        if n >= 2 && j < n && mask & (1 << j) != 0 {
            if with_bit.len() != 1 {
                return fail(sig, format!("{src}: difficulty {j}: {} emitted instructions apply (expected exactly one)", with_bit.len()));
            }
            let want: Vec<i32> = args.iter().map(|a| value_at(a, j).expect("value")).collect();
            let got = blob_ints(with_bit[0]);
            if got != want {
                return fail(sig, format!("{src}: difficulty {j}: the instruction that applies (mask {:#04x}) carries {got:?}, the switches select {want:?}", with_bit[0].difficulty));
            }
        } else if n >= 2 && !with_bit.is_empty() {
            return fail(sig, format!("{src}: difficulty {j} is excluded (label / number of cases) but {} emitted instructions apply", with_bit.len()));
        }
    }
    Sexp::app("pass", vec![Sexp::int(copies.len() as i64)])
}

/// float switch cases, compared bit for bit: `ins_1004((a : b : c : d))` / `ins_1005(x, (a : b : ..))`
/// where cases are float bit patterns or `_`.  Values that are equal as floats but not as bits
/// (0.0 / -0.0) in neighbouring cases are the point: each difficulty must get ITS case's bits.
fn swfloat_case(lines: &Sexp, label: &Sexp, lead: Option<u32>, cases: &[Sexp]) -> Sexp {
    let lines = lines_of(lines);
    let ftext = |b: u32| { let x = f32::from_bits(b); let mut t = format!("{:?}", x.abs()); if !t.contains('.') && !t.contains('e') { t.push_str(".0"); } if x.is_sign_negative() { format!("-{t}") } else { t } };
    let sw: Vec<String> = cases.iter().map(|c| match c { Sexp::Atom(a) if a == "_" => String::new(), c => ftext(c.as_i64() as u32) }).collect();
    let (op, args) = match lead { Some(b) => (1005, format!("{}, ({})", ftext(b), sw.join(" : "))), None => (1004, format!("({})", sw.join(" : "))) };
    let src = format!("void Sub0() {{\n    {}ins_{op}({args});\n}}\n", label_prefix(label));
    let o = with_table(&lines, |truth| {
        let script = truth.parse::<ast::ScriptFile>("<input>", src.as_bytes())?.value;
        let compiled = tc::compile_ast(truth, Format::Ecl, GAME, &script)?;
        let ctx = truth.ctx();
        let aux = ctx.diff_flag_defs.aux_bits().mask() as u8;
        let mask = match label {
            Sexp::Atom(s) if s == "none" => 0xFFu8,
            l => match ctx.diff_flag_defs.parse_diff_string(sp!(l.as_atom())) { Ok(m) => m.value.mask() as u8, Err(_) => 0 },
        };
        Ok((sub0(&compiled), aux, mask))
    });
    let Some((instrs, aux, mask)) = o.value else { return Sexp::app("skip", vec![Sexp::str(diag_class(&o.diagnostics))]); };
    let copies: Vec<&RawInstr> = instrs.iter().filter(|i| i.opcode == op).collect();
    let n = cases.len();
    let sig = "diff-switch-wrong-copy-for-difficulty";
    let flat = src.replace('\n', " ");
    for j in 0..8usize {
        if aux & (1 << j) != 0 { continue; }
        let with_bit: Vec<&&RawInstr> = copies.iter().filter(|c| c.difficulty & (1 << j) != 0).collect();
        if j < n && mask & (1 << j) != 0 {
            if with_bit.len() != 1 { return fail(sig, format!("{flat}: difficulty {j}: {} emitted instructions apply (expected exactly one)", with_bit.len())); }
            let want_case = (0..=j).rev().map(|i| &cases[i]).find(|c| !matches!(c, Sexp::Atom(s) if s == "_")).expect("first case is never omitted").as_i64() as u32;
            let mut want: Vec<i32> = vec![];
            if let Some(b) = lead { want.push(b as i32); }
            want.push(want_case as i32);
            let got = blob_ints(with_bit[0]);
            if got != want { return fail(sig, format!("{flat}: difficulty {j}: the instruction that applies (mask {:#04x}) carries bits {got:x?}, the switch selects {want:x?}", with_bit[0].difficulty)); }
        } else if !with_bit.is_empty() {
            return fail(sig, format!("{flat}: difficulty {j} is excluded (label / number of cases) but {} emitted instructions apply", with_bit.len()));
        }
    }
    Sexp::app("pass", vec![Sexp::int(copies.len() as i64)])
}

// ---------------------------------------------------------------------------------------------
// nested labels: a label applies to one statement (possibly a block); an unlabeled statement takes
// the label of the innermost enclosing labeled block; no label anywhere = every difficulty.
// items: (call LABEL|none K) | (sw LABEL|none K1 K2 K3 K4) | (block LABEL|none item...)

fn nest_render(items: &[Sexp], indent: usize, out: &mut String) {
    let pad = " ".repeat(indent);
    for it in items {
        let a = it.args();
        match it.head() {
            Some("call") => out.push_str(&format!("{pad}{}ins_1001({});\n", label_prefix(&a[0]), a[1].as_i32())),
            Some("sw") => out.push_str(&format!("{pad}{}ins_1001(({}));\n", label_prefix(&a[0]), a[1..].iter().map(|x| format!("{}", x.as_i32())).collect::<Vec<_>>().join(":"))),
            Some("block") => { out.push_str(&format!("{pad}{}{{\n", label_prefix(&a[0]))); nest_render(&a[1..], indent + 4, out); out.push_str(&format!("{pad}}}\n")); },
            _ => {},
        }
    }
}

/// (values, effective label) of every call in textual order
fn nest_expected(items: &[Sexp], inherited: Option<String>, out: &mut Vec<(Vec<i32>, Option<String>)>) {
    for it in items {
        let a = it.args();
        let own = match &a[0] { Sexp::Atom(s) if s == "none" => None, l => Some(l.as_atom().to_string()) };
        let eff = own.or_else(|| inherited.clone());
        match it.head() {
            Some("call") => out.push((vec![a[1].as_i32()], eff)),
            Some("sw") => out.push((a[1..].iter().map(|x| x.as_i32()).collect(), eff)),
            Some("block") => nest_expected(&a[1..], eff, out),
            _ => {},
        }
    }
}

fn nestlab_case(lines: &Sexp, items: &[Sexp]) -> Sexp {
    let lines = lines_of(lines);
    let mut body = String::new();
    nest_render(items, 4, &mut body);
    let text = format!("void Sub0() {{\n{body}}}\n");
    let mut expected = vec![];
    nest_expected(items, None, &mut expected);
    let o = with_table(&lines, |truth| {
        let script = truth.parse::<ast::ScriptFile>("<input>", text.as_bytes())?.value;
        let compiled = tc::compile_ast(truth, Format::Ecl, GAME, &script)?;
        let ctx = truth.ctx();
        let aux = ctx.diff_flag_defs.aux_bits().mask() as u8;
        let masks: Vec<u8> = expected.iter().map(|(_, l)| match l {
            None => 0xFF,
            Some(l) => ctx.diff_flag_defs.parse_diff_string(sp!(&l[..])).map(|m| m.value.mask() as u8).unwrap_or(0),
        }).collect();
        Ok((sub0(&compiled), aux, masks))
    });
    let Some((instrs, aux, masks)) = o.value else { return Sexp::app("skip", vec![Sexp::str(diag_class(&o.diagnostics))]); };
    let src = text.replace('\n', " ");
    for ((vals, _), &mask) in expected.iter().zip(&masks) {
        let copies: Vec<&RawInstr> = instrs.iter().filter(|i| i.opcode == 1001 && blob_ints(i).first().map_or(false, |v| vals.contains(v))).collect();
        if vals.len() == 1 {
            // a plain call: exactly one instruction, carrying the statement's mask
            if copies.len() != 1 || copies[0].difficulty != mask {
                return fail("nested-diff-label-wrong-mask", format!("{src}: ins_1001({}) should carry mask {mask:#04x}, emitted: {:?}", vals[0], copies.iter().map(|c| c.difficulty).collect::<Vec<_>>()));
            }
        } else {
            for j in 0..8usize {
                if aux & (1 << j) != 0 { continue; }
                let with_bit: Vec<&&RawInstr> = copies.iter().filter(|c| c.difficulty & (1 << j) != 0).collect();
                let expect_one = j < vals.len() && mask & (1 << j) != 0;
                if expect_one && (with_bit.len() != 1 || blob_ints(with_bit[0]) != vec![vals[j]]) {
                    return fail("nested-diff-label-wrong-mask", format!("{src}: switch {vals:?} under mask {mask:#04x}: difficulty {j} is served by {:?}", with_bit.iter().map(|c| (c.difficulty, blob_ints(c))).collect::<Vec<_>>()));
                }
                if !expect_one && !with_bit.is_empty() {
                    return fail("nested-diff-label-wrong-mask", format!("{src}: switch {vals:?} under mask {mask:#04x}: difficulty {j} must not be served, but is by {:?}", with_bit.iter().map(|c| c.difficulty).collect::<Vec<_>>()));
                }
            }
            if copies.iter().any(|c| c.difficulty & aux != mask & aux) {
                return fail("diff-switch-changes-aux-bits", format!("{src}: switch {vals:?} under mask {mask:#04x}"));
            }
        }
    }
    Sexp::app("pass", vec![Sexp::int(expected.len() as i64)])
}

fn gen_nest_items(rng: &mut Rng, lines: &[(i64, String)], depth: u32, next: &mut i32) -> Vec<Sexp> {
    let mut out = vec![];
    for _ in 0..1 + rng.below(4) {
        let label = if rng.chance(1, 2) { Sexp::atom("none") } else {
            // full masks matter: `*` and all-difficulty strings must override an enclosing narrower label
            if rng.chance(1, 3) { Sexp::str("*") } else { gen_label(rng, lines) }
        };
        if matches!(&label, Sexp::Str(s) if s.is_empty()) { continue; }
        match rng.below(if depth > 0 { 4 } else { 3 }) {
            0 | 1 => { *next += 1; out.push(Sexp::app("call", vec![label, Sexp::int(*next)])); },
            2 => { let mut v = vec![label]; for _ in 0..4 { *next += 1; v.push(Sexp::int(*next)); } out.push(Sexp::app("sw", v)); },
            _ => { let mut v = vec![label]; v.extend(gen_nest_items(rng, lines, depth - 1, next)); out.push(Sexp::app("block", v)); },
        }
    }
    out
}

fn swrt_case(lines: &Sexp, label: &Sexp, args: &[Sexp]) -> Sexp {
    let lines = lines_of(lines);
    let src = switch_source(label, args);
    let o = compile_sub(&lines, &src);
    let Some(orig) = o.value else { return Sexp::app("skip", vec![Sexp::str(diag_class(&o.diagnostics))]); };
    let d = with_table(&lines, |truth| {
        let script = truth.parse::<ast::ScriptFile>("<input>", "void Sub0() {\n}\n".as_bytes())?.value;
        let mut compiled = tc::compile_ast(truth, Format::Ecl, GAME, &script)?;
        match &mut compiled { Compiled::Ecl(truth::EclFile::Olde(f)) => f.subs[0].instrs = orig.clone(), _ => unreachable!() }
        let out = tc::decompile_ast(truth, Format::Ecl, GAME, &compiled, &tc::options_from_bits(0))?;
        Ok(truth::fmt::stringify_with(&out, truth::fmt::Config::new().max_columns(100)))
    });
    let Some(text) = d.value else { return fail("compiled-switch-does-not-decompile", format!("{} | {}", diag_class(&d.diagnostics), src.replace('\n', " "))); };
    let re = compile_sub(&lines, &text);
    let Some(new) = re.value else { return fail("decompiled-switch-does-not-recompile", format!("{} | {}", diag_class(&re.diagnostics), first_lines(&text))); };
    let a: Vec<(u8, Vec<i32>)> = orig.iter().map(|i| (i.difficulty, blob_ints(i))).collect();
    let b: Vec<(u8, Vec<i32>)> = new.iter().map(|i| (i.difficulty, blob_ints(i))).collect();
    if a != b { return fail("diff-switch-decompile-recompile-differs", format!("{} | compiled {a:?} | recompiled {b:?} | {}", src.replace('\n', " "), first_lines(&text))); }
    Sexp::app("pass", vec![Sexp::int(a.len() as i64)])
}

// ---------------------------------------------------------------------------------------------
// generators

const NAME_POOL: &[u8] = b"ENHLXOFUabzZenhlAB0123456789";

fn gen_lines(rng: &mut Rng) -> Vec<(i64, String)> {
    let n = rng.below(9);
    (0..n).map(|_| {
        let i = rng.below(8) as i64;
        let c = *rng.pick(NAME_POOL) as char;
        (i, format!("{c}{}", if rng.chance(1, 3) { '+' } else { '-' }))
    }).collect()
}

/// a table satisfying the invariant (rejection sampling; the empty table always qualifies)
fn gen_inv_table(rng: &mut Rng) -> Vec<(i64, String)> {
    for _ in 0..200 { let l = gen_lines(rng); let t = simulate(&l); if t.valid && t.inv() { return l; } }
    vec![]
}

/// a table with a line that gives a name to a second bit (must be rejected)
fn gen_dup_table(rng: &mut Rng) -> Vec<(i64, String)> {
    loop {
        let mut l = gen_inv_table(rng);
        match rng.below(3) {
            0 => { let c = *rng.pick(b"ENHLX") as char; let i = rng.below(7) as i64; l.push((i, format!("{c}-"))); l.push((i + 1, format!("{c}-"))); },
            1 => { let i = rng.below(8) as i64; let j = (i + 1 + rng.below(7) as i64) % 8; l.push((i, format!("{j}-"))); },   // digit name of another bit
            _ => { let c = *rng.pick(NAME_POOL) as char; l.push((rng.below(8) as i64, format!("{c}+"))); l.push((rng.below(8) as i64, format!("{c}-"))); },
        }
        if simulate(&l).dup { return l; }
    }
}

fn gen_malformed_table(rng: &mut Rng) -> Vec<(i64, String)> {
    let mut l = gen_inv_table(rng);
    let bad: (i64, String) = match rng.below(8) {
        0 => (8, "b-".into()), 1 => (-1, "b+".into()), 2 => (1, "@-".into()), 3 => (2, "X@".into()),
        4 => (3, "a".into()), 5 => (4, "\u{3b8}".into()), 6 => (5, "ab-".into()), _ => (6, "--".into()),
    };
    let at = rng.below(l.len() + 1);
    l.insert(at, bad);
    l
}

const FIXED_TABLES: &[&[(i64, &str)]] = &[
    &[],
    &[(0, "E-"), (1, "N-"), (2, "H-"), (3, "L-"), (4, "4-"), (5, "5-"), (6, "6-"), (7, "7-")],                 // map/th06.eclm
    &[(0, "E-"), (1, "N-"), (2, "H-"), (3, "L-"), (4, "4+"), (5, "F+"), (6, "U+"), (7, "7+")],                 // map/th08.eclm
    &[(0, "a+"), (1, "b+"), (2, "c+"), (3, "d+"), (4, "e+"), (5, "f+"), (6, "g+"), (7, "h+")],                 // everything default-on
    &[(1, "E-"), (0, "N+"), (3, "H-"), (2, "L+")],                                                             // aux bits below difficulty bits
];

fn lines_sexp(l: &[(i64, String)]) -> Sexp {
    Sexp::list(l.iter().map(|(i, s)| Sexp::list(vec![Sexp::int(*i), Sexp::str(s.clone())])).collect())
}

fn fixed_table(k: usize) -> Vec<(i64, String)> { FIXED_TABLES[k].iter().map(|(i, s)| (*i, s.to_string())).collect() }

fn table_for_switch(rng: &mut Rng) -> Vec<(i64, String)> {
    if rng.chance(2, 3) { fixed_table(rng.below(FIXED_TABLES.len())) } else { gen_inv_table(rng) }
}

fn gen_label(rng: &mut Rng, lines: &[(i64, String)]) -> Sexp {
    let sim = simulate(lines);
    match rng.below(6) {
        0 | 1 => Sexp::atom("none"),
        2 => Sexp::str("*"),
        _ => {
            let mut s = String::new();
            if rng.chance(1, 4) { s.push('*'); }
            let k = rng.below(5);
            for _ in 0..k { s.push(sim.by_flag[rng.below(8)]); }
            if rng.chance(1, 3) { s.push('-'); for _ in 0..1 + rng.below(2) { s.push(sim.by_flag[rng.below(8)]); } }
            if rng.chance(1, 8) { s.push('+'); s.push(sim.by_flag[rng.below(8)]); }
            Sexp::str(s)
        },
    }
}

fn gen_parse_string(rng: &mut Rng, lines: &[(i64, String)]) -> String {
    let sim = simulate(lines);
    let len = rng.below(8);
    let mut s = String::new();
    for _ in 0..len {
        match rng.below(12) {
            0 => s.push('-'), 1 => s.push('+'), 2 => s.push('*'),
            3 => s.push(*rng.pick(NAME_POOL) as char),                       // possibly unknown
            4 if rng.chance(1, 3) => s.push(*rng.pick(&['@', ' ', '_', '\u{3b8}', '!'])),  // invalid
            _ => s.push(sim.by_flag[rng.below(8)]),
        }
    }
    s
}

struct ValGen(i32);
impl ValGen { fn next(&mut self) -> Sexp { self.0 += 1; Sexp::app("v", vec![Sexp::int(self.0)]) } }

fn gen_switch(rng: &mut Rng, vals: &mut ValGen, n: usize, nest: bool) -> Sexp {
    let mut cases = vec![];
    for d in 0..n {
        if d > 0 && rng.chance(2, 5) { cases.push(Sexp::atom("_")); }
        else if nest && rng.chance(1, 3) { cases.push(gen_switch(rng, vals, n, false)); }
        else { cases.push(vals.next()); }
    }
    if nest && !cases.iter().any(|c| c.head() == Some("sw")) { let at = rng.below(n); cases[at] = gen_switch(rng, vals, n, false); }
    Sexp::app("sw", cases)
}

fn gen_switch_args(rng: &mut Rng, nested: bool) -> Vec<Sexp> {
    let n = 2 + rng.below(7);
    let nargs = 1 + rng.below(3);
    let mut vals = ValGen(rng.below(50) as i32 * 100);
    let n_sw = 1 + rng.below(nargs);
    let mut args: Vec<Sexp> = (0..nargs).map(|k| if k < n_sw { gen_switch(rng, &mut vals, n, nested && k == 0) } else { vals.next() }).collect();
    rng.shuffle(&mut args);
    args
}

impl Prop for C14 {
    fn id(&self) -> &'static str { "C14" }
    fn relation(&self) -> &'static str {
        "table: for all 256 masks, (mask_to_diff_label(m), parse_diff_string(label)) of the real DiffFlagDefs filled from a user mapfile == Lean (`Diff.label`, `Diff.parse`) on `applyLines defaultDefs`; parse: parse_diff_string == `Diff.parse` incl. error class; switch/assign: (difficulty byte, argument values) of the instructions the real TH06 ECL compiler emits for a statement with difficulty switches == Lean `Diff.expand` / `Diff.assignCopies`; unit: select_diff_switch_case / explicit_difficulty_cases / explicit_case_bitmasks == `selectCase` / `explicitCases` / `caseRanges`; raise: statement list (time, offset label in front, difficulty label text, kind, opcode, arguments with their switch structure, float arguments bit for bit) that the real `llir::Raiser` (TH06 / TH07 / TH08 ECL hooks, default options: intrinsics, calls and difficulty switches on) produces for a raw instruction list == Lean `DiffRaise.recognize` + `printLabel`"
    }
    fn rule(&self) -> &'static str {
        "tables: the bundled th06/th08 tables, all-default-on, interleaved aux/difficulty bits, random tables of 0-8 `!difficulty_flags` lines over 28 names (with upper/lower-case pairs) (main stream: accepted tables; tables with a line naming a second bit with an existing name form the tagged stream `table-name-at-two-indices` and must be rejected with a diagnostic), malformed lines (index 8/-1, bad name, bad sign, wrong length, two-byte character); every table x all 256 masks (exhaustive in the mask).  parse: strings over the table's names, `+ - *`, unknown and invalid characters.  switch: 1-3 arguments, 1-3 switches of 2-8 cases with holes, under no label / `*` / random labels incl. `-aux`; separate streams for nested switches, mismatched lengths and 9 cases.  raise: scripts of 1-3 per-difficulty ladders (a user-signature instruction with 1-3 int / float arguments, the int / float assignment intrinsic, the EoSD compare intrinsic) for TH06 / TH07 / TH08 under the bundled and generated tables, 2-8 difficulty groups that are contiguous / with a hole / overlapping / descending / shuffled / repeated / empty / not starting at difficulty 0 / covering fewer than four difficulties, aux bits kept, partly off or differing between rungs, first mask 0xFF, a time change inside, another opcode / register / kind on one rung, columns constant / varying / equal only as floats (0.0 vs -0.0) / NaN, single instructions around, jumps that put a label in front of any instruction (tags raise-*); the same scripts through compile(decompile(file)) (raisert).  non-trivial = table or statement with at least one switch, or a script with a ladder; distinct by case text"
    }
    fn theorems(&self) -> &'static [&'static str] {
        &["TruthModel.C14.label_parse", "TruthModel.C14.label_parse_mapfile", "TruthModel.C14.reachable_inv", "TruthModel.C14.defineFromMapfile_inv",
          "TruthModel.C14.expand_exactly_one_full", "TruthModel.C14.selArg_stable", "TruthModel.C14.assign_exactly_one",
          "TruthModel.C14.recognize_sound", "TruthModel.C14.recognize_expand", "TruthModel.C14.lowerStmt_canonical", "TruthModel.C14.recognize_preserves_times",
          "TruthModel.C14.recognize_no_fold_across_label", "TruthModel.C14.recognize_fold_masks", "TruthModel.C14.fold_fallback_lowers", "TruthModel.C14.signed_zero_ladder_roundtrips", "TruthModel.C14.unraisable_ladder_roundtrips"]
    }

    fn gen(&self, tier: Tier, rng: &mut Rng) -> Vec<Case> {
        let scale = if tier == Tier::Quick { 1 } else { 40 };
        let mut out = vec![];
        // the inputs of the former findings (fixed): the tables must be rejected, the nested switch must expand per difficulty
        let w1 = vec![(0i64, "E-".to_string()), (1, "E-".to_string())];
        let w2 = vec![(0i64, "1-".to_string())];
        for w in [&w1, &w2] {
            out.push(Case::corr(Sexp::app("table", vec![lines_sexp(w)])).tag("former-witness-name-at-two-indices"));
            out.push(Case::search(Sexp::app("file", vec![lines_sexp(w)])).tag("former-witness-name-at-two-indices"));
        }
        let wn = crate::sexp::parse("(switch () none (sw (v 1) (sw (v 2) (v 3) (v 4) (v 5)) _ _))").unwrap();
        out.push(Case::corr(wn.clone()).tag("former-witness-nested-switch"));
        out.push(Case::search(Sexp::app("swspec", wn.args().to_vec())).tag("former-witness-nested-switch"));

        // tables
        for k in 0..FIXED_TABLES.len() {
            let l = fixed_table(k);
            out.push(Case::corr(Sexp::app("table", vec![lines_sexp(&l)])).tag("table-fixed"));
            out.push(Case::search(Sexp::app("file", vec![lines_sexp(&l)])).tag("file-fixed"));
        }
        for i in 0..40 * scale {
            let l = gen_inv_table(rng);
            out.push(Case::corr(Sexp::app("table", vec![lines_sexp(&l)])).tag("table-inv"));
            if i % 4 == 0 { out.push(Case::search(Sexp::app("file", vec![lines_sexp(&l)])).tag("file-inv")); }
        }
        for i in 0..8 * scale {
            let l = gen_dup_table(rng);
            out.push(Case::corr(Sexp::app("table", vec![lines_sexp(&l)])).tag("table-name-at-two-indices"));
            if i % 4 == 0 { out.push(Case::search(Sexp::app("file", vec![lines_sexp(&l)])).tag("file-name-at-two-indices")); }
        }
        for _ in 0..16 * scale {
            let l = gen_malformed_table(rng);
            out.push(Case::corr(Sexp::app("table", vec![lines_sexp(&l)])).tag("table-malformed").trivial(true));
        }
        // parse
        for _ in 0..600 * scale {
            let l = if rng.chance(1, 2) { fixed_table(rng.below(FIXED_TABLES.len())) } else if rng.chance(1, 8) { gen_lines(rng) } else { gen_inv_table(rng) };
            let s = gen_parse_string(rng, &l);
            out.push(Case::corr(Sexp::app("parse", vec![lines_sexp(&l), Sexp::str(s)])).tag("parse"));
        }
        // switches
        for i in 0..1500 * scale {
            let l = table_for_switch(rng);
            let label = gen_label(rng, &l);
            let args = gen_switch_args(rng, false);
            let mut v = vec![lines_sexp(&l), label]; v.extend(args);
            out.push(Case::corr(Sexp::app("switch", v.clone())).tag("switch-flat"));
            out.push(Case::search(Sexp::app("swspec", v.clone())).tag("swspec-flat"));
            if i % 5 == 0 { out.push(Case::search(Sexp::app("swrt", v)).tag("swrt-flat")); }
        }
        for i in 0..300 * scale {
            let l = table_for_switch(rng);
            let label = gen_label(rng, &l);
            let args = gen_switch_args(rng, true);
            let mut v = vec![lines_sexp(&l), label]; v.extend(args);
            out.push(Case::corr(Sexp::app("switch", v.clone())).tag("switch-nested"));
            out.push(Case::search(Sexp::app("swspec", v.clone())).tag("swspec-nested"));
            if i % 5 == 0 { out.push(Case::search(Sexp::app("swrt", v)).tag("swrt-nested")); }
        }
        for _ in 0..400 * scale {
            // float cases, bit-exact; pools chosen so that neighbouring cases are often `==` as floats but different bits
            let l = table_for_switch(rng);
            let label = gen_label(rng, &l);
            let pool: &[u32] = if rng.chance(2, 3) { &[0, 0x8000_0000, 0x3f80_0000, 0xbf80_0000] } else { &[0, 0x8000_0000, 0x3f80_0000, 0x3fc0_0000, 0x4040_0000, 0x7f80_0000, 0xff80_0000, 0x0000_0001, 0x8000_0001] };
            let n = 2 + rng.below(7);
            let mut cases = vec![];
            for d in 0..n { if d > 0 && rng.chance(1, 4) { cases.push(Sexp::atom("_")); } else { cases.push(Sexp::int(*rng.pick(pool) as i64)); } }
            let lead = if rng.chance(1, 3) { Sexp::int(*rng.pick(pool) as i64) } else { Sexp::atom("none") };
            let mut v = vec![lines_sexp(&l), label, lead]; v.extend(cases);
            out.push(Case::search(Sexp::app("swfloat", v)).tag("swfloat"));
        }
        for _ in 0..60 * scale {
            // malformed: two switch lengths in one statement, or nine cases
            let l = table_for_switch(rng);
            let mut vals = ValGen(0);
            let args = if rng.chance(1, 2) {
                let n = 2 + rng.below(6);
                vec![gen_switch(rng, &mut vals, n, false), gen_switch(rng, &mut vals, n + 1, false)]
            } else { vec![gen_switch(rng, &mut vals, 9, false)] };
            let mut v = vec![lines_sexp(&l), Sexp::atom("none")]; v.extend(args);
            out.push(Case::corr(Sexp::app("switch", v)).tag("switch-malformed").trivial(true));
        }
        // nested labels on blocks and statements
        for _ in 0..400 * scale {
            let l = table_for_switch(rng);
            let mut next = rng.below(50) as i32 * 1000;
            let items = gen_nest_items(rng, &l, 3, &mut next);
            let mut v = vec![lines_sexp(&l)]; v.extend(items);
            out.push(Case::search(Sexp::app("nestlab", v)).tag("nested-labels"));
        }
        // assignments with non-simple cases (lower_assign_diff_switch)
        for _ in 0..500 * scale {
            let l = table_for_switch(rng);
            let label = gen_label(rng, &l);
            let n = 2 + rng.below(7);
            let mut v = vec![lines_sexp(&l), label];
            let mut k = rng.below(50) as i32 * 100;
            for d in 0..n {
                k += 1;
                if d > 0 && rng.chance(2, 5) { v.push(Sexp::atom("_")); }
                else if rng.chance(1, 3) { v.push(Sexp::app("add", vec![Sexp::int(k)])); }
                else { v.push(Sexp::app("lit", vec![Sexp::int(k)])); }
            }
            out.push(Case::corr(Sexp::app("assign", v)).tag("assign"));
        }
        // helpers
        for _ in 0..500 * scale {
            let n = 2 + rng.below(7);
            let mut v = vec![];
            for d in 0..n { if d > 0 && rng.chance(1, 2) { v.push(Sexp::atom("_")); } else { v.push(Sexp::int(rng.small_int() * 7 + d as i32)); } }
            out.push(Case::corr(Sexp::app("unit", v)).tag("unit"));
        }
        // the decompile direction: raw per-difficulty ladders -> the real raiser vs `DiffRaise.recognize`
        out.extend(super::c14_raise::gen(tier, rng, &mut |rng| gen_inv_table(rng)));
        out
    }

    fn eval(&self, case: &Sexp) -> Sexp {
        let a = case.args();
        match case.head() {
            Some("table") => table_case(&a[0]),
            Some("parse") => parse_case(&a[0], a[1].as_atom()),
            Some("switch") => switch_case(&a[0], &a[1], &a[2..]),
            Some("assign") => assign_case(&a[0], &a[1], &a[2..]),
            Some("unit") => unit_case(a),
            Some("file") => file_case(&a[0]),
            Some("swspec") => swspec_case(&a[0], &a[1], &a[2..]),
            Some("swfloat") => swfloat_case(&a[0], &a[1], match &a[2] { Sexp::Atom(s) if s == "none" => None, x => Some(x.as_i64() as u32) }, &a[3..]),
            Some("swrt") => swrt_case(&a[0], &a[1], &a[2..]),
            Some("nestlab") => nestlab_case(&a[0], &a[1..]),
            Some("raise" | "raisert") => super::c14_raise::eval(case),
            _ => Sexp::atom("bad-case"),
        }
    }

    /// the property itself on a `table` result: every mask's label parses back to the mask
    fn judge(&self, case: &Sexp, result: &Sexp) -> Option<Failure> {
        if case.head() == Some("table") && result.head() == Some("ok") {
            let lines = lines_of(&case.args()[0]);
            if simulate(&lines).dup {
                return Some(Failure { signature: "diff-flag-name-at-two-indices".to_string(),
                    what: format!("table {} gives one name to two flags and is accepted", lines_sexp(&lines)) });
            }
            for (m, e) in result.args().iter().enumerate() {
                let e = e.as_list();
                let back = match &e[1] { Sexp::Atom(s) => s.parse::<i64>().ok(), _ => None };
                if back != Some(m as i64) {
                    return Some(Failure { signature: table_signature(&lines).to_string(),
                        what: format!("table {}: mask {m:#04x} prints as {{\"{}\"}} which parses to {}", lines_sexp(&lines), e[0].as_atom(), e[1]) });
                }
            }
            return None;
        }
        default_judge(result)
    }

    fn neighbours(&self, case: &Sexp, _rng: &mut Rng) -> Vec<Case> {
        match case.head() {
            Some("table") => vec![Case::search(Sexp::app("file", case.args().to_vec()))],
            Some("switch") => vec![Case::search(Sexp::app("swspec", case.args().to_vec())), Case::search(Sexp::app("swrt", case.args().to_vec()))],
            Some("raise") => super::c14_raise::neighbours(case),
            _ => vec![],
        }
    }
}
