//! C12, intrinsic placement (`parts` cases) and C15's block-wise C string (`cstr` cases).
//!
//! `parts`: one intrinsic kind on one generated signature, through a user mapfile
//! (`!ins_signatures` + `!ins_intrinsics`) under a `TestLanguage`:
//! * `fromabi`: the result of the real `IntrinsicInstrAbiParts::from_abi` as
//!   `IntrinsicInstrs::from_mapfiles` stores it (read off its `Debug` form: the struct is private) or
//!   the class of the "bad ABI for intrinsic" diagnostic  == Lean `AbiParts.fromAbi`;
//! * `lower`: the statement of that kind with distinguishable operands through the real `Lowerer`
//!   (`IntrinsicBuilder::into_vec` + `encode_args`): which operand landed in which non-padding
//!   parameter  == Lean `AbiParts.intoVec` (since /repo 11ec667 also for signatures with padding before a
//!   real parameter, which used to panic in `into_vec`; a panic there is a failure under the regression
//!   signature `intrinsic-lowering-panics padding-before-parameter`);
//! * `raise`: the compiled instruction through the real `Raiser` (`raise_intrinsic_parts`): it must come
//!   back as the intrinsic statement (not as raw `ins_`) and compile to the same instruction again
//!   == Lean `raiseParts (expand ..)` giving back the builder.

use super::{Case, Failure, Tier, fail};
use super::c12::{Enc, StrSize, abi_text, abi_sexp, abi_from_sexp, abi_expected_valid, int_letter_info};
use crate::rng::Rng;
use crate::sexp::{Sexp, hex, unhex};
use truth::{ast, Game, LanguageKey};
use truth::llir::{self, RawInstr};

const OPCODE: u16 = 700;
const V_OUT: i64 = 10;
const V_PLAIN0: i64 = 33;
const V_PLAIN1: i64 = 34;
const V_TIME: i64 = 7;

#[derive(Clone, Debug, PartialEq)]
pub struct Kind { pub tag: &'static str, pub op: Option<&'static str>, pub ty: Option<&'static str> }

const BINOPS: &[(&str, &str)] = &[("add", "+"), ("sub", "-"), ("mul", "*"), ("div", "/"), ("rem", "%"), ("eq", "=="), ("ne", "!="), ("lt", "<"), ("le", "<="), ("gt", ">"), ("ge", ">="),
    ("bitor", "|"), ("bitxor", "^"), ("bitand", "&"), ("logor", "||"), ("logand", "&&"), ("shl", "<<"), ("shr", ">>"), ("ushr", ">>>")];
const UNOPS: &[(&str, &str)] = &[("neg", "-"), ("not", "!"), ("bitnot", "~"), ("sin", "sin"), ("cos", "cos"), ("tan", "tan"), ("asin", "asin"), ("acos", "acos"), ("atan", "atan"), ("sqrt", "sqrt"),
    ("enci", "$"), ("encf", "%"), ("casti", "int"), ("castf", "float")];
const ASSIGNOPS: &[(&str, &str)] = &[("assign", "="), ("add", "+="), ("sub", "-="), ("mul", "*="), ("div", "/="), ("rem", "%="), ("bitor", "|="), ("bitxor", "^="), ("bitand", "&="), ("shl", "<<="), ("shr", ">>="), ("ushr", ">>>=")];

fn sym(table: &[(&'static str, &'static str)], name: &str) -> &'static str { table.iter().find(|(n, _)| *n == name).map(|(_, s)| *s).unwrap_or("?") }
fn intern(table: &[(&'static str, &'static str)], name: &str) -> Option<&'static str> { table.iter().find(|(n, _)| *n == name).map(|(n, _)| *n) }

impl Kind {
    fn to_sexp(&self) -> Sexp {
        Sexp::app("kind", vec![Sexp::atom(self.tag), Sexp::atom(self.op.unwrap_or("-")), Sexp::atom(self.ty.unwrap_or("-"))])
    }
    fn from_sexp(s: &Sexp) -> Kind {
        let a = s.args();
        let tag: &'static str = ["Jmp", "Interrupt", "AssignOp", "BinOp", "UnOp", "CountJmp", "CondJmp", "DedicatedCmp", "DedicatedCmpJmp", "CallEosd", "CallReg"].iter().copied().find(|t| *t == a[0].as_atom()).expect("kind tag");
        let opn = a[1].as_atom();
        let op = match tag { "AssignOp" => intern(ASSIGNOPS, opn), "UnOp" => intern(UNOPS, opn), _ => intern(BINOPS, opn) };
        let ty = match a[2].as_atom() { "int" => Some("int"), "float" => Some("float"), _ => None };
        Kind { tag, op, ty }
    }
    /// the text of the `!ins_intrinsics` entry
    fn text(&self) -> String {
        let ty = self.ty.unwrap_or("int");
        match self.tag {
            "AssignOp" => format!("AssignOp(op=\"{}\"; type=\"{ty}\")", sym(ASSIGNOPS, self.op.unwrap())),
            "BinOp" => format!("BinOp(op=\"{}\"; type=\"{ty}\")", sym(BINOPS, self.op.unwrap())),
            "UnOp" => format!("UnOp(op=\"{}\"; type=\"{ty}\")", sym(UNOPS, self.op.unwrap())),
            "CondJmp" => format!("CondJmp(op=\"{}\"; type=\"{ty}\")", sym(BINOPS, self.op.unwrap())),
            "DedicatedCmp" => format!("DedicatedCmp(type=\"{ty}\")"),
            "DedicatedCmpJmp" => format!("DedicatedCmpJmp(op=\"{}\")", sym(BINOPS, self.op.unwrap())),
            t => format!("{t}()"),
        }
    }
    fn has_jump(&self) -> bool { matches!(self.tag, "Jmp" | "CountJmp" | "CondJmp" | "DedicatedCmpJmp") }
    fn has_sub(&self) -> bool { matches!(self.tag, "CallEosd" | "CallReg") }
    /// the statement of this kind with distinguishable operands (kinds the generator lowers)
    fn source(&self) -> Option<String> {
        let fl = self.ty == Some("float");
        let (r33, v33, v34, r10) = if fl { ("%REG[33]", "33.0", "34.0", "%REG[10]") } else { ("$REG[33]", "33", "34", "$REG[10]") };
        Some(match self.tag {
            "Jmp" => "{\n    goto L @ 7;\nL:\n}\n".to_string(),
            "Interrupt" => "{\n    interrupt[33]:\n}\n".to_string(),
            "AssignOp" => format!("{{\n    {r10} {} {v33};\n}}\n", sym(ASSIGNOPS, self.op?)),
            "BinOp" if matches!(self.op?, "add" | "sub" | "mul" | "div") => format!("{{\n    {r10} = {r33} {} {v34};\n}}\n", sym(BINOPS, self.op?)),
            "UnOp" if fl && matches!(self.op?, "sin" | "cos" | "sqrt") => format!("{{\n    %REG[10] = {}(%REG[33]);\n}}\n", sym(UNOPS, self.op?)),
            "CountJmp" => "{\n    if (--$REG[10]) goto L @ 7;\nL:\n}\n".to_string(),
            "CondJmp" => format!("{{\n    if ({r33} {} {v34}) goto L @ 7;\nL:\n}}\n", sym(BINOPS, self.op?)),
            _ => return None,
        })
    }
}

fn mapfile_text(kind: &Kind, abi: &[Enc]) -> String {
    format!("!anmmap\n!enum(name=\"VerifEnum\")\n!ins_signatures\n{OPCODE} {}\n!ins_intrinsics\n{OPCODE} {}\n", abi_text(abi), kind.text())
}

fn make_hooks() -> llir::TestLanguage { let mut h = llir::TestLanguage::default(); h.language = LanguageKey::Anm; h }

fn lower_block(truth: &mut truth::Truth, hooks: &llir::TestLanguage, text: &str) -> Result<Vec<RawInstr>, truth::ErrorReported> {
    let mut block = truth.parse::<ast::Block>("<input>", text.as_bytes())?.value;
    let ctx = truth.ctx();
    truth::passes::resolution::assign_languages(&mut block, hooks.language, ctx)?;
    truth::passes::resolution::resolve_names(&block, ctx)?;
    truth::passes::type_check::run(&block, ctx)?;
    truth::passes::evaluate_const_vars::run(ctx)?;
    truth::passes::const_simplify::run(&mut block, ctx)?;
    truth::passes::desugar_blocks::run(&mut block, ctx, hooks.language)?;
    let mut errors = truth::error::ErrorFlag::new();
    let mut lowerer = llir::Lowerer::new(hooks);
    let (instrs, _) = lowerer.lower_sub(&block.0, None, ctx, false).unwrap_or_else(|e| { errors.set(e); (vec![], None) });
    lowerer.finish(ctx).unwrap_or_else(|e| errors.set(e));
    errors.into_result(())?;
    Ok(instrs)
}

fn raise_instrs(truth: &mut truth::Truth, hooks: &llir::TestLanguage, instrs: &[RawInstr]) -> Result<Vec<truth::pos::Sp<ast::Stmt>>, truth::ErrorReported> {
    let emitter = truth.emitter();
    let ctx = truth.ctx();
    let options = truth::DecompileOptions::default();
    let const_proof = truth::passes::evaluate_const_vars::run(ctx)?;
    let script = llir::RawScript { instrs: instrs.to_vec(), file_offset: None };
    let mut raiser = llir::Raiser::new(hooks, ctx.emitter, ctx, &options, const_proof)?;
    raiser.raise_instrs_to_sub_ast(&emitter, &script, &ctx)
}

/// class of a "bad ABI for intrinsic KIND(..): MESSAGE" diagnostic, in the vocabulary of the Lean model
fn bad_abi_class(diagnostics: &str) -> String {
    for line in diagnostics.lines() {
        if let Some(rest) = line.strip_prefix("error: bad ABI for intrinsic ") {
            let msg = rest.splitn(2, "): ").nth(1).unwrap_or(rest);
            for (prefix, class) in [("missing jump offset", "missing jump offset"), ("offset ('o') and time ('t') args must be consecutive", "offset and time args must be consecutive"),
                ("missing sub id", "missing sub id"), ("not enough arguments", "not enough arguments"), ("output arg has unexpected encoding", "output arg has unexpected encoding"),
                ("ABI input arg has unexpected encoding", "ABI input arg has unexpected encoding")] {
                if msg.starts_with(prefix) { return class.to_string(); }
            }
            if msg.starts_with("unexpected ") {
                if let Some(pos) = msg.rfind("arg at index ") { return format!("unexpected arg at index {}", msg[pos + 13..].trim()); }
            }
            return format!("other: {msg}");
        }
    }
    let first = diagnostics.lines().find(|l| l.starts_with("error: ")).unwrap_or("no error diagnostic");
    format!("other: {first}")
}

fn between<'a>(s: &'a str, start: &str, end: char) -> Option<&'a str> {
    let i = s.find(start)? + start.len();
    let rest = &s[i..];
    // matching close for '[' ... ']' is the first `end` at depth 0
    let mut depth = 0i32;
    for (k, c) in rest.char_indices() {
        if c == '(' || c == '[' { depth += 1; }
        if (c == ')' || c == ']') && depth > 0 { depth -= 1; continue; }
        if c == end && depth == 0 { return Some(&rest[..k]); }
    }
    None
}

/// `IntrinsicInstrAbiParts { num_instr_args: 2, plain_args: [1], outputs: [(0, Natural)], jump: Some((2, LocTime)), sub_id: None }`
fn parts_from_debug(dbg: &str) -> Option<Sexp> {
    let i = dbg.find("IntrinsicInstrAbiParts {")?;
    let s = &dbg[i..];
    let num: i64 = between(s, "num_instr_args: ", ',')?.trim().parse().ok()?;
    let plain = between(s, "plain_args: [", ']')?;
    let plain: Vec<Sexp> = plain.split(',').filter_map(|x| x.trim().parse::<i64>().ok()).map(Sexp::int).collect();
    let outs_txt = between(s, "outputs: [", ']')?;
    let mut outs = vec![];
    for part in outs_txt.split('(').skip(1) {
        let inner = part.split(')').next()?;
        let mut it = inner.split(',');
        let idx: i64 = it.next()?.trim().parse().ok()?;
        let mode = it.next()?.trim().to_string();
        outs.push(Sexp::list(vec![Sexp::int(idx), Sexp::atom(mode)]));
    }
    let jump_txt = { let j = s.find("jump: ")? + 6; &s[j..] };
    let jump = if jump_txt.starts_with("None") { Sexp::app("jump", vec![]) } else {
        let inner = between(jump_txt, "Some((", ')')?;
        let mut it = inner.split(',');
        let idx: i64 = it.next()?.trim().parse().ok()?;
        Sexp::app("jump", vec![Sexp::int(idx), Sexp::atom(it.next()?.trim().to_string())])
    };
    let sub_txt = { let j = s.find("sub_id: ")? + 8; &s[j..] };
    let sub = if sub_txt.starts_with("None") { Sexp::app("sub", vec![]) } else {
        let inner = between(sub_txt, "Some(", ')')?;
        Sexp::app("sub", vec![Sexp::int(inner.trim().parse::<i64>().ok()?)])
    };
    Some(Sexp::app("ok", vec![Sexp::int(num), Sexp::app("plain", plain), Sexp::app("out", outs), jump, sub]))
}

/// the values in the non-padding parameters of a blob, by the fixed-width layout of the signature
fn blob_values(abi: &[Enc], blob: &[u8]) -> Option<Vec<i64>> {
    let mut off = 0usize;
    let mut out = vec![];
    for e in abi {
        match e {
            Enc::Pad(wide) => off += if *wide { 4 } else { 1 },
            Enc::Int { arg0: true, .. } => return None,
            Enc::Int { letter, .. } => {
                let (w, signed) = int_letter_info(*letter);
                let b = blob.get(off..off + w)?;
                let mut v: u64 = 0;
                for (k, x) in b.iter().enumerate() { v |= (*x as u64) << (8 * k); }
                let v = if signed && w < 8 && (v >> (8 * w - 1)) & 1 == 1 { v as i64 - (1i64 << (8 * w)) } else { v as i64 };
                out.push(v);
                off += w;
            },
            Enc::O | Enc::T => { let b = blob.get(off..off + 4)?; out.push(i32::from_le_bytes([b[0], b[1], b[2], b[3]]) as i64); off += 4; },
            Enc::Float { .. } => { let b = blob.get(off..off + 4)?; let f = f32::from_le_bytes([b[0], b[1], b[2], b[3]]); out.push(if f == f.round() && f.abs() < 1e6 { f as i64 } else { -999_999 }); off += 4; },
            Enc::Str { .. } => return None,
        }
    }
    if off != blob.len() { return None; }
    Some(out)
}

fn value_name(v: i64, kind: &Kind, label: i64) -> String {
    let single_plain = matches!(kind.tag, "Interrupt" | "AssignOp" | "UnOp");
    if v == V_OUT && kind.tag != "Interrupt" && kind.tag != "Jmp" && kind.tag != "CondJmp" { return "out0".into(); }
    if v == V_PLAIN0 { return "plain0".into(); }
    if v == V_PLAIN1 && !single_plain { return "plain1".into(); }
    if v == V_TIME && kind.has_jump() { return "time".into(); }
    if v == label && kind.has_jump() { return "label".into(); }
    format!("?{v}")
}

fn err_class(diag: &str) -> String {
    super::c12::classes(diag, "error: ").into_iter().next().unwrap_or_default()
}

pub fn eval_parts(case: &Sexp) -> Sexp {
    let a = case.args();
    let kind = Kind::from_sexp(&a[0]);
    let abi = abi_from_sexp(&a[1]);
    let do_lower = a[2].as_i64() != 0;
    let mut scope = truth::Builder::new().capture_diagnostics(true).build();
    let mut truth = scope.truth();
    let hooks = make_hooks();
    if let Err(e) = truth.apply_mapfile_str(&mapfile_text(&kind, &abi), Game::Th12) {
        e.ignore();
        return Sexp::app("sigerr", vec![Sexp::str(err_class(&truth.get_captured_diagnostics().unwrap_or_default()))]);
    }
    // the real from_abi, as IntrinsicInstrs::from_mapfiles runs it for every intrinsic of the language
    let parts = {
        let ctx = truth.ctx();
        match llir::IntrinsicInstrs::from_mapfiles(LanguageKey::Anm, &ctx.defs, ctx.emitter) {
            Ok(ii) => match parts_from_debug(&format!("{ii:?}")) { Some(p) => p, None => return fail("intrinsic-parts-debug-form-not-understood", format!("{ii:?}")) },
            Err(e) => {
                e.ignore();
                let d = truth.get_captured_diagnostics().unwrap_or_default();
                return Sexp::app("ok", vec![Sexp::app("fromabi", vec![Sexp::app("err", vec![Sexp::str(bad_abi_class(&d))])])]);
            },
        }
    };
    let mut out = vec![Sexp::app("fromabi", vec![parts])];
    let source = match (do_lower, kind.source()) { (true, Some(s)) => s, _ => return Sexp::app("ok", out) };
    // lower: into_vec + encode_args
    let before = truth.get_captured_diagnostics().unwrap_or_default().len();
    let lowered = {
        let truth_ref = &mut truth;
        let mut slot: Option<Result<Vec<RawInstr>, ()>> = None;
        let r = crate::pool::guarded(std::panic::AssertUnwindSafe(|| {
            slot = Some(lower_block(truth_ref, &hooks, &source).map_err(|e| e.ignore()));
            Sexp::atom("done")
        }));
        if r.head() == Some("panic") {
            let msg = r.args()[1].as_atom().to_string();
            let file = r.args()[0].as_atom().split(':').next().unwrap_or("?").to_string();
            let class = if msg.starts_with("index out of bounds") && file.ends_with("lower/intrinsic.rs") { "index out of bounds".to_string() } else { format!("{file}: {msg}") };
            out.push(Sexp::app("lower", vec![Sexp::atom("panic"), Sexp::str(class)]));
            return Sexp::app("ok", out);
        }
        slot.unwrap_or(Err(()))
    };
    let instrs = match lowered {
        Ok(i) => i,
        Err(()) => {
            let d = truth.get_captured_diagnostics().unwrap_or_default()[before..].to_string();
            out.push(Sexp::app("lower", vec![Sexp::atom("err"), Sexp::str(err_class(&d))]));
            return Sexp::app("ok", out);
        },
    };
    if instrs.len() != 1 || instrs[0].opcode != OPCODE {
        out.push(Sexp::app("lower", vec![Sexp::atom("other"), Sexp::str(format!("{} instructions, first opcode {:?}", instrs.len(), instrs.get(0).map(|i| i.opcode)))]));
        return Sexp::app("ok", out);
    }
    let blob = instrs[0].args_blob.clone();
    let label = 4 + blob.len() as i64;
    match blob_values(&abi, &blob) {
        Some(vals) => { let mut v = vec![Sexp::atom("ok")]; v.extend(vals.iter().map(|x| Sexp::atom(value_name(*x, &kind, label)))); out.push(Sexp::app("lower", v)); },
        None => { out.push(Sexp::app("lower", vec![Sexp::atom("layout"), Sexp::atom(hex(&blob))])); return Sexp::app("ok", out); },
    }
    // raise: raise_intrinsic_parts, then the user's path back (print, compile)
    match raise_instrs(&mut truth, &hooks, &instrs) {
        Ok(stmts) => {
            let text = truth::fmt::stringify(&ast::Block(stmts));
            let form = if text.contains("ins_") { "raw" } else { "intrinsic" };
            let again = match lower_block(&mut truth, &hooks, &text) {
                Ok(again) => if again.len() == 1 && again[0].args_blob == blob && again[0].param_mask == instrs[0].param_mask && again[0].opcode == OPCODE { "same" } else { "differ" },
                Err(e) => { e.ignore(); "error" },
            };
            out.push(Sexp::app("raise", vec![Sexp::atom(form), Sexp::atom(again)]));
        },
        Err(e) => { e.ignore(); out.push(Sexp::app("raise", vec![Sexp::atom("error"), Sexp::atom("-")])); },
    }
    Sexp::app("ok", out)
}

/// the property itself on the implementation's result, without the model
pub fn judge_parts(case: &Sexp, result: &Sexp) -> Option<Failure> {
    if result.head() != Some("ok") { return None; }
    let abi = abi_from_sexp(&case.args()[1]);
    let field = |name: &str| result.args().iter().find(|x| x.head() == Some(name)).cloned();
    if let Some(fa) = field("fromabi") {
        let p = &fa.args()[0];
        if p.head() == Some("ok") {
            let pa = p.args();
            let mut pos: Vec<i64> = vec![];
            for x in pa[1].args() { pos.push(x.as_i64()); }
            for x in pa[2].args() { pos.push(x.as_list()[0].as_i64()); }
            if let Some(j) = pa[3].args().get(0) { pos.push(j.as_i64()); if pa[3].args()[1].as_atom() != "Loc" { pos.push(j.as_i64() + 1); } }
            if let Some(s) = pa[4].args().get(0) { pos.push(s.as_i64()); }
            pos.sort();
            let want: Vec<i64> = abi.iter().enumerate().filter(|(_, e)| !e.is_padding()).map(|(i, _)| i as i64).collect();
            if pos != want { return Some(Failure { signature: "intrinsic-placement-not-exactly-the-nonpadding-positions".into(), what: format!("{p} for signature {}", abi_text(&abi)) }); }
            if pa[0].as_i64() as usize != want.len() { return Some(Failure { signature: "intrinsic-num-instr-args-wrong".into(), what: format!("{p} for signature {}", abi_text(&abi)) }); }
        }
    }
    if let Some(l) = field("lower") {
        if l.args()[0].as_atom() == "panic" {
            // regression signature of the defect repaired in /repo 11ec667 (into_vec sized its buffer without the padding slots)
            return Some(Failure { signature: "intrinsic-lowering-panics padding-before-parameter".into(), what: format!("signature {} accepted by from_abi, lowering the statement panics: {}", abi_text(&abi), l.args()[1].as_atom()) });
        }
    }
    // an accepted signature whose statement was lowered must give a located operand list and come back from the raiser
    if let Some(l) = field("lower") {
        if l.args()[0].as_atom() == "ok" && field("raise").is_none() {
            return Some(Failure { signature: "intrinsic-instruction-not-raised-back".into(), what: format!("signature {}: no raise result: {result}", abi_text(&abi)) });
        }
    }
    if let Some(r) = field("raise") {
        if r.args()[0].as_atom() != "intrinsic" || r.args()[1].as_atom() != "same" {
            return Some(Failure { signature: "intrinsic-instruction-not-raised-back".into(), what: format!("signature {}: {r}", abi_text(&abi)) });
        }
    }
    None
}

fn int_enc(rng: &mut Rng, letters: &[char]) -> Enc { Enc::Int { letter: *rng.pick(letters), arg0: false, imm: false, hex: false, en: false } }

fn gen_kind(rng: &mut Rng) -> Kind {
    let ty = if rng.chance(1, 2) { "int" } else { "float" };
    let cmp = ["eq", "ne", "lt", "le", "gt", "ge"];
    match rng.below(14) {
        0 => Kind { tag: "Jmp", op: None, ty: None },
        1 => Kind { tag: "Interrupt", op: None, ty: None },
        2 | 3 => Kind { tag: "AssignOp", op: Some(ASSIGNOPS[rng.below(if ty == "float" { 5 } else { ASSIGNOPS.len() })].0), ty: Some(ty) },
        4 | 5 | 6 => Kind { tag: "BinOp", op: Some(BINOPS[rng.below(if ty == "float" { 11 } else { BINOPS.len() })].0), ty: Some(ty) },
        7 => Kind { tag: "UnOp", op: Some(UNOPS[rng.below(UNOPS.len())].0), ty: Some(ty) },
        8 => Kind { tag: "CountJmp", op: None, ty: None },
        9 | 10 => Kind { tag: "CondJmp", op: Some(*rng.pick(&cmp)), ty: Some(ty) },
        11 => Kind { tag: "DedicatedCmp", op: None, ty: Some(ty) },
        12 => Kind { tag: "DedicatedCmpJmp", op: Some(*rng.pick(&cmp)), ty: None },
        _ => if rng.chance(1, 2) { Kind { tag: "CallEosd", op: None, ty: None } } else { Kind { tag: "CallReg", op: None, ty: None } },
    }
}

/// result type of the operator, written from the documentation of the operators (steers generation only)
fn out_is_float(kind: &Kind) -> bool {
    let fl = kind.ty == Some("float");
    match kind.tag {
        "AssignOp" => fl,
        "BinOp" => fl && matches!(kind.op, Some("add" | "sub" | "mul" | "div" | "rem")),
        "UnOp" => match kind.op { Some("neg") => fl, Some("not" | "bitnot" | "enci" | "casti") => false, _ => true },
        _ => false,
    }
}

/// a signature near what the kind wants: the right roles in order, jump / sub id anywhere, then
/// perturbed (wrong type, missing, extra, split jump) and padded anywhere
fn gen_abi(rng: &mut Rng, kind: &Kind, lowering: bool) -> Vec<Enc> {
    let ints: &[char] = if lowering { &['S', 'S', 'S', 's', 'U', 'u', 'c', 'b', 'C'] } else { &['S', 'S', 's', 'U', 'b', 'C', 'E', 'n'] };
    let fl = kind.ty == Some("float");
    let arg = |rng: &mut Rng, float: bool| if float { Enc::Float { imm: false } } else { int_enc(rng, ints) };
    let mut abi: Vec<Enc> = vec![];
    match kind.tag {
        "Interrupt" => abi.push(arg(rng, false)),
        "AssignOp" | "UnOp" => {
            let of = out_is_float(kind);
            abi.push(if of && rng.chance(1, 3) { int_enc(rng, ints) } else { arg(rng, of) });
            abi.push(arg(rng, fl));
        },
        "BinOp" => {
            let of = out_is_float(kind);
            abi.push(if of && rng.chance(1, 3) { int_enc(rng, ints) } else { arg(rng, of) });
            abi.push(arg(rng, fl)); abi.push(arg(rng, fl));
        },
        "CountJmp" => abi.push(arg(rng, false)),
        "CondJmp" | "DedicatedCmp" => { abi.push(arg(rng, fl)); abi.push(arg(rng, fl)); },
        "CallEosd" => { abi.push(arg(rng, false)); abi.push(arg(rng, true)); },
        _ => {},
    }
    // perturbations of the operand list
    match rng.below(12) {
        0 if !abi.is_empty() => { let i = rng.below(abi.len()); abi.remove(i); },
        1 => { let i = rng.below(abi.len() + 1); let fl2 = rng.chance(1, 2); let e = arg(rng, fl2); abi.insert(i, e); },
        2 if !abi.is_empty() => { let i = rng.below(abi.len()); abi[i] = match &abi[i] { Enc::Float { .. } => int_enc(rng, ints), _ => Enc::Float { imm: false } }; },
        3 if !lowering => abi.push(Enc::Str { letter: 'z', size: StrSize::Fixed(4, false), mask: [0, 0, 0], furibug: false }),
        _ => {},
    }
    // jump
    let want_jump = if kind.has_jump() { !rng.chance(1, 10) } else { rng.chance(1, 12) };
    if want_jump {
        let i = rng.below(abi.len() + 1);
        match rng.below(8) {
            0 | 1 => abi.insert(i, Enc::O),
            2 | 3 | 4 => { abi.insert(i, Enc::T); abi.insert(i, Enc::O); },
            5 | 6 => { abi.insert(i, Enc::O); abi.insert(i, Enc::T); },
            _ => { abi.insert(i, Enc::O); let j = rng.below(abi.len() + 1); abi.insert(j, Enc::T); },
        }
    }
    // sub id
    let want_sub = if kind.has_sub() { !rng.chance(1, 8) } else { false };
    if want_sub { let i = rng.below(abi.len() + 1); abi.insert(i, Enc::Int { letter: 'E', arg0: false, imm: false, hex: false, en: false }); if rng.chance(1, 6) { abi.push(Enc::Int { letter: 'E', arg0: false, imm: false, hex: false, en: false }); } }
    // padding anywhere
    let pads = match rng.below(6) { 0 | 1 | 2 => 0, 3 => 1, 4 => 2, _ => 1 + rng.below(3) };
    for _ in 0..pads { let i = if rng.chance(1, 3) { abi.len() } else { rng.below(abi.len() + 1) }; abi.insert(i, Enc::Pad(rng.chance(2, 3))); }
    abi
}

pub fn gen_parts(tier: Tier, rng: &mut Rng, out: &mut Vec<Case>) {
    let n = if tier == Tier::Quick { 1500 } else { 30000 };
    let mut made = 0;
    while made < n {
        let kind = gen_kind(rng);
        let lowering = kind.source().is_some();
        let abi = gen_abi(rng, &kind, lowering);
        if !abi_expected_valid(&abi) || abi.len() > 16 { continue; }
        // the label value (size of the one instruction) must not look like one of the operand values
        let blob_len: usize = abi.iter().map(|e| match e { Enc::Int { letter, .. } => int_letter_info(*letter).0, Enc::Pad(false) => 1, Enc::Str { .. } => 4, _ => 4 }).sum();
        if lowering && [V_OUT, V_PLAIN0, V_PLAIN1, V_TIME].contains(&(4 + blob_len as i64)) { continue; }
        made += 1;
        let interior = { let last = abi.iter().rposition(|e| !e.is_padding()); match last { Some(l) => abi[..l].iter().any(|e| e.is_padding()), None => false } };
        let sexp = Sexp::app("parts", vec![kind.to_sexp(), abi_sexp(&abi), Sexp::int(lowering as i64)]);
        let mut case = Case::corr(sexp).tag(format!("parts-{}", kind.tag));
        if interior { case = case.tag("parts-padding-before-parameter"); }
        if abi.iter().any(|e| e.is_padding()) { case = case.tag("parts-with-padding"); }
        out.push(case.trivial(abi.is_empty()));
    }
}

// ---------------------------------------------------------------------------------------------
// C15: `write_cstring(s, block)` / `read_cstring_blockwise(block)` for every block size

pub fn eval_cstr(case: &Sexp) -> Sexp {
    use truth::io::{BinReader, BinWriter, BinRead, BinWrite, Encoded};
    use std::io::Cursor;
    let a = case.args();
    let block = a[0].as_usize();
    let b = unhex(a[1].as_atom());
    let tl = unhex(a[2].as_atom());
    let mut scope = truth::Builder::new().capture_diagnostics(true).build();
    let mut truth = scope.truth();
    let emitter = truth.ctx().emitter;
    let mut w = BinWriter::from_writer(emitter, "<output>", Cursor::new(Vec::new()));
    if let Err(e) = w.write_cstring(&Encoded(b.clone()), block) { e.ignore(); return Sexp::app("err", vec![Sexp::str("write")]); }
    let written = w.into_inner().into_inner();
    let mut input = written.clone();
    input.extend_from_slice(&tl);
    let mut r = BinReader::from_reader(emitter, "<input>", Cursor::new(input.clone()));
    let rd = match r.read_cstring_blockwise(block) {
        Ok(s) => { let pos = r.into_inner().position() as usize; Sexp::app("read", vec![Sexp::atom(hex(&s.0)), Sexp::atom(hex(&input[pos.min(input.len())..]))]) },
        Err(e) => { e.ignore(); Sexp::app("readerr", vec![Sexp::str("unexpected EOF")]) },
    };
    Sexp::app("ok", vec![Sexp::app("written", vec![Sexp::atom(hex(&written))]), rd])
}

/// the property on the implementation: a NUL-free string comes back, and the tail is left unread
pub fn judge_cstr(case: &Sexp, result: &Sexp) -> Option<Failure> {
    let a = case.args();
    let b = unhex(a[1].as_atom());
    if b.contains(&0) || result.head() != Some("ok") { return None; }
    let want = Sexp::app("read", vec![Sexp::atom(hex(&b)), Sexp::atom(a[2].as_atom().to_string())]);
    if result.args().get(1) != Some(&want) {
        return Some(Failure { signature: "cstring-blockwise-roundtrip-differs".into(), what: format!("block {}: {} came back as {}", a[0].as_atom(), a[1].as_atom(), result) });
    }
    None
}

pub fn gen_cstr(tier: Tier, rng: &mut Rng, out: &mut Vec<Case>) {
    let n = if tier == Tier::Quick { 600 } else { 12000 };
    for _ in 0..n {
        let block = *rng.pick(&[1usize, 2, 3, 4, 5, 7, 8, 16, 16, 16, 17, 32, 64]);
        // lengths around the block boundaries
        let k = rng.below(4);
        let len = match rng.below(4) { 0 => k * block, 1 => (k * block + block - 1).min(200), 2 => k * block + 1, _ => rng.below(3 * block + 2) };
        let nul_free = !rng.chance(1, 8);
        let b: Vec<u8> = (0..len).map(|_| if nul_free { 1 + rng.below(255) as u8 } else if rng.chance(1, 4) { 0 } else { rng.next_u32() as u8 }).collect();
        let tl: Vec<u8> = match rng.below(3) { 0 => vec![], 1 => vec![7, 0, 9], _ => (0..rng.below(2 * block + 1)).map(|_| if rng.chance(1, 2) { 0 } else { rng.next_u32() as u8 }).collect() };
        let sexp = Sexp::app("cstr", vec![Sexp::int(block as i64), Sexp::atom(hex(&b)), Sexp::atom(hex(&tl))]);
        out.push(Case::corr(sexp).tag(if nul_free { "cstr-nul-free" } else { "cstr-with-nul" }).tag(format!("cstr-block-{block}")).trivial(len == 0));
    }
}

#[allow(dead_code)]
fn _unused(_: Game) { let _ = fail("", ""); }
