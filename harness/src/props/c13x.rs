//! C13, second round: the statement shapes that carry or interact with times and were not generated
//! before, through three languages (ANM TH12, old ECL TH07, MSG TH08).
//!
//! Cases (all compared with the Lean model `Time.X`):
//!   (xcompile LANG (consts (Kn EXPR)...) STMT...)
//!        real compile -> for every instruction that comes from an instruction statement, an
//!        interrupt label, an explicit `goto` or a `timeof` use: its time, its difficulty mask and
//!        its time-valued argument
//!   (xvisit STMT...)
//!        `compute_diff_label_masks` + `time_and_difficulty::run` on the parsed structured block:
//!        (kind, time, mask) of every statement, nested function items and all blocks of an
//!        `if .. else ..` chain included
//!   (xraise LANG INSTR...)
//!        stored script -> the statements the real decompiler emits (blocks off, switches off):
//!        offset labels, time labels, `interrupt[n]:`, difficulty-tagged statements, `goto L [@ t]`
//! Oracle:
//!   (xrt LANG INSTR...)  stored script -> decompile -> print -> recompile: every instruction identical
//!
//! An explicit `goto` is told apart from the jumps the block desugaring generates by position: the
//! generator always puts an `(ins)` directly in front of a `(goto ..)`, and the jump that directly
//! follows that marker instruction is the explicit one.

use super::{Case, Tier, fail};
use crate::rng::Rng;
use crate::sexp::Sexp;
use crate::tc::{self, Format, Compiled};
use crate::util::diag_class;
use truth::ast;
use truth::llir::RawInstr;
use std::collections::HashSet;

#[derive(Copy, Clone, PartialEq, Eq, Debug)]
pub enum Lang { Anm12, Ecl07, Msg08 }

const ANM_HEAD: &str = "entry { path: \"a.png\", has_data: false, img_width: 16, img_height: 16, img_format: 3, offset_x: 0, offset_y: 0, colorkey: 0, memory_priority: 0, low_res_scale: false, sprites: {} }\n";
/// the difficulty bits E N H L are off by default, the four aux bits on: `{"EN"}` = 0xF3
const ECL_MAP: &str = "!eclmap\n!ins_signatures\n900 S\n901 o\n903 S\n!difficulty_flags\n0 E-\n1 N-\n2 H-\n3 L-\n4 4+\n5 5+\n6 6+\n7 7+\n";
const ANM_MAP: &str = "!anmmap\n!ins_signatures\n900 S\n901 o\n903 S\n";
const MSG_MAP: &str = "!msgmap\n!ins_signatures\n200 S\n201 S\n";
const REG: &str = "$REG[10000]";

impl Lang {
    pub fn name(self) -> &'static str { match self { Lang::Anm12 => "anm12", Lang::Ecl07 => "ecl07", Lang::Msg08 => "msg08" } }
    pub fn from_name(s: &str) -> Lang { match s { "anm12" => Lang::Anm12, "ecl07" => Lang::Ecl07, "msg08" => Lang::Msg08, _ => panic!("bad lang {s}") } }
    fn format(self) -> Format { match self { Lang::Anm12 => Format::Anm, Lang::Ecl07 => Format::Ecl, Lang::Msg08 => Format::Msg } }
    fn game(self) -> truth::Game { match self { Lang::Anm12 => truth::Game::Th12, Lang::Ecl07 => truth::Game::Th07, Lang::Msg08 => truth::Game::Th08 } }
    fn maps(self) -> Vec<String> { vec![match self { Lang::Anm12 => ANM_MAP, Lang::Ecl07 => ECL_MAP, Lang::Msg08 => MSG_MAP }.to_string()] }
    fn marker(self) -> u16 { if self == Lang::Msg08 { 200 } else { 900 } }
    fn tof(self) -> u16 { if self == Lang::Msg08 { 201 } else { 903 } }
    /// the `Jmp` intrinsic: opcode, and whether the time argument comes first
    fn jump(self) -> Option<(u16, bool)> { match self { Lang::Anm12 => Some((4, false)), Lang::Ecl07 => Some((2, true)), Lang::Msg08 => None } }
    fn jump_o(self) -> Option<u16> { if self == Lang::Msg08 { None } else { Some(901) } }
    fn interrupt(self) -> Option<u16> { if self == Lang::Anm12 { Some(64) } else { None } }
    fn header_size(self) -> u64 { match self { Lang::Anm12 => 8, Lang::Ecl07 => 12, Lang::Msg08 => 4 } }
    fn relative_offsets(self) -> bool { self == Lang::Ecl07 }
    fn has_tags(self) -> bool { self == Lang::Ecl07 }
    fn wrap(self, consts: &str, body: &str) -> String {
        match self {
            Lang::Anm12 => format!("{ANM_HEAD}{consts}script s {{\n{body}}}\n"),
            Lang::Ecl07 => format!("{consts}void sub0() {{\n{body}}}\nscript timeline0 {{ }}\n"),
            Lang::Msg08 => format!("meta {{ table: {{ 0: {{script: \"script0\"}} }} }}\n{consts}script script0 {{\n{body}}}\n"),
        }
    }
    fn first_script(self, c: &Compiled) -> Vec<RawInstr> {
        match c {
            Compiled::Anm(f) => f.entries[0].scripts[0].instrs.clone(),
            Compiled::Ecl(truth::EclFile::Olde(f)) => f.subs.values().next().expect("a sub").instrs.clone(),
            Compiled::Msg(f) => f.scripts.values().next().expect("a script").instrs.clone(),
            _ => panic!("unexpected format"),
        }
    }
    fn set_first_script(self, c: &mut Compiled, instrs: Vec<RawInstr>) {
        match c {
            Compiled::Anm(f) => f.entries[0].scripts[0].script.instrs = instrs,
            Compiled::Ecl(truth::EclFile::Olde(f)) => f.subs.values_mut().next().expect("a sub").instrs = instrs,
            Compiled::Msg(f) => f.scripts.values_mut().next().expect("a script").instrs = instrs,
            _ => panic!("unexpected format"),
        }
    }
}

// ---------------------------------------------------------------------------------------------
// rendering

struct Render { lang: Lang, text: String, consts: String, next_marker: i32, next_const: u32, next_func: u32, plain: bool, goto_markers: HashSet<i32>, unsupported: bool, func_depth: u32 }

impl Render {
    fn new(lang: Lang, plain: bool) -> Render {
        Render { lang, text: String::new(), consts: String::new(), next_marker: 0, next_const: 0, next_func: 0, plain, goto_markers: HashSet::new(), unsupported: false, func_depth: 0 }
    }
    fn stmts(&mut self, stmts: &[Sexp], indent: usize) {
        let mut prev_marker: Option<i32> = None;
        for s in stmts {
            let this_marker = if s.head() == Some("ins") && self.func_depth == 0 { Some(self.next_marker) } else { None };
            if s.head() == Some("goto") {
                match prev_marker { Some(k) => { self.goto_markers.insert(k); }, None => self.unsupported = true }
            }
            self.stmt(s, indent);
            prev_marker = this_marker;
        }
    }
    fn block_open(&mut self, kind: &str, pad: &str) {
        let t = match kind {
            "free" => "{".to_string(),
            "loop" => "loop {".to_string(),
            "times" => "times(2) {".to_string(),
            "while" => format!("while ({REG} != 0) {{"),
            "while0" => "while (0) {".to_string(),
            "dowhile" => "do {".to_string(),
            "if" => format!("if ({REG} == 0) {{"),
            "unless" => format!("unless ({REG} == 3) {{"),
            "if0" => "if (0) {".to_string(),
            "if1" => "if (2 - 1) {".to_string(),
            "elif" => format!("else if ({REG} == 1) {{"),
            "elif0" => "else if (0) {".to_string(),
            "else" => "else {".to_string(),
            k => panic!("bad block kind {k}"),
        };
        if matches!(kind, "elif" | "elif0" | "else") { self.text.push(' '); } else { self.text.push_str(pad); }
        self.text.push_str(&t);
        self.text.push('\n');
    }
    fn stmt(&mut self, s: &Sexp, indent: usize) {
        let pad = "    ".repeat(indent);
        let a = s.args();
        match s.head().expect("stmt head") {
            "abs" => self.text.push_str(&format!("{}:\n", a[0].as_i32())),
            "rel" => {
                let n = a[0].as_i32();
                let form = if self.plain { "u32" } else { a.get(1).map(|x| x.as_atom()).unwrap_or("lit") };
                let aux = a.get(2).map(|x| x.as_i32()).unwrap_or(0);
                let e = match form {
                    "u32" => format!("{}", n as u32),
                    "neg" if n < 0 && n != i32::MIN => format!("(-{})", -(n as i64)),
                    "sum" => format!("({} + {})", aux as u32, n.wrapping_sub(aux) as u32),
                    "diff" => format!("({} - {})", n.wrapping_add(aux) as u32, aux as u32),
                    "const" => {
                        let name = format!("D{}", self.next_const); self.next_const += 1;
                        self.consts.push_str(&format!("const int {name} = {};\n", n as u32));
                        name
                    },
                    _ => if n >= 0 { format!("{n}") } else { format!("{}", n as u32) },
                };
                self.text.push_str(&format!("+{e}:\n"));
            },
            "relx" => self.text.push_str(&format!("+{}:\n", super::c11::expr_text(&a[0]))),
            "relbad" => self.text.push_str(&format!("+{REG}:\n")),
            // instructions of a nested function item are not lowered: they get a negative number and must not show up
            "ins" if self.func_depth > 0 => self.text.push_str(&format!("{pad}ins_{}(-1);\n", self.lang.marker())),
            "ins" => { self.text.push_str(&format!("{pad}ins_{}({});\n", self.lang.marker(), self.next_marker)); self.next_marker += 1; },
            "int" => self.text.push_str(&format!("{pad}interrupt[{}]:\n", a[0].as_i32())),
            "lab" => self.text.push_str(&format!("L{}:\n", a[0].as_i64())),
            "goto" => {
                let tm = if a[1].as_atom() == "none" { String::new() } else { format!(" @ {}", a[1].as_i32()) };
                self.text.push_str(&format!("{pad}goto L{}{tm};\n", a[0].as_i64()));
            },
            "tof" => self.text.push_str(&format!("{pad}ins_{}(timeof(L{}));\n", self.lang.tof(), a[0].as_i64())),
            "tag" => {
                self.text.push_str(&format!("{pad}{{\"{}\"}}:\n", a[0].as_atom()));
                self.stmt(&a[2], indent);
            },
            "blk" => {
                let kind = a[0].as_atom();
                self.block_open(kind, &pad);
                self.stmts(&a[1..], indent + 1);
                if kind == "dowhile" { self.text.push_str(&format!("{pad}}} while ({REG} != 0);\n")); } else { self.text.push_str(&format!("{pad}}}\n")); }
            },
            "chain" => {
                for (i, b) in a.iter().enumerate() {
                    self.block_open(b.head().expect("branch kind"), &pad);
                    self.stmts(b.args(), indent + 1);
                    self.text.push_str(&format!("{pad}}}"));
                    if i + 1 == a.len() { self.text.push('\n'); }
                }
            },
            "func" => {
                self.text.push_str(&format!("{pad}void f{}() {{\n", self.next_func)); self.next_func += 1;
                self.func_depth += 1;
                self.stmts(a, indent + 1);
                self.func_depth -= 1;
                self.text.push_str(&format!("{pad}}}\n"));
            },
            h => panic!("bad stmt head {h}"),
        }
    }
}

fn consts_text(consts: &Sexp) -> String {
    consts.args().iter().map(|d| format!("const int {} = {};\n", d.as_list()[0].as_atom(), super::c11::expr_text(&d.as_list()[1]))).collect()
}

fn err_sexp<T>(o: &tc::Outcome<T>) -> Sexp {
    let class = if o.diagnostics.contains("an instruction has a bad jump offset!") { "an instruction has a bad jump offset!".to_string() } else { diag_class(&o.diagnostics) };
    Sexp::app("err", vec![Sexp::str(class)])
}

fn compile_text(lang: Lang, text: &str) -> tc::Outcome<Vec<RawInstr>> {
    tc::with_truth(lang.format(), lang.game(), &lang.maps(), |truth| {
        let script = truth.parse::<ast::ScriptFile>("<input>", text.as_bytes())?.value;
        let compiled = tc::compile_ast(truth, lang.format(), lang.game(), &script)?;
        Ok(lang.first_script(&compiled))
    })
}

fn i32_at(blob: &[u8], k: usize) -> i32 { i32::from_le_bytes([blob[4 * k], blob[4 * k + 1], blob[4 * k + 2], blob[4 * k + 3]]) }

fn mask_of(lang: Lang, i: &RawInstr) -> i64 { if lang.has_tags() { i.difficulty as i64 } else { 255 } }

pub fn source_text(lang: Lang, a: &[Sexp]) -> (String, HashSet<i32>, bool) {
    let mut r = Render::new(lang, false);
    r.consts = consts_text(&a[1]);
    r.stmts(&a[2..], 1);
    (lang.wrap(&r.consts, &r.text), r.goto_markers, r.unsupported)
}

pub fn xcompile_case(a: &[Sexp]) -> Sexp {
    let lang = Lang::from_name(a[0].as_atom());
    let (text, goto_markers, unsupported) = source_text(lang, a);
    if unsupported { return Sexp::atom("bad-case"); }
    let o = compile_text(lang, &text);
    let Some(instrs) = &o.value else { return err_sexp(&o); };
    let mut out = vec![];
    let mut next_marker = 0;
    let mut after_goto_marker = false;
    for i in instrs {
        let t = Sexp::int(i.time);
        let m = Sexp::int(mask_of(lang, i));
        let was_after = std::mem::replace(&mut after_goto_marker, false);
        if i.opcode == lang.marker() {
            let k = i32_at(&i.args_blob, 0);
            if k != next_marker { return Sexp::app("ok-misordered", vec![Sexp::int(k), Sexp::int(next_marker)]); }
            next_marker += 1;
            after_goto_marker = goto_markers.contains(&k);
            out.push(Sexp::app("p", vec![t, m]));
        } else if i.opcode == lang.tof() {
            out.push(Sexp::app("to", vec![t, m, Sexp::int(i32_at(&i.args_blob, 0))]));
        } else if Some(i.opcode) == lang.interrupt() {
            out.push(Sexp::app("int", vec![t, m]));
        } else if was_after && lang.jump().map(|j| j.0) == Some(i.opcode) {
            let time_first = lang.jump().unwrap().1;
            out.push(Sexp::app("j", vec![t, m, Sexp::int(i32_at(&i.args_blob, if time_first { 0 } else { 1 }))]));
        }
    }
    Sexp::app("ok", vec![Sexp::list(out)])
}

/// `time_and_difficulty::run` on the parsed block, after `compute_diff_label_masks`
pub fn xvisit_case(stmts: &[Sexp]) -> Sexp {
    let lang = Lang::Ecl07;
    let mut r = Render::new(lang, true);
    r.stmts(stmts, 1);
    let text = format!("{{\n{}}}\n", r.text);
    let o = tc::with_truth(lang.format(), lang.game(), &lang.maps(), |truth| {
        let mut block = truth.parse::<ast::Block>("<input>", text.as_bytes())?.value;
        truth::passes::resolution::compute_diff_label_masks(&mut block, truth.ctx())?;
        let ctx = truth.ctx();
        let data = truth::passes::semantics::time_and_difficulty::run(&block.0[..], &ctx.emitter)?;
        type Data = truth::passes::semantics::time_and_difficulty::TimeAndDifficulty;
        fn walk(stmts: &[truth::Sp<ast::Stmt>], get: &dyn Fn(&truth::Sp<ast::Stmt>) -> Data, out: &mut Vec<Sexp>) {
            for s in stmts {
                if matches!(s.kind, ast::StmtKind::NoInstruction) { continue; }
                let (kind, blocks): (&str, Vec<&ast::Block>) = match &s.kind {
                    ast::StmtKind::AbsTimeLabel(_) | ast::StmtKind::RelTimeLabel { .. } => ("t", vec![]),
                    ast::StmtKind::Label(_) => ("l", vec![]),
                    ast::StmtKind::InterruptLabel(_) => ("n", vec![]),
                    ast::StmtKind::Jump(_) => ("g", vec![]),
                    ast::StmtKind::Block(b) => ("b", vec![b]),
                    ast::StmtKind::Loop { block, .. } => ("b", vec![block]),
                    ast::StmtKind::While { block, .. } => ("b", vec![block]),
                    ast::StmtKind::Times { block, .. } => ("b", vec![block]),
                    ast::StmtKind::CondChain(chain) => ("b", chain.cond_blocks.iter().map(|c| &c.block).chain(chain.else_block.iter()).collect()),
                    ast::StmtKind::Item(item) => match &item.value {
                        ast::Item::Func(ast::ItemFunc { code: Some(code), .. }) => ("f", vec![code]),
                        _ => ("f", vec![]),
                    },
                    _ => ("i", vec![]),
                };
                let d = get(s);
                out.push(Sexp::list(vec![Sexp::atom(kind), Sexp::int(d.time), Sexp::int(d.difficulty_mask.mask() as i64)]));
                for b in blocks { walk(&b.0, get, out); }
            }
        }
        let mut out = vec![];
        walk(&block.0, &|s| data[&s.node_id.expect("node id")], &mut out);
        Ok(out)
    });
    match o.value { Some(v) => Sexp::app("ok", vec![Sexp::list(v)]), None => err_sexp(&o) }
}

// ---------------------------------------------------------------------------------------------
// stored scripts

fn instr_size(lang: Lang, s: &Sexp) -> u64 {
    lang.header_size() + match s.head() { Some("j") => if s.args()[3].as_atom() == "none" { 4 } else { 8 }, _ => 4 }
}

fn script_offsets(lang: Lang, instrs: &[Sexp]) -> Vec<u64> {
    let mut offsets = vec![0u64];
    for s in instrs { let last = *offsets.last().unwrap(); offsets.push(last + instr_size(lang, s)); }
    offsets
}

fn raw_script(lang: Lang, instrs: &[Sexp]) -> Vec<RawInstr> {
    let offsets = script_offsets(lang, instrs);
    let end = *offsets.last().unwrap();
    let mut out = vec![];
    for (k, s) in instrs.iter().enumerate() {
        let a = s.args();
        let time = a[0].as_i32();
        let difficulty = a[1].as_i64() as u8;
        let base = RawInstr { time, difficulty, ..RawInstr::DEFAULTS };
        match s.head() {
            Some("j") => {
                let dest = a[2].as_usize();
                let off = if dest < offsets.len() { offsets[dest] } else { end + 4 + 12 * (dest as u64 - offsets.len() as u64) };
                let enc = if lang.relative_offsets() { (off as i64 - offsets[k] as i64) as i32 } else { off as i32 };
                if a[3].as_atom() == "none" {
                    out.push(RawInstr { opcode: lang.jump_o().expect("o jump"), args_blob: enc.to_le_bytes().to_vec(), ..base });
                } else {
                    let (opcode, time_first) = lang.jump().expect("jump");
                    let tm = a[3].as_i32().to_le_bytes();
                    let mut blob = vec![];
                    if time_first { blob.extend_from_slice(&tm); blob.extend_from_slice(&enc.to_le_bytes()); } else { blob.extend_from_slice(&enc.to_le_bytes()); blob.extend_from_slice(&tm); }
                    out.push(RawInstr { opcode, args_blob: blob, ..base });
                }
            },
            Some("n") => out.push(RawInstr { opcode: lang.interrupt().expect("interrupt"), args_blob: (k as i32).to_le_bytes().to_vec(), ..base }),
            _ => out.push(RawInstr { opcode: lang.marker(), args_blob: (k as i32).to_le_bytes().to_vec(), ..base }),
        }
    }
    out
}

fn label_sexp(name: &str, offsets: &[u64]) -> Sexp {
    if name == "label_startr" { return Sexp::list(vec![Sexp::atom("start")]); }
    let body = name.strip_prefix("label_").unwrap_or(name);
    let (num, kind) = match body.strip_suffix('r') { Some(n) => (n, "r"), None => (body, "n") };
    match num.parse::<u64>().ok().and_then(|o| offsets.iter().position(|&x| x == o)) {
        Some(i) => Sexp::list(vec![Sexp::atom(kind), Sexp::int(i as i64)]),
        None => Sexp::list(vec![Sexp::atom(kind), Sexp::str(name)]),
    }
}

fn expr_label<'a>(e: &'a ast::Expr) -> Option<&'a str> {
    match e { ast::Expr::LabelProperty { label, .. } => Some(label.value.as_str()), _ => None }
}

fn stmt_out(stmt: &ast::Stmt, offsets: &[u64]) -> Option<Sexp> {
    let mask = Sexp::int(match &stmt.diff_label { Some(d) => d.value.mask.map(|m| m.mask() as i64).unwrap_or(-1), None => 255 });
    Some(match &stmt.kind {
        ast::StmtKind::NoInstruction | ast::StmtKind::ScopeEnd(_) => return None,
        ast::StmtKind::Label(ident) => { let mut v = vec![Sexp::atom("lab")]; v.extend(label_sexp(ident.value.as_str(), offsets).as_list().iter().cloned()); Sexp::list(v) },
        ast::StmtKind::AbsTimeLabel(v) => Sexp::app("abs", vec![Sexp::int(v.value)]),
        ast::StmtKind::RelTimeLabel { delta, .. } => match delta.as_const_int() {
            Some(d) => Sexp::app("rel", vec![Sexp::int(d)]),
            None => Sexp::app("rel", vec![Sexp::atom("non-const")]),
        },
        ast::StmtKind::InterruptLabel(_) => Sexp::app("int", vec![mask]),
        ast::StmtKind::Jump(ast::StmtJumpKind::Goto(g)) => Sexp::app("goto", vec![mask, label_sexp(g.destination.value.as_str(), offsets),
            match &g.time { Some(t) => Sexp::int(t.value), None => Sexp::atom("none") }]),
        ast::StmtKind::Expr(e) => match &e.value {
            ast::Expr::Call(call) if call.args.len() == 1 && expr_label(&call.args[0].value).is_some()
                => Sexp::app("jo", vec![mask, label_sexp(expr_label(&call.args[0].value).unwrap(), offsets)]),
            _ => Sexp::app("ins", vec![mask]),
        },
        _ => Sexp::app("ins", vec![mask]),
    })
}

fn template(lang: Lang) -> String { lang.wrap("", "") }

struct Decompiled { stmts: Vec<Sexp>, text: String }

fn decompile_script(lang: Lang, instrs: &[RawInstr], offsets: &[u64], options: &truth::DecompileOptions) -> tc::Outcome<Decompiled> {
    let template = template(lang);
    tc::with_truth(lang.format(), lang.game(), &lang.maps(), |truth| {
        let script = truth.parse::<ast::ScriptFile>("<input>", template.as_bytes())?.value;
        let mut compiled = tc::compile_ast(truth, lang.format(), lang.game(), &script)?;
        lang.set_first_script(&mut compiled, instrs.to_vec());
        let out = tc::decompile_ast(truth, lang.format(), lang.game(), &compiled, options)?;
        let mut stmts = vec![];
        let mut first = true;
        for item in &out.items {
            let code = match &item.value {
                ast::Item::Script { code, .. } if lang != Lang::Ecl07 => Some(code),
                ast::Item::Func(ast::ItemFunc { code: Some(code), .. }) if lang == Lang::Ecl07 => Some(code),
                _ => None,
            };
            if let Some(code) = code {
                if !first { continue; }
                first = false;
                for s in &code.0 { if let Some(x) = stmt_out(&s.value, offsets) { stmts.push(x); } }
            }
        }
        let text = truth::fmt::stringify_with(&out, truth::fmt::Config::new().max_columns(100));
        Ok(Decompiled { stmts, text })
    })
}

/// blocks off, difficulty switches off (their folding is C14's subject), intrinsics on
fn flat_options() -> truth::DecompileOptions { truth::DecompileOptions { blocks: false, diff_switches: false, ..tc::options_from_bits(0) } }

pub fn xraise_case(a: &[Sexp]) -> Sexp {
    let lang = Lang::from_name(a[0].as_atom());
    let instrs = &a[1..];
    let orig = raw_script(lang, instrs);
    let d = decompile_script(lang, &orig, &script_offsets(lang, instrs), &flat_options());
    match &d.value {
        None => err_sexp(&d),
        Some(dec) => Sexp::app("ok", vec![Sexp::list(dec.stmts.clone())]),
    }
}

fn instr_brief(i: &RawInstr) -> String { format!("{}@{}/{:02x}:{}", i.opcode, i.time, i.difficulty, crate::sexp::hex(&i.args_blob)) }

/// oracle: the printed decompilation recompiles to the stored instructions (times, masks, jump arguments)
pub fn xrt_case(a: &[Sexp]) -> Sexp {
    let lang = Lang::from_name(a[0].as_atom());
    let instrs = &a[1..];
    let orig = raw_script(lang, instrs);
    let options = if a[0].as_atom() == "ecl07" { flat_options() } else { truth::DecompileOptions { diff_switches: false, ..tc::options_from_bits(0) } };
    let d = decompile_script(lang, &orig, &script_offsets(lang, instrs), &options);
    let Some(dec) = &d.value else { return Sexp::app("skip", vec![err_sexp(&d)]); };
    let re = tc::with_truth(lang.format(), lang.game(), &lang.maps(), |truth| {
        let script = truth.parse::<ast::ScriptFile>("<input>", dec.text.as_bytes())?.value;
        let compiled = tc::compile_ast(truth, lang.format(), lang.game(), &script)?;
        Ok(lang.first_script(&compiled))
    });
    let Some(new) = &re.value else {
        return fail("decompiled-script-does-not-recompile", format!("{} {} | text: {}", lang.name(), diag_class(&re.diagnostics), dec.text.replace('\n', " ")));
    };
    let t0: Vec<i32> = orig.iter().map(|i| i.time).collect();
    let t1: Vec<i32> = new.iter().map(|i| i.time).collect();
    if t0 != t1 {
        return fail("decompiled-labels-do-not-reproduce-times", format!("{} stored {t0:?} recompiled {t1:?} | text: {}", lang.name(), dec.text.replace('\n', " ")));
    }
    let b0: Vec<String> = orig.iter().map(instr_brief).collect();
    let b1: Vec<String> = new.iter().map(instr_brief).collect();
    if b0 != b1 {
        return fail("decompile-recompile-changes-jump-arguments", format!("{} stored {b0:?} recompiled {b1:?} | text: {}", lang.name(), dec.text.replace('\n', " ")));
    }
    Sexp::app("pass", vec![Sexp::int(orig.len() as i64)])
}

// ---------------------------------------------------------------------------------------------
// generators

use super::c13::{time_value, gen_times};

const TAGS: &[(&str, i64)] = &[("E", 0xF1), ("N", 0xF2), ("H", 0xF4), ("L", 0xF8), ("EN", 0xF3), ("HL", 0xFC), ("ENH", 0xF7), ("NHL", 0xFE), ("EL", 0xF9), ("ENHL", 0xFF)];

fn lit(n: i32) -> Sexp { Sexp::app("i", vec![Sexp::int(n)]) }

/// an integer constant expression without division by zero; refers to `K0..K{nconst-1}`
fn gen_expr(rng: &mut Rng, nconst: usize, depth: u32) -> Sexp {
    if depth == 0 || rng.chance(1, 4) {
        if nconst > 0 && rng.chance(1, 2) {
            return Sexp::app("cref", vec![Sexp::atom(format!("K{}", rng.below(nconst))), Sexp::atom(*rng.pick(&["n", "n", "i"]))]);
        }
        return lit(if rng.chance(1, 3) { rng.int_boundary() } else { rng.range(-20, 60) as i32 });
    }
    match rng.below(8) {
        0..=4 => {
            let op = *rng.pick(&["add", "sub", "mul", "mul", "shl", "shr", "ushr", "lt", "eq", "ne", "ge", "lor", "land", "xor", "band", "bor", "div", "rem"]);
            let rhs = if op == "div" || op == "rem" { lit(*rng.pick(&[1, 2, 3, 7, -1, -2, 10, i32::MAX, i32::MIN])) } else { gen_expr(rng, nconst, depth - 1) };
            Sexp::app("bin", vec![Sexp::atom(op), gen_expr(rng, nconst, depth - 1), rhs])
        },
        5 | 6 => Sexp::app("un", vec![Sexp::atom(*rng.pick(&["neg", "not", "bnot"])), gen_expr(rng, nconst, depth - 1)]),
        _ => Sexp::app("tern", vec![gen_expr(rng, nconst, depth - 1), gen_expr(rng, nconst, depth - 1), gen_expr(rng, nconst, depth - 1)]),
    }
}

struct Gen<'a> { rng: &'a mut Rng, lang: Lang, wild: bool, nconst: usize, next_label: i64, n_stmts: usize, times_depth: u32, visit: bool }

impl Gen<'_> {
    fn rel(&mut self) -> Sexp {
        if self.nconst > 0 || self.rng.chance(1, 3) {
            if !self.visit && self.rng.chance(1, 2) { let d = 1 + self.rng.below(3) as u32; return Sexp::app("relx", vec![gen_expr(self.rng, self.nconst, d)]); }
        }
        let n = if self.rng.chance(1, 6) { 0 } else { time_value(self.rng, self.wild) };
        let form = *self.rng.pick(&["lit", "lit", "u32", "neg", "sum", "diff", "const"]);
        Sexp::app("rel", vec![Sexp::int(n), Sexp::atom(form), Sexp::int(self.rng.int_boundary())])
    }
    /// `in_func`: inside a nested function item (its statements are not lowered: no labels, no jumps)
    fn stmts(&mut self, depth: u32, len: usize, in_func: bool, in_tag: bool) -> Vec<Sexp> {
        let mut out = vec![];
        for _ in 0..len {
            self.n_stmts += 1;
            let lang = self.lang;
            let jumps = lang.jump().is_some() || self.visit;
            let r = self.rng.below(30);
            match r {
                0..=3 => out.push(Sexp::app("abs", vec![Sexp::int(time_value(self.rng, self.wild))])),
                4..=9 => out.push(self.rel()),
                10..=14 => out.push(Sexp::app("ins", vec![])),
                15 | 16 if !in_func => { out.push(Sexp::app("lab", vec![Sexp::int(self.next_label)])); self.next_label += 1; },
                17 | 18 if !in_func && jumps => {
                    // the destination is chosen afterwards, among the labels that exist
                    let tm = match self.rng.below(3) { 0 => Sexp::atom("none"), _ => Sexp::int(time_value(self.rng, self.wild)) };
                    out.push(Sexp::app("ins", vec![]));
                    out.push(Sexp::app("goto", vec![Sexp::atom("?"), tm]));
                },
                19 if !in_func => out.push(Sexp::app("tof", vec![Sexp::atom("?")])),
                20 | 21 if lang.interrupt().is_some() || self.visit => out.push(Sexp::app("int", vec![Sexp::int(self.rng.range(0, 9))])),
                22 | 23 if (lang.has_tags() || self.visit) && !in_tag => {
                    let (s, m) = *self.rng.pick(TAGS);
                    let inner = match self.rng.below(4) {
                        0 if depth > 0 && self.n_stmts < 40 => self.block(depth, in_func, true),
                        1 if (lang.interrupt().is_some() || self.visit) => Sexp::app("int", vec![Sexp::int(1)]),
                        _ => Sexp::app("ins", vec![]),
                    };
                    out.push(Sexp::app("tag", vec![Sexp::str(s), Sexp::int(m), inner]));
                },
                24..=27 if depth > 0 && self.n_stmts < 40 => out.push(self.block(depth, in_func, in_tag)),
                28 if depth > 0 && self.n_stmts < 40 && !in_func && !in_tag && (self.visit || lang == Lang::Anm12) => {
                    let n = self.rng.below(4);
                    let body = self.stmts(depth - 1, n, true, false);
                    out.push(Sexp::app("func", body));
                },
                _ => out.push(Sexp::app("ins", vec![])),
            }
        }
        out
    }
    fn block(&mut self, depth: u32, in_func: bool, in_tag: bool) -> Sexp {
        let jumps = self.lang.jump().is_some() || self.visit;
        if jumps && self.rng.chance(2, 5) {
            // `if .. else if .. else ..`
            let nb = 1 + self.rng.below(3);
            let mut branches = vec![];
            for i in 0..nb {
                let kind = if i == 0 { *self.rng.pick(&["if", "if", "unless", "if0", "if1"]) } else if i + 1 == nb && self.rng.chance(2, 3) { "else" } else { *self.rng.pick(&["elif", "elif", "elif0"]) };
                let n = self.rng.below(4);
                let mut v = vec![Sexp::atom(kind)];
                v.extend(self.stmts(depth - 1, n, in_func, in_tag));
                branches.push(Sexp::list(v));
            }
            return Sexp::app("chain", branches);
        }
        let mut kinds = vec!["free", "free"];
        if jumps { kinds.extend_from_slice(&["loop", "while", "dowhile", "while0"]); if self.times_depth < 2 { kinds.push("times"); } }
        let kind = *self.rng.pick(&kinds);
        if kind == "times" { self.times_depth += 1; }
        let n = self.rng.below(5);
        let body = self.stmts(depth - 1, n, in_func, in_tag);
        if kind == "times" { self.times_depth -= 1; }
        let mut v = vec![Sexp::atom(kind)]; v.extend(body);
        Sexp::app("blk", v)
    }
}

/// replaces the `?` destinations by existing labels (or the statement by an `(ins)` when there is none)
fn resolve_labels(rng: &mut Rng, stmts: &mut Vec<Sexp>, nlabels: i64) {
    for s in stmts.iter_mut() {
        let head = s.head().map(|h| h.to_string());
        let a: Vec<Sexp> = s.args().to_vec();
        match head.as_deref() {
            Some("goto") | Some("tof") if a[0].as_atom() == "?" => {
                if nlabels == 0 { *s = Sexp::app("ins", vec![]); continue; }
                let mut v = a.clone(); v[0] = Sexp::int(rng.range(0, nlabels - 1));
                *s = Sexp::app(head.as_deref().unwrap(), v);
            },
            Some("tag") => { let mut inner = vec![a[2].clone()]; resolve_labels(rng, &mut inner, nlabels); *s = Sexp::app("tag", vec![a[0].clone(), a[1].clone(), inner.pop().unwrap()]); },
            Some("blk") => { let mut body = a[1..].to_vec(); resolve_labels(rng, &mut body, nlabels); let mut v = vec![a[0].clone()]; v.extend(body); *s = Sexp::app("blk", v); },
            Some("func") => { let mut body = a.clone(); resolve_labels(rng, &mut body, nlabels); *s = Sexp::app("func", body); },
            Some("chain") => {
                let bs: Vec<Sexp> = a.iter().map(|b| { let mut body = b.args().to_vec(); resolve_labels(rng, &mut body, nlabels); let mut v = vec![Sexp::atom(b.head().unwrap())]; v.extend(body); Sexp::list(v) }).collect();
                *s = Sexp::app("chain", bs);
            },
            _ => {},
        }
    }
}

fn count(stmts: &[Sexp], what: &str) -> usize {
    stmts.iter().map(|s| {
        let own = if s.head() == Some(what) { 1 } else { 0 };
        own + match s.head() {
            Some("blk") => count(&s.args()[1..], what),
            Some("func") => count(s.args(), what),
            Some("tag") => count(&s.args()[2..], what),
            Some("chain") => s.args().iter().map(|b| { (if what == "else" && b.head() == Some("else") { 1 } else { 0 }) + count(b.args(), what) }).sum(),
            _ => 0,
        }
    }).sum()
}

fn gen_source(rng: &mut Rng, lang: Lang, wild: bool, visit: bool) -> (Vec<Sexp>, Vec<Sexp>) {
    let nconst = if visit { 0 } else { rng.below(4) };
    let mut consts = vec![];
    for i in 0..nconst {
        let e = if i == 0 || rng.chance(1, 2) { lit(rng.range(-8, 40) as i32) } else { gen_expr(rng, i, 2) };
        consts.push(Sexp::list(vec![Sexp::atom(format!("K{i}")), e]));
    }
    let depth = rng.below(4) as u32;
    let len = 1 + rng.below(10);
    let mut g = Gen { rng, lang, wild, nconst, next_label: 0, n_stmts: 0, times_depth: 0, visit };
    let mut stmts = g.stmts(depth, len, false, false);
    let nlabels = g.next_label;
    resolve_labels(rng, &mut stmts, nlabels);
    (consts, stmts)
}

fn gen_raw(rng: &mut Rng, lang: Lang, allow_bad: bool) -> Vec<Sexp> {
    let n = 1 + rng.below(9);
    let times = gen_times(rng, n);
    let mut out = vec![];
    for k in 0..n {
        let mask = if lang.has_tags() && rng.chance(1, 3) { *rng.pick(&[0xF1i64, 0xF2, 0xF4, 0xF8, 0xF3, 0xFC, 0x0F, 0xF0, 0x71, 0x00]) } else { 255 };
        let t = Sexp::int(times[k]);
        if lang.jump().is_some() && rng.chance(1, 3) {
            let dest = if allow_bad && rng.chance(1, 15) { n + 1 + rng.below(2) } else { rng.below(n + 1) };
            let dest_time = if dest < n { times[dest] } else { times[n - 1] };
            let prev_time = if dest == 0 { 0 } else if dest <= n { times[dest - 1] } else { 0 };
            let tm = match rng.below(8) {
                0 => Sexp::atom("none"),
                1..=3 => Sexp::int(prev_time),
                4..=5 => Sexp::int(dest_time),
                6 => Sexp::int(time_value(rng, false)),
                _ => Sexp::int(prev_time.wrapping_add(dest_time) / 2),
            };
            out.push(Sexp::app("j", vec![t, Sexp::int(mask), Sexp::int(dest as i64), tm]));
        } else if lang.interrupt().is_some() && rng.chance(1, 4) {
            out.push(Sexp::app("n", vec![t, Sexp::int(mask)]));
        } else {
            out.push(Sexp::app("i", vec![t, Sexp::int(mask)]));
        }
    }
    out
}

pub fn gen(tier: Tier, rng: &mut Rng, out: &mut Vec<Case>) {
    let scale = if tier == Tier::Quick { 1 } else { 30 };
    let fixed: &[&str] = &[
        "(xcompile anm12 (consts (K0 (i 3))) (ins) (rel 10 lit 0) (lab 0) (int 1) (relx (bin mul (i 2) (cref K0 n))) (lab 1) (ins) (ins) (goto 0 5) (ins) (goto 1 none) (tof 0) (chain (if (rel 5 lit 0) (lab 2) (ins)) (else (rel 7 lit 0) (ins) (rel 1 lit 0))) (func (rel 3 lit 0) (ins)) (ins))",
        "(xcompile ecl07 (consts (K0 (i 3))) (ins) (rel 10 lit 0) (lab 0) (tag \"EN\" 243 (ins)) (relx (bin mul (i 2) (cref K0 n))) (lab 1) (tag \"H\" 244 (blk free (rel 4 lit 0) (ins))) (ins) (goto 0 5) (ins) (goto 1 none) (tof 0))",
        "(xcompile msg08 (consts (K0 (i 3))) (ins) (rel 10 lit 0) (relx (bin mul (i 2) (cref K0 n))) (blk free (rel 4 lit 0) (ins)) (abs -5) (lab 0) (ins) (abs 4000) (tof 0))",
        "(xvisit (abs 3) (tag \"E\" 241 (blk free (rel 2 lit 0) (ins))) (func (rel 1 lit 0) (ins)) (ins) (chain (if (rel 1 lit 0)) (elif (lab 0)) (else (int 2) (rel 1 lit 0))) (ins) (goto 0 none))",
        "(xraise anm12 (i 0 255) (j 10 255 1 0) (n 20 255) (j 20 255 3 20) (j 30 255 0 none))",
        "(xraise ecl07 (i 0 255) (j 10 243 1 0) (i 20 241) (j 20 255 3 20) (j 30 255 0 none))",
        "(xraise msg08 (i -1 255) (i 0 255) (i 32767 255) (i -32768 255))",
        "(xraise anm12 (n -1 255) (n 0 255) (j 5 255 0 -1))",
    ];
    for f in fixed { out.push(Case::corr(crate::sexp::parse(f).unwrap()).tag("x-fixed")); }

    for (lang, n) in [(Lang::Anm12, 500), (Lang::Ecl07, 500), (Lang::Msg08, 250)] {
        for i in 0..n * scale {
            let wild = i % 3 == 0;
            let (consts, stmts) = gen_source(rng, lang, wild, false);
            let nt = count(&stmts, "ins") >= 2;
            let mut c = Case::corr(Sexp::app("xcompile", [vec![Sexp::atom(lang.name()), Sexp::app("consts", consts)], stmts.clone()].concat()))
                .tag(format!("xcompile-{}", lang.name())).trivial(!nt);
            for (what, tag) in [("relx", "x-const-expr-delta"), ("int", "x-interrupt"), ("tag", "x-difficulty-tag"), ("goto", "x-goto"), ("tof", "x-timeof"), ("else", "x-else"), ("func", "x-nested-func"), ("lab", "x-label")] {
                if count(&stmts, what) > 0 { c = c.tag(tag); }
            }
            out.push(c);
        }
    }
    // malformed: jumps to a label that does not exist, a label defined twice, a non-constant delta
    for i in 0..60 * scale {
        let lang = [Lang::Anm12, Lang::Ecl07, Lang::Msg08][i % 3];
        let (consts, mut stmts) = gen_source(rng, lang, false, false);
        let mut at = rng.below(stmts.len() + 1);
        if at < stmts.len() && stmts[at].head() == Some("goto") { at = 0; }   // never between an `(ins)` and its `(goto ..)`
        let kind = rng.below(3);
        match kind {
            0 => stmts.insert(at, Sexp::app("tof", vec![Sexp::int(77)])),
            1 => { stmts.insert(at, Sexp::app("lab", vec![Sexp::int(88)])); stmts.push(Sexp::app("lab", vec![Sexp::int(88)])); },
            _ => stmts.insert(at, Sexp::app("relbad", vec![])),
        }
        out.push(Case::corr(Sexp::app("xcompile", [vec![Sexp::atom(lang.name()), Sexp::app("consts", consts)], stmts].concat()))
            .tag(["xcompile-undefined-label", "xcompile-duplicate-label", "xcompile-nonconst-delta"][kind]));
    }
    for i in 0..500 * scale {
        let (_, stmts) = gen_source(rng, Lang::Ecl07, i % 3 == 0, true);
        let nt = stmts.len() >= 2;
        let mut c = Case::corr(Sexp::app("xvisit", stmts.clone())).tag("xvisit").trivial(!nt);
        for (what, tag) in [("int", "x-interrupt"), ("tag", "x-difficulty-tag"), ("else", "x-else"), ("func", "x-nested-func")] {
            if count(&stmts, what) > 0 { c = c.tag(tag); }
        }
        out.push(c);
    }
    for (lang, n) in [(Lang::Anm12, 400), (Lang::Ecl07, 500), (Lang::Msg08, 200)] {
        for _ in 0..n * scale {
            let c = gen_raw(rng, lang, true);
            let nt = c.len() >= 2;
            let args = [vec![Sexp::atom(lang.name())], c].concat();
            out.push(Case::search(Sexp::app("xrt", args.clone())).tag(format!("xrt-{}", lang.name())).trivial(!nt));
            out.push(Case::corr(Sexp::app("xraise", args)).tag(format!("xraise-{}", lang.name())).trivial(!nt));
        }
    }
}

pub fn eval(case: &Sexp) -> Option<Sexp> {
    let a = case.args();
    Some(match case.head() {
        Some("xcompile") => xcompile_case(a),
        Some("xvisit") => xvisit_case(a),
        Some("xraise") => xraise_case(a),
        Some("xrt") => xrt_case(a),
        _ => return None,
    })
}
