//! C11 — compile-time evaluation agrees with run-time evaluation.

use super::{Case, Prop, Tier, fail};
use crate::rng::Rng;
use crate::sexp::Sexp;
use crate::util::{canon_bits, diag_class};
use truth::{ast, LanguageKey, RegId, ScalarValue};
use truth::ast::{BinOpKind as B, UnOpKind as U};
use truth::pos::Sp;

pub struct C11;

pub const BINOPS: &[(&str, B)] = &[
    ("add", B::Add), ("sub", B::Sub), ("mul", B::Mul), ("div", B::Div), ("rem", B::Rem),
    ("eq", B::Eq), ("ne", B::Ne), ("lt", B::Lt), ("le", B::Le), ("gt", B::Gt), ("ge", B::Ge),
    ("lor", B::LogicOr), ("land", B::LogicAnd), ("xor", B::BitXor), ("band", B::BitAnd), ("bor", B::BitOr),
    ("shl", B::ShiftLeft), ("shr", B::ShiftRightSigned), ("ushr", B::ShiftRightUnsigned),
];
pub const UNOPS: &[(&str, U)] = &[
    ("neg", U::Neg), ("not", U::Not), ("bnot", U::BitNot),
    ("sin", U::Sin), ("cos", U::Cos), ("tan", U::Tan), ("asin", U::Asin), ("acos", U::Acos), ("atan", U::Atan), ("sqrt", U::Sqrt),
    ("castI", U::CastI), ("castF", U::CastF), ("sigI", U::EncodeI), ("sigF", U::EncodeF),
];

pub fn binop_by_name(s: &str) -> B { BINOPS.iter().find(|x| x.0 == s).unwrap_or_else(|| panic!("binop {s}")).1 }
pub fn unop_by_name(s: &str) -> U { UNOPS.iter().find(|x| x.0 == s).unwrap_or_else(|| panic!("unop {s}")).1 }
pub fn binop_name(b: B) -> &'static str { BINOPS.iter().find(|x| x.1 == b).unwrap().0 }
pub fn unop_name(u: U) -> &'static str { UNOPS.iter().find(|x| x.1 == u).unwrap().0 }

#[derive(Copy, Clone, PartialEq, Eq, Debug)]
pub enum Ty { Int, Float }

/// S-expression -> AST (spans NULL; registers tagged with the ANM language like `assign_languages` does)
pub fn to_ast(e: &Sexp) -> Sp<ast::Expr> {
    let a = e.args();
    sp!(match e.head().expect("expr head") {
        "i" => ast::Expr::LitInt { value: a[0].as_i64() as i32, format: ast::IntFormat::SIGNED },
        "f" => ast::Expr::LitFloat { value: f32::from_bits(a[0].as_i64() as u32) },
        "reg" => ast::Expr::Var(sp!(ast::Var {
            ty_sigil: Some(match a[1].as_atom() { "i" => ast::VarSigil::Int, _ => ast::VarSigil::Float }),
            name: ast::VarName::Reg { reg: RegId(a[0].as_i64() as i32), language: Some(LanguageKey::Anm) },
        })),
        "un" => ast::Expr::UnOp(sp!(unop_by_name(a[0].as_atom())), Box::new(to_ast(&a[1]))),
        "bin" => ast::Expr::BinOp(Box::new(to_ast(&a[1])), sp!(binop_by_name(a[0].as_atom())), Box::new(to_ast(&a[2]))),
        "tern" => ast::Expr::Ternary { cond: Box::new(to_ast(&a[0])), question: sp!(()), left: Box::new(to_ast(&a[1])), colon: sp!(()), right: Box::new(to_ast(&a[2])) },
        h => panic!("bad expr head {h}"),
    })
}

pub fn from_ast(e: &ast::Expr) -> Sexp {
    match e {
        ast::Expr::LitInt { value, .. } => Sexp::app("i", vec![Sexp::int(*value)]),
        ast::Expr::LitFloat { value } => Sexp::app("f", vec![Sexp::int(canon_bits(*value))]),
        ast::Expr::LitString(s) => Sexp::app("s", vec![Sexp::str(s.string.clone())]),
        ast::Expr::Var(v) => match &v.value.name {
            ast::VarName::Reg { reg, .. } => Sexp::app("reg", vec![Sexp::int(reg.0), Sexp::atom(match v.value.ty_sigil { Some(ast::VarSigil::Int) => "i", Some(ast::VarSigil::Float) => "f", None => "n" })]),
            ast::VarName::Normal { ident, .. } => Sexp::app("var", vec![Sexp::atom(ident.as_raw().to_string())]),
        },
        ast::Expr::UnOp(op, x) => Sexp::app("un", vec![Sexp::atom(unop_name(op.value)), from_ast(x)]),
        ast::Expr::BinOp(a, op, b) => Sexp::app("bin", vec![Sexp::atom(binop_name(op.value)), from_ast(a), from_ast(b)]),
        ast::Expr::Ternary { cond, left, right, .. } => Sexp::app("tern", vec![from_ast(cond), from_ast(left), from_ast(right)]),
        _ => Sexp::atom("other"),
    }
}

pub fn value_sexp(v: &ScalarValue) -> Sexp {
    match v {
        ScalarValue::Int(i) => Sexp::app("i", vec![Sexp::int(*i)]),
        ScalarValue::Float(f) => Sexp::app("f", vec![Sexp::int(canon_bits(*f))]),
        ScalarValue::String(s) => Sexp::app("s", vec![Sexp::str(s.clone())]),
    }
}

// ---------------------------------------------------------------------------------------------
// generators

struct Gen<'a> { rng: &'a mut Rng, allow_regs: bool, allow_math: bool, const_bias: u32 }

impl Gen<'_> {
    fn leaf(&mut self, ty: Ty) -> Sexp {
        if self.allow_regs && !self.rng.chance(self.const_bias, 100) {
            let r = 10000 + self.rng.below(4) as i64 + if ty == Ty::Float { 4 } else { 0 };
            return Sexp::app("reg", vec![Sexp::int(r), Sexp::atom(if ty == Ty::Int { "i" } else { "f" })]);
        }
        match ty {
            Ty::Int => Sexp::app("i", vec![Sexp::int(self.rng.int_boundary())]),
            Ty::Float => Sexp::app("f", vec![Sexp::int(self.rng.float_bits())]),
        }
    }
    fn expr(&mut self, ty: Ty, depth: u32) -> Sexp {
        if depth == 0 || self.rng.chance(1, 5) { return self.leaf(ty); }
        let d = depth - 1;
        match ty {
            Ty::Int => match self.rng.below(10) {
                0..=4 => {
                    let ops = ["add", "sub", "mul", "div", "rem", "lor", "land", "xor", "band", "bor", "shl", "shr", "ushr", "eq", "ne", "lt", "le", "gt", "ge"];
                    let op = *self.rng.pick(&ops);
                    Sexp::app("bin", vec![Sexp::atom(op), self.expr(Ty::Int, d), self.expr(Ty::Int, d)])
                },
                5 => { // float comparison
                    let ops = ["eq", "ne", "lt", "le", "gt", "ge"];
                    let op = *self.rng.pick(&ops);
                    Sexp::app("bin", vec![Sexp::atom(op), self.expr(Ty::Float, d), self.expr(Ty::Float, d)])
                },
                6 => { let op = *self.rng.pick(&["neg", "not", "bnot", "castI"]); Sexp::app("un", vec![Sexp::atom(op), self.expr(Ty::Int, d)]) },
                7 => Sexp::app("un", vec![Sexp::atom("castI"), self.expr(Ty::Float, d)]),
                8 => Sexp::app("tern", vec![self.expr(Ty::Int, d), self.expr(Ty::Int, d), self.expr(Ty::Int, d)]),
                _ => self.leaf(Ty::Int),
            },
            Ty::Float => match self.rng.below(10) {
                0..=4 => {
                    let ops: &[&str] = if self.allow_math { &["add", "sub", "mul", "div", "rem"] } else { &["add", "sub", "mul", "div"] };
                    let op = *self.rng.pick(ops);
                    Sexp::app("bin", vec![Sexp::atom(op), self.expr(Ty::Float, d), self.expr(Ty::Float, d)])
                },
                5 => {
                    let ops: &[&str] = if self.allow_math { &["neg", "castF", "sin", "cos", "tan", "asin", "acos", "atan", "sqrt"] } else { &["neg", "castF"] };
                    let op = *self.rng.pick(ops);
                    Sexp::app("un", vec![Sexp::atom(op), self.expr(Ty::Float, d)])
                },
                6 | 7 => Sexp::app("un", vec![Sexp::atom("castF"), self.expr(Ty::Int, d)]),
                8 => Sexp::app("tern", vec![self.expr(Ty::Int, d), self.expr(Ty::Float, d), self.expr(Ty::Float, d)]),
                _ => self.leaf(Ty::Float),
            },
        }
    }
}

fn has_const_subtree(e: &Sexp) -> bool {
    match e.head() {
        Some("bin") => { let a = e.args(); (is_lit(&a[1]) && is_lit(&a[2])) || has_const_subtree(&a[1]) || has_const_subtree(&a[2]) },
        Some("un") => { let a = e.args(); is_lit(&a[1]) || has_const_subtree(&a[1]) },
        Some("tern") => { let a = e.args(); is_lit(&a[0]) || a.iter().any(has_const_subtree) },
        _ => false,
    }
}
fn is_lit(e: &Sexp) -> bool { matches!(e.head(), Some("i") | Some("f")) }

// ---------------------------------------------------------------------------------------------

const MAPFILE: &str = "!anmmap\n!ins_signatures\n900 S\n901 f\n";

/// Source text of an expression: fully parenthesised; integers as unsigned decimals (the parser
/// deliberately accepts 2^31..2^32), floats by Rust's exact shortest decimal, `INF` for infinity.
pub fn expr_text(e: &Sexp) -> String {
    let a = e.args();
    match e.head().expect("expr head") {
        "i" => format!("{}", a[0].as_i64() as i32 as u32),
        "f" => {
            let x = f32::from_bits(a[0].as_i64() as u32);
            let mag = x.abs();
            let body = if mag.is_infinite() { "INF".to_string() } else { let mut s = format!("{}", mag); if !s.contains('.') { s.push_str(".0"); } s };
            if x.is_sign_negative() { format!("(-{body})") } else { body }
        },
        "reg" => format!("{}REG[{}]", if a[1].as_atom() == "i" { "$" } else { "%" }, a[0].as_i64()),
        "cref" => format!("{}{}", match a[1].as_atom() { "i" => "$", "f" => "%", _ => "" }, a[0].as_atom()),
        "un" => match a[0].as_atom() {
            "castI" => format!("int({})", expr_text(&a[1])),
            "castF" => format!("float({})", expr_text(&a[1])),
            op @ ("neg" | "not" | "bnot") => format!("({} {})", unop_by_name(op), expr_text(&a[1])),
            op => format!("{}({})", unop_by_name(op), expr_text(&a[1])),
        },
        "bin" => format!("({} {} {})", expr_text(&a[1]), binop_by_name(a[0].as_atom()), expr_text(&a[2])),
        "tern" => format!("({} ? {} : {})", expr_text(&a[0]), expr_text(&a[1]), expr_text(&a[2])),
        h => panic!("bad expr head {h}"),
    }
}

fn parse_expr(truth: &mut truth::Truth, e: &Sexp) -> Result<Sp<ast::Expr>, truth::ErrorReported> {
    let text = expr_text(e);
    let mut expr = truth.parse::<ast::Expr>("<input>", text.as_bytes())?;
    let ctx = truth.ctx();
    truth::passes::resolution::assign_languages(&mut expr, LanguageKey::Anm, ctx)?;
    truth::passes::resolution::resolve_names(&expr, ctx)?;
    Ok(expr)
}

fn fold(e: &Sexp) -> Sexp {
    let mut scope = truth::Builder::new().capture_diagnostics(true).build();
    let mut truth = scope.truth();
    let mut expr = match parse_expr(&mut truth, e) {
        Ok(x) => x,
        Err(err) => { err.ignore(); return Sexp::app("err", vec![Sexp::str(format!("parse: {}", diag_class(&truth.get_captured_diagnostics().unwrap_or_default())))]); },
    };
    let ctx = truth.ctx();
    if truth::passes::type_check::run(&expr, ctx).is_err() {
        return Sexp::app("err", vec![Sexp::str("type error")]);
    }
    if let Err(err) = truth::passes::evaluate_const_vars::run(ctx) { err.ignore(); return Sexp::app("err", vec![Sexp::str("const vars")]); }
    match truth::passes::const_simplify::run(&mut expr, ctx) {
        Ok(()) => Sexp::app("ok", vec![from_ast(&expr.value)]),
        Err(e) => { e.ignore(); Sexp::app("err", vec![Sexp::str(diag_class(&truth.get_captured_diagnostics().unwrap_or_default()))]) },
    }
}

fn set_regs(vm: &mut truth::vm::AstVm, regs: &Sexp) {
    for r in regs.as_list() {
        let a = r.as_list();
        let reg = RegId(a[0].as_i64() as i32);
        match a[1].as_atom() {
            "i" => vm.set_reg(reg, ScalarValue::Int(a[2].as_i64() as i32)),
            _ => vm.set_reg(reg, ScalarValue::Float(f32::from_bits(a[2].as_i64() as u32))),
        }
    }
}

/// oracle: VM(e) = VM(const_simplify(e)) under a register valuation
fn mentions_register(e: &Sexp) -> bool {
    match e { Sexp::List(v) => e.head() == Some("reg") || v.iter().any(mentions_register), _ => false }
}

fn has_undefined_const_subexpr(e: &Sexp) -> bool {
    if matches!(ref_eval(e), Ok(None)) { return true; }
    // a register-free divisor that this reference cannot evaluate (libm functions): it may be zero, so an error
    // reported for the expression cannot be called wrong
    if e.head() == Some("bin") && matches!(e.args()[0].as_atom(), "div" | "rem") && !mentions_register(&e.args()[2]) && ref_eval(&e.args()[2]).is_err() { return true; }
    match e.head() {
        Some("un") | Some("bin") | Some("tern") => e.args().iter().skip(if e.head() == Some("tern") { 0 } else { 1 }).any(has_undefined_const_subexpr),
        _ => false,
    }
}

fn vm_fold(e: &Sexp, regs: &Sexp) -> Sexp {
    let e_sexp = e;
    let mut scope = truth::Builder::new().capture_diagnostics(true).build();
    let mut truth = scope.truth();
    let orig = match parse_expr(&mut truth, e) {
        Ok(x) => x,
        Err(err) => { err.ignore(); return Sexp::app("err", vec![Sexp::str(format!("parse: {}", diag_class(&truth.get_captured_diagnostics().unwrap_or_default())))]); },
    };
    let mut folded = orig.clone();
    let ctx = truth.ctx();
    if truth::passes::type_check::run(&orig, ctx).is_err() { return Sexp::app("err", vec![Sexp::str("type error")]); }
    if let Err(err) = truth::passes::evaluate_const_vars::run(ctx) { err.ignore(); return Sexp::app("err", vec![Sexp::str("const vars")]); }
    // the VM panics where the machine's behaviour is undefined (integer division by zero at run time)
    let before = std::panic::catch_unwind(std::panic::AssertUnwindSafe(|| {
        let mut vm = truth::vm::AstVm::new();
        set_regs(&mut vm, regs);
        vm.eval(&orig.value, &ctx.resolutions)
    }));
    let simplified = truth::passes::const_simplify::run(&mut folded, ctx);
    let before = match before {
        Ok(v) => v,
        Err(_) => {
            // undefined at run time: folding must not invent a value for a *constant* undefined
            // expression, but a non-constant one is left alone; nothing to compare.
            return Sexp::app("skip", vec![Sexp::atom("vm-undefined")]);
        },
    };
    if let Err(e) = simplified {
        e.ignore();
        // "Constant expressions with no defined value, such as division by zero, are reported as errors":
        // a constant SUBexpression without a value (e.g. `63 / int(-0.0)` in a branch this valuation does
        // not take) makes the error the required outcome, whatever the run-time value of the whole is.
        if has_undefined_const_subexpr(e_sexp) { return Sexp::app("pass", vec![Sexp::atom("undefined-constant-subexpression-rejected")]); }
        return fail("fold-rejects-defined-expression", format!("VM gives {} but const_simplify reports: {}", value_sexp(&before), diag_class(&truth.get_captured_diagnostics().unwrap_or_default())));
    }
    let mut vm = truth::vm::AstVm::new();
    set_regs(&mut vm, regs);
    let after = vm.eval(&folded.value, &ctx.resolutions);
    if value_sexp(&before) != value_sexp(&after) {
        return fail("fold-changes-value", format!("before {} after {} folded {}", value_sexp(&before), value_sexp(&after), from_ast(&folded.value)));
    }
    Sexp::app("pass", vec![value_sexp(&after)])
}

// ---------------------------------------------------------------------------------------------
// independent reference for the documented machine semantics (64-bit arithmetic, written from
// the property text; shares nothing with the code under test or with the Lean model)

#[derive(Debug, Clone, Copy, PartialEq)]
enum RefVal { I(i32), F(f32) }

fn ref_eval(e: &Sexp) -> Result<Option<RefVal>, ()> {   // Ok(None) = no defined value; Err = not a closed numeric expression
    let a = e.args();
    Ok(Some(match e.head().ok_or(())? {
        "i" => RefVal::I(a[0].as_i64() as i32),
        "f" => RefVal::F(f32::from_bits(a[0].as_i64() as u32)),
        "un" => {
            let x = match ref_eval(&a[1])? { Some(x) => x, None => return Ok(None) };
            match (a[0].as_atom(), x) {
                ("neg", RefVal::I(x)) => RefVal::I((-(x as i64)) as i32),
                ("not", RefVal::I(x)) => RefVal::I((x == 0) as i32),
                ("bnot", RefVal::I(x)) => RefVal::I((-(x as i64) - 1) as i32),
                ("castI", RefVal::I(x)) => RefVal::I(x),
                ("castF", RefVal::I(x)) => RefVal::F(x as f32),
                ("neg", RefVal::F(x)) => RefVal::F(-x),
                ("castF", RefVal::F(x)) => RefVal::F(x),
                ("castI", RefVal::F(x)) => RefVal::I(if x.is_nan() { 0 } else if x >= 2147483648.0 { i32::MAX } else if x <= -2147483649.0 { i32::MIN } else { x.trunc() as i64 as i32 }),
                _ => return Err(()),
            }
        },
        "bin" => {
            let x = match ref_eval(&a[1])? { Some(x) => x, None => return Ok(None) };
            let y = match ref_eval(&a[2])? { Some(y) => y, None => return Ok(None) };
            match (x, y) {
                (RefVal::I(x), RefVal::I(y)) => {
                    let (xl, yl) = (x as i64, y as i64);
                    let count = yl.rem_euclid(32) as u32;
                    RefVal::I(match a[0].as_atom() {
                        "add" => (xl + yl) as i32, "sub" => (xl - yl) as i32, "mul" => (xl * yl) as i32,
                        "div" => { if y == 0 { return Ok(None); } (xl / yl) as i32 },
                        "rem" => { if y == 0 { return Ok(None); } (xl % yl) as i32 },
                        "eq" => (x == y) as i32, "ne" => (x != y) as i32, "lt" => (x < y) as i32, "le" => (x <= y) as i32, "gt" => (x > y) as i32, "ge" => (x >= y) as i32,
                        "lor" => if x == 0 { y } else { x }, "land" => if x == 0 { 0 } else { y },
                        "xor" => x ^ y, "band" => x & y, "bor" => x | y,
                        "shl" => (xl << count) as i32, "shr" => (xl >> count) as i32, "ushr" => (((x as u32) as u64) >> count) as i32,
                        _ => return Err(()),
                    })
                },
                (RefVal::F(x), RefVal::F(y)) => match a[0].as_atom() {
                    "add" => RefVal::F(x + y), "sub" => RefVal::F(x - y), "mul" => RefVal::F(x * y), "div" => RefVal::F(x / y),
                    "rem" => RefVal::F(x % y),   // IEEE fmod
                    "eq" => RefVal::I((x == y) as i32), "ne" => RefVal::I((x != y) as i32), "lt" => RefVal::I((x < y) as i32), "le" => RefVal::I((x <= y) as i32), "gt" => RefVal::I((x > y) as i32), "ge" => RefVal::I((x >= y) as i32),
                    _ => return Err(()),
                },
                _ => return Err(()),
            }
        },
        "tern" => match ref_eval(&a[0])? { Some(RefVal::I(c)) => return ref_eval(if c != 0 { &a[1] } else { &a[2] }), Some(_) => return Err(()), None => return Ok(None) },
        _ => return Err(()),
    }))
}

/// oracle: the folded literal of a closed expression equals the documented machine semantics
fn spec_fold(e: &Sexp) -> Sexp {
    let want = match ref_eval(e) { Ok(w) => w, Err(()) => return Sexp::app("skip", vec![Sexp::atom("not-closed")]) };
    // a ternary folds all of its branches first, so an undefined value in an untaken branch is still an error: skip those
    let got = fold(e);
    let op = match e.head() { Some("un") | Some("bin") => e.args()[0].as_atom().to_string(), Some(h) => h.to_string(), None => String::new() };
    match (want, got.head()) {
        (None, Some("err")) => Sexp::app("pass", vec![Sexp::atom("undefined-is-error")]),
        (None, _) => fail("undefined-constant-expression-not-reported", format!("{} folds to {got}", expr_text(e))),
        (Some(w), Some("ok")) => {
            let lit = &got.args()[0];
            let same = match (w, lit.head()) {
                (RefVal::I(w), Some("i")) => lit.args()[0].as_i64() as i32 == w,
                (RefVal::F(w), Some("f")) => lit.args()[0].as_i64() as u32 == canon_bits(w),
                _ => false,
            };
            if same { Sexp::app("pass", vec![]) } else { fail(format!("fold-differs-from-machine-semantics op={op}"), format!("{} folds to {lit}, machine semantics give {w:?}", expr_text(e))) }
        },
        (Some(_), Some("err")) if e.head() == Some("tern") || format!("{e}").contains("(tern") => Sexp::app("skip", vec![Sexp::atom("error-in-untaken-branch")]),
        (Some(w), _) => fail("defined-constant-expression-rejected", format!("{} = {w:?} but folding gives {got}", expr_text(e))),
    }
}

/// `const T X = e; ins(X)` vs `ins(e)` through the real ANM compiler (TH12)
fn inline_vs_named(ty: &str, e: &Sexp) -> Sexp {
    let text_e = expr_text(e);
    let (opcode, kw) = if ty == "i" { (900, "int") } else { (901, "float") };
    let head = "entry { path: \"a.png\", has_data: false, img_width: 16, img_height: 16, img_format: 3, offset_x: 0, offset_y: 0, colorkey: 0, memory_priority: 0, low_res_scale: false, sprites: {} }\n";
    let named = format!("{head}const {kw} XNAME = {text_e};\nscript s {{ ins_{opcode}(XNAME); }}\n");
    let inline = format!("{head}script s {{ ins_{opcode}({text_e}); }}\n");
    let game = truth::Game::Th12;
    let maps = vec![MAPFILE.to_string()];
    let a = crate::tc::compile(crate::tc::Format::Anm, game, &maps, named.as_bytes());
    let b = crate::tc::compile(crate::tc::Format::Anm, game, &maps, inline.as_bytes());
    match (&a.value, &b.value) {
        (Some(x), Some(y)) => if x == y { Sexp::app("pass", vec![Sexp::atom("same-bytes")]) } else {
            fail("named-const-differs-from-inline", format!("{text_e}: named {} inline {}", crate::sexp::hex(x), crate::sexp::hex(y)))
        },
        (None, None) => {
            let (ca, cb) = (diag_class(&a.diagnostics), diag_class(&b.diagnostics));
            if !a.has_error_diag() || !b.has_error_diag() { return fail("failure-without-error-diagnostic", format!("{text_e}")); }
            Sexp::app("pass", vec![Sexp::atom("both-rejected"), Sexp::str(ca), Sexp::str(cb)])
        },
        _ => fail("named-const-differs-from-inline", format!("{text_e}: named ok={} inline ok={} [{}] [{}]", a.value.is_some(), b.value.is_some(), diag_class(&a.diagnostics), diag_class(&b.diagnostics))),
    }
}

/// chains of const definitions: `(chain (NAME E) ...)` with `(cref NAME sig)` leaves; all ints.
fn chain_text(e: &Sexp) -> String { expr_text(e) }

fn chain(defs: &[Sexp]) -> Sexp {
    let mut text = String::from("{\n");
    for d in defs { let d = d.as_list(); text.push_str(&format!("const int {} = {};\n", d[0].as_atom(), chain_text(&d[1]))); }
    for d in defs { let d = d.as_list(); text.push_str(&format!("ins_900({});\n", d[0].as_atom())); }
    text.push_str("}\n");
    let mut scope = truth::Builder::new().capture_diagnostics(true).build();
    let mut truth = scope.truth();
    truth.apply_mapfile_str(MAPFILE, truth::Game::Th12).expect("mapfile");
    let r: Result<Vec<Sexp>, truth::ErrorReported> = (|| {
        let mut block = truth.parse::<ast::Block>("<input>", text.as_bytes())?.value;
        let ctx = truth.ctx();
        truth::passes::resolution::assign_languages(&mut block, LanguageKey::Anm, ctx)?;
        truth::passes::resolution::resolve_names(&block, ctx)?;
        truth::passes::type_check::run(&block, ctx)?;
        truth::passes::evaluate_const_vars::run(ctx)?;
        truth::passes::const_simplify::run(&mut block, ctx)?;
        let mut out = vec![];
        for stmt in &block.0 {
            if let ast::StmtKind::Expr(e) = &stmt.kind {
                if let ast::Expr::Call(call) = &e.value { out.push(from_ast(&call.args[0].value)); }
            }
        }
        Ok(out)
    })();
    match r {
        Ok(vals) => Sexp::app("ok", vals),
        Err(e) => { e.ignore(); Sexp::app("err", vec![Sexp::str(diag_class(&truth.get_captured_diagnostics().unwrap_or_default()))]) },
    }
}

impl Prop for C11 {
    fn id(&self) -> &'static str { "C11" }
    fn relation(&self) -> &'static str {
        "fold: const_simplify::run(e) (after type_check) == Lean `simplify nativeFloat cs e`, as expressions with NaN collapsed; chain: values / first error class of evaluate_const_vars + const_simplify == Lean `evalConst`"
    }
    fn rule(&self) -> &'static str {
        "operator sweep: every binary/unary operator x boundary operand pairs (rng::INT_BOUNDARY, FLOAT_BOUNDARY_BITS) + random; type-directed random expressions depth<=5 with registers; const chains of 1-8 definitions in shuffled order with forward references and cycles; non-trivial = contains a constant-foldable subtree (both operands literal) or a const reference; distinct by case text"
    }
    fn theorems(&self) -> &'static [&'static str] { &["TruthModel.C11.simplify_sound", "TruthModel.C11.binopInt_spec", "TruthModel.C11.constEval_simplify"] }

    fn gen(&self, tier: Tier, rng: &mut Rng) -> Vec<Case> {
        let scale = if tier == Tier::Quick { 1 } else { 20 };
        let mut out = vec![];
        // (a) operator sweep, ints: all boundary pairs for quick on a sub-grid, plus randoms
        let ints = crate::rng::INT_BOUNDARY;
        for (name, _) in BINOPS {
            // every pair of boundary values in both tiers (a defect at one pair, e.g. MIN / -1, must not depend on the seed), then randoms
            let n = ints.len() * ints.len() + if tier == Tier::Quick { 200 } else { 32000 };
            for k in 0..n {
                let (a, b) = if k < ints.len() * ints.len() { (ints[k / ints.len()], ints[k % ints.len()]) } else { (rng.int_boundary(), rng.int_boundary()) };
                let e = Sexp::app("bin", vec![Sexp::atom(*name), Sexp::app("i", vec![Sexp::int(a)]), Sexp::app("i", vec![Sexp::int(b)])]);
                out.push(Case::search(Sexp::app("specfold", vec![e.clone()])).tag(format!("spec-int-{name}")));
                out.push(Case::corr(Sexp::app("fold", vec![e])).tag(format!("sweep-int-{name}")));
            }
        }
        for name in ["add", "sub", "mul", "div", "eq", "ne", "lt", "le", "gt", "ge"] {
            for _ in 0..400 * scale {
                let e = Sexp::app("bin", vec![Sexp::atom(name), Sexp::app("f", vec![Sexp::int(rng.float_bits())]), Sexp::app("f", vec![Sexp::int(rng.float_bits())])]);
                out.push(Case::corr(Sexp::app("fold", vec![e])).tag(format!("sweep-float-{name}")));
            }
        }
        // NaN operands: not writable as a literal, but any constant expression can produce one
        // (`INF - INF`, `0.0 / 0.0`, `INF * 0.0`); IEEE comparisons with a NaN are all false except `!=`
        let f = |bits: u32| Sexp::app("f", vec![Sexp::int(bits as i64)]);
        let nan_makers = [
            Sexp::app("bin", vec![Sexp::atom("sub"), f(0x7f80_0000), f(0x7f80_0000)]),
            Sexp::app("bin", vec![Sexp::atom("div"), f(0), f(0)]),
            Sexp::app("bin", vec![Sexp::atom("mul"), f(0xff80_0000), f(0x8000_0000)]),
            Sexp::app("un", vec![Sexp::atom("neg"), Sexp::app("bin", vec![Sexp::atom("add"), f(0x7f80_0000), f(0xff80_0000)])]),
        ];
        for name in ["add", "sub", "mul", "div", "eq", "ne", "lt", "le", "gt", "ge"] {
            for (k, nan) in nan_makers.iter().enumerate() {
                for j in 0..(6 * scale) {
                    let other = if j == 0 { nan_makers[(k + 1) % nan_makers.len()].clone() } else { f(rng.float_bits()) };
                    let (l, r) = if j % 2 == 0 { (nan.clone(), other) } else { (other, nan.clone()) };
                    let e = Sexp::app("bin", vec![Sexp::atom(name), l, r]);
                    out.push(Case::search(Sexp::app("specfold", vec![e.clone()])).tag(format!("spec-nan-{name}")));
                    out.push(Case::corr(Sexp::app("fold", vec![e])).tag(format!("sweep-nan-{name}")));
                }
            }
        }
        for name in ["neg", "castI"] {
            for nan in &nan_makers {
                let e = Sexp::app("un", vec![Sexp::atom(name), nan.clone()]);
                out.push(Case::corr(Sexp::app("fold", vec![e])).tag(format!("sweep-nan-unop-{name}")));
            }
        }
        for name in ["neg", "not", "bnot", "castI", "castF"] {
            for _ in 0..200 * scale {
                let e = Sexp::app("un", vec![Sexp::atom(name), Sexp::app("i", vec![Sexp::int(rng.int_boundary())])]);
                out.push(Case::corr(Sexp::app("fold", vec![e])).tag(format!("sweep-unop-int-{name}")));
            }
        }
        for name in ["neg", "castI", "castF"] {
            for _ in 0..300 * scale {
                let e = Sexp::app("un", vec![Sexp::atom(name), Sexp::app("f", vec![Sexp::int(rng.float_bits())])]);
                out.push(Case::corr(Sexp::app("fold", vec![e])).tag(format!("sweep-unop-float-{name}")));
            }
        }
        // (b) random expressions, compared with the model (no libm functions / float rem there)
        for _ in 0..2000 * scale {
            let ty = if rng.chance(2, 3) { Ty::Int } else { Ty::Float };
            let depth = 1 + rng.below(5) as u32;
            let e = Gen { rng, allow_regs: true, allow_math: false, const_bias: 70 }.expr(ty, depth);
            let nt = has_const_subtree(&e);
            out.push(Case::corr(Sexp::app("fold", vec![e])).tag("expr-fold").trivial(!nt));
        }
        // (c) VM before/after folding (all operators incl. libm ones), random register valuations
        for _ in 0..1500 * scale {
            let ty = if rng.chance(1, 2) { Ty::Int } else { Ty::Float };
            let depth = 1 + rng.below(5) as u32;
            let e = Gen { rng, allow_regs: true, allow_math: true, const_bias: 60 }.expr(ty, depth);
            let mut regs = vec![];
            for r in 0..4 { regs.push(Sexp::list(vec![Sexp::int(10000 + r), Sexp::atom("i"), Sexp::int(rng.int_boundary())])); }
            for r in 4..8 { regs.push(Sexp::list(vec![Sexp::int(10000 + r), Sexp::atom("f"), Sexp::int(rng.float_bits())])); }
            let nt = has_const_subtree(&e);
            out.push(Case::search(Sexp::app("vm", vec![e, Sexp::list(regs)])).tag("vm-before-after").trivial(!nt));
        }
        // (c') partially constant shapes `reg op c` / `c op reg` with the constants that tempt an
        // "identity" rewrite (0, 1, -1, +-0.0, +-1.0), registers holding the values where such a rewrite
        // is wrong (-0.0, MIN, -1, 0, inf)
        {
            let int_ops = ["add", "sub", "mul", "div", "rem", "bor", "xor", "band", "shl", "shr", "ushr", "lor", "land", "eq", "ne", "lt", "le", "gt", "ge"];
            let flt_ops = ["add", "sub", "mul", "div", "eq", "ne", "lt", "le", "gt", "ge"];
            let int_vals = [0i32, 1, -1, i32::MIN, i32::MAX, 32, 5];
            let flt_vals = [0x8000_0000u32, 0, 0x3f80_0000, 0xbf80_0000, 0x7f80_0000, 0xff80_0000, 0x0000_0001, 0x4049_0fdb];
            let regs_sexp = |iv: i32, fv: u32| Sexp::list(vec![
                Sexp::list(vec![Sexp::int(10000), Sexp::atom("i"), Sexp::int(iv)]), Sexp::list(vec![Sexp::int(10004), Sexp::atom("f"), Sexp::int(fv as i64)])]);
            for op in int_ops {
                for c in [0i32, 1, -1] {
                    for side in 0..2 {
                        let r = Sexp::app("reg", vec![Sexp::int(10000), Sexp::atom("i")]);
                        let k = Sexp::app("i", vec![Sexp::int(c)]);
                        let e = Sexp::app("bin", vec![Sexp::atom(op), if side == 0 { r.clone() } else { k.clone() }, if side == 0 { k } else { r }]);
                        for iv in int_vals { out.push(Case::search(Sexp::app("vm", vec![e.clone(), regs_sexp(iv, 0)])).tag("vm-identity-shape-int")); }
                    }
                }
            }
            for op in flt_ops {
                for c in [0u32, 0x8000_0000, 0x3f80_0000, 0xbf80_0000] {
                    for side in 0..2 {
                        let r = Sexp::app("reg", vec![Sexp::int(10004), Sexp::atom("f")]);
                        let k = Sexp::app("f", vec![Sexp::int(c as i64)]);
                        let e = Sexp::app("bin", vec![Sexp::atom(op), if side == 0 { r.clone() } else { k.clone() }, if side == 0 { k } else { r }]);
                        for fv in flt_vals { out.push(Case::search(Sexp::app("vm", vec![e.clone(), regs_sexp(0, fv)])).tag("vm-identity-shape-float")); }
                    }
                }
            }
        }
        // (d) named const vs inline through the real ANM compiler
        for _ in 0..150 * scale {
            let ty = if rng.chance(2, 3) { Ty::Int } else { Ty::Float };
            let depth = 1 + rng.below(4) as u32;
            let e = Gen { rng, allow_regs: false, allow_math: false, const_bias: 100 }.expr(ty, depth);
            out.push(Case::search(Sexp::app("specfold", vec![e.clone()])).tag("spec-expr"));
            out.push(Case::search(Sexp::app("inline", vec![Sexp::atom(if ty == Ty::Int { "i" } else { "f" }), e])).tag("named-vs-inline"));
        }
        // (e) const chains
        for _ in 0..300 * scale {
            let n = 1 + rng.below(8);
            let names: Vec<String> = (0..n).map(|i| format!("K{i}")).collect();
            let acyclic = rng.chance(3, 4);
            let mut defs = vec![];
            for i in 0..n {
                let e = chain_expr(rng, &names, i, acyclic, 3);
                defs.push(Sexp::list(vec![Sexp::atom(names[i].clone()), e]));
            }
            rng.shuffle(&mut defs);
            out.push(Case::corr(Sexp::app("chain", defs)).tag(if acyclic { "chain-acyclic" } else { "chain-maybe-cyclic" }));
        }
        out
    }

    fn eval(&self, case: &Sexp) -> Sexp {
        let a = case.args();
        match case.head() {
            Some("fold") => fold(&a[0]),
            Some("vm") => vm_fold(&a[0], &a[1]),
            Some("inline") => inline_vs_named(a[0].as_atom(), &a[1]),
            Some("chain") => chain(a),
            Some("specfold") => spec_fold(&a[0]),
            _ => Sexp::atom("bad-case"),
        }
    }

    fn neighbours(&self, case: &Sexp, rng: &mut Rng) -> Vec<Case> {
        // a disagreement on folding e: does folding change what the VM computes, and does the
        // named/inline pair still compile alike?
        let mut out = vec![];
        if case.head() == Some("fold") {
            let e = case.args()[0].clone();
            for _ in 0..8 {
                let mut regs = vec![];
                for r in 0..4 { regs.push(Sexp::list(vec![Sexp::int(10000 + r), Sexp::atom("i"), Sexp::int(rng.int_boundary())])); }
                for r in 4..8 { regs.push(Sexp::list(vec![Sexp::int(10000 + r), Sexp::atom("f"), Sexp::int(rng.float_bits())])); }
                out.push(Case::search(Sexp::app("vm", vec![e.clone(), Sexp::list(regs)])));
            }
            out.push(Case::search(Sexp::app("specfold", vec![e])));
        }
        out
    }
}

/// expression for definition `i`; acyclic: only refers to names with larger index
fn chain_expr(rng: &mut Rng, names: &[String], i: usize, acyclic: bool, depth: u32) -> Sexp {
    if depth == 0 || rng.chance(1, 4) {
        let can_ref = if acyclic { i + 1 < names.len() } else { true };
        if can_ref && rng.chance(3, 5) {
            let j = if acyclic { i + 1 + rng.below(names.len() - i - 1) } else { rng.below(names.len()) };
            let sig = *rng.pick(&["n", "n", "i", "f"]);
            let r = Sexp::app("cref", vec![Sexp::atom(names[j].clone()), Sexp::atom(sig)]);
            return if sig == "f" { Sexp::app("un", vec![Sexp::atom("castI"), r]) } else { r };
        }
        return Sexp::app("i", vec![Sexp::int(if rng.chance(1, 2) { rng.small_int() } else { rng.int_boundary() })]);
    }
    match rng.below(6) {
        0..=3 => {
            let ops = ["add", "sub", "mul", "div", "rem", "shl", "shr", "ushr", "lt", "eq", "lor", "land", "xor"];
            let op = *rng.pick(&ops);
            Sexp::app("bin", vec![Sexp::atom(op), chain_expr(rng, names, i, acyclic, depth - 1), chain_expr(rng, names, i, acyclic, depth - 1)])
        },
        4 => Sexp::app("un", vec![Sexp::atom(*rng.pick(&["neg", "not", "bnot"])), chain_expr(rng, names, i, acyclic, depth - 1)]),
        _ => Sexp::app("tern", vec![chain_expr(rng, names, i, acyclic, depth - 1), chain_expr(rng, names, i, acyclic, depth - 1), chain_expr(rng, names, i, acyclic, depth - 1)]),
    }
}
