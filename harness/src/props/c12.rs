//! C12 — argument encoding and decoding are inverse for every instruction signature.
//!
//! Driver: a `TestLanguage` (the public test hooks of `truth::llir`) with a user mapfile that
//! defines the generated signatures on opcodes 900.., the same pass sequence as the real
//! compilers (resolve, type check, const simplify, desugar, `Lowerer::lower_sub`) and the real
//! `Raiser`.  `RawInstr.args_blob / param_mask / extra_arg` and the raised argument lists are
//! compared with the Lean model (`TruthModel.Abi`), and the property itself is judged on the
//! implementation's result.  A slice of the cases also goes through a real game format (ANM
//! TH12 files written and read back).

use super::{Case, Failure, Prop, Tier, default_judge, fail};
use crate::rng::Rng;
use crate::sexp::{Sexp, hex, unhex};
use truth::{ast, Game, LanguageKey};
use truth::llir::{self, RawInstr};
use truth::io::{Encoded, DEFAULT_ENCODING};

pub struct C12;

// ---------------------------------------------------------------------------------------------
// signatures

#[derive(Clone, Debug, PartialEq)]
pub enum StrSize { Fixed(usize, bool), BlobEnd(usize), Pascal(usize) }

#[derive(Clone, Debug, PartialEq)]
pub enum Enc {
    /// letter in `S s c U u b C n N E`
    Int { letter: char, arg0: bool, imm: bool, hex: bool, en: bool },
    O,
    T,
    Pad(bool),
    Float { imm: bool },
    /// letter in `z m p`
    Str { letter: char, size: StrSize, mask: [u8; 3], furibug: bool },
}

pub fn int_letter_info(letter: char) -> (usize, bool) {
    match letter {
        'S' | 'n' | 'N' | 'E' => (4, true),
        'U' | 'C' => (4, false),
        's' => (2, true),
        'u' => (2, false),
        'c' => (1, true),
        'b' => (1, false),
        _ => panic!("bad int letter {letter}"),
    }
}

impl Enc {
    pub fn is_padding(&self) -> bool { matches!(self, Enc::Pad(_)) }
    pub fn always_immediate(&self) -> bool {
        match self { Enc::Int { imm, .. } => *imm, Enc::Float { imm } => *imm, _ => true }
    }
    pub fn to_sexp(&self) -> Sexp {
        let b = |x: bool| Sexp::int(x as i64);
        match self {
            Enc::Int { letter, arg0, imm, hex, en } => Sexp::app("i", vec![Sexp::atom(letter.to_string()), b(*arg0), b(*imm), b(*hex), b(*en)]),
            Enc::O => Sexp::app("o", vec![]),
            Enc::T => Sexp::app("t", vec![]),
            Enc::Pad(wide) => Sexp::app("pad", vec![Sexp::int(if *wide { 4 } else { 1 })]),
            Enc::Float { imm } => Sexp::app("f", vec![b(*imm)]),
            Enc::Str { letter, size, mask, furibug } => {
                let (kind, n, nulless) = match size {
                    StrSize::Fixed(n, nl) => ("len", *n, *nl),
                    StrSize::BlobEnd(n) => ("bs", *n, false),
                    StrSize::Pascal(n) => ("bs", *n, false),
                };
                Sexp::app("z", vec![Sexp::atom(letter.to_string()), Sexp::atom(kind), Sexp::int(n as i64), b(nulless),
                    Sexp::int(mask[0]), Sexp::int(mask[1]), Sexp::int(mask[2]), b(*furibug)])
            },
        }
    }
    pub fn from_sexp(s: &Sexp) -> Enc {
        let a = s.args();
        let b = |x: &Sexp| x.as_i64() != 0;
        match s.head().expect("enc head") {
            "i" => Enc::Int { letter: a[0].as_atom().chars().next().unwrap(), arg0: b(&a[1]), imm: b(&a[2]), hex: b(&a[3]), en: b(&a[4]) },
            "o" => Enc::O,
            "t" => Enc::T,
            "pad" => Enc::Pad(a[0].as_i64() == 4),
            "f" => Enc::Float { imm: b(&a[0]) },
            "z" => {
                let letter = a[0].as_atom().chars().next().unwrap();
                let n = a[2].as_usize();
                let size = match (a[1].as_atom(), letter) {
                    ("len", _) => StrSize::Fixed(n, b(&a[3])),
                    (_, 'p') => StrSize::Pascal(n),
                    _ => StrSize::BlobEnd(n),
                };
                Enc::Str { letter, size, mask: [a[4].as_i64() as u8, a[5].as_i64() as u8, a[6].as_i64() as u8], furibug: b(&a[7]) }
            },
            h => panic!("bad enc {h}"),
        }
    }
    /// the text a user would write in a mapfile
    pub fn text(&self) -> String {
        match self {
            Enc::Int { letter, arg0, imm, hex, en } => {
                let mut attrs = vec![];
                if *en { attrs.push("enum=\"VerifEnum\"".to_string()); }
                if *arg0 { attrs.push("arg0".to_string()); }
                if *imm { attrs.push("imm".to_string()); }
                if *hex { attrs.push("hex".to_string()); }
                if attrs.is_empty() { letter.to_string() } else { format!("{letter}({})", attrs.join(";")) }
            },
            Enc::O => "o".into(),
            Enc::T => "t".into(),
            Enc::Pad(true) => "_".into(),
            Enc::Pad(false) => "-".into(),
            Enc::Float { imm } => if *imm { "f(imm)".into() } else { "f".into() },
            Enc::Str { letter, size, mask, furibug } => {
                let mut attrs = vec![];
                match size {
                    StrSize::Fixed(n, nulless) => { attrs.push(format!("len={n}")); if *nulless { attrs.push("nulless".into()); } },
                    StrSize::BlobEnd(n) | StrSize::Pascal(n) => attrs.push(format!("bs={n}")),
                }
                if *letter == 'm' || *mask != [0, 0, 0] { attrs.push(format!("mask={:#x},{},{}", mask[0], mask[1], mask[2])); }
                if *furibug { attrs.push("furibug".into()); }
                format!("{letter}({})", attrs.join(";"))
            },
        }
    }
}

pub fn abi_text(abi: &[Enc]) -> String { abi.iter().map(|e| e.text()).collect::<Vec<_>>().join("") }
pub fn abi_sexp(abi: &[Enc]) -> Sexp { Sexp::list(abi.iter().map(|e| e.to_sexp()).collect()) }
pub fn abi_from_sexp(s: &Sexp) -> Vec<Enc> { s.as_list().iter().map(Enc::from_sexp).collect() }

/// `validate` + the attribute rule for `arg0`, written independently of the Lean model; only used
/// to steer generation (what is *compared* is the implementation against the Lean `validAbi`).
pub fn abi_expected_valid(abi: &[Enc]) -> bool {
    let o = abi.iter().filter(|e| **e == Enc::O).count();
    let t = abi.iter().filter(|e| **e == Enc::T).count();
    if o > 1 || t > 1 || (t == 1 && o == 0) { return false; }
    for (i, e) in abi.iter().enumerate() {
        if let Enc::Int { letter, arg0: true, .. } = e { if i > 0 || int_letter_info(*letter).0 == 4 { return false; } }
        if let Enc::Str { size: StrSize::BlobEnd(_), .. } = e { if i + 1 != abi.len() { return false; } }
        if let Enc::Str { size: StrSize::BlobEnd(0) | StrSize::Pascal(0), .. } = e { return false; }
        if let Enc::Str { size: StrSize::Fixed(_, true), furibug: true, .. } = e { return false; }
    }
    true
}

// ---------------------------------------------------------------------------------------------
// arguments

#[derive(Clone, Debug, PartialEq)]
pub enum Arg { Int(i32, bool), Float(u32, bool), Str(Vec<u8>) }

impl Arg {
    pub fn to_sexp(&self) -> Sexp {
        match self {
            Arg::Int(v, r) => Sexp::app("i", vec![Sexp::int(*v), Sexp::int(*r as i64)]),
            Arg::Float(b, r) => Sexp::app("f", vec![Sexp::int(canon_f(*b)), Sexp::int(*r as i64)]),
            Arg::Str(s) => Sexp::app("s", vec![Sexp::atom(hex(s))]),
        }
    }
    pub fn from_sexp(s: &Sexp) -> Arg {
        let a = s.args();
        match s.head().expect("arg head") {
            "i" => Arg::Int(a[0].as_i64() as i32, a[1].as_i64() != 0),
            "f" => Arg::Float(a[0].as_i64() as u32, a[1].as_i64() != 0),
            "s" => Arg::Str(unhex(a[0].as_atom())),
            h => panic!("bad arg {h}"),
        }
    }
    pub fn is_reg(&self) -> bool { matches!(self, Arg::Int(_, true) | Arg::Float(_, true)) }
}

pub fn canon_f(bits: u32) -> u32 { if f32::from_bits(bits).is_nan() { 0x7fc0_0000 } else { bits } }

pub(crate) fn float_text(bits: u32) -> String {
    let x = f32::from_bits(bits);
    let mag = x.abs();
    let body = if mag.is_infinite() { "INF".to_string() } else { let mut s = format!("{}", mag); if !s.contains('.') && !s.contains('e') { s.push_str(".0"); } s };
    if x.is_sign_negative() { format!("(-{body})") } else { body }
}

pub fn sjis_decode(bytes: &[u8]) -> Option<String> { Encoded(bytes.to_vec()).decode(DEFAULT_ENCODING).ok() }
pub fn sjis_encode(s: &str) -> Option<Vec<u8>> { Encoded::encode(&sp!(s), DEFAULT_ENCODING).ok().map(|e| e.0) }

pub fn string_literal(s: &str) -> String { truth::fmt::stringify(&ast::Expr::from(s.to_string())) }

fn arg_text(a: &Arg) -> String {
    match a {
        Arg::Int(v, false) => format!("{}", *v as u32),
        Arg::Int(v, true) => format!("$REG[{v}]"),
        Arg::Float(b, false) => float_text(*b),
        Arg::Float(b, true) => format!("%REG[{}]", f32::from_bits(*b) as i32),
        Arg::Str(s) => string_literal(&sjis_decode(s).expect("generated strings are valid Shift-JIS")),
    }
}

// ---------------------------------------------------------------------------------------------
// running the implementation

#[derive(Copy, Clone, PartialEq, Eq, Debug)]
pub enum Lang { Anm, Timeline }

impl Lang {
    fn name(self) -> &'static str { match self { Lang::Anm => "anm", Lang::Timeline => "timeline" } }
    fn from_name(s: &str) -> Lang { if s == "timeline" { Lang::Timeline } else { Lang::Anm } }
    fn key(self) -> LanguageKey { match self { Lang::Anm => LanguageKey::Anm, Lang::Timeline => LanguageKey::Timeline } }
    fn game(self) -> Game { match self { Lang::Anm => Game::Th12, Lang::Timeline => Game::Th06 } }
}

pub fn mapfile_text(lang: Lang, abis: &[Vec<Enc>]) -> String {
    let mut s = String::new();
    match lang {
        Lang::Anm => s.push_str("!anmmap\n"),
        Lang::Timeline => s.push_str("!eclmap\n"),
    }
    s.push_str("!enum(name=\"VerifEnum\")\n");
    s.push_str(match lang { Lang::Anm => "!ins_signatures\n", Lang::Timeline => "!timeline_ins_signatures\n" });
    for (k, abi) in abis.iter().enumerate() { s.push_str(&format!("{} {}\n", 900 + k, abi_text(abi))); }
    s
}

/// warning / error classes in emission order (first line of each diagnostic, cut like `diag_class`)
pub(crate) fn classes(diagnostics: &str, prefix: &str) -> Vec<String> {
    let mut out = vec![];
    for line in diagnostics.lines() {
        if let Some(rest) = line.strip_prefix(prefix) {
            // drop the "instr N (...): argument N: " context chain
            let msg = rest.rsplit(": ").next().unwrap_or(rest);
            let cut = msg.find(|c: char| c == '\'' || c == '"' || c == '`' || c == '!' || c.is_ascii_digit()).unwrap_or(msg.len());
            out.push(msg[..cut].trim().to_string());
        }
    }
    out
}

fn make_hooks(lang: Lang) -> llir::TestLanguage {
    let mut h = llir::TestLanguage::default();
    h.language = lang.key();
    h
}

/// text of a block with one `ins_N(args)` statement per call
pub fn block_text(calls: &[(usize, Vec<Arg>)]) -> String {
    let mut text = String::from("{\n");
    for (k, args) in calls { text.push_str(&format!("    ins_{}({});\n", 900 + k, args.iter().map(arg_text).collect::<Vec<_>>().join(", "))); }
    text.push_str("}\n");
    text
}

/// the pass sequence of the real compilers (`formats::anm::compile`) around `Lowerer::lower_sub`
fn lower_block(truth: &mut truth::Truth, hooks: &llir::TestLanguage, text: &str) -> Result<Vec<RawInstr>, truth::ErrorReported> {
    let mut block = truth.parse::<ast::Block>("<input>", text.as_bytes())?.value;
    let ctx = truth.ctx();
    truth::passes::resolution::assign_languages(&mut block, hooks.language, ctx)?;
    truth::passes::resolution::resolve_names(&block, ctx)?;
    truth::passes::type_check::run(&block, ctx)?;
    truth::passes::evaluate_const_vars::run(ctx)?;
    truth::passes::const_simplify::run(&mut block, ctx)?;
    truth::passes::desugar_blocks::run(&mut block, ctx, hooks.language)?;
    lower_stmts(ctx, hooks, &block.0)
}

fn lower_stmts(ctx: &mut truth::context::CompilerContext, hooks: &llir::TestLanguage, stmts: &[truth::pos::Sp<ast::Stmt>]) -> Result<Vec<RawInstr>, truth::ErrorReported> {
    let mut errors = truth::error::ErrorFlag::new();
    let mut lowerer = llir::Lowerer::new(hooks);
    let (instrs, _) = lowerer.lower_sub(stmts, None, ctx, false).unwrap_or_else(|e| { errors.set(e); (vec![], None) });
    lowerer.finish(ctx).unwrap_or_else(|e| errors.set(e));
    errors.into_result(())?;
    Ok(instrs)
}

fn raise_instrs(truth: &mut truth::Truth, hooks: &llir::TestLanguage, instrs: &[RawInstr]) -> Result<Vec<truth::pos::Sp<ast::Stmt>>, truth::ErrorReported> {
    let emitter = truth.emitter();
    let ctx = truth.ctx();
    let options = truth::DecompileOptions::default();
    let const_proof = truth::passes::evaluate_const_vars::run(ctx)?;
    let script = llir::RawScript { instrs: instrs.to_vec(), file_offset: None };
    let mut raiser = llir::Raiser::new(hooks, ctx.emitter, ctx, &options, const_proof)?;
    raiser.raise_instrs_to_sub_ast(&emitter, &script, &ctx)
}

fn raw_sexp(i: &RawInstr) -> Sexp {
    Sexp::app("raw", vec![Sexp::atom(hex(&i.args_blob)), Sexp::int(i.param_mask), match i.extra_arg { Some(v) => Sexp::int(v), None => Sexp::atom("none") }])
}

/// one raised argument -> canonical form; labels are resolved (every instruction has time 0 and
/// labels are named after their offset)
fn raised_arg(e: &ast::Expr) -> Sexp {
    match e {
        ast::Expr::LitInt { value, .. } => Arg::Int(*value, false).to_sexp(),
        ast::Expr::LitFloat { value } => Arg::Float(value.to_bits(), false).to_sexp(),
        ast::Expr::LitString(s) => match sjis_encode(&s.string) { Some(b) => Arg::Str(b).to_sexp(), None => Sexp::app("unencodable", vec![Sexp::str(s.string.clone())]) },
        ast::Expr::Var(v) => match &v.value.name {
            ast::VarName::Reg { reg, .. } => match v.value.ty_sigil {
                Some(ast::VarSigil::Float) => Arg::Float((reg.0 as f32).to_bits(), true).to_sexp(),
                _ => Arg::Int(reg.0, true).to_sexp(),
            },
            ast::VarName::Normal { ident, .. } => Sexp::app("name", vec![Sexp::str(ident.as_raw().to_string())]),
        },
        ast::Expr::LabelProperty { label, keyword } => {
            let name = label.value.to_string();
            let off: i64 = name.trim_start_matches("label_").trim_end_matches('r').parse().unwrap_or(-1);
            match keyword.value {
                ast::LabelPropertyKeyword::OffsetOf => Arg::Int(off as i32, false).to_sexp(),
                ast::LabelPropertyKeyword::TimeOf => Arg::Int(0, false).to_sexp(),
            }
        },
        ast::Expr::UnOp(op, x) if op.value == ast::UnOpKind::Neg => match &x.value {
            ast::Expr::LitInt { value, .. } => Arg::Int(value.wrapping_neg(), false).to_sexp(),
            ast::Expr::LitFloat { value } => Arg::Float((-*value).to_bits(), false).to_sexp(),
            _ => Sexp::atom("other"),
        },
        _ => Sexp::atom("other"),
    }
}

fn raised_calls(stmts: &[truth::pos::Sp<ast::Stmt>]) -> Vec<Sexp> {
    let mut out = vec![];
    for stmt in stmts {
        if let ast::StmtKind::Expr(e) = &stmt.kind {
            if let ast::Expr::Call(call) = &e.value {
                let mut items: Vec<Sexp> = call.args.iter().map(|a| raised_arg(&a.value)).collect();
                for p in &call.pseudos { items.push(Sexp::app("pseudo", vec![Sexp::str(truth::fmt::stringify(&p.value.value.value))])); }
                out.push(Sexp::list(items));
            }
        }
    }
    out
}

fn str_list(head: &str, xs: Vec<String>) -> Sexp { Sexp::app(head, xs.into_iter().map(Sexp::str).collect()) }

/// decompile `instrs` and (when that works) compile the raised statements again
fn decode_and_reencode(truth: &mut truth::Truth, hooks: &llir::TestLanguage, instrs: &[RawInstr], out: &mut Vec<Sexp>) {
    let before = truth.get_captured_diagnostics().unwrap_or_default().len();
    match raise_instrs(truth, hooks, instrs) {
        Ok(stmts) => {
            let diag = truth.get_captured_diagnostics().unwrap_or_default()[before..].to_string();
            out.push(Sexp::app("dec", raised_calls(&stmts)));
            out.push(str_list("dw", classes(&diag, "warning: ")));
            let before2 = truth.get_captured_diagnostics().unwrap_or_default().len();
            // the user's path: print the decompiled statements, compile that text again
            let text = truth::fmt::stringify(&ast::Block(stmts));
            match lower_block(truth, hooks, &text) {
                Ok(again) => out.push(Sexp::app("re", again.iter().map(raw_sexp).collect())),
                Err(e) => { e.ignore(); let d = truth.get_captured_diagnostics().unwrap_or_default()[before2..].to_string(); out.push(str_list("reerr", classes(&d, "error: ").into_iter().take(1).collect())); },
            }
        },
        Err(e) => {
            e.ignore();
            let diag = truth.get_captured_diagnostics().unwrap_or_default()[before..].to_string();
            out.push(str_list("decerr", classes(&diag, "error: ").into_iter().take(1).collect()));
        },
    }
}

/// `(call LANG (ABI...) (K ARG...)...)`
fn eval_call(lang: Lang, abis: &[Vec<Enc>], calls: &[(usize, Vec<Arg>)], muts: &[Mutation]) -> Sexp {
    let mut scope = truth::Builder::new().capture_diagnostics(true).build();
    let mut truth = scope.truth();
    let hooks = make_hooks(lang);
    if let Err(e) = truth.apply_mapfile_str(&mapfile_text(lang, abis), lang.game()) {
        e.ignore();
        return str_list("sigerr", classes(&truth.get_captured_diagnostics().unwrap_or_default(), "error: ").into_iter().take(1).collect());
    }
    let text = block_text(calls);
    let mut instrs = match lower_block(&mut truth, &hooks, &text) {
        Ok(i) => i,
        Err(e) => { e.ignore(); return str_list("err", classes(&truth.get_captured_diagnostics().unwrap_or_default(), "error: ").into_iter().take(1).collect()); },
    };
    let cw = classes(&truth.get_captured_diagnostics().unwrap_or_default(), "warning: ");
    let mut out = vec![str_list("cw", cw), Sexp::app("ins", instrs.iter().map(raw_sexp).collect())];
    for m in muts { m.apply(&mut instrs); }
    if !muts.is_empty() { out.push(Sexp::app("mut", instrs.iter().map(raw_sexp).collect())); }
    decode_and_reencode(&mut truth, &hooks, &instrs, &mut out);
    Sexp::app("ok", out)
}

/// `(blob LANG (ABI...) (K xBLOB MASK ARG0)...)`: arbitrary instruction contents
fn eval_blob(lang: Lang, abis: &[Vec<Enc>], raws: &[(usize, Vec<u8>, u16, Option<i16>)]) -> Sexp {
    let mut scope = truth::Builder::new().capture_diagnostics(true).build();
    let mut truth = scope.truth();
    let hooks = make_hooks(lang);
    if let Err(e) = truth.apply_mapfile_str(&mapfile_text(lang, abis), lang.game()) {
        e.ignore();
        return str_list("sigerr", classes(&truth.get_captured_diagnostics().unwrap_or_default(), "error: ").into_iter().take(1).collect());
    }
    let instrs: Vec<RawInstr> = raws.iter().map(|(k, blob, mask, arg0)| RawInstr {
        opcode: 900 + *k as u16, args_blob: blob.clone(), param_mask: *mask, extra_arg: *arg0, ..RawInstr::DEFAULTS
    }).collect();
    let mut out = vec![];
    decode_and_reencode(&mut truth, &hooks, &instrs, &mut out);
    Sexp::app("ok", out)
}

/// `(sig LANG ABI)`: does the mapfile loader accept the signature?
fn eval_sig(lang: Lang, abi_text: &str) -> Sexp {
    let mut scope = truth::Builder::new().capture_diagnostics(true).build();
    let mut truth = scope.truth();
    let mut s = String::new();
    s.push_str(match lang { Lang::Anm => "!anmmap\n", Lang::Timeline => "!eclmap\n" });
    s.push_str("!enum(name=\"VerifEnum\")\n");
    s.push_str(match lang { Lang::Anm => "!ins_signatures\n", Lang::Timeline => "!timeline_ins_signatures\n" });
    s.push_str(&format!("900 {abi_text}\n"));
    match truth.apply_mapfile_str(&s, lang.game()) {
        Ok(()) => Sexp::app("accept", vec![]),
        Err(e) => {
            e.ignore();
            if classes(&truth.get_captured_diagnostics().unwrap_or_default(), "error: ").is_empty() { return fail("rejected-without-error-diagnostic", abi_text.to_string()); }
            Sexp::app("reject", vec![])
        },
    }
}

/// The same calls through a real game format: ANM TH12 source -> file bytes -> `AnmFile` ->
/// `RawInstr`s -> decompiled text -> recompiled bytes.
fn eval_anm_file(abis: &[Vec<Enc>], calls: &[(usize, Vec<Arg>)]) -> Sexp {
    use crate::tc;
    let maps = vec![mapfile_text(Lang::Anm, abis)];
    let head = "entry { path: \"a.png\", has_data: false, img_width: 16, img_height: 16, img_format: 3, offset_x: 0, offset_y: 0, colorkey: 0, memory_priority: 0, low_res_scale: false, sprites: {} }\n";
    let text = format!("{head}script s {}", block_text(calls));
    let game = Game::Th12;
    let a = tc::compile(tc::Format::Anm, game, &maps, text.as_bytes());
    let bytes = match a.value { Some(b) => b, None => return str_list("err", classes(&a.diagnostics, "error: ").into_iter().take(1).collect()) };
    let read = tc::with_truth(tc::Format::Anm, game, &maps, |truth| tc::read_bytes(truth, tc::Format::Anm, game, &bytes));
    let instrs: Vec<RawInstr> = match read.value {
        Some(tc::Compiled::Anm(f)) => f.entries.iter().flat_map(|e| e.scripts.values().flat_map(|s| s.script.instrs.clone())).collect(),
        _ => return fail("anm-file-unreadable-after-compile", read.diagnostics),
    };
    let mut out = vec![str_list("cw", classes(&a.diagnostics, "warning: ")), Sexp::app("ins", instrs.iter().map(raw_sexp).collect())];
    // the TestLanguage pipeline (the one compared with the model) must produce the same instructions
    let via_test = eval_call(Lang::Anm, abis, calls, &[]);
    let same = via_test.args().iter().find(|x| x.head() == Some("ins")).map(|x| x.args() == out[1].args());
    if same != Some(true) { return fail("anm-file-instructions-differ-from-testlanguage", format!("file: {} testlanguage: {via_test}", out[1])); }
    let d = tc::decompile(tc::Format::Anm, game, &maps, &bytes, &truth::DecompileOptions::default(), 100);
    match d.value {
        Some(src) => {
            let b = tc::compile(tc::Format::Anm, game, &maps, src.as_bytes());
            let mut rc = vec![Sexp::atom(match &b.value { Some(x) if *x == bytes => "same", Some(_) => "differ", None => "error" })];
            if b.value.is_none() { rc.push(Sexp::str(classes(&b.diagnostics, "error: ").into_iter().next().unwrap_or_default())); }
            out.push(Sexp::app("recompiled", rc));
            out.push(str_list("dw", classes(&d.diagnostics, "warning: ")));
        },
        None => out.push(str_list("decerr", classes(&d.diagnostics, "error: ").into_iter().take(1).collect())),
    }
    Sexp::app("ok", out)
}

// ---------------------------------------------------------------------------------------------
// mutations of compiled instructions (decode direction)

#[derive(Clone, Debug)]
pub enum Mutation { Byte { ins: usize, pos: usize, xor: u8 }, ByteFromEnd { ins: usize, pos: usize, xor: u8 }, Mask { ins: usize, xor: u16 }, Truncate { ins: usize, n: usize }, Extend { ins: usize, bytes: Vec<u8> } }

impl Mutation {
    fn apply(&self, instrs: &mut [RawInstr]) {
        match self {
            Mutation::Byte { ins, pos, xor } => if let Some(i) = instrs.get_mut(*ins) { if let Some(b) = i.args_blob.get_mut(*pos) { *b ^= xor; } },
            Mutation::ByteFromEnd { ins, pos, xor } => if let Some(i) = instrs.get_mut(*ins) { let n = i.args_blob.len(); if *pos < n { i.args_blob[n - 1 - pos] ^= xor; } },
            Mutation::Mask { ins, xor } => if let Some(i) = instrs.get_mut(*ins) { i.param_mask ^= xor; },
            Mutation::Truncate { ins, n } => if let Some(i) = instrs.get_mut(*ins) { let l = i.args_blob.len(); i.args_blob.truncate(l.saturating_sub(*n)); },
            Mutation::Extend { ins, bytes } => if let Some(i) = instrs.get_mut(*ins) { i.args_blob.extend_from_slice(bytes); },
        }
    }
    fn to_sexp(&self) -> Sexp {
        match self {
            Mutation::Byte { ins, pos, xor } => Sexp::app("byte", vec![Sexp::int(*ins as i64), Sexp::int(*pos as i64), Sexp::int(*xor)]),
            Mutation::ByteFromEnd { ins, pos, xor } => Sexp::app("byte-from-end", vec![Sexp::int(*ins as i64), Sexp::int(*pos as i64), Sexp::int(*xor)]),
            Mutation::Mask { ins, xor } => Sexp::app("mask", vec![Sexp::int(*ins as i64), Sexp::int(*xor)]),
            Mutation::Truncate { ins, n } => Sexp::app("truncate", vec![Sexp::int(*ins as i64), Sexp::int(*n as i64)]),
            Mutation::Extend { ins, bytes } => Sexp::app("extend", vec![Sexp::int(*ins as i64), Sexp::atom(hex(bytes))]),
        }
    }
    fn from_sexp(s: &Sexp) -> Mutation {
        let a = s.args();
        match s.head().expect("mutation head") {
            "byte" => Mutation::Byte { ins: a[0].as_usize(), pos: a[1].as_usize(), xor: a[2].as_i64() as u8 },
            "byte-from-end" => Mutation::ByteFromEnd { ins: a[0].as_usize(), pos: a[1].as_usize(), xor: a[2].as_i64() as u8 },
            "mask" => Mutation::Mask { ins: a[0].as_usize(), xor: a[1].as_i64() as u16 },
            "truncate" => Mutation::Truncate { ins: a[0].as_usize(), n: a[1].as_usize() },
            "extend" => Mutation::Extend { ins: a[0].as_usize(), bytes: unhex(a[1].as_atom()) },
            h => panic!("bad mutation {h}"),
        }
    }
}

// ---------------------------------------------------------------------------------------------
// case <-> S-expression

fn calls_sexp(calls: &[(usize, Vec<Arg>)]) -> Vec<Sexp> {
    calls.iter().map(|(k, args)| { let mut v = vec![Sexp::int(*k as i64)]; v.extend(args.iter().map(|a| a.to_sexp())); Sexp::list(v) }).collect()
}

fn calls_from_sexp(xs: &[Sexp]) -> Vec<(usize, Vec<Arg>)> {
    xs.iter().map(|c| { let l = c.as_list(); (l[0].as_usize(), l[1..].iter().map(Arg::from_sexp).collect()) }).collect()
}

pub fn call_case(kind: &str, lang: Lang, abis: &[Vec<Enc>], calls: &[(usize, Vec<Arg>)], muts: &[Mutation]) -> Sexp {
    let mut v = vec![Sexp::atom(lang.name()), Sexp::list(abis.iter().map(|a| abi_sexp(a)).collect()), Sexp::list(calls_sexp(calls))];
    if kind == "mutate" { v.push(Sexp::list(muts.iter().map(|m| m.to_sexp()).collect())); }
    Sexp::app(kind, v)
}

// ---------------------------------------------------------------------------------------------
// what the property says about a call (independent of the Lean model: this is the oracle)

fn fits(letter: char, v: i32) -> bool {
    let (w, signed) = int_letter_info(letter);
    match (w, signed) {
        (1, true) => (-128..128).contains(&v),
        (1, false) => (0..256).contains(&v),
        (2, true) => (-32768..32768).contains(&v),
        (2, false) => (0..65536).contains(&v),
        _ => true,
    }
}

#[derive(Debug, PartialEq)]
enum Expect {
    /// every argument is of the right type and representable: must compile, decode to itself, re-encode to the same bytes
    RoundTrip,
    /// must be diagnosed (error, or at least a warning): reason
    Diagnose(&'static str),
    /// outside what the property talks about (wrong arity / types): only crashes count
    Unspecified,
    /// must round-trip, but the signature combines attributes in a way that has its own failure signature
    Quirk(&'static str),
}

/// classification of one call against its signature, by the property statement
fn expect_of(abi: &[Enc], args: &[Arg], furi_len: &mut usize) -> Expect { expect_and_quirk(abi, args, furi_len).0 }

/// does the call hit the `nulless` + `furibug` + pending furigana bytes combination?
fn has_quirk(abi: &[Enc], args: &[Arg], furi_len: &mut usize) -> bool { expect_and_quirk(abi, args, furi_len).1 }

fn expect_and_quirk(abi: &[Enc], args: &[Arg], furi_len: &mut usize) -> (Expect, bool) {
    let mut quirk = false;
    let e = expect_inner(abi, args, furi_len, &mut quirk);
    (e, quirk)
}

fn expect_inner(abi: &[Enc], args: &[Arg], furi_len: &mut usize, quirk: &mut bool) -> Expect {
    let params: Vec<&Enc> = abi.iter().filter(|e| !e.is_padding()).collect();
    if params.len() != args.len() { return Expect::Unspecified; }
    let mut worst = Expect::RoundTrip;
    let has_arg0 = matches!(params.first(), Some(Enc::Int { arg0: true, .. }));
    for (idx, (e, a)) in params.iter().zip(args).enumerate() {
        // the mask has 16 bits (the arg0 parameter does not take one): a register after them cannot be marked
        let bit_index = if has_arg0 { idx.saturating_sub(1) } else { idx };
        if a.is_reg() && bit_index >= 16 && !(has_arg0 && idx == 0) { worst = Expect::Diagnose("register-beyond-16-parameters"); }
        match (e, a) {
            (Enc::Int { letter, arg0, imm, .. }, Arg::Int(v, reg)) => {
                if *reg && (*imm || *arg0) { return Expect::Diagnose("register-in-immediate-parameter"); }
                // an arg0 parameter is stored in the 16-bit signed header field, whatever its letter says
                if (*arg0 && !fits('s', *v)) || (!*arg0 && !fits(*letter, *v)) { worst = Expect::Diagnose("int-misfit"); }
            },
            (Enc::O, Arg::Int(_, reg)) | (Enc::T, Arg::Int(_, reg)) => if *reg { return Expect::Diagnose("register-in-immediate-parameter"); },
            (Enc::Float { imm }, Arg::Float(_, reg)) => if *reg && *imm { return Expect::Diagnose("register-in-immediate-parameter"); },
            (Enc::Str { size, furibug, .. }, Arg::Str(s)) => {
                let extra = if *furibug { *furi_len } else { 0 };
                if extra > 0 && matches!(size, StrSize::Fixed(_, true)) { *quirk = true; if worst == Expect::RoundTrip { worst = Expect::Quirk("furibug-bytes-follow-nulless-string"); } }
                match size {
                    StrSize::Fixed(len, nulless) => if s.len() + (!*nulless as usize) + extra > *len { return Expect::Diagnose("string-too-large"); },
                    StrSize::BlobEnd(bs) | StrSize::Pascal(bs) => if *bs == 0 { return Expect::Diagnose("zero-block-size"); },
                }
                if *furibug {
                    // state after this argument (the previous furigana bytes are consumed)
                    *furi_len = 0;
                    if s.first() == Some(&0x7c) {
                        let l = s.len() + 1 + extra;
                        *furi_len = match size { StrSize::Fixed(len, _) => *len, StrSize::BlobEnd(bs) | StrSize::Pascal(bs) => if *bs == 0 { 0 } else { (l + bs - 1) / bs * bs } };
                    }
                }
            },
            _ => return Expect::Unspecified,
        }
    }
    worst
}

fn judge_call(case: &Sexp, result: &Sexp) -> Option<Failure> {
    let a = case.args();
    let abis: Vec<Vec<Enc>> = a[1].as_list().iter().map(abi_from_sexp).collect();
    let calls = calls_from_sexp(a[2].as_list());
    let lang = Lang::from_name(a[0].as_atom());
    let mutated = case.head() == Some("mutate");
    // what the property demands of the whole program
    let mut furi_len = 0usize;
    let mut expects = vec![];
    for (k, args) in &calls { expects.push(expect_of(&abis[*k], args, &mut furi_len)); }
    let quirk = expects.iter().find_map(|e| if let Expect::Quirk(r) = e { Some(*r) } else { None });
    let all_rt = expects.iter().all(|e| matches!(e, Expect::RoundTrip | Expect::Quirk(_)));
    let first_diag = expects.iter().find_map(|e| if let Expect::Diagnose(r) = e { Some(*r) } else { None });
    let unspecified = expects.iter().any(|e| *e == Expect::Unspecified);
    // with an `arg0` parameter the register mask is shifted by one on decode (latent: only
    // timelines have arg0 and they have no registers); not judged
    let arg0_with_regs = calls.iter().any(|(k, args)| abis[*k].first().map_or(false, |e| matches!(e, Enc::Int { arg0: true, .. })) && args.iter().any(|x| x.is_reg()));
    let _ = lang;
    let field = |name: &str| result.args().iter().find(|x| x.head() == Some(name)).cloned();
    match result.head() {
        Some("ok") => {
            if unspecified { return None; }
            if let Some(reason) = first_diag {
                let warned = field("cw").map_or(false, |w| !w.args().is_empty());
                if !warned {
                    return Some(Failure { signature: format!("not-diagnosed {reason}"), what: format!("compiles without any diagnostic although the call has: {reason}; written: {}", field("ins").map(|x| x.to_string()).unwrap_or_default()) });
                }
                return None;
            }
            if !all_rt || arg0_with_regs { return None; }
            if case.head() == Some("anmfile") {
                if field("decerr").is_some() { return Some(Failure { signature: "compiled-instructions-do-not-decompile".into(), what: format!("{result}") }); }
                if field("dw").map_or(false, |w| !w.args().is_empty()) { return Some(Failure { signature: "decode-of-encode-warns".into(), what: format!("{result}") }); }
                if let Some(rc) = field("recompiled") { if rc.args()[0].as_atom() != "same" { return Some(Failure { signature: format!("anm-file-recompile-{}", rc.args()[0].as_atom()), what: format!("{result}") }); } }
                return None;
            }
            if mutated {
                // a mutated instruction that decodes without warning must re-encode to itself
                let dw_empty = field("dw").map_or(false, |w| w.args().is_empty());
                if dw_empty {
                    if let (Some(m), Some(re)) = (field("mut"), field("re")) {
                        if m.args() != re.args() && mutation_is_lossless_class(&a[3], &abis[0]) {
                            return Some(Failure { signature: "decoded-without-warning-but-reencodes-differently".into(), what: format!("instructions {m} decode to {} without warning and re-encode to {re}", field("dec").map(|x| x.to_string()).unwrap_or_default()) });
                        }
                    }
                }
                return None;
            }
            // decode(encode(x)) = x
            let want: Vec<Sexp> = calls.iter().map(|(_, args)| Sexp::list(args.iter().map(|x| x.to_sexp()).collect())).collect();
            match field("dec") {
                Some(d) => if d.args() != &want[..] {
                    return Some(Failure { signature: match quirk { Some(q) => format!("decode-of-encode-differs {q}"), None => "decode-of-encode-differs".into() }, what: format!("compiled {} decodes to {d}, expected {}", field("ins").map(|x| x.to_string()).unwrap_or_default(), Sexp::list(want)) });
                },
                None => return Some(Failure { signature: match quirk { Some(q) => format!("decode-of-encode-differs {q}"), None => "compiled-instructions-do-not-decompile".into() }, what: format!("{result}") }),
            }
            if field("dw").map_or(false, |w| !w.args().is_empty()) {
                return Some(Failure { signature: "decode-of-encode-warns".into(), what: format!("{result}") });
            }
            // encode(decode(b)) = b on the image
            match (field("ins"), field("re")) {
                (Some(i), Some(r)) => if i.args() != r.args() {
                    return Some(Failure { signature: "reencode-of-decode-differs".into(), what: format!("{i} re-encodes to {r}") });
                },
                _ => return Some(Failure { signature: "decompiled-instructions-do-not-recompile".into(), what: format!("{result}") }),
            }
            None
        },
        Some("err") => {
            if all_rt && !unspecified {
                let cls = result.args().get(0).map(|x| x.as_atom().to_string()).unwrap_or_default();
                return Some(Failure { signature: format!("valid-call-rejected {cls}"), what: format!("every argument has the parameter's type and fits, but compilation fails: {cls}") });
            }
            None
        },
        _ => default_judge(result),
    }
}

/// mutations after which "no warning" promises a faithful re-encoding: bytes of fixed-width
/// fields, register bits of parameters that may be registers
fn mutation_is_lossless_class(muts: &Sexp, abi: &[Enc]) -> bool {
    let params: Vec<&Enc> = abi.iter().filter(|e| !e.is_padding()).collect();
    muts.as_list().iter().all(|m| match m.head() {
        Some("byte") => true,
        // a register bit on a parameter that cannot be a register is dropped without warning
        // (acknowledged by a TODO in decode_args_with_abi); that is a byte-round-trip matter, not judged here
        Some("mask") => {
            let x = m.args()[1].as_i64() as u16;
            x.count_ones() == 1 && matches!(params.get(x.trailing_zeros() as usize), Some(Enc::Int { imm: false, arg0: false, .. }))
        },
        _ => false,
    })
}

// ---------------------------------------------------------------------------------------------
// generators

const KANA: &[&str] = &["あ", "い", "ア", "カ", "ﾊ", "ﾟ", "ー", "、"];
const KANJI: &[&str] = &["東", "方", "紅", "魔", "郷", "表", "能", "ソ", "十", "構", "噂", "予", "貼", "―", "ポ", "ァ"];

/// text whose Shift-JIS encoding round-trips; includes trail bytes 0x5C (表 ソ 十 能 構 噂 予 貼 ―) and 0x7C (ポ)
pub fn gen_text(rng: &mut Rng, max_chars: usize) -> String {
    let n = match rng.below(6) { 0 => 0, 1 => 1, 2 => rng.below(5), _ => rng.below(max_chars + 1) };
    let mut s = String::new();
    if rng.chance(1, 6) { s.push('|'); }
    for _ in 0..n {
        match rng.below(10) {
            0..=4 => s.push((0x20u8 + rng.below(0x5f) as u8) as char),
            5 | 6 => s.push_str(*rng.pick(KANA)),
            7 | 8 => s.push_str(*rng.pick(KANJI)),
            _ => s.push(*rng.pick(&['\\', '"', '|', '~', 'w', '\t', '\n', '%', '{'])),
        }
    }
    s
}

fn gen_mask(rng: &mut Rng) -> [u8; 3] {
    match rng.below(5) {
        0 => [0x77, 0, 0],
        1 => [0x77, 7, 16],
        2 => [rng.next_u32() as u8, 0, 0],
        3 => [0xff, 0xff, 0xff],
        _ => [rng.next_u32() as u8, rng.next_u32() as u8, rng.next_u32() as u8],
    }
}

fn gen_int_enc(rng: &mut Rng) -> Enc {
    let letter = *rng.pick(&['S', 'S', 's', 's', 'c', 'U', 'u', 'u', 'b', 'b', 'C', 'n', 'N', 'E']);
    Enc::Int { letter, arg0: false, imm: rng.chance(1, 6), hex: rng.chance(1, 8), en: rng.chance(1, 10) }
}

fn gen_str_enc(rng: &mut Rng, last: bool) -> Enc {
    let furibug = rng.chance(1, 4);
    let kind = if last { rng.below(3) } else { 1 + rng.below(2) };
    let bs = *rng.pick(&[1usize, 2, 3, 4, 4, 4, 5, 8, 16]);
    match kind {
        0 => { let letter = *rng.pick(&['z', 'm']); Enc::Str { letter, size: StrSize::BlobEnd(bs), mask: if letter == 'z' && rng.chance(2, 3) { [0, 0, 0] } else { gen_mask(rng) }, furibug } },
        1 => {
            let letter = *rng.pick(&['z', 'm']);
            let nulless = rng.chance(1, 3);
            // `furibug` on a `nulless` string is rejected by the signature parser
            Enc::Str { letter, size: StrSize::Fixed(*rng.pick(&[0usize, 1, 2, 4, 8, 12, 16, 32, 48]), nulless), mask: if letter == 'z' && rng.chance(2, 3) { [0, 0, 0] } else { gen_mask(rng) }, furibug: furibug && !nulless }
        },
        _ => Enc::Str { letter: 'p', size: StrSize::Pascal(bs), mask: if rng.chance(2, 3) { [0, 0, 0] } else { gen_mask(rng) }, furibug },
    }
}

/// a signature that the validator must accept
pub fn gen_valid_abi(rng: &mut Rng, lang: Lang, strings: bool) -> Vec<Enc> {
    let n = match rng.below(8) { 0 => 0, 1 => 1, 2 => 16, 3 => 12 + rng.below(5), _ => 1 + rng.below(8) };
    let mut abi: Vec<Enc> = vec![];
    let want_jump = rng.chance(1, 5);
    let (mut have_o, mut have_t) = (false, false);
    for i in 0..n {
        let last = i + 1 == n;
        let e = match rng.below(20) {
            0..=7 => gen_int_enc(rng),
            8..=10 => Enc::Float { imm: rng.chance(1, 6) },
            11 | 12 => Enc::Pad(true),
            13 | 14 => Enc::Pad(false),
            15 if want_jump && !have_o => { have_o = true; Enc::O },
            16 if want_jump && have_o && !have_t => { have_t = true; Enc::T },
            17 | 18 | 19 if strings => gen_str_enc(rng, last),
            _ => gen_int_enc(rng),
        };
        abi.push(e);
    }
    if lang == Lang::Timeline && rng.chance(2, 3) {
        let letter = *rng.pick(&['s', 'u', 'c', 'b']);
        abi.insert(0, Enc::Int { letter, arg0: true, imm: rng.chance(1, 3), hex: false, en: false });
        abi.truncate(16);
        // a ToBlobEnd string must stay last
        let n = abi.len();
        for (i, e) in abi.iter_mut().enumerate() { if i + 1 != n { if let Enc::Str { size, .. } = e { if let StrSize::BlobEnd(bs) = size { *size = StrSize::Pascal(*bs); } } } }
        for e in abi.iter_mut() { if let Enc::Str { letter, size: StrSize::Pascal(_), .. } = e { *letter = 'p'; } }
    }
    debug_assert!(abi_expected_valid(&abi), "{abi:?}");
    abi
}

fn boundary_int(rng: &mut Rng, letter: char, fit: bool) -> i32 {
    let (w, signed) = int_letter_info(letter);
    let (lo, hi): (i64, i64) = match (w, signed) { (1, true) => (-128, 127), (1, false) => (0, 255), (2, true) => (-32768, 32767), (2, false) => (0, 65535), _ => (i32::MIN as i64, i32::MAX as i64) };
    if fit {
        let c = [lo, hi, 0, 1, -1, lo + 1, hi - 1, hi / 2, 10000, 42, -2, 127, 128, 255, 256];
        for _ in 0..20 { let v = *rng.pick(&c); if v >= lo && v <= hi { return v as i32; } }
        rng.range(lo, hi) as i32
    } else {
        if w == 4 { return rng.int_boundary(); }
        let c = [lo - 1, hi + 1, hi + 2, lo - 1000, 65536, 70000, -70000, i32::MAX as i64, i32::MIN as i64, 0x1_0000 + 5, 256, -129, 300];
        for _ in 0..20 { let v = *rng.pick(&c); if v < lo || v > hi { return v as i32; } }
        (hi + 1) as i32
    }
}

#[derive(Copy, Clone, PartialEq, Eq)]
pub enum ArgMode { Valid, IntMisfit, BadReg, StringTooLarge }

/// arguments for one call; `furi` carries the length of pending furigana bytes
pub fn gen_args(rng: &mut Rng, abi: &[Enc], mode: ArgMode, allow_regs: bool, furi: &mut usize) -> Vec<Arg> {
    // with an arg0 parameter and registers (possible only in the TestLanguage) register bits shift on decode;
    // keep float immediates valid as register ids so that the shifted reading is still printable
    let safe_floats = allow_regs && matches!(abi.first(), Some(Enc::Int { arg0: true, .. }));
    let mut args = vec![];
    let params: Vec<&Enc> = abi.iter().filter(|e| !e.is_padding()).collect();
    // position that carries the defect
    let victim = if params.is_empty() { 0 } else { rng.below(params.len()) };
    for (i, e) in params.iter().enumerate() {
        let hit = i == victim;
        match e {
            Enc::Int { letter, arg0, imm, .. } => {
                let reg_allowed = allow_regs && !*imm && !*arg0;
                if mode == ArgMode::BadReg && hit && (*imm || *arg0) { args.push(Arg::Int(rng.range(0, 100) as i32, true)); continue; }
                let fit = !(mode == ArgMode::IntMisfit && hit);
                let letter_eff = if *arg0 { 's' } else { *letter };
                if reg_allowed && rng.chance(1, 3) {
                    args.push(Arg::Int(boundary_int(rng, letter_eff, fit), true));
                } else {
                    let v = boundary_int(rng, letter_eff, fit);
                    args.push(Arg::Int(v, false));
                }
            },
            Enc::O => args.push(if mode == ArgMode::BadReg && hit { Arg::Int(0, true) } else { Arg::Int(0, false) }),
            Enc::T => args.push(if mode == ArgMode::BadReg && hit { Arg::Int(3, true) } else { Arg::Int(if rng.chance(1, 3) { 0 } else { rng.int_boundary() }, false) }),
            Enc::Float { imm } => {
                if mode == ArgMode::BadReg && hit && *imm { args.push(Arg::Float((rng.range(0, 100) as f32).to_bits(), true)); continue; }
                if allow_regs && !*imm && rng.chance(1, 3) { args.push(Arg::Float((rng.range(-100, 20000) as f32).to_bits(), true)); }
                else if safe_floats { args.push(Arg::Float((rng.range(-100, 20000) as f32).to_bits(), false)); }
                else { args.push(Arg::Float(rng.float_bits(), false)); }
            },
            Enc::Str { size, furibug, .. } => {
                let extra = if *furibug { *furi } else { 0 };
                let too_large = mode == ArgMode::StringTooLarge && hit && matches!(size, StrSize::Fixed(..));
                let bytes = loop {
                    let max_chars = match size {
                        StrSize::Fixed(len, _) => if too_large { *len + 6 } else { *len },
                        StrSize::BlobEnd(bs) | StrSize::Pascal(bs) => 3 * bs.max(&2) + 2,
                    };
                    let t = gen_text(rng, max_chars);
                    let b = sjis_encode(&t).expect("repertoire is encodable");
                    match size {
                        StrSize::Fixed(len, nulless) => {
                            let need = b.len() + (!*nulless as usize) + extra;
                            if too_large { if need > *len { break b; } }
                            else if need <= *len { break b; }
                            else if extra + (!*nulless as usize) > *len { break b; } // cannot fit at all: left to the oracle (Diagnose)
                        },
                        _ => break b,
                    }
                };
                if *furibug {
                    let l = bytes.len() + 1 + extra;
                    let starts = bytes.first() == Some(&0x7c);
                    *furi = if !starts { 0 } else { match size { StrSize::Fixed(len, _) => *len, StrSize::BlobEnd(bs) | StrSize::Pascal(bs) => (l + bs - 1) / bs * bs } };
                }
                args.push(Arg::Str(bytes));
            },
            Enc::Pad(_) => unreachable!(),
        }
    }
    args
}

fn has_misfit_target(abi: &[Enc]) -> bool { abi.iter().any(|e| matches!(e, Enc::Int { letter, .. } if int_letter_info(*letter).0 < 4)) }
fn has_badreg_target(abi: &[Enc]) -> bool { abi.iter().any(|e| matches!(e, Enc::O | Enc::T | Enc::Int { imm: true, .. } | Enc::Int { arg0: true, .. } | Enc::Float { imm: true })) }
fn has_fixed_string(abi: &[Enc]) -> bool { abi.iter().any(|e| matches!(e, Enc::Str { size: StrSize::Fixed(..), .. })) }

/// Before /repo commit 9d4386e a padding parameter in the middle of a signature shifted the
/// positional pairing of parameters and arguments in the type checker (`S_f` rejected `ins(1, 2.0)`
/// with "type error", a register after `_` was "not a compile-time constant").  Such calls are
/// ordinary valid calls now; the tag keeps them visible in the input distribution.
fn padding_before_param(abi: &[Enc]) -> bool {
    let first_pad = abi.iter().position(|e| e.is_padding());
    match first_pad { Some(i) => abi[i..].iter().any(|e| !e.is_padding()), None => false }
}

/// byte offsets of the fixed-width fields that precede the first string (blob layout)
fn fixed_fields(abi: &[Enc]) -> Vec<(usize, usize, bool)> {
    // (offset, width, may_be_register)
    let mut out = vec![];
    let mut off = 0;
    for e in abi {
        match e {
            Enc::Int { arg0: true, .. } => {},
            Enc::Int { letter, imm, .. } => { let w = int_letter_info(*letter).0; out.push((off, w, !*imm)); off += w; },
            Enc::O | Enc::T => { off += 4; },
            Enc::Pad(w) => off += if *w { 4 } else { 1 },
            Enc::Float { .. } => { off += 4; },
            Enc::Str { .. } => break,
        }
    }
    out
}

impl Prop for C12 {
    fn id(&self) -> &'static str { "C12" }
    fn relation(&self) -> &'static str {
        "call/mutate/blob: (compile warnings, RawInstr.args_blob/param_mask/extra_arg of every instruction, raised argument lists, decode warnings, re-lowered instructions) of Lowerer/Raiser under a TestLanguage with the generated signatures == Lean `compileSeq`/`decompileCall` of TruthModel.Abi; sig: mapfile loader accept/reject == Lean `validAbi` (+ the arg0 language rule)"
    }
    fn rule(&self) -> &'static str {
        "random valid signatures over S s c U u b C n N E o t _ - f z m p with imm/hex/enum/arg0/bs/len/nulless/mask/furibug, 0..16 parameters, padding anywhere; arguments at width boundaries, registers vs immediates per position, strings of 0..3 blocks around block/buffer boundaries incl. trail bytes 0x5C/0x7C and furigana lines; streams: valid, int misfit, register in immediate-only position, oversize string, zero block size, nulless+furibug, 17-20 parameters with and without late registers, mutated compiled instructions (field bytes, mask bits, truncation, extension, padding bytes), arbitrary blobs, invalid signatures, the same calls through real ANM TH12 files. non-trivial = at least one non-padding parameter"
    }
    fn theorems(&self) -> &'static [&'static str] { &["TruthModel.C12.decode_encode", "TruthModel.C12.encode_decode_partial", "TruthModel.C12.xor_involutive", "TruthModel.C12.mask_bits_positions"] }
    fn timeout_secs(&self) -> u64 { 30 }

    fn gen(&self, tier: Tier, rng: &mut Rng) -> Vec<Case> {
        let scale = if tier == Tier::Quick { 3 } else { 25 };
        let mut out = vec![];
        // (a) valid programs of 1..4 calls: compile, decode, re-encode; compared with the model
        for n in 0..2400 * scale {
            let lang = if n % 6 == 5 { Lang::Timeline } else { Lang::Anm };
            let nsig = 1 + rng.below(3);
            let strings = rng.chance(3, 5);
            let mut abis: Vec<Vec<Enc>> = (0..nsig).map(|_| gen_valid_abi(rng, lang, strings)).collect();
            if strings && rng.chance(1, 3) {
                // consecutive furigana lines like TH12+ MSG
                let fb = Enc::Str { letter: 'm', size: StrSize::BlobEnd(4), mask: [0x77, 7, 16], furibug: true };
                abis = vec![vec![fb.clone()], vec![Enc::Int { letter: 'S', arg0: false, imm: false, hex: false, en: false }, fb]];
            }
            let ncalls = 1 + rng.below(4);
            let mut furi = 0usize;
            let mut calls = vec![];
            // timelines have no registers in the real formats; the TestLanguage has them, so a
            // third of the timeline cases exercise the model's arg0 + register arm too
            let allow_regs = lang == Lang::Anm || rng.chance(1, 3);
            for _ in 0..ncalls { let k = rng.below(abis.len()); let args = gen_args(rng, &abis[k], ArgMode::Valid, allow_regs, &mut furi); calls.push((k, args)); }
            let mid_pad = calls.iter().any(|(k, _)| padding_before_param(&abis[*k]));
            let nontrivial = calls.iter().any(|(_, a)| !a.is_empty());
            let sexp = call_case("call", lang, &abis, &calls, &[]);
            // `len=N;nulless;furibug` after a furigana line: the pending (masked) bytes land inside the string, the
            // decoded text is then not even valid Shift-JIS in general; known defect, judged but not model-compared
            let mut fl = 0usize;
            let quirk = calls.iter().any(|(k, args)| has_quirk(&abis[*k], args, &mut fl));
            let mut case = if quirk { Case::search(sexp).tag("valid-call-furibug-after-nulless") } else { Case::corr(sexp).tag(if lang == Lang::Anm { "valid-call" } else { "valid-call-timeline-arg0" }) };
            if mid_pad { case = case.tag("valid-call-padding-before-param"); }
            out.push(case.trivial(!nontrivial));
        }
        // (b) defective calls
        for _ in 0..500 * scale {
            let lang = if rng.chance(1, 6) { Lang::Timeline } else { Lang::Anm };
            let abi = loop { let a = gen_valid_abi(rng, lang, true); if !a.is_empty() { break a; } };
            let mode = *rng.pick(&[ArgMode::IntMisfit, ArgMode::IntMisfit, ArgMode::BadReg, ArgMode::StringTooLarge]);
            let ok = match mode { ArgMode::IntMisfit => has_misfit_target(&abi), ArgMode::BadReg => has_badreg_target(&abi), ArgMode::StringTooLarge => has_fixed_string(&abi), _ => true };
            if !ok { continue; }
            let mut furi = 0;
            let args = gen_args(rng, &abi, mode, true, &mut furi);
            let mut fl = 0usize;
            if has_quirk(&abi, &args, &mut fl) { continue; }
            let sexp = call_case("call", lang, &[abi], &[(0, args)], &[]);
            let tag = match mode { ArgMode::IntMisfit => "int-misfit", ArgMode::BadReg => "register-in-immediate-position", _ => "string-too-large" };
            // the model mirrors the silent truncation, so these stay comparable with it
            out.push(Case::corr(sexp).tag(tag));
        }
        // (c) zero block size (rejected when the signature is parsed) and 17+ parameters (a register
        //     after the 16 mask bits is an error, immediates are fine): compared with the model
        for _ in 0..20 * scale {
            let letter = *rng.pick(&['z', 'm', 'p']);
            let size = if letter == 'p' { StrSize::Pascal(0) } else { StrSize::BlobEnd(0) };
            let abi = vec![Enc::Int { letter: 'S', arg0: false, imm: false, hex: false, en: false }, Enc::Str { letter, size, mask: gen_mask(rng), furibug: rng.chance(1, 3) }];
            let args = vec![Arg::Int(rng.int_boundary(), false), Arg::Str(sjis_encode(&gen_text(rng, 6)).unwrap())];
            out.push(Case::search(call_case("call", Lang::Anm, &[abi.clone()], &[(0, args)], &[])).tag("zero-block-size"));
            out.push(Case::corr(Sexp::app("sig", vec![Sexp::atom("anm"), abi_sexp(&abi)])).tag("sig-zero-block-size"));
        }
        for _ in 0..10 * scale {
            let abi = vec![Enc::Str { letter: 'm', size: StrSize::Fixed(*rng.pick(&[4usize, 8, 16]), true), mask: gen_mask(rng), furibug: true }];
            out.push(Case::corr(Sexp::app("sig", vec![Sexp::atom("anm"), abi_sexp(&abi)])).tag("sig-nulless-furibug"));
        }
        for i in 0..40 * scale {
            let n = 17 + rng.below(4);
            let abi: Vec<Enc> = (0..n).map(|_| if rng.chance(1, 8) { Enc::Pad(rng.chance(1, 2)) } else { Enc::Int { letter: *rng.pick(&['S', 'S', 'u', 'C']), arg0: false, imm: rng.chance(1, 10), hex: false, en: false } }).collect();
            let mut k = 0;
            let late_regs = i % 2 == 0;
            let args: Vec<Arg> = abi.iter().filter(|e| !e.is_padding()).map(|e| {
                k += 1;
                let imm = matches!(e, Enc::Int { imm: true, .. });
                Arg::Int(rng.range(0, 99) as i32, !imm && if k > 16 { late_regs && rng.chance(1, 2) } else { rng.chance(1, 3) })
            }).collect();
            out.push(Case::corr(call_case("call", Lang::Anm, &[abi], &[(0, args)], &[])).tag(if late_regs { "more-than-16-parameters-late-registers" } else { "more-than-16-parameters" }));
        }
        // (d) mutated compiled instructions: the decode direction on arbitrary instruction contents
        for _ in 0..900 * scale {
            let lang = Lang::Anm;
            let strings = rng.chance(1, 2);
            let abi = loop { let a = gen_valid_abi(rng, lang, strings); if !a.is_empty() { break a; } };
            let mut furi = 0;
            let args = gen_args(rng, &abi, ArgMode::Valid, true, &mut furi);
            let fields = fixed_fields(&abi);
            // cutting a blob may cut a two-byte character in half (then the text layer, not the codec, rejects it)
            let ascii_strings = args.iter().all(|a| match a { Arg::Str(s) => s.iter().all(|b| *b < 0x80), _ => true });
            let mut fl = 0usize;
            if has_quirk(&abi, &args, &mut fl) { continue; }
            let mut muts = vec![];
            let mut tag = "mutate-other";
            match rng.below(6) {
                0 if !fields.is_empty() => { let (off, w, _) = *rng.pick(&fields); muts.push(Mutation::Byte { ins: 0, pos: off + rng.below(w), xor: 1 << rng.below(8) }); tag = "mutate-int-field-byte"; },
                1 => {
                    // register bit of a parameter that may be a register (ints only: float register ids must be integral)
                    let cands: Vec<usize> = abi.iter().filter(|e| !e.is_padding()).enumerate().filter(|(_, e)| matches!(e, Enc::Int { imm: false, arg0: false, .. })).map(|(i, _)| i).collect();
                    if !cands.is_empty() { let k = *rng.pick(&cands); muts.push(Mutation::Mask { ins: 0, xor: 1 << k }); tag = "mutate-register-bit"; } else { muts.push(Mutation::Extend { ins: 0, bytes: vec![0] }); tag = "mutate-extend"; }
                },
                2 => { muts.push(Mutation::Mask { ins: 0, xor: 1 << rng.below(16) }); tag = "mutate-any-mask-bit"; },
                3 if ascii_strings => { muts.push(Mutation::Truncate { ins: 0, n: 1 + rng.below(5) }); tag = "mutate-truncate"; },
                3 => { muts.push(Mutation::Extend { ins: 0, bytes: vec![0, 0] }); tag = "mutate-extend"; },
                4 => { muts.push(Mutation::Extend { ins: 0, bytes: (0..1 + rng.below(4)).map(|_| if rng.chance(1, 2) { 0 } else { rng.next_u32() as u8 }).collect() }); tag = "mutate-extend"; },
                _ => {
                    // padding bytes: of `_`/`-` parameters before the first string, or of the trailing string
                    let ascii_tail = matches!(abi.last(), Some(Enc::Str { size: StrSize::BlobEnd(_), mask: [0, 0, 0], furibug: false, .. })) && matches!(args.last(), Some(Arg::Str(s)) if s.iter().all(|b| *b < 0x80));
                    if ascii_tail { muts.push(Mutation::ByteFromEnd { ins: 0, pos: 0, xor: 0x41 }); tag = "mutate-string-terminator"; }
                    else if ascii_strings { muts.push(Mutation::Truncate { ins: 0, n: 1 }); tag = "mutate-truncate"; }
                    else { muts.push(Mutation::Extend { ins: 0, bytes: vec![7] }); tag = "mutate-extend"; }
                },
            }
            // float register ids and NaNs do not survive the text-free round trip exactly; keep mask mutations away from float parameters
            if matches!(muts[0], Mutation::Mask { .. }) && tag == "mutate-any-mask-bit" && abi.iter().any(|e| matches!(e, Enc::Float { imm: false })) { continue; }
            out.push(Case::corr(call_case("mutate", lang, &[abi], &[(0, args)], &muts)).tag(tag));
        }
        // (d2) string fields of compiled instructions: terminator, padding, length prefix (ASCII text, any mask)
        for _ in 0..400 * scale {
            let str_enc = gen_str_enc(rng, true);
            let furibug = matches!(str_enc, Enc::Str { furibug: true, .. });
            let abi = vec![Enc::Int { letter: *rng.pick(&['S', 's', 'b']), arg0: false, imm: false, hex: false, en: false }, str_enc.clone()];
            let room = match &str_enc { Enc::Str { size: StrSize::Fixed(len, nl), .. } => len.saturating_sub(!*nl as usize), _ => 11 };
            let n = rng.below(room.min(11) + 1);
            let text: Vec<u8> = (0..n).map(|_| 0x21 + rng.below(0x5e) as u8).collect();
            let args = vec![Arg::Int(rng.range(0, 100) as i32, rng.chance(1, 3)), Arg::Str(text)];
            let m = match rng.below(4) {
                0 => Mutation::ByteFromEnd { ins: 0, pos: 0, xor: 0x41 },
                1 => Mutation::ByteFromEnd { ins: 0, pos: rng.below(8), xor: 0x41 },
                2 => Mutation::Truncate { ins: 0, n: 1 + rng.below(4) },
                _ => match &str_enc {
                    // the length prefix of a Pascal string sits right after the first integer
                    Enc::Str { size: StrSize::Pascal(_), .. } => Mutation::Byte { ins: 0, pos: match &abi[0] { Enc::Int { letter, .. } => int_letter_info(*letter).0, _ => 4 }, xor: 1 << rng.below(4) },
                    _ => Mutation::Extend { ins: 0, bytes: vec![0x41, 0] },
                },
            };
            let tag = if furibug { "mutate-string-field-furibug" } else { "mutate-string-field" };
            out.push(Case::corr(call_case("mutate", Lang::Anm, &[abi], &[(0, args)], &[m])).tag(tag));
        }
        // (e) arbitrary blobs for string-free signatures
        for _ in 0..600 * scale {
            let lang = if rng.chance(1, 6) { Lang::Timeline } else { Lang::Anm };
            let abi = gen_valid_abi(rng, lang, false);
            let exact: usize = abi.iter().map(|e| match e { Enc::Int { arg0: true, .. } => 0, Enc::Int { letter, .. } => int_letter_info(*letter).0, Enc::Pad(false) => 1, _ => 4 }).sum();
            let len = match rng.below(5) { 0 => exact.saturating_sub(1 + rng.below(3)), 1 => exact + 1 + rng.below(4), _ => exact };
            let mut blob: Vec<u8> = (0..len).map(|_| if rng.chance(1, 3) { 0 } else { rng.next_u32() as u8 }).collect();
            // float fields: integral small values so that register-flagged floats are valid register ids; `o` fields: offset 0
            let mut off = 0;
            for e in &abi {
                let w = match e { Enc::Int { arg0: true, .. } => 0, Enc::Int { letter, .. } => int_letter_info(*letter).0, Enc::Pad(false) => 1, _ => 4 };
                if off + w <= blob.len() {
                    match e {
                        Enc::Float { .. } => blob[off..off + 4].copy_from_slice(&(rng.range(-50, 5000) as f32).to_le_bytes()),
                        Enc::O => blob[off..off + 4].copy_from_slice(&0u32.to_le_bytes()),
                        Enc::Pad(_) => if rng.chance(5, 6) { for b in &mut blob[off..off + w] { *b = 0; } },
                        _ => {},
                    }
                }
                off += w;
            }
            let nparams = abi.iter().filter(|e| !e.is_padding()).count();
            let mask: u16 = match rng.below(4) { 0 => 0, 1 => rng.next_u32() as u16, _ => (rng.next_u32() as u16) & ((1u32 << nparams.min(16)) - 1) as u16 };
            let has_arg0 = matches!(abi.first(), Some(Enc::Int { arg0: true, .. }));
            let arg0 = if has_arg0 { Some(*rng.pick(&[0i16, 1, -1, 300, i16::MAX, i16::MIN])) } else { None };
            let raw = Sexp::list(vec![Sexp::int(0), Sexp::atom(hex(&blob)), Sexp::int(mask), match arg0 { Some(v) => Sexp::int(v), None => Sexp::atom("none") }]);
            out.push(Case::corr(Sexp::app("blob", vec![Sexp::atom(lang.name()), Sexp::list(vec![abi_sexp(&abi)]), Sexp::list(vec![raw])])).tag("arbitrary-blob").trivial(nparams == 0));
        }
        // (f) signature validator: valid ones, and single-edit invalid ones
        for _ in 0..500 * scale {
            let lang = if rng.chance(1, 3) { Lang::Timeline } else { Lang::Anm };
            let mut abi = gen_valid_abi(rng, lang, true);
            let mut tag = "sig-valid";
            if rng.chance(1, 2) {
                tag = "sig-edited";
                let pos = rng.below(abi.len() + 1);
                let e = match rng.below(6) {
                    0 => Enc::O, 1 => Enc::T,
                    2 => Enc::Int { letter: *rng.pick(&['s', 'u', 'b', 'c', 'S', 'U']), arg0: true, imm: false, hex: false, en: false },
                    3 => Enc::Str { letter: 'z', size: StrSize::BlobEnd(4), mask: [0, 0, 0], furibug: false },
                    4 => Enc::Str { letter: 'm', size: StrSize::BlobEnd(0), mask: [1, 2, 3], furibug: false },
                    _ => Enc::Pad(rng.chance(1, 2)),
                };
                abi.insert(pos, e);
            }
            out.push(Case::corr(Sexp::app("sig", vec![Sexp::atom(lang.name()), abi_sexp(&abi)])).tag(tag));
        }
        for text in ["S(", "S)", "q", "z", "m(bs=4)", "p(len=4)", "z(len=4;bs=4)", "S(arg0)", "S(imm=3)", "m(bs=4;mask=1,2)", "m(bs=4;mask=256,0,0)", "z(bs=-1)", "S(enum=\"NoSuchEnum\")", "S(imm;imm)", "f(hex)", "z(bs=99999999999)", "\u{3042}", "S S\tf", "0", "s(arg0)S(arg0)"] {
            out.push(Case::search(Sexp::app("sigtext", vec![Sexp::str(text)])).tag("sig-malformed-text"));
        }
        // (g) the same calls through real ANM files (write_instr/read_instr included)
        for _ in 0..150 * scale {
            let abi = gen_valid_abi(rng, Lang::Anm, true);
            let mut furi = 0;
            let args = gen_args(rng, &abi, ArgMode::Valid, true, &mut furi);
            if abi.iter().any(|e| matches!(e, Enc::O | Enc::T)) { continue; }
            let mut fl = 0usize;
            if has_quirk(&abi, &args, &mut fl) { continue; }
            out.push(Case::search(call_case("anmfile", Lang::Anm, &[abi], &[(0, args)], &[])).tag("through-anm-th12-file"));
        }
        // (h) intrinsic placement: from_abi / into_vec / raise_intrinsic_parts for every intrinsic kind
        super::c12_parts::gen_parts(tier, rng, &mut out);
        out
    }

    fn eval(&self, case: &Sexp) -> Sexp {
        let a = case.args();
        match case.head() {
            Some("call") | Some("mutate") | Some("anmfile") => {
                let lang = Lang::from_name(a[0].as_atom());
                let abis: Vec<Vec<Enc>> = a[1].as_list().iter().map(abi_from_sexp).collect();
                let calls = calls_from_sexp(a[2].as_list());
                let muts: Vec<Mutation> = a.get(3).map(|m| m.as_list().iter().map(Mutation::from_sexp).collect()).unwrap_or_default();
                if case.head() == Some("anmfile") { eval_anm_file(&abis, &calls) } else { eval_call(lang, &abis, &calls, &muts) }
            },
            Some("blob") => {
                let lang = Lang::from_name(a[0].as_atom());
                let abis: Vec<Vec<Enc>> = a[1].as_list().iter().map(abi_from_sexp).collect();
                let raws: Vec<(usize, Vec<u8>, u16, Option<i16>)> = a[2].as_list().iter().map(|r| { let l = r.as_list(); (l[0].as_usize(), unhex(l[1].as_atom()), l[2].as_i64() as u16, if l[3].as_atom() == "none" { None } else { Some(l[3].as_i64() as i16) }) }).collect();
                eval_blob(lang, &abis, &raws)
            },
            Some("sig") => eval_sig(Lang::from_name(a[0].as_atom()), &abi_text(&abi_from_sexp(&a[1]))),
            Some("sigtext") => eval_sig(Lang::Anm, a[0].as_atom()),
            Some("parts") => super::c12_parts::eval_parts(case),
            Some("cstr") => super::c12_parts::eval_cstr(case),
            _ => Sexp::atom("bad-case"),
        }
    }

    fn judge(&self, case: &Sexp, result: &Sexp) -> Option<Failure> {
        if let Some(f) = default_judge(result) { return Some(f); }
        match case.head() {
            Some("call") | Some("mutate") | Some("anmfile") => judge_call(case, result),
            Some("parts") => super::c12_parts::judge_parts(case, result),
            Some("cstr") => super::c12_parts::judge_cstr(case, result),
            _ => None,
        }
    }

    fn neighbours(&self, case: &Sexp, rng: &mut Rng) -> Vec<Case> {
        // around a disagreement: the same signatures with fresh valid arguments, judged by the property
        let mut out = vec![];
        if matches!(case.head(), Some("call") | Some("mutate")) {
            let a = case.args();
            let lang = Lang::from_name(a[0].as_atom());
            let abis: Vec<Vec<Enc>> = a[1].as_list().iter().map(abi_from_sexp).collect();
            out.push(Case::search(Sexp::app("call", vec![a[0].clone(), a[1].clone(), a[2].clone()])));
            for _ in 0..12 {
                let mut furi = 0;
                let k = rng.below(abis.len());
                let args = gen_args(rng, &abis[k], ArgMode::Valid, lang == Lang::Anm, &mut furi);
                out.push(Case::search(call_case("call", lang, &abis, &[(k, args)], &[])));
            }
        }
        out
    }
}
