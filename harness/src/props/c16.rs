//! C16 — any binary input ends in success or a diagnostic, never a crash.

use super::{Case, Prop, Tier, fail};
use super::instr_io::*;
use crate::rng::Rng;
use crate::sexp::{Sexp, hex, unhex};
use crate::tc::{self, Format};
use crate::gensrc;

pub struct C16;

pub fn bundled_files() -> Vec<(Format, truth::Game, Vec<u8>, String)> {
    let mut out = vec![];
    let repo = std::env::var("VERIF_REPO").unwrap_or_else(|_| "/repo".to_string());   // (a scratch copy when a seeded change is tried)
    for dir in [format!("{repo}/tests/integration/bits-2-bits"), format!("{repo}/tests/integration/resources")] {
        let mut paths: Vec<_> = match std::fs::read_dir(dir) { Ok(rd) => rd.filter_map(|e| e.ok()).map(|e| e.path()).collect(), Err(_) => continue };
        paths.sort();
        for p in paths {
            let name = p.file_name().unwrap().to_string_lossy().to_string();
            let format = match p.extension().and_then(|e| e.to_str()) { Some("anm") => Format::Anm, Some("std") => Format::Std, Some("msg") => Format::Msg, Some("ecl") => Format::Ecl, _ => continue };
            let game = match name.split('-').next().and_then(|g| g.parse::<truth::Game>().ok()) { Some(g) => g, None => continue };
            if let Ok(bytes) = std::fs::read(&p) { out.push((format, game, bytes, name)); }
        }
    }
    out
}

/// compile a generated source in this process (guarded), for use as a mutation seed
pub fn compile_seed(g: &gensrc::GenSource) -> Option<Vec<u8>> {
    let r = std::panic::catch_unwind(|| tc::compile(g.format, g.game, &g.maps, g.text.as_bytes()).value);
    r.ok().flatten()
}

const FIELD_VALUES: &[u32] = &[0, 1, 2, 4, 7, 8, 0x10, 0x7f, 0x80, 0xff, 0x100, 0x7fff, 0x8000, 0xffff, 0x10000, 0x7fffffff, 0x80000000, 0xfffffff0, 0xffffffff];

pub fn mutate(rng: &mut Rng, seed: &[u8]) -> (Vec<u8>, &'static str) {
    let mut b = seed.to_vec();
    if b.is_empty() { return (vec![rng.next_u32() as u8], "tiny"); }
    match rng.below(10) {
        0 | 1 => { let n = rng.below(b.len() + 1); b.truncate(n); (b, "truncate") },
        2 => { let i = rng.below(b.len()); b[i] ^= 1 << rng.below(8); (b, "bitflip") },
        3 => { let i = rng.below(b.len()); b[i] = rng.next_u32() as u8; (b, "byte") },
        4 | 5 => {  // 32-bit field at an aligned offset
            let i = rng.below(b.len()) & !3;
            let v = if rng.chance(1, 3) { (b.len() as u32).wrapping_add(rng.range(-8, 8) as u32) } else { *rng.pick(FIELD_VALUES) };
            for k in 0..4 { if i + k < b.len() { b[i + k] = (v >> (8 * k)) as u8; } }
            (b, "field32")
        },
        6 | 7 => {  // 16-bit field
            let i = rng.below(b.len()) & !1;
            let v = *rng.pick(FIELD_VALUES) as u16;
            for k in 0..2 { if i + k < b.len() { b[i + k] = (v >> (8 * k)) as u8; } }
            (b, "field16")
        },
        8 => {  // small increment of a field: off-by-one sizes/counts/offsets
            let i = rng.below(b.len()) & !1;
            let d = *rng.pick(&[1i32, -1, 2, -2, 4, -4, 12, 16, -16]);
            let cur = b[i] as i32 | (*b.get(i + 1).unwrap_or(&0) as i32) << 8;
            let v = (cur + d) as u16;
            b[i] = v as u8; if i + 1 < b.len() { b[i + 1] = (v >> 8) as u8; }
            (b, "nudge16")
        },
        _ => { for _ in 0..1 + rng.below(4) { let i = rng.below(b.len()); b[i] = rng.next_u32() as u8; } let extra = rng.below(8); for _ in 0..extra { b.push(rng.next_u32() as u8); } (b, "multi") },
    }
}

/// TH11+ ANM (16-bit header layout): the first entry with embedded data whose padded extraction canvas
/// (offset + texture size, 4 bytes per pixel) exceeds 256 MiB, read from the raw bytes:
/// (offset_x, offset_y, width, height).  Header: u16 x at +0x14, y at +0x16, u32 thtx offset at +0x1c,
/// u16 has_data at +0x20, u32 next offset at +0x24; THTX: magic, u16 0, u16 format, u16 w, u16 h, u32 size.
fn declared_canvas(game: truth::Game, b: &[u8]) -> Option<(u32, u32, u32, u32)> {
    use crate::layout::{u16_at, u32_at};
    if game < truth::Game::Th11 { return None; }
    let mut e = 0usize;
    for _ in 0..10_000 {
        let (ox, oy) = (u16_at(b, e + 0x14).ok()? as u32, u16_at(b, e + 0x16).ok()? as u32);
        let thtx = u32_at(b, e + 0x1c).ok()? as usize;
        let has_data = u16_at(b, e + 0x20).ok()?;
        let next = u32_at(b, e + 0x24).ok()? as usize;
        if has_data != 0 && thtx != 0 && b.get(e + thtx..e + thtx + 4) == Some(b"THTX") {
            let (w, h) = (u16_at(b, e + thtx + 8).ok()? as u32, u16_at(b, e + thtx + 10).ok()? as u32);
            if 4 * (ox as u64 + w as u64) * (oy as u64 + h as u64) > (256 << 20) { return Some((ox, oy, w, h)); }
        }
        if next == 0 { return None; }
        e = e.checked_add(next)?;
    }
    None
}

/// read + decompile (+ extract for ANM) a byte string; any panic is caught by the worker
fn read_file_case(format: Format, game: truth::Game, optbits: u32, bytes: &[u8]) -> Sexp {
    let base = crate::alloc::reset_peak();
    let options = tc::options_from_bits(optbits);
    let out = tc::with_truth(format, game, &[], |truth| {
        let file = tc::read_bytes(truth, format, game, bytes)?;
        let script = tc::decompile_ast(truth, format, game, &file, &options)?;
        let text = truth::fmt::stringify_with(&script, truth::fmt::Config::new().max_columns(100));
        if let tc::Compiled::Anm(anm) = &file {
            // Known open finding, classified here instead of being run (a run takes minutes and 17 GB):
            // extraction pads the texture with `offset_x` columns and `offset_y` rows, so an entry of an
            // accepted file that declares e.g. offsets 65535, 65535 costs (65535+w) x (65535+h) x 4 bytes.
            if declared_canvas(game, bytes).is_some() { return Ok(usize::MAX); }   // sentinel, see below
            let dir = tempfile::tempdir().expect("tempdir");
            let fs = truth.fs();
            anm.extract_images(dir.path(), &fs)?;
        }
        Ok(text.len())
    });
    if let (Some(n), Some((ox, oy, w, h))) = (out.value, declared_canvas(game, bytes)) {
        if n == usize::MAX {
            return fail("excessive-allocation image-extraction-canvas", format!("anm {game}: an accepted {} byte file declares image offsets ({ox}, {oy}) for a {w}x{h} texture: extraction allocates a {}x{} canvas = {} bytes", bytes.len(), ox + w, oy + h, 4 * (ox as u64 + w as u64) * (oy as u64 + h as u64)));
        }
    }
    let peak = crate::alloc::peak_above(base);
    let bound = 64 * bytes.len() + (64 << 20);
    if peak > bound { return fail("excessive-allocation", format!("{} {}: peak {} bytes for {} input bytes", format.name(), game, peak, bytes.len())); }
    match out.value {
        Some(n) => Sexp::app("ok", vec![Sexp::int(n as i64)]),
        None => if out.has_error_diag() { Sexp::app("err", vec![Sexp::str(crate::util::diag_class(&out.diagnostics))]) }
                else { fail("read-fails-without-error-diagnostic", format!("{} {}", format.name(), game)) },
    }
}

impl Prop for C16 {
    fn id(&self) -> &'static str { "C16" }
    fn relation(&self) -> &'static str {
        "instruction level: result (parsed instruction / terminal / eof / error class, bytes left) of InstrFormat::read_instr and llir::read_instrs on arbitrary byte strings == Lean `InstrIO.readInstr` / `readInstrs`; container level: outcome (parsed structure / error class / panic site) of MsgFile / StdFile / MissionMsgFile / OldeEclFile::read_from_stream on arbitrary byte strings == Lean `Files.readMsg` / `readStd` / `readMission` / `readEcl`"
    }
    fn rule(&self) -> &'static str {
        "instruction level: valid encodings of every header layout, their truncations at every length and field-targeted mutations, random bytes; container level, compared with the model (MSG, STD both layouts, mission MSG, old ECL): compiler outputs of generated sources and the bundled binaries, pristine, truncated at every offset (small files) or sampled offsets, every aligned dword of the header / table region set to 0, all ones and the file length, count / offset / size fields overwritten with boundary values and nudged by small deltas, random damage, and random / all-zero / all-ones byte strings; offset tables whose entries share one target (read only, peak heap against the bound); file level: compiler outputs of generated sources of every format/game and all bundled binaries, mutated by truncation, bit flips, 16/32-bit field overwrites with boundary values, off-by-one nudges, appended garbage; each read + decompiled under a random subset of the five --no-* options (+ image extraction for ANM); oracle: no panic/abort/timeout(20 s), peak heap <= 64 x input + 64 MiB (counting allocator), failure implies an error diagnostic; non-trivial = mutated (not the pristine file); distinct by case text"
    }
    fn theorems(&self) -> &'static [&'static str] { &["TruthModel.C16.readInstr_no_panic", "TruthModel.C16.readInstrs_fuel_suffices", "TruthModel.C16.msg_read_no_panic", "TruthModel.C16.msg_read_total", "TruthModel.C16.std_read_no_panic", "TruthModel.C16.std_read_total", "TruthModel.C16.mission_read_no_panic", "TruthModel.C16.mission_read_total", "TruthModel.C16.ecl_read_no_panic", "TruthModel.C16.ecl_read_total", "TruthModel.C16.std_read_alloc_bound", "TruthModel.C16.ecl_read_alloc_bound"] }

    fn gen(&self, tier: Tier, rng: &mut Rng) -> Vec<Case> {
        let scale = if tier == Tier::Quick { 1 } else { 30 };
        let mut out = vec![];
        // instruction level, compared with the model
        for f in FORMATS {
            for _ in 0..12 * scale {
                let (t, o, m, d, e, mut b) = gen_instr(rng, f.2, true);
                b.truncate(48); if f.2 == "std06" { b.resize(12, 0); }
                let mut v = case_head("winstr", f);
                v.extend(instr_fields(t, o, m, d, e, &b));
                let w = eval_winstr(&Sexp::List(v), false);
                if w.head() != Some("ok") { continue; }
                let bytes = unhex(w.args()[0].as_atom());
                let mk = |kind: &str, by: &[u8]| { let mut v = case_head(kind, f); v.push(Sexp::atom(hex(by))); Sexp::List(v) };
                let mut with_tail = bytes.clone();
                for _ in 0..rng.below(6) { with_tail.push(rng.next_u32() as u8); }
                out.push(Case::corr(mk("rinstr", &with_tail)).tag(format!("rinstr-valid-{}", f.2)).trivial(true));
                for cut in 0..bytes.len().min(16) { out.push(Case::corr(mk("rinstr", &bytes[..cut])).tag(format!("rinstr-truncated-{}", f.2))); }
                for _ in 0..4 { let (mb, _) = mutate(rng, &bytes); out.push(Case::corr(mk("rinstr", &mb)).tag(format!("rinstr-mutated-{}", f.2))); }
            }
            for _ in 0..8 * scale {
                // whole scripts: several instructions + terminal, then mutated
                let mut v = case_head("winstrs", f);
                for _ in 0..1 + rng.below(4) {
                    let (t, o, m, d, e, mut b) = gen_instr(rng, f.2, true);
                    b.truncate(24); if f.2 == "std06" { b.resize(12, 0); }
                    v.push(Sexp::list(instr_fields(t, o, m, d, e, &b)));
                }
                let w = eval_winstr(&Sexp::List(v), true);
                if w.head() != Some("ok") { continue; }
                let bytes = unhex(w.args()[0].as_atom());
                let mk = |by: &[u8]| { let mut v = case_head("rinstrs", f); v.push(Sexp::atom(hex(by))); Sexp::List(v) };
                out.push(Case::corr(mk(&bytes)).tag(format!("rinstrs-valid-{}", f.2)).trivial(true));
                for _ in 0..6 { let (mb, _) = mutate(rng, &bytes); out.push(Case::corr(mk(&mb)).tag(format!("rinstrs-mutated-{}", f.2))); }
            }
            for _ in 0..6 * scale {
                let n = rng.below(40);
                let by: Vec<u8> = (0..n).map(|_| if rng.chance(1, 3) { 0 } else if rng.chance(1, 3) { 0xff } else { rng.next_u32() as u8 }).collect();
                let mut v = case_head("rinstrs", f); v.push(Sexp::atom(hex(&by)));
                out.push(Case::corr(Sexp::List(v)).tag(format!("rinstrs-random-{}", f.2)));
            }
        }
        // container level, compared with the model: MSG / STD / mission / old ECL files, pristine and damaged
        out.extend(super::files::gen_cases(rng, scale, true));
        out.extend(super::files::amplification_cases());
        // the ANM container against `Files.readAnm` (Model/FilesAnm.lean)
        out.extend(super::files_anm::gen_cases(rng, scale, true));
        // the stack ECL container (TH10+) against `Files.readEcl10` (Model/FilesEcl10.lean, Model/InstrIO10.lean)
        out.extend(super::files_ecl10::gen_cases(rng, scale, true));
        // file level
        let mut seeds: Vec<(Format, truth::Game, Vec<u8>, String)> = bundled_files();
        for _ in 0..60 * scale.min(5) {
            let g = gensrc::gen_any(rng);
            if let Some(b) = compile_seed(&g) { seeds.push((g.format, g.game, b, "generated".into())); }
        }
        // stack ECL (TH10+): the shared generators have no source language for it; a small file per game
        for g in ["th10", "th12", "th15", "th17"] {
            let src = "void main() {\n    ins_0(@blob=\"\");\n+10:\n    ins_10(@blob=\"\");\n}\nvoid other() {\n    ins_1(@blob=\"00000000\");\n}\n";
            let gs = gensrc::GenSource { format: Format::Ecl, game: tc::game(g), text: src.to_string(), maps: vec![] };
            if let Some(b) = compile_seed(&gs) { seeds.push((Format::Ecl, tc::game(g), b, "stack-ecl".into())); }
        }
        // small files with jumps (loops), every aligned dword of the WHOLE file set to values that are no instruction
        // boundary (1, 2, 3, 5, 6, 7, length - 2, -3): jump offsets and times, sizes, counts.  A jump into the middle
        // of an instruction must end in a diagnostic under every decompile option, also when the jump is an intrinsic.
        {
            let anm_head = "entry { path: \"a.png\", has_data: false, img_width: 16, img_height: 16, img_format: 3, rt_width: 16, rt_height: 16, sprites: {} }\n";
            let mut small: Vec<(Format, &str, String)> = vec![];
            for g in ["th06", "th08", "th12", "th17"] { small.push((Format::Anm, g, format!("{anm_head}script s {{\n    ins_1();\n    loop {{\n+5:\n        ins_1();\n    }}\n}}\n"))); }
            for g in ["th12", "th17"] { small.push((Format::Anm, g, format!("{anm_head}script s {{\n    $REG[10000] = 3;\nl:\n    ins_1();\n    if (--$REG[10000]) goto l;\n    if ($REG[10001] == 2) goto l;\n}}\n"))); }
            for g in ["th07", "th08"] { small.push((Format::Ecl, g, "script timeline0 { }\nvoid sub0() {\n    ins_0();\n    loop {\n+5:\n        ins_0();\n    }\n}\n".to_string())); }
            for g in ["th08", "th12"] { small.push((Format::Std, g, format!("meta {{ unknown: 0, {}, objects: {{}}, instances: [] }}\nscript main {{\n    loop {{\n+5:\n        ins_0();\n    }}\n}}\n", if g == "th08" { "stage_name: \"dm\", bgm: [{path: \" \", name: \" \"}, {path: \" \", name: \" \"}, {path: \" \", name: \" \"}, {path: \" \", name: \" \"}]" } else { "anm_path: \"a.anm\"" }))); }
            for (format, g, text) in small {
                let gs = gensrc::GenSource { format, game: tc::game(g), text, maps: vec![] };
                let Some(bytes) = compile_seed(&gs) else { continue };
                if bytes.len() > 1200 { continue; }
                for i in 0..bytes.len() / 4 {
                    for v in [1u32, 2, 3, 5, 6, 7, (bytes.len() as u32).wrapping_sub(2), 0xffff_fffd] {
                        let mut mb = bytes.clone();
                        mb[4 * i..4 * i + 4].copy_from_slice(&v.to_le_bytes());
                        for bits in [0u32, 2] {   // default options, and --no-intrinsics
                            out.push(Case::search(Sexp::app("readfile", vec![Sexp::atom(format.name()), Sexp::atom(g), Sexp::int(bits as i64), Sexp::atom(hex(&mb))])).tag(format!("file-jump-sweep-{}", format.name())));
                        }
                    }
                }
            }
        }
        // embedded images whose THTX size field claims 1-3 bytes more than the image needs (the bytes are there):
        // extraction must refuse or ignore them for every colour format
        {
            for g in ["th08", "th12"] {
                for fmt in [1, 3, 5, 7] {
                    let text = format!("entry {{ path: \"a.png\", has_data: \"dummy\", img_width: 4, img_height: 4, img_format: {fmt}, rt_width: 4, rt_height: 4, sprites: {{}} }}\nscript s {{ }}\n");
                    let gs = gensrc::GenSource { format: Format::Anm, game: tc::game(g), text, maps: vec![] };
                    let Some(bytes) = compile_seed(&gs) else { continue };
                    let Some(p) = (0..bytes.len().saturating_sub(16)).rev().find(|&p| &bytes[p..p + 4] == b"THTX") else { continue };
                    let size = u32::from_le_bytes([bytes[p + 12], bytes[p + 13], bytes[p + 14], bytes[p + 15]]);
                    for extra in [1u32, 2, 3, 4] {
                        let mut mb = bytes.clone();
                        mb[p + 12..p + 16].copy_from_slice(&(size + extra).to_le_bytes());
                        let at = (p + 16 + size as usize).min(mb.len());
                        for _ in 0..extra { mb.insert(at, 0xAB); }
                        out.push(Case::search(Sexp::app("readfile", vec![Sexp::atom("anm"), Sexp::atom(g), Sexp::int(0), Sexp::atom(hex(&mb))])).tag("file-thtx-oversize"));
                    }
                }
            }
        }
        // header sweep: every one of the first 24 dwords of every seed file set to all-ones / i32::MAX
        // (counts, sizes and offsets live there; a reader must not trust them with an allocation or an index)
        for (format, game, bytes, _) in &seeds {
            for i in 0..(bytes.len() / 4).min(24) {
                for v in [0xffff_ffffu32, 0x7fff_ffff] {
                    let mut mb = bytes.clone();
                    mb[4 * i..4 * i + 4].copy_from_slice(&v.to_le_bytes());
                    out.push(Case::search(Sexp::app("readfile", vec![Sexp::atom(format.name()), Sexp::atom(format!("{game}")), Sexp::int(0), Sexp::atom(hex(&mb))])).tag(format!("file-header-sweep-{}", format.name())));
                }
            }
        }
        for (format, game, bytes, name) in &seeds {
            let mk = |by: &[u8], bits: u32| Sexp::app("readfile", vec![Sexp::atom(format.name()), Sexp::atom(format!("{game}")), Sexp::int(bits), Sexp::atom(hex(by))]);
            out.push(Case::search(mk(bytes, 0)).tag(format!("file-pristine-{}", format.name())).trivial(true));
            let n = if name == "generated" { 4 * scale } else { 25 * scale };
            for _ in 0..n {
                let (mb, kind) = mutate(rng, bytes);
                out.push(Case::search(mk(&mb, rng.below(32) as u32)).tag(format!("file-{}-{}", kind, format.name())));
            }
        }
        out
    }

    fn eval(&self, case: &Sexp) -> Sexp {
        match case.head() {
            Some("rinstr") => eval_rinstr(case),
            Some("rinstrs") => eval_rinstrs(case),
            Some("rfile") => super::files::eval_rfile(case),
            Some("ranm") => super::files_anm::eval_ranm(case),
            Some("recl10") => super::files_ecl10::eval_recl10(case),
            Some("rinstrs10") => super::files_ecl10::eval_rinstrs10(case),
            Some("readalloc") => super::files::eval_readalloc(case),
            Some("readfile") => {
                let a = case.args();
                read_file_case(Format::from_name(a[0].as_atom()), tc::game(a[1].as_atom()), a[2].as_i64() as u32, &unhex(a[3].as_atom()))
            },
            _ => Sexp::atom("bad-case"),
        }
    }
}
