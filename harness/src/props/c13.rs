//! C13 — every instruction gets exactly the time its labels say.
//!
//! Implementation side: the real ANM compiler/decompiler (TH12), in memory (`RawInstr.time` is the
//! `i32` the property speaks about; narrowing to the on-disk field width is C03's subject).
//!
//! Cases
//!   (compile STMT...)  source statements -> times of the marker instructions        [corr]
//!   (visit STMT...)    `time_and_difficulty::run` on the parsed, not desugared block:
//!                      the time recorded for every statement (blocks included)      [corr]
//!   (raise INSTR...)   stored script -> emitted label/instruction statements        [corr]
//!   (rtflat INSTR...)  stored script -> decompile (blocks off) -> recompile the printed
//!                      text: all instructions identical                             [oracle]
//!   (rt STMT...)       compile -> decompile (default options) -> recompile: times   [oracle]
//!   (rtraw INSTR...)   stored script -> decompile (default options) -> recompile    [oracle]

use super::{Case, Prop, Tier, fail};
use crate::rng::Rng;
use crate::sexp::Sexp;
use crate::tc::{self, Format, Compiled};
use crate::util::diag_class;
use truth::ast;
use truth::llir::RawInstr;

pub struct C13;

const GAME: truth::Game = truth::Game::Th12;
const MARKER: u16 = 900;
const JUMP_OT: u16 = 4;      // core mapfile: `4 ot` = Jmp intrinsic
const JUMP_O: u16 = 901;     // jump without a time argument (not an intrinsic)
const MAPFILE: &str = "!anmmap\n!ins_signatures\n900 S\n901 o\n";
const HEAD: &str = "entry { path: \"a.png\", has_data: false, img_width: 16, img_height: 16, img_format: 3, offset_x: 0, offset_y: 0, colorkey: 0, memory_priority: 0, low_res_scale: false, sprites: {} }\n";
const REG: &str = "$REG[10000]";

// ---------------------------------------------------------------------------------------------
// rendering of source statements

struct Render { text: String, consts: String, next_marker: i32, next_label: u32, next_const: u32, plain: bool }

impl Render {
    fn stmts(&mut self, stmts: &[Sexp], indent: usize) {
        for s in stmts { self.stmt(s, indent); }
    }
    fn stmt(&mut self, s: &Sexp, indent: usize) {
        let pad = "    ".repeat(indent);
        let a = s.args();
        match s.head().expect("stmt head") {
            "abs" => self.text.push_str(&format!("{}:\n", a[0].as_i32())),
            "rel" => {
                let n = a[0].as_i32();
                // `plain`: the pass is run without const simplification, so only literals are constant
                let form = if self.plain { "u32" } else { a.get(1).map(|x| x.as_atom()).unwrap_or("lit") };
                let aux = a.get(2).map(|x| x.as_i32()).unwrap_or(0);
                let e = match form {
                    "u32" => format!("{}", n as u32),
                    "neg" if n < 0 && n != i32::MIN => format!("(-{})", -(n as i64)),
                    "negbare" if n < 0 && n != i32::MIN => format!("-{}", -(n as i64)),
                    "sum" => format!("({} + {})", aux as u32, n.wrapping_sub(aux) as u32),
                    "diff" => format!("({} - {})", n.wrapping_add(aux) as u32, aux as u32),
                    "mul" if aux != 0 && !(n == i32::MIN && aux == -1) && n % aux == 0 => format!("({} * {})", (n / aux) as u32, aux as u32),
                    "const" => {
                        let name = format!("D{}", self.next_const); self.next_const += 1;
                        self.consts.push_str(&format!("const int {name} = {};\n", n as u32));
                        name
                    },
                    _ => if n >= 0 { format!("{n}") } else { format!("{}", n as u32) },
                };
                self.text.push_str(&format!("+{e}:\n"));
            },
            "relbad" => self.text.push_str(&format!("+{REG}:\n")),
            "ins" => { self.text.push_str(&format!("{pad}ins_{MARKER}({});\n", self.next_marker)); self.next_marker += 1; },
            "lab" => { self.text.push_str(&format!("lbl_{}:\n", self.next_label)); self.next_label += 1; },
            "blk" => {
                let kind = a[0].as_atom();
                let body = &a[1..];
                match kind {
                    "free" => self.text.push_str(&format!("{pad}{{\n")),
                    "loop" => self.text.push_str(&format!("{pad}loop {{\n")),
                    "times" => self.text.push_str(&format!("{pad}times(2) {{\n")),
                    "if" => self.text.push_str(&format!("{pad}if ({REG} == 0) {{\n")),
                    // conditions that are compile-time constants: the labels inside still count (they are positional)
                    "if0" => self.text.push_str(&format!("{pad}if (0) {{\n")),
                    "if1" => self.text.push_str(&format!("{pad}if (2 - 1) {{\n")),
                    "unless1" => self.text.push_str(&format!("{pad}unless (1) {{\n")),
                    "while0" => self.text.push_str(&format!("{pad}while (0) {{\n")),
                    "else" => self.text.push_str(&format!("{pad}else {{\n")),
                    "while" => self.text.push_str(&format!("{pad}while ({REG} != 0) {{\n")),
                    "dowhile" => self.text.push_str(&format!("{pad}do {{\n")),
                    k => panic!("bad block kind {k}"),
                }
                self.stmts(body, indent + 1);
                match kind {
                    "dowhile" => self.text.push_str(&format!("{pad}}} while ({REG} != 0);\n")),
                    "if" | "if0" | "if1" | "unless1" => self.text.push_str(&format!("{pad}}}")),     // an `else` may follow
                    _ => self.text.push_str(&format!("{pad}}}\n")),
                }
                if matches!(kind, "if" | "if0" | "if1" | "unless1") { self.text.push('\n'); }
            },
            h => panic!("bad stmt head {h}"),
        }
    }
}

/// `if {..}` directly followed by `else {..}` must be glued: remove the newline between them
fn glue_else(text: &str) -> String {
    let mut out = String::new();
    let lines: Vec<&str> = text.lines().collect();
    let mut i = 0;
    while i < lines.len() {
        let l = lines[i];
        if l.trim() == "}" && i + 1 < lines.len() && lines[i + 1].trim_start().starts_with("else {") {
            out.push_str(l); out.push(' '); out.push_str(lines[i + 1].trim_start()); out.push('\n');
            i += 2;
        } else { out.push_str(l); out.push('\n'); i += 1; }
    }
    out
}

pub fn source_text(stmts: &[Sexp]) -> String {
    let mut r = Render { text: String::new(), consts: String::new(), next_marker: 0, next_label: 0, next_const: 0, plain: false };
    r.stmts(stmts, 1);
    format!("{HEAD}{}script s {{\n{}}}\n", r.consts, glue_else(&r.text))
}

// ---------------------------------------------------------------------------------------------
// implementation access

fn maps() -> Vec<String> { vec![MAPFILE.to_string()] }

fn script_instrs(c: &Compiled) -> Vec<RawInstr> {
    match c { Compiled::Anm(f) => f.entries[0].scripts[0].instrs.clone(), _ => panic!("not anm") }
}

fn compile_text(text: &str) -> tc::Outcome<Vec<RawInstr>> {
    tc::with_truth(Format::Anm, GAME, &maps(), |truth| {
        let script = truth.parse::<ast::ScriptFile>("<input>", text.as_bytes())?.value;
        let compiled = tc::compile_ast(truth, Format::Anm, GAME, &script)?;
        Ok(script_instrs(&compiled))
    })
}

fn marker_times(instrs: &[RawInstr]) -> Vec<(i32, i32)> {
    instrs.iter().filter(|i| i.opcode == MARKER).map(|i| {
        let k = i32::from_le_bytes([i.args_blob[0], i.args_blob[1], i.args_blob[2], i.args_blob[3]]);
        (k, i.time)
    }).collect()
}

fn err_sexp<T>(o: &tc::Outcome<T>) -> Sexp {
    // the decompiler prefixes its messages with context ("while decompiling: in script ..."): key on the message itself
    let class = if o.diagnostics.contains("an instruction has a bad jump offset!") { "an instruction has a bad jump offset!".to_string() } else { diag_class(&o.diagnostics) };
    Sexp::app("err", vec![Sexp::str(class)])
}

fn compile_case(stmts: &[Sexp]) -> Sexp {
    let text = source_text(stmts);
    let o = compile_text(&text);
    match &o.value {
        None => err_sexp(&o),
        Some(instrs) => {
            let mt = marker_times(instrs);
            if mt.iter().enumerate().any(|(i, &(k, _))| k != i as i32) {
                return Sexp::app("ok-misordered", mt.iter().map(|&(k, t)| Sexp::list(vec![Sexp::int(k), Sexp::int(t)])).collect());
            }
            Sexp::app("ok", vec![Sexp::list(mt.iter().map(|&(_, t)| Sexp::int(t)).collect())])
        },
    }
}

/// byte offsets of the instructions (and of the end) of a stored script; ANM v4+ header is 8 bytes
fn script_offsets(instrs: &[Sexp]) -> Vec<u64> {
    let size = |s: &Sexp| -> u64 { match s.head() { Some("j") => if s.args()[2].as_atom() == "none" { 12 } else { 16 }, _ => 12 } };
    let mut offsets = vec![0u64];
    for s in instrs { let last = *offsets.last().unwrap(); offsets.push(last + size(s)); }
    offsets
}

/// `time_and_difficulty::run` called directly on a parsed (not desugared) block: the time recorded
/// for *every* statement in pre-order, as the AST VM and `validate_difficulty` see it
fn visit_case(stmts: &[Sexp]) -> Sexp {
    let mut r = Render { text: String::new(), consts: String::new(), next_marker: 0, next_label: 0, next_const: 0, plain: true };
    r.stmts(stmts, 1);
    let text = format!("{{\n{}}}\n", glue_else(&r.text));
    let o = tc::with_truth(Format::Anm, GAME, &maps(), |truth| {
        let block = truth.parse::<ast::Block>("<input>", text.as_bytes())?.value;
        let ctx = truth.ctx();
        let data = truth::passes::semantics::time_and_difficulty::run(&block.0[..], &ctx.emitter)?;
        fn walk(stmts: &[truth::Sp<ast::Stmt>], time_of: &dyn Fn(&truth::Sp<ast::Stmt>) -> i32, out: &mut Vec<Sexp>) {
            for s in stmts {
                // the parser's bookends at the start and end of every block carry a time but are not statements of the source
                if matches!(s.kind, ast::StmtKind::NoInstruction) { continue; }
                let (kind, blocks): (&str, Vec<&ast::Block>) = match &s.kind {
                    ast::StmtKind::AbsTimeLabel(_) | ast::StmtKind::RelTimeLabel { .. } => ("t", vec![]),
                    ast::StmtKind::Label(_) => ("l", vec![]),
                    ast::StmtKind::Block(b) => ("b", vec![b]),
                    ast::StmtKind::Loop { block, .. } => ("b", vec![block]),
                    ast::StmtKind::While { block, .. } => ("b", vec![block]),
                    ast::StmtKind::Times { block, .. } => ("b", vec![block]),
                    ast::StmtKind::CondChain(chain) => ("b", chain.cond_blocks.iter().map(|c| &c.block).chain(chain.else_block.iter()).collect()),
                    _ => ("i", vec![]),
                };
                out.push(Sexp::list(vec![Sexp::atom(kind), Sexp::int(time_of(s))]));
                for b in blocks { walk(&b.0, time_of, out); }
            }
        }
        let mut out = vec![];
        walk(&block.0, &|s| data[&s.node_id.expect("node id")].time, &mut out);
        Ok(out)
    });
    match o.value { Some(v) => Sexp::app("ok", vec![Sexp::list(v)]), None => err_sexp(&o) }
}

/// builds the stored script for `(i T)` / `(j T DEST TM)`
fn raw_script(instrs: &[Sexp]) -> Vec<RawInstr> {
    let offsets = script_offsets(instrs);
    let end = *offsets.last().unwrap();
    let mut out = vec![];
    for (k, s) in instrs.iter().enumerate() {
        let a = s.args();
        let time = a[0].as_i32();
        match s.head() {
            Some("j") => {
                let dest = a[1].as_usize();
                let off = if dest < offsets.len() { offsets[dest] } else { end + 4 + 12 * (dest as u64 - offsets.len() as u64) };
                let mut blob = (off as i32).to_le_bytes().to_vec();
                if a[2].as_atom() == "none" {
                    out.push(RawInstr { time, opcode: JUMP_O, args_blob: blob, ..RawInstr::DEFAULTS });
                } else {
                    blob.extend_from_slice(&a[2].as_i32().to_le_bytes());
                    out.push(RawInstr { time, opcode: JUMP_OT, args_blob: blob, ..RawInstr::DEFAULTS });
                }
            },
            _ => out.push(RawInstr { time, opcode: MARKER, args_blob: (k as i32).to_le_bytes().to_vec(), ..RawInstr::DEFAULTS }),
        }
    }
    out
}

/// `label_{offset}` / `label_{offset}r` -> `(lab n INDEX)` / `(lab r INDEX)` with the index of the instruction at that offset
fn label_sexp(name: &str, offsets: &[u64]) -> Sexp {
    if name == "label_startr" { return Sexp::app("lab", vec![Sexp::atom("start")]); }
    let body = name.strip_prefix("label_").unwrap_or(name);
    let (num, kind) = match body.strip_suffix('r') { Some(n) => (n, "r"), None => (body, "n") };
    let index = num.parse::<u64>().ok().and_then(|o| offsets.iter().position(|&x| x == o));
    match index {
        Some(i) => Sexp::app("lab", vec![Sexp::atom(kind), Sexp::int(i as i64)]),
        None => Sexp::app("lab", vec![Sexp::atom(kind), Sexp::str(name)]),
    }
}

fn stmt_out(stmt: &ast::Stmt, offsets: &[u64]) -> Option<Sexp> {
    Some(match &stmt.kind {
        ast::StmtKind::NoInstruction | ast::StmtKind::ScopeEnd(_) => return None,
        ast::StmtKind::Label(ident) => label_sexp(ident.value.as_str(), offsets),
        ast::StmtKind::AbsTimeLabel(v) => Sexp::app("abs", vec![Sexp::int(v.value)]),
        ast::StmtKind::RelTimeLabel { delta, .. } => match delta.as_const_int() {
            Some(d) => Sexp::app("rel", vec![Sexp::int(d)]),
            None => Sexp::app("rel", vec![Sexp::atom("non-const")]),
        },
        _ => Sexp::app("ins", vec![]),
    })
}

struct Decompiled { stmts: Vec<Sexp>, text: String }

fn decompile_script(instrs: &[RawInstr], offsets: &[u64], options: &truth::DecompileOptions) -> tc::Outcome<Decompiled> {
    let template = format!("{HEAD}script s {{\n}}\n");
    tc::with_truth(Format::Anm, GAME, &maps(), |truth| {
        let script = truth.parse::<ast::ScriptFile>("<input>", template.as_bytes())?.value;
        let mut compiled = tc::compile_ast(truth, Format::Anm, GAME, &script)?;
        match &mut compiled { Compiled::Anm(f) => f.entries[0].scripts[0].script.instrs = instrs.to_vec(), _ => unreachable!() }
        let out = tc::decompile_ast(truth, Format::Anm, GAME, &compiled, options)?;
        let mut stmts = vec![];
        for item in &out.items {
            if let ast::Item::Script { code, .. } = &item.value {
                for s in &code.0 { if let Some(x) = stmt_out(&s.value, offsets) { stmts.push(x); } }
            }
        }
        let text = truth::fmt::stringify_with(&out, truth::fmt::Config::new().max_columns(100));
        Ok(Decompiled { stmts, text })
    })
}

fn flat_options() -> truth::DecompileOptions { truth::DecompileOptions { blocks: false, ..tc::options_from_bits(0) } }

fn instr_brief(i: &RawInstr) -> String { format!("{}@{}:{}", i.opcode, i.time, crate::sexp::hex(&i.args_blob)) }

/// input shape that used to break (finding `r-label-name-collision-at-script-start`, fixed by naming
/// the first one `label_startr`); kept as a tag so the evidence shows the shape is still generated.
/// The two destinations that `generate_label_at_offset` would both name `label_0r`: the start of the
/// script (r label: all jumps there use time 0 < time of instruction 0) and instruction 1
/// (r label: all jumps there use the time of instruction 0 < time of instruction 1)
fn has_rlabel_collision(instrs: &[Sexp]) -> bool {
    if instrs.len() < 2 { return false; }
    let time = |k: usize| instrs[k].args()[0].as_i32();
    let args_to = |dest: usize| -> Vec<i32> {
        instrs.iter().filter(|s| s.head() == Some("j") && s.args()[1].as_usize() == dest)
            .map(|s| if s.args()[2].as_atom() == "none" { time(dest) } else { s.args()[2].as_i32() }).collect()
    };
    let a0 = args_to(0);
    let a1 = args_to(1);
    !a0.is_empty() && a0.iter().all(|&t| t == 0) && 0 < time(0)
        && !a1.is_empty() && a1.iter().all(|&t| t == time(0)) && time(0) < time(1)
}

/// recompile decompiled text and compare with the stored instructions
fn roundtrip_failure(case: &[Sexp], orig: &[RawInstr], text: &str) -> Option<Sexp> {
    let _ = case;
    let sig = |s: &str| s.to_string();
    let re = compile_text(text);
    let Some(new) = &re.value else {
        return Some(fail(sig("decompiled-script-does-not-recompile"), format!("{} | text: {}", diag_class(&re.diagnostics), text.replace('\n', " "))));
    };
    let t0: Vec<i32> = orig.iter().map(|i| i.time).collect();
    let t1: Vec<i32> = new.iter().map(|i| i.time).collect();
    if t0 != t1 {
        return Some(fail(sig("decompiled-labels-do-not-reproduce-times"), format!("stored {t0:?} recompiled {t1:?} | text: {}", text.replace('\n', " "))));
    }
    let b0: Vec<String> = orig.iter().map(instr_brief).collect();
    let b1: Vec<String> = new.iter().map(instr_brief).collect();
    if b0 != b1 {
        return Some(fail(sig("decompile-recompile-changes-jump-arguments"), format!("stored {b0:?} recompiled {b1:?} | text: {}", text.replace('\n', " "))));
    }
    None
}

/// corr: the emitted statement sequence
fn raise_case(instrs: &[Sexp]) -> Sexp {
    let orig = raw_script(instrs);
    let d = decompile_script(&orig, &script_offsets(instrs), &flat_options());
    match &d.value {
        None => err_sexp(&d),
        Some(dec) => Sexp::app("ok", vec![Sexp::list(dec.stmts.clone())]),
    }
}

/// oracle: decompiled text recompiles to the stored instructions
fn rtraw_case(instrs: &[Sexp], options: &truth::DecompileOptions) -> Sexp {
    let orig = raw_script(instrs);
    let d = decompile_script(&orig, &script_offsets(instrs), options);
    let Some(dec) = &d.value else { return Sexp::app("skip", vec![err_sexp(&d)]); };
    if let Some(f) = roundtrip_failure(instrs, &orig, &dec.text) { return f; }
    Sexp::app("pass", vec![Sexp::int(orig.len() as i64)])
}

fn rt_case(stmts: &[Sexp]) -> Sexp {
    let text = source_text(stmts);
    let o = compile_text(&text);
    let Some(orig) = &o.value else { return Sexp::app("skip", vec![Sexp::str(diag_class(&o.diagnostics))]); };
    let d = decompile_script(orig, &[], &tc::options_from_bits(0));
    let Some(dec) = &d.value else {
        return fail("compiled-script-does-not-decompile", format!("{} | source: {}", diag_class(&d.diagnostics), text.replace('\n', " ")));
    };
    let sig = |s: &str| s.to_string();
    let re = compile_text(&dec.text);
    let Some(new) = &re.value else {
        return fail(sig("decompiled-script-does-not-recompile"), format!("{} | text: {}", diag_class(&re.diagnostics), dec.text.replace('\n', " ")));
    };
    // The subject is the TIME of every instruction.  Which jump opcode the compiler picks for a condition is not
    // (a condition between two literals is folded on recompile and gets another opcode: that is C01's finding
    // `roundtrip-bytes-differ constant-condition-jump`), so every non-marker opcode is compared as "some instruction".
    let key = |i: &RawInstr| (if i.opcode == MARKER { i.opcode } else { 0 }, i.time);
    let t0: Vec<(u16, i32)> = orig.iter().map(key).collect();
    let t1: Vec<(u16, i32)> = new.iter().map(key).collect();
    if t0 != t1 {
        return fail(sig("decompiled-labels-do-not-reproduce-times"), format!("compiled {t0:?} recompiled {t1:?} | text: {}", dec.text.replace('\n', " ")));
    }
    Sexp::app("pass", vec![Sexp::int(orig.len() as i64)])
}

/// whole files of the other formats (old ECL with difficulty ladders and time labels between the rungs, MSG,
/// STD): compile, decompile with default options, recompile; the TIMES of all instructions of every script,
/// read from both binaries with the independent layout parser's instruction walker via truth's own reader,
/// must be the same sequence (which opcodes / masks the recompile picks is C01's and C14's subject)
fn rtfile_case(a: &[Sexp]) -> Sexp {
    let format = Format::from_name(a[0].as_atom());
    let game = tc::game(a[1].as_atom());
    let maps: Vec<String> = a[2].as_list().iter().map(|m| m.as_atom().to_string()).collect();
    let text = a[3].as_atom();
    let c = tc::compile(format, game, &maps, text.as_bytes());
    let Some(bytes) = c.value else { return Sexp::app("skip", vec![Sexp::str(diag_class(&c.diagnostics))]); };
    let d = tc::decompile(format, game, &maps, &bytes, &tc::options_from_bits(0), 100);
    let Some(dtext) = d.value else { return fail("compiled-script-does-not-decompile", format!("{} {}: {}", format.name(), game, diag_class(&d.diagnostics))); };
    if d.diagnostics.lines().any(|l| l.starts_with("warning")) { return Sexp::app("skip", vec![Sexp::atom("decompile-warned")]); }
    let re = tc::compile_with_image_source(format, game, &maps, dtext.as_bytes(), if format == Format::Anm { Some(&bytes) } else { None });
    let Some(bytes2) = re.value else { return Sexp::app("skip", vec![Sexp::atom("recompile-fails"), Sexp::str(diag_class(&re.diagnostics))]); };   // (C01 reports this)
    let times = |b: &[u8]| -> Option<Vec<Vec<i32>>> {
        let o = tc::with_truth(format, game, &maps, |truth| {
            let f = tc::read_bytes(truth, format, game, b)?;
            Ok(match &f {
                Compiled::Anm(f) => f.entries.iter().flat_map(|e| e.scripts.values().map(|s| s.script.instrs.iter().map(|i| i.time).collect::<Vec<i32>>())).collect::<Vec<_>>(),
                Compiled::Ecl(truth::EclFile::Olde(f)) => f.subs.values().map(|s| s.instrs.iter().map(|i| i.time).collect()).chain(f.timelines.iter().map(|t| t.iter().map(|i| i.time).collect())).collect(),
                Compiled::Msg(f) => f.scripts.values().map(|s| s.iter().map(|i| i.time).collect()).collect(),
                Compiled::Std(f) => vec![f.script.iter().map(|i| i.time).collect()],
                _ => vec![],
            })
        });
        o.value
    };
    let (Some(t0), Some(t1)) = (times(&bytes), times(&bytes2)) else { return Sexp::app("skip", vec![Sexp::atom("unreadable")]); };
    // a difficulty switch may legitimately merge or split instructions of equal time: compare the per-script
    // sequences with consecutive equal times collapsed
    let collapse = |v: &Vec<Vec<i32>>| -> Vec<Vec<i32>> { v.iter().map(|s| { let mut o: Vec<i32> = vec![]; for &t in s { if o.last() != Some(&t) { o.push(t); } } o }).collect() };
    if collapse(&t0) != collapse(&t1) {
        return fail("decompiled-labels-do-not-reproduce-times", format!("{} {}: times {:?} recompiled {:?} | text: {}", format.name(), game, t0, t1, dtext.chars().take(500).collect::<String>().replace('\n', " ")));
    }
    Sexp::app("pass", vec![Sexp::int(t0.iter().map(|s| s.len()).sum::<usize>() as i64)])
}

// ---------------------------------------------------------------------------------------------
// generators

const TIME_BOUNDARY: &[i32] = &[
    0, 0, 0, 1, -1, -1, 2, -2, 5, 10, 10, 30, 60, 100, -10, -100, 127, 128, -128, -129, 255, 256,
    32767, 32768, -32768, -32769, 65535, 65536, i32::MAX, i32::MAX - 1, i32::MIN, i32::MIN + 1, 0x4000_0000, -0x4000_0000,
];

pub(crate) fn time_value(rng: &mut Rng, wild: bool) -> i32 {
    if wild {
        match rng.below(3) { 0 => *rng.pick(TIME_BOUNDARY), 1 => rng.next_u32() as i32, _ => rng.range(-40, 120) as i32 }
    } else {
        match rng.below(8) { 0 => *rng.pick(TIME_BOUNDARY), 1 => rng.range(-300, 300) as i32, _ => rng.range(-12, 60) as i32 }
    }
}

fn gen_rel(rng: &mut Rng, wild: bool) -> Sexp {
    let n = if rng.chance(1, 6) { 0 } else if rng.chance(1, 4) { time_value(rng, wild).wrapping_abs().wrapping_neg() } else { time_value(rng, wild) };
    let form = *rng.pick(&["lit", "lit", "lit", "u32", "neg", "negbare", "sum", "diff", "mul", "const"]);
    let aux = match form { "mul" => *rng.pick(&[1, 2, 3, 5, -1, 10]), _ => rng.int_boundary() };
    Sexp::app("rel", vec![Sexp::int(n), Sexp::atom(form), Sexp::int(aux)])
}

struct SrcGen<'a> { rng: &'a mut Rng, wild: bool, times_depth: u32, n_stmts: usize }

impl SrcGen<'_> {
    fn stmts(&mut self, depth: u32, len: usize) -> Vec<Sexp> {
        let mut out = vec![];
        let mut last_if = false;
        for _ in 0..len {
            self.n_stmts += 1;
            let r = self.rng.below(20);
            let mut this_if = false;
            let s = match r {
                0..=3 => Sexp::app("abs", vec![Sexp::int(time_value(self.rng, self.wild))]),
                4..=8 => gen_rel(self.rng, self.wild),
                9..=14 => Sexp::app("ins", vec![]),
                15 => Sexp::app("lab", vec![]),
                _ if depth > 0 && self.n_stmts < 40 => {
                    let mut kinds = vec!["free", "loop", "if", "while", "dowhile", "if0", "if1", "unless1", "while0"];
                    if self.times_depth < 2 { kinds.push("times"); }
                    if last_if { kinds.push("else"); kinds.push("else"); }
                    let kind = *self.rng.pick(&kinds);
                    if kind == "times" { self.times_depth += 1; }
                    let n = self.rng.below(5);
                    let body = self.stmts(depth - 1, n);
                    if kind == "times" { self.times_depth -= 1; }
                    this_if = matches!(kind, "if" | "if0" | "if1" | "unless1");
                    let mut v = vec![Sexp::atom(kind)]; v.extend(body);
                    Sexp::app("blk", v)
                },
                _ => Sexp::app("ins", vec![]),
            };
            last_if = this_if;
            out.push(s);
        }
        out
    }
}

/// `else` blocks are part of the `if` statement in the AST (one statement, two blocks); the
/// `visit` cases keep the model's one-statement-one-block shape by turning them into free blocks
fn strip_else(stmts: &mut Vec<Sexp>) {
    for s in stmts.iter_mut() {
        if s.head() == Some("blk") {
            let mut v: Vec<Sexp> = s.args().to_vec();
            if v[0].as_atom() == "else" { v[0] = Sexp::atom("free"); }
            let mut body: Vec<Sexp> = v[1..].to_vec();
            strip_else(&mut body);
            let mut nv = vec![v[0].clone()]; nv.extend(body);
            *s = Sexp::app("blk", nv);
        }
    }
}

fn has_block(stmts: &[Sexp]) -> bool { stmts.iter().any(|s| s.head() == Some("blk")) }
fn count_instrs(stmts: &[Sexp]) -> usize { stmts.iter().map(|s| match s.head() { Some("ins") => 1, Some("blk") => count_instrs(&s.args()[1..]), _ => 0 }).sum() }

pub(crate) fn gen_times(rng: &mut Rng, n: usize) -> Vec<i32> {
    let mode = rng.below(6);
    let mut t: i32 = match mode { 0 => -1, 1 => time_value(rng, true), _ => 0 };
    let mut out = vec![];
    for _ in 0..n {
        match mode {
            0 | 2 => { if rng.chance(1, 2) { t = t.wrapping_add(rng.range(0, 30) as i32); } },            // monotone, repeats
            3 => { t = time_value(rng, false); },                                                       // arbitrary small
            4 => { t = time_value(rng, true); },                                                        // wild
            _ => { t = t.wrapping_add(rng.range(-15, 25) as i32); },                                    // around zero crossings
        }
        out.push(t);
    }
    out
}

fn gen_raw(rng: &mut Rng, with_jumps: bool, allow_bad: bool) -> Vec<Sexp> {
    let n = 1 + rng.below(9);
    let times = gen_times(rng, n);
    let mut out = vec![];
    for k in 0..n {
        if with_jumps && rng.chance(1, 3) {
            let dest = if allow_bad && rng.chance(1, 12) { n + 1 + rng.below(2) } else { rng.below(n + 1) };
            let dest_time = if dest < n { times[dest] } else { times[n - 1] };
            let prev_time = if dest == 0 { 0 } else if dest <= n { times[dest - 1] } else { 0 };
            let tm = match rng.below(8) {
                0 => Sexp::atom("none"),
                1..=3 => Sexp::int(prev_time),
                4..=5 => Sexp::int(dest_time),
                6 => Sexp::int(time_value(rng, false)),
                _ => Sexp::int(prev_time.wrapping_add(dest_time) / 2),
            };
            out.push(Sexp::app("j", vec![Sexp::int(times[k]), Sexp::int(dest as i64), tm]));
        } else {
            out.push(Sexp::app("i", vec![Sexp::int(times[k])]));
        }
    }
    out
}

impl Prop for C13 {
    fn id(&self) -> &'static str { "C13" }
    fn relation(&self) -> &'static str {
        "compile: RawInstr.time of the marker instructions after the real ANM (TH12) compile == Lean `Time.instrTimes` (visitor model); visit: (kind, time) recorded by passes::semantics::time_and_difficulty::run for every statement of a parsed structured block == Lean `Time.run`; raise: label / time-label / instruction statement sequence emitted by the real decompiler (blocks off) for a stored script == Lean `Time.raise` (label names compared as r/n flag + instruction index); xcompile: (time, difficulty mask, time-valued argument) of every instruction that comes from an instruction statement / interrupt label / explicit goto / timeof use after the real compile of ANM TH12, old ECL TH07 and MSG TH08 sources == Lean `Time.X.compile` (delta expressions evaluated by the C11 model `simplify`); xvisit: (kind, time, mask) recorded by compute_diff_label_masks + time_and_difficulty::run for every statement incl. all blocks of if/else chains and nested function items == Lean `Time.X.run`; xraise: the statements the real decompiler emits for stored ANM TH12 / ECL TH07 / MSG TH08 scripts with interrupt labels, difficulty masks and jumps == Lean `Time.X.raise`"
    }
    fn rule(&self) -> &'static str {
        "compile: statement lists of `N:` / `+N:` (delta printed as literal, unsigned wrap-around literal, negated literal, sum, difference, product, named const) / instructions / offset labels / nested blocks (free, loop, times, if/else, while, do-while; depth<=3) with boundary times (0, +-1, i16/u16/i32 limits) so that deltas wrap; plus a malformed stream with a non-constant delta.  raise: stored time sequences (monotone with repeats, starting at -1, decreasing, arbitrary, wild i32, zero crossings) with and without jumps (destination incl. end of script, time argument = previous/destination/other/absent, bad offsets).  second round (x* streams), per language ANM TH12 / ECL TH07 / MSG TH08: `interrupt[n]:` between instructions and under a difficulty tag, `{\"EN\"}:`-tagged instructions / blocks / chains (ECL), offset labels at the start / end of blocks and before / after time labels with `goto L @ t`, `goto L`, `timeof(L)` referring to them, if / else-if / else chains (runtime and constant conditions) with time labels in every branch, nested function items, deltas that are constant expressions over 0-3 `const int` definitions (19 integer operators, unary operators, ternaries, chains of consts), undefined / duplicate labels; stored scripts with interrupt instructions, per-instruction difficulty masks, relative (ECL) and absolute (ANM) jump offsets, time argument first (ECL) or second (ANM), i16-boundary times (MSG).  non-trivial = at least two instructions; distinct by case text"
    }
    fn theorems(&self) -> &'static [&'static str] {
        &["TruthModel.C13.visitor_eq_spec", "TruthModel.C13.emit_reproduces", "TruthModel.C13.times_emitAll", "TruthModel.C13.recompile_emitAll",
          "TruthModel.C13.raise_times", "TruthModel.C13.rlabel_time", "TruthModel.C13.raise_no_panic", "TruthModel.C13.label_always_placed",
          "TruthModel.C13.Ext.xvisitor_eq_spec", "TruthModel.C13.Ext.xcompile_spec", "TruthModel.C13.Ext.label_time_position", "TruthModel.C13.Ext.delta_is_const_value",
          "TruthModel.C13.Ext.xraise_times", "TruthModel.C13.Ext.xrlabel_time", "TruthModel.C13.Ext.goto_reproduces_arg"]
    }

    fn gen(&self, tier: Tier, rng: &mut Rng) -> Vec<Case> {
        let scale = if tier == Tier::Quick { 3 } else { 30 };
        let mut out = vec![];
        // hand-picked shapes first
        let fixed: &[&str] = &[
            "(visit (abs 10) (ins) (blk loop (rel 5 lit 0) (ins) (rel -20 neg 0)) (ins) (blk if (abs 7)) (lab) (ins))",
            "(compile (ins) (abs 10) (ins) (rel 5 lit 0) (ins) (abs -3) (ins) (rel 3 lit 0) (ins))",
            "(compile (blk loop (rel 10 lit 0) (ins) (rel 10 lit 0)) (ins))",
            "(compile (abs 2147483647) (ins) (rel 1 lit 0) (ins) (rel -1 neg 0) (ins))",
            "(compile (rel -2147483648 u32 0) (ins) (rel -2147483648 sum 7) (ins))",
            "(compile (abs -2147483648) (ins) (abs -1) (ins) (abs 0) (ins))",
            "(compile (ins) (relbad) (ins))",
            "(raise (i -1) (i -1) (i 0) (i 5) (i 3))",
            "(raise (i -5) (i 7))",
            "(raise (i 0) (j 10 1 0) (i 20))",
            "(raise (i 0) (j 10 1 10) (j 20 3 none))",
            "(raise (i 2147483647) (i -2147483648) (i 2147483647))",
        ];
        for f in fixed { out.push(Case::corr(crate::sexp::parse(f).unwrap()).tag("fixed")); }
        // the former collision witness (`label_0r` twice): must round-trip now
        out.push(Case::corr(crate::sexp::parse("(raise (j 10 0 0) (j 20 1 10))").unwrap()).tag("fixed"));
        out.push(Case::search(crate::sexp::parse("(rtflat (j 10 0 0) (j 20 1 10))").unwrap()).tag("former-witness-rlabel-collision"));
        out.push(Case::search(crate::sexp::parse("(rtraw (j 10 0 0) (j 20 1 10))").unwrap()).tag("former-witness-rlabel-collision"));

        for i in 0..1500 * scale {
            let wild = i % 3 == 0;
            let depth = if i % 2 == 0 { 0 } else { 1 + rng.below(3) as u32 };
            let len = 1 + rng.below(10);
            let mut stmts = SrcGen { rng, wild, times_depth: 0, n_stmts: 0 }.stmts(depth, len);
            let bad = rng.chance(1, 40);
            if bad {
                // not between an `if` block and its `else`
                let mut at = rng.below(stmts.len() + 1);
                if at < stmts.len() && stmts[at].head() == Some("blk") && stmts[at].args()[0].as_atom() == "else" { at = 0; }
                stmts.insert(at, Sexp::app("relbad", vec![]));
            }
            let nt = count_instrs(&stmts) >= 2;
            let tag = if bad { "compile-nonconst-delta" } else if has_block(&stmts) { "compile-nested" } else { "compile-flat" };
            out.push(Case::corr(Sexp::app("compile", stmts)).tag(tag).tag(if wild { "times-wild" } else { "times-small" }).trivial(!nt));
        }
        // the pass itself on structured (not desugared) code: every statement's time, blocks included
        for i in 0..600 * scale {
            let depth = 1 + rng.below(3) as u32;
            let len = 1 + rng.below(8);
            let mut stmts = SrcGen { rng, wild: i % 3 == 0, times_depth: 0, n_stmts: 0 }.stmts(depth, len);
            strip_else(&mut stmts);
            if rng.chance(1, 40) { let at = rng.below(stmts.len() + 1); stmts.insert(at, Sexp::app("relbad", vec![])); }
            let nt = stmts.len() >= 2;
            out.push(Case::corr(Sexp::app("visit", stmts.clone())).tag(if has_block(&stmts) { "visit-nested" } else { "visit-flat" }).trivial(!nt));
        }
        for _ in 0..700 * scale {
            let c = gen_raw(rng, false, false);
            let nt = c.len() >= 2;
            out.push(Case::search(Sexp::app("rtflat", c.clone())).tag("roundtrip-flat").trivial(!nt));
            out.push(Case::corr(Sexp::app("raise", c)).tag("raise-plain").trivial(!nt));
        }
        for _ in 0..800 * scale {
            let c = gen_raw(rng, true, true);
            let nt = c.len() >= 2;
            let known = has_rlabel_collision(&c);
            out.push(Case::search(Sexp::app("rtflat", c.clone())).tag(if known { "roundtrip-flat-start-and-instr1-r-labels" } else { "roundtrip-flat" }).trivial(!nt));
            out.push(Case::corr(Sexp::app("raise", c)).tag("raise-jumps").trivial(!nt));
        }
        // oracle only: default decompile options (loop recovery on)
        for _ in 0..400 * scale {
            let depth = rng.below(4) as u32;
            let len = 1 + rng.below(10);
            let stmts = SrcGen { rng, wild: false, times_depth: 0, n_stmts: 0 }.stmts(depth, len);
            let nt = count_instrs(&stmts) >= 2;
            out.push(Case::search(Sexp::app("rt", stmts)).tag("roundtrip-source").trivial(!nt));
        }
        for _ in 0..300 * scale {
            let c = gen_raw(rng, true, false);
            let nt = c.len() >= 2;
            let known = has_rlabel_collision(&c);
            out.push(Case::search(Sexp::app("rtraw", c)).tag(if known { "roundtrip-stored-start-and-instr1-r-labels" } else { "roundtrip-stored" }).trivial(!nt));
        }
        // whole files of the formats the streams above do not go through (time labels between per-difficulty copies, ...)
        for _ in 0..500 * scale {
            let g = match rng.below(4) { 0 | 1 => { let game = *rng.pick(crate::gensrc::GAMES_ECL); crate::gensrc::gen_ecl(rng, game) }, _ => crate::gensrc::gen_any(rng) };
            if g.format == Format::Mission { continue; }
            out.push(Case::search(Sexp::app("rtfile", vec![Sexp::atom(g.format.name()), Sexp::atom(format!("{}", g.game)), Sexp::list(g.maps.iter().map(|m| Sexp::str(m.clone())).collect()), Sexp::str(g.text)])).tag(format!("rtfile-{}", g.format.name())));
        }
        // second round: interrupt labels, difficulty tags, goto / timeof, else branches, nested functions,
        // const-expression deltas; through ANM TH12, old ECL TH07 and MSG TH08 (appended: the streams above are unchanged)
        super::c13x::gen(tier, rng, &mut out);
        out
    }

    fn eval(&self, case: &Sexp) -> Sexp {
        let a = case.args();
        if let Some(r) = super::c13x::eval(case) { return r; }
        match case.head() {
            Some("rtfile") => rtfile_case(a),
            Some("compile") => compile_case(a),
            Some("visit") => visit_case(a),
            Some("raise") => raise_case(a),
            Some("rt") => rt_case(a),
            Some("rtflat") => rtraw_case(a, &flat_options()),
            Some("rtraw") => rtraw_case(a, &tc::options_from_bits(0)),
            _ => Sexp::atom("bad-case"),
        }
    }

    fn neighbours(&self, case: &Sexp, _rng: &mut Rng) -> Vec<Case> {
        // a disagreement on compile/raise: does the round trip still hold on the same input?
        match case.head() {
            Some("compile") => vec![Case::search(Sexp::app("rt", case.args().to_vec()))],
            Some("raise") => vec![Case::search(Sexp::app("rtflat", case.args().to_vec())), Case::search(Sexp::app("rtraw", case.args().to_vec()))],
            Some("xraise") => vec![Case::search(Sexp::app("xrt", case.args().to_vec()))],
            _ => vec![],
        }
    }
}
