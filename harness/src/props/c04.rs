//! C04 — any text input ends in success or a rendered diagnostic, never a crash.
//!
//! Cases (grammar of the model-compared ones in lean/TruthModel/Driver/C04.lean):
//!   (compile KIND FMT GAME (MAP*) HEX)   search  in-process compile of a source text with user mapfiles
//!   (nest KIND DEPTH FMT GAME)           search  the same for a nesting pattern built in the worker
//!   (cli FMT GAME (MAP*) HEX)            search  the same through `cli_def::truth_main` in a fresh process
//!   (sites)                              search  static scan: every `emit(warning!/info!..)` is `.ignore()`d
//!   (trace OP*)                          corr    emitter / ErrorFlag / collect_with_recovery trace vs `Diag.run`
//!   (spans FLAVOUR HEX (SPAN*) (OP*))    corr    span validity, combinators, render-or-panic vs `Diag` span model
//!   (pipe CTX (STMT*))                   corr    stage at which the real passes stop vs `Pipeline.run`
//! MAP = (L hex) a mapfile given with -m, (F name hex) a file placed next to it (target of a gamemap).
//!
//! Oracle of the search cases: no panic / abort / timeout; the compile returned Err iff the captured
//! diagnostics contain an error-severity diagnostic; rendering panics are panics.

use super::{Case, Failure, Prop, Tier, fail, default_judge, strip_digits};
use crate::rng::Rng;
use crate::sexp::{Sexp, hex, unhex};
use crate::tc::{self, Format};
use crate::gensrc;
use crate::util::diag_class;
use truth::{ast, Game, LanguageKey};

pub struct C04;

pub const ALL_GAMES: &[Game] = &[
    Game::Th06, Game::Th07, Game::Th08, Game::Th09, Game::Th095, Game::Th10, Game::Alcostg, Game::Th11, Game::Th12,
    Game::Th125, Game::Th128, Game::Th13, Game::Th14, Game::Th143, Game::Th15, Game::Th16, Game::Th165, Game::Th17, Game::Th18, Game::Th185,
];
pub const ALL_FORMATS: &[Format] = &[Format::Anm, Format::Std, Format::Msg, Format::End, Format::Mission, Format::Ecl];

fn atom(s: &str) -> Sexp { Sexp::atom(s) }
fn app(h: &str, v: Vec<Sexp>) -> Sexp { Sexp::app(h, v) }
fn int(i: i64) -> Sexp { Sexp::int(i) }

// ---------------------------------------------------------------------------------------------
// running the real implementation: compile entry points

#[derive(Clone)]
pub enum MapArg { Load(Vec<u8>), File(String, Vec<u8>) }

fn maps_sexp(maps: &[MapArg]) -> Sexp {
    Sexp::list(maps.iter().map(|m| match m {
        MapArg::Load(b) => app("L", vec![atom(&hex(b))]),
        MapArg::File(n, b) => app("F", vec![Sexp::str(n.clone()), atom(&hex(b))]),
    }).collect())
}
fn maps_from(s: &Sexp) -> Vec<MapArg> {
    s.as_list().iter().map(|m| { let a = m.args(); match m.head() {
        Some("L") => MapArg::Load(unhex(a[0].as_atom())),
        _ => MapArg::File(a[0].as_atom().to_string(), unhex(a[1].as_atom())),
    }}).collect()
}

/// severity of every rendered diagnostic, from the header lines of the captured text
pub fn severities(diags: &str) -> Vec<&'static str> {
    let mut out = vec![];
    for l in diags.lines() {
        for (p, s) in [("error", "error"), ("bug", "bug"), ("warning", "warning"), ("note", "note"), ("help", "help")] {
            if let Some(rest) = l.strip_prefix(p) { if rest.starts_with(':') || rest.starts_with('[') { out.push(s); } }
        }
    }
    out
}
fn has_error(diags: &str) -> bool { severities(diags).iter().any(|s| *s == "error" || *s == "bug") }

fn first_class(diags: &str) -> String {
    let c = diag_class(diags);
    let c: String = c.chars().take(60).collect();
    strip_digits(&c)
}

/// The sequence of API calls of `truanm|trustd|trumsg|truecl compile` (src/cli_def.rs) with captured
/// diagnostics and an in-memory output; user mapfiles go through `Truth::load_mapfile` (files in a
/// temporary directory) like `-m` arguments do.
fn run_compile(format: Format, game: Game, maps: &[MapArg], text: &[u8]) -> (Result<usize, ()>, String) {
    let mut scope = truth::Builder::new().capture_diagnostics(true).build();
    let mut truth = scope.truth();
    let dir = if maps.is_empty() { None } else { Some(tempfile::tempdir().expect("tempdir")) };
    let r = (|| {
        for &language in format.languages() {
            let core = truth::verif_hooks::core_mapfile(truth.ctx().emitter, game, language);
            truth.apply_mapfile(&core, game).expect("failed to apply core mapfile!?");
        }
        if let Some(dir) = &dir {
            let mut to_load = vec![];
            for (i, m) in maps.iter().enumerate() {
                match m {
                    MapArg::Load(b) => { let p = dir.path().join(format!("m{i}.map")); std::fs::write(&p, b).expect("write map"); to_load.push(p); },
                    MapArg::File(n, b) => { let safe: String = n.chars().filter(|c| c.is_ascii_alphanumeric() || *c == '.' || *c == '_').collect(); std::fs::write(dir.path().join(if safe.is_empty() { "x".to_string() } else { safe }), b).expect("write map"); },
                }
            }
            // trumsg --mission loads no mapfiles at all
            if format != Format::Mission { for p in to_load { truth.load_mapfile(&p, game)?; } }
        }
        let script = truth.parse::<ast::ScriptFile>("<input>", text)?.value;
        let compiled = tc::compile_ast(&mut truth, format, game, &script)?;
        tc::write_bytes(&mut truth, format, game, &compiled).map(|b| b.len())
    })();
    let diagnostics = truth.get_captured_diagnostics().unwrap_or_default();
    match r { Ok(n) => (Ok(n), diagnostics), Err(e) => { e.ignore(); (Err(()), diagnostics) } }
}

fn excerpt(text: &[u8]) -> String {
    let s = String::from_utf8_lossy(text);
    let s: String = s.chars().take(400).collect();
    s.replace('\n', "\\n")
}

fn compile_oracle(kind: &str, format: Format, game: Game, maps: &[MapArg], text: &[u8]) -> Sexp {
    let (r, diags) = run_compile(format, game, maps, text);
    let err_diag = has_error(&diags);
    match r {
        Ok(n) => if err_diag {
            fail(format!("success-after-error-diagnostic {}", format.name()), format!("{kind} {} {game}: compile returned Ok after printing: {} | input: {}", format.name(), diags.lines().next().unwrap_or(""), excerpt(text)))
        } else if kind.starts_with("repaired-") {
            // the minimised input of a repaired finding: it has to be diagnosed, not compiled
            fail(format!("repaired-finding-input-compiles-silently {kind}"), format!("{} {game}: compile returned Ok without any error diagnostic | input: {}", format.name(), excerpt(text)))
        } else { app("ok", vec![int(n as i64)]) },
        Err(()) => if !err_diag {
            fail("failure-without-error-diagnostic", format!("{kind} {} {game}: compile returned Err, diagnostics: {:?} | input: {}", format.name(), diags.lines().next().unwrap_or(""), excerpt(text)))
        } else { app("err", vec![Sexp::str(first_class(&diags))]) },
    }
}

const CLI_TIMEOUT_SECS: u64 = 40;

/// the very entry point the user runs, in a fresh process: exit status against stderr
fn cli_oracle(kind: &str, format: Format, game: Game, maps: &[MapArg], text: &[u8]) -> Sexp {
    let dir = tempfile::tempdir().expect("tempdir");
    let inp = dir.path().join("in.txt");
    std::fs::write(&inp, text).expect("write");
    let (tool, extra) = format.cli();
    let mut cmd = std::process::Command::new(std::env::current_exe().expect("exe"));
    cmd.arg("cli").arg(tool).arg("compile").args(extra).arg("-g").arg(format!("{game}")).arg(&inp).arg("-o").arg(dir.path().join("out.bin"));
    for (i, m) in maps.iter().enumerate() {
        match m {
            MapArg::Load(b) => { let p = dir.path().join(format!("m{i}.map")); std::fs::write(&p, b).expect("write"); if format != Format::Mission { cmd.arg("-m").arg(p); } },
            MapArg::File(n, b) => { let safe: String = n.chars().filter(|c| c.is_ascii_alphanumeric() || *c == '.' || *c == '_').collect(); std::fs::write(dir.path().join(if safe.is_empty() { "x".to_string() } else { safe }), b).expect("write"); },
        }
    }
    cmd.env("RUST_BACKTRACE", "0").env_remove("_TRUTH_DEBUG__TEST").env_remove("TRUTH_MAP_PATH");
    cmd.stdin(std::process::Stdio::null());
    cmd.stdout(std::process::Stdio::null()).stderr(std::process::Stdio::piped());
    // own time limit (a hang must not hold the worker for the pool's much longer limit)
    let mut child = cmd.spawn().expect("spawn cli");
    let t0 = std::time::Instant::now();
    let mut err_pipe = child.stderr.take().expect("stderr");
    let reader = std::thread::spawn(move || { use std::io::Read; let mut b = Vec::new(); let mut chunk = [0u8; 65536]; loop { match err_pipe.read(&mut chunk) { Ok(0) | Err(_) => break, Ok(n) => { if b.len() < (1 << 20) { b.extend_from_slice(&chunk[..n]); } } } } b });
    let status = loop {
        match child.try_wait() {
            Ok(Some(st)) => break st,
            Ok(None) => {
                if t0.elapsed().as_secs() >= CLI_TIMEOUT_SECS { let _ = child.kill(); let _ = child.wait(); let _ = reader.join(); return app("cli-timeout", vec![int(CLI_TIMEOUT_SECS as i64)]); }
                std::thread::sleep(std::time::Duration::from_millis(20));
            },
            Err(_) => { let _ = child.kill(); return atom("cli-wait-failed"); },
        }
    };
    struct Out { status: std::process::ExitStatus }
    let out = Out { status };
    let stderr = String::from_utf8_lossy(&reader.join().unwrap_or_default()).into_owned();
    let code = out.status.code();
    // failures are reported in the same form (and under the same signatures) as in-process ones
    if stderr.contains("panicked at") {
        let line = stderr.lines().find(|l| l.contains("panicked at")).unwrap_or("");
        let loc = line.split("panicked at ").nth(1).unwrap_or("?");
        let mut parts = loc.split(':');
        let site = format!("{}:{}", parts.next().unwrap_or("?"), parts.next().unwrap_or("0"));
        let msg = stderr.lines().skip_while(|l| !l.contains("panicked at")).nth(1).unwrap_or("").to_string();
        return app("panic", vec![Sexp::str(site), Sexp::str(msg)]);
    }
    match code {
        Some(0) if kind.starts_with("repaired-") => fail(format!("repaired-finding-input-compiles-silently {kind}"), format!("{tool} {game} (CLI): exit status 0 | input: {}", excerpt(text))),
        Some(0) => if has_error(&stderr) { fail(format!("success-after-error-diagnostic {}", format.name()), format!("{tool} {game} (CLI, exit status 0): {} | input: {}", stderr.lines().next().unwrap_or(""), excerpt(text))) } else { app("exit", vec![int(0)]) },
        Some(1) => if !has_error(&stderr) { fail("failure-without-error-diagnostic", format!("{tool} {game} (CLI, exit status 1): stderr {:?} | input: {}", stderr.lines().next().unwrap_or(""), excerpt(text))) } else { app("exit", vec![int(1), Sexp::str(first_class(&stderr))]) },
        Some(c) => fail(format!("cli-abnormal-exit code {c}"), format!("{tool} {game}: status {} stderr tail {:?} | input: {}", out.status, stderr.lines().last().unwrap_or(""), excerpt(text))),
        None => app("abort", vec![Sexp::str(format!("{}", out.status)), Sexp::str(stderr.lines().rev().take(3).collect::<Vec<_>>().join(" | "))]),
    }
}

// ---------------------------------------------------------------------------------------------
// source skeletons: a valid file of every format with a hole for statements

fn std_meta(game: Game) -> &'static str {
    if game < Game::Th095 { "meta { unknown: 0, stage_name: \"dm\", bgm: [{path: \" \", name: \" \"}, {path: \" \", name: \" \"}, {path: \" \", name: \" \"}, {path: \" \", name: \" \"}], objects: {}, instances: [] }\n" }
    else { "meta { unknown: 0, anm_path: \"a.anm\", objects: {}, instances: [] }\n" }
}
const ANM_ENTRY: &str = "entry { path: \"a.png\", has_data: false, img_width: 16, img_height: 16, img_format: 3, sprites: {s0: {x: 0.0, y: 0.0, w: 1.0, h: 1.0}} }\n";

/// (text before the statements of a script body, text after them)
pub fn skeleton(format: Format, game: Game, timeline: bool) -> (String, String) {
    match format {
        Format::Msg | Format::End => ("meta { table: {0: {script: \"script0\"}} }\nscript script0 {\n".into(), "}\n".into()),
        Format::Std => (format!("{}script main {{\n", std_meta(game)), "}\n".into()),
        Format::Anm => (format!("{ANM_ENTRY}script script0 {{\n"), "}\n".into()),
        Format::Ecl => if timeline { ("script timeline0 {\n".into(), "}\nvoid sub0() { }\n".into()) } else { ("script timeline0 { }\nvoid sub0() {\n".into(), "}\n".into()) },
        Format::Mission => {
            let e = if game == Game::Th125 { "entry { stage: 1, scene: 1, player: 0, unknown_1: 0, unknown_2: 0, point_1: 0, point_2: 0, furigana: [[0, 0], [0, 0], [0, 0]], text: [\"a\", \"b\", \"c\", \"d\", \"e\", \"f\"] }\n" }
                    else { "entry { stage: 1, scene: 1, face: 0, point: 0, text: [\"a\", \"b\", \"c\"] }\n" };
            // a mission file has no code; statements are put at item level (mostly a parse error)
            (e.to_string(), String::new())
        },
    }
}

fn lang_of(format: Format, timeline: bool) -> Option<LanguageKey> {
    match format { Format::Anm => Some(LanguageKey::Anm), Format::Std => Some(LanguageKey::Std), Format::Msg => Some(LanguageKey::Msg), Format::End => Some(LanguageKey::End),
        Format::Ecl => Some(if timeline { LanguageKey::Timeline } else { LanguageKey::Ecl }), Format::Mission => None }
}

/// games a format is generated for by gensrc (the "supported" pairs)
fn games_of(format: Format) -> &'static [Game] {
    match format { Format::Anm => gensrc::GAMES_ANM, Format::Std => gensrc::GAMES_STD, Format::Msg => gensrc::GAMES_MSG, Format::End => gensrc::GAMES_END, Format::Mission => gensrc::GAMES_MISSION, Format::Ecl => gensrc::GAMES_ECL }
}

/// an instruction whose first parameter is a plain 32-bit int / float, for putting expressions into call arguments
fn ins_with_param(format: Format, game: Game, timeline: bool, want: char) -> Option<(i32, usize, usize)> {
    let lang = lang_of(format, timeline)?;
    let skip = gensrc::intrinsic_opcodes(game, lang);
    for (op, sig) in gensrc::signatures(game, lang) {
        if op < 0 || skip.contains(&op) { continue; }
        let ps: Vec<gensrc::SigParam> = gensrc::parse_sig(&sig).into_iter().filter(|p| !matches!(p.ch, '_' | '-')).collect();
        if ps.is_empty() || ps.iter().any(|p| !matches!(p.ch, 'S' | 'f') || !p.attrs.is_empty()) { continue; }
        if let Some(i) = ps.iter().position(|p| p.ch == want) { return Some((op, i, ps.len())); }
    }
    None
}

/// a whole file of `format` in which the expression `e` (of type `ty`: 'i' / 'f') occurs in context `ctx`
pub fn expr_in_context(format: Format, game: Game, ctx: &str, e: &str, ty: char) -> String {
    let timeline = ctx == "timeline-arg";
    let (head, tail) = skeleton(format, game, timeline);
    let kw = if ty == 'f' { "float" } else { "int" };
    let sig = if ty == 'f' { "%" } else { "$" };
    match ctx {
        "const" => format!("const {kw} c0 = {e};\n{head}{tail}"),
        "timelabel" => format!("{head}+{e}:\n{tail}"),
        "interrupt" => format!("{head}interrupt[{e}]:\n{tail}"),
        "assign" => format!("{head}    {sig}REG[10000] = {e};\n{tail}"),
        "local" => format!("{head}    {kw} x = {e};\n{tail}"),
        "cond" => format!("{head}    if ({e}) {{ }}\n    while ({e}) {{ }}\n    times({e}) {{ }}\n{tail}"),
        "meta" => match format {
            Format::Anm => format!("entry {{ path: \"a.png\", has_data: false, img_width: {e}, img_height: 16, img_format: 3, sprites: {{s0: {{id: {e}, x: 0.0, y: 0.0, w: 1.0, h: 1.0}}}} }}\nscript script0 {{ }}\n"),
            Format::Std => format!("{}", std_meta(game).replace("unknown: 0", &format!("unknown: {e}"))) + "script main { }\n",
            Format::Msg | Format::End => format!("meta {{ table: {{0: {{script: \"script0\", flags: {e}}}, {e}: {{script: \"script0\"}}}}, table_len: {e} }}\nscript script0 {{ }}\n"),
            Format::Mission => format!("entry {{ stage: {e}, scene: {e}, face: {e}, point: {e}, text: [\"a\", \"b\", \"c\"] }}\n"),
            Format::Ecl => format!("script {e} timeline0 {{ }}\nvoid sub0() {{ }}\n"),
        },
        _ /* "arg" | "timeline-arg" */ => match ins_with_param(format, game, timeline, ty) {
            Some((op, i, n)) => {
                let args: Vec<String> = (0..n).map(|k| if k == i { e.to_string() } else { "0".to_string() }).collect();
                format!("{head}    ins_{op}({});\n{tail}", args.join(", "))
            },
            None => format!("{head}    ins_0({e});\n{tail}"),
        },
    }
}
pub const EXPR_CONTEXTS: &[&str] = &["const", "timelabel", "interrupt", "assign", "local", "cond", "meta", "arg", "timeline-arg"];

// ---------------------------------------------------------------------------------------------
// nesting patterns (built in the worker from kind + depth)

pub const NEST_EXPR_KINDS: &[(&str, char)] = &[
    ("parens", 'i'), ("neg", 'i'), ("not", 'i'), ("bnot", 'i'), ("sin", 'f'), ("cast", 'i'), ("sigil", 'i'),
    ("ternary-right", 'i'), ("ternary-mid", 'i'), ("ternary-cond", 'i'), ("binop-right", 'i'), ("binop-left", 'i'), ("binop-mixed", 'i'),
    ("diffswitch", 'i'), ("call", 'i'), ("float-chain", 'f'), ("logic-chain", 'i'),
];
pub const NEST_STMT_KINDS: &[&str] = &["block", "if", "ifelse", "elseif-chain", "loop", "while", "dowhile", "times", "mixed-blocks", "labels", "gotos", "func", "difflabel",
    "many-stmts", "many-args", "constchain", "constcycle", "many-scripts", "many-locals", "comment-open", "comment-nested", "long-ident", "long-string", "long-line", "long-ins", "long-digits", "meta-object", "meta-array", "meta-many", "many-sprites"];

fn rep(s: &str, n: usize) -> String { s.repeat(n) }

fn nest_expr(kind: &str, d: usize) -> String {
    match kind {
        "parens" => format!("{}1{}", rep("(", d), rep(")", d)),
        "neg" => format!("{}1{}", rep("-(", d), rep(")", d)),
        "not" => format!("{}1{}", rep("!(", d), rep(")", d)),
        "bnot" => format!("{}1{}", rep("~(", d), rep(")", d)),
        "sin" => format!("{}1.0{}", rep("sin(", d), rep(")", d)),
        "cast" => format!("{}1{}", rep("int(float(", d / 2 + 1), rep("))", d / 2 + 1)),
        "sigil" => format!("{}1{}", rep("$(%(", d / 2 + 1), rep("))", d / 2 + 1)),
        "ternary-right" => format!("{}0", rep("1 ? 1 : ", d)),
        "ternary-mid" => format!("{}1{}", rep("1 ? ", d), rep(" : 0", d)),
        "ternary-cond" => format!("{}1{}", rep("(", d), rep(" ? 1 : 0)", d)),
        "binop-right" => format!("{}1{}", rep("1 + (", d), rep(")", d)),
        "binop-left" => format!("1{}", rep(" + 1", d)),
        "binop-mixed" => { let ops = ["+", "-", "*", "/", "%", "|", "^", "&", "<<", ">>", ">>>", "==", "!=", "<", "<=", ">", ">=", "||", "&&"]; let mut s = String::from("1"); for k in 0..d { s.push_str(&format!(" {} {}", ops[k % ops.len()], k % 7 + 1)); } s },
        "diffswitch" => format!("{}1{}", rep("(1:", d), rep(":1:1)", d)),
        "call" => format!("{}1{}", rep("ins_1(", d), rep(")", d)),
        "float-chain" => format!("1.0{}", rep(" * 1.5", d)),
        "logic-chain" => format!("1{}", rep(" && 1 || 0", d)),
        _ => "1".into(),
    }
}

fn nest_stmts(kind: &str, d: usize) -> String {
    match kind {
        "block" => format!("{}{}", rep("{ ", d), rep("} ", d)),
        "if" => format!("{}{}", rep("if (1) { ", d), rep("} ", d)),
        "ifelse" => format!("{}{}", rep("if (1) { } else { ", d), rep("} ", d)),
        "elseif-chain" => format!("if (1) {{ }}{} else {{ }}", rep(" else if (1) { }", d)),
        "loop" => format!("{}{}", rep("loop { ", d), rep("} ", d)),
        "while" => format!("{}{}", rep("while (1) { ", d), rep("} ", d)),
        "dowhile" => format!("{}{}", rep("do { ", d), rep("} while (1); ", d)),
        "times" => format!("{}{}", rep("times(2) { ", d), rep("} ", d)),
        "mixed-blocks" => { let opens = ["if (1) { ", "loop { ", "{ ", "times(3) { ", "while (0) { ", "if (0) { } else { "]; let mut s = String::new(); for k in 0..d { s.push_str(opens[k % opens.len()]); } s.push_str(&rep("} ", d)); s },
        "labels" => (0..d).map(|k| format!("l{k}: ")).collect(),
        "gotos" => { let mut s: String = (0..d).map(|k| format!("l{k}: goto l{};\n", (k + 1) % d.max(1))).collect(); s.push_str("+1:\n"); s },
        "func" => format!("{}{}", rep("void f() { ", d), rep("} ", d)),
        "difflabel" => (0..d).map(|k| format!("{{\"{}\"}}: ", ["E", "N", "H", "L", "*", "EN"][k % 6])).collect::<String>() + "ins_0();",
        "many-stmts" => rep("ins_0();\n", d),
        "many-args" => format!("ins_0({});", vec!["1"; d].join(", ")),
        "many-locals" => (0..d).map(|k| format!("int x{k} = {k};\n")).collect(),
        _ => String::new(),
    }
}

/// the whole source text of a `nest` case
pub fn nest_text(kind: &str, depth: usize, format: Format, game: Game) -> String {
    if let Some(&(_, ty)) = NEST_EXPR_KINDS.iter().find(|k| k.0 == kind.split('@').next().unwrap_or("")) {
        let ctx = kind.split('@').nth(1).unwrap_or("const");
        return expr_in_context(format, game, ctx, &nest_expr(kind.split('@').next().unwrap(), depth), ty);
    }
    let (head, tail) = skeleton(format, game, false);
    match kind {
        "constchain" => { let mut s = String::from("const int c0 = 1;\n"); for k in 1..=depth { s.push_str(&format!("const int c{k} = c{} + 1;\n", k - 1)); } format!("{s}{head}+c{depth}:\n{tail}") },
        // defined in reverse order: the evaluator has to recurse through the whole chain
        "constcycle" => { let mut s = String::new(); for k in 0..depth { s.push_str(&format!("const int c{k} = c{} + 1;\n", k + 1)); } s.push_str(&format!("const int c{depth} = {};\n", if depth % 2 == 0 { "c0".to_string() } else { "1".to_string() })); format!("{s}{head}{tail}") },
        "many-scripts" => { let mut s = head.clone(); s.push_str(&tail); for k in 0..depth { s.push_str(&format!("script extra{k} {{ }}\n")); } s },
        "comment-open" => format!("{head}{tail}{}", rep("/*", depth)),
        "comment-nested" => format!("{head}{tail}{} x {}", rep("/* ", depth), rep("*/ ", depth)),
        "long-ident" => format!("{head}    int {} = 1;\n{tail}", rep("a", depth)),
        "long-string" => format!("const string s = \"{}\";\n{head}{tail}", rep("a", depth)),
        "long-line" => format!("{head}{tail}// {}", rep("\u{3042}", depth)),
        "long-ins" => format!("{head}    ins_{}();\n{tail}", rep("1", depth)),
        "long-digits" => format!("const int c = {};\nconst float f = {}.0;\n{head}{tail}", rep("9", depth), rep("9", depth)),
        "meta-object" => format!("meta {{ a: {}1{} }}\n{head}{tail}", rep("{a: ", depth), rep("}", depth)),
        "meta-array" => format!("meta {{ a: {}1{} }}\n{head}{tail}", rep("[", depth), rep("]", depth)),
        "meta-many" => format!("meta {{ {} }}\n{head}{tail}", (0..depth).map(|k| format!("k{k}: {k}")).collect::<Vec<_>>().join(", ")),
        "many-sprites" => format!("entry {{ path: \"a.png\", has_data: false, img_width: 16, img_height: 16, img_format: 3, sprites: {{{}}} }}\nscript script0 {{ }}\n", (0..depth).map(|k| format!("s{k}: {{x: 0.0, y: 0.0, w: 1.0, h: 1.0}}")).collect::<Vec<_>>().join(", ")),
        "func" => format!("{head}{tail}{}", nest_stmts(kind, depth)),
        _ => format!("{head}{}\n{tail}", nest_stmts(kind, depth)),
    }
}

// ---------------------------------------------------------------------------------------------
// extreme literals

pub const INT_LITERALS: &[&str] = &[
    "0", "1", "2147483647", "2147483648", "4294967295", "4294967296", "4294967297", "99999999999", "18446744073709551615", "18446744073709551616",
    "340282366920938463463374607431768211456", "0x7fffffff", "0x80000000", "0xffffffff", "0x100000000", "0xFFFFFFFFFFFFFFFFFFFF", "0X1", "0x", "0xg", "0b1", "0b11111111111111111111111111111111",
    "0b111111111111111111111111111111111", "0b", "0b2", "0B0", "00000000000000000000000000000001", "007", "-1", "-2147483648", "-2147483649", "-4294967295", "- 1", "-(-2147483648)", "-0", "+1", "1_000", "1e9", "1e999", "١٢٣",
    "2147483647 + 1", "-2147483648 - 1", "-2147483648 / -1", "-2147483648 % -1", "1 / 0", "1 % 0", "65536 * 65536", "1 << 32", "1 << -1", "1 >> 99999", "-1 >>> 33", "~0", "!0", "0x80000000 / -1",
    "int(3.9e9)", "int(1e39)", "int(-1.0)", "int(99999999999.0)", "int(0.0 / 0.0)", "int(1.0 / 0.0)", "$(1.5)", "int(rad(1e30))",
];
pub const FLOAT_LITERALS: &[&str] = &[
    "0.0", "1.0", "1.f", "1f", "1.5f", "1.", ".5", "1.0.0", "1..0", "1.0f0", "0.1", "3.4028235e38", "340282350000000000000000000000000000000.0", "340282360000000000000000000000000000000.0",
    "999999999999999999999999999999999999999999999999999999999999.0", "0.000000000000000000000000000000000000000000000000000000000000001", "1.0e38", "1e999", "1.0E5", "-0.0", "-1.0", "INF", "-INF", "NAN", "inf", "nan",
    "rad(0)", "rad(1)", "rad(-1)", "rad(+1)", "rad(1.5)", "rad(1.5f)", "rad(1f)", "rad(99999999999999999999999999999999999999999)", "rad()", "rad(1", "rad( 1)", "rad(--1)", "rad(1e5)",
    "1.0 / 0.0", "0.0 / 0.0", "-1.0 % 0.0", "sqrt(-1.0)", "asin(2.0)", "tan(1.5707964)", "float(2147483647)", "float(-2147483648)", "%(1)", "1.0 + 1", "sin(1)",
];
pub const STRING_LITERALS: &[&str] = &[
    "\"\"", "\"a\"", "\"\\\"\"", "\"\\\\\"", "\"\\n\\r\\0\"", "\"\\q\"", "\"\\x41\"", "\"\\u{41}\"", "\"\\\u{3042}\"", "\"\\\n\"", "\"a\nb\"", "\"a\r\nb\"", "\"\t\"", "\"\u{0}\"", "\"\u{feff}\"", "\"\u{1F600}\"", "\"\u{3042}\u{3044}\"",
    "\"\u{e9}\u{301}\"", "\"\u{202e}abc\"", "\"unterminated", "\"unterminated\\\"", "\"\\", "'a'", "\"a\" \"b\"", "\"a\" + \"b\"", "\"\u{ff71}\u{ff72}\"", "\"\u{7e}\u{5c}\u{a5}\u{203e}\"", "\"\u{20ac}\u{10ffff}\"",
];
pub const TIME_LABELS: &[&str] = &["0:", "-1:", "2147483647:", "2147483648:", "4294967295:", "99999999999:", "+0:", "+-1:", "+2147483647:", "+2147483647:\n+1:", "+2147483647:\n+2147483647:", "-2147483648:", "-2147483648:\n+-1:", "2147483647:\n+1:", "+(2147483647):\n+(1):", "+1.0:", "+\"a\":", "1.5:", "+:", ":", "+1", "+(1 / 0):", "+REG[10000]:", "+x:", "0x10:", "+0x7fffffff:\n+0x7fffffff:\n+2:", "-2147483647:\n+-2:", "10:\n5:\n-5:\n+-20:"];
pub const MISC_ITEMS: &[&str] = &[
    "ins_2147483648();", "ins_65535();", "ins_65536();", "ins_99999999999999999999();", "ins_();", "ins_abc();", "ins_01();", "ins_-1();", "ins_0(@mask=0xffffffff);", "ins_0(@mask=99999999999);", "ins_0(@blob=\"\");", "ins_0(@blob=\"0\");", "ins_0(@blob=\"zz\");",
    "ins_0(@blob=\"00 11 22\");", "ins_0(@blob=\"00112233 44\");", "ins_0(@arg0=99999);", "ins_0(@arg0=-1);", "ins_0(@pop=1);", "ins_0(@nargs=1);", "ins_0(@nargs=-1);", "ins_0(@foo=1);", "ins_0(@mask=1, @mask=2);", "ins_0(1, @mask=1);", "ins_0(@blob=\"00000000\", 1);", "ins_0(@arg0=1.0);", "ins_0(@mask=\"a\");", "ins_0(@blob=1);",
    "$REG[2147483647] = 1;", "$REG[2147483648] = 1;", "$REG[-2147483648] = 1;", "$REG[-2147483649] = 1;", "$REG[99999999999] = 1;", "REG[10000] = 1;", "%REG[10000] = 1;", "$REG[10000] = %REG[10000];", "$REG[10000] = REG[10000];", "REG[-1] = REG[-1];", "$REG[10000][0] = 1;",
    "int x = x;", "int x; int x;", "int x = 1; float x = 2.0;", "var x; x = 1;", "var x = 1;", "int $x = 1;", "int %x = 1;", "float %x = 1.0; int y = $x;", "string s = \"a\";", "const string s = \"a\"; $REG[10000] = s;", "const int x = 1; x = 2;", "const int x = x;", "const var x = 1;", "void x;", "const void x = 1;",
    "goto nowhere;", "goto a; a: a:", "goto a @ 10;", "goto a @ -1;", "goto a @ 99999999999; a:", "a: goto a @ 2147483647;", "break;", "loop { break; break; }", "return;", "return 1;", "if (1) goto a; a:", "unless (0) goto a; a:", "if (--$REG[10000]) goto a; a:", "if ($REG[10000]--) { }", "times($REG[10000] = 3) { }", "times(%REG[10004] = 3) { }", "times(3.0) { }", "times(-1) { }", "times(0) { }",
    "offsetof(a);", "$REG[10000] = offsetof(a); a:", "$REG[10000] = timeof(a); a:", "$REG[10000] = offsetof(nowhere);", "$REG[10000] = timeof(nowhere);", "interrupt[1]:", "interrupt[-1]:", "interrupt[2147483648]:", "interrupt[1.0]:", "interrupt[$REG[10000]]:", "interrupt[]:",
    "$REG[10000] = 1:2:3:4;", "$REG[10000] = 1::::;", "$REG[10000] = :1;", "$REG[10000] = (1:2):3;", "$REG[10000] = 1:2.0:3:4;", "$REG[10000] = 1:2:3:4:5:6:7:8:9;", "ins_0(1:2);", "{\"E\"}: ins_0();", "{\"\"}: ins_0();", "{\"Z9\"}: ins_0();", "{\"E\"}: {\"N\"}: ins_0();", "{\"*-E\"}: ins_0();", "{\"-\"}: ins_0();", "{\"\u{3042}\"}: ins_0();",
    "$REG[10000] += 1.0;", "$REG[10000] <<= 99;", "%REG[10004] %= 0.0;", "$REG[10000] /= 0;", "$REG[10000] = $REG[10000] / 0;", "%REG[10004] |= 1;", "$REG[10000] = sin(1);", "$REG[10000] = -\"a\";", "$REG[10000] = \"a\" + 1;", "$REG[10000] = 1 ? 2.0 : 3;", "$REG[10000] = 1.0 ? 2 : 3;", "$REG[10000] = ins_0();", "ins_0(ins_0());", "1;", "$REG[10000];", "1 + 1;", "x.y;", "$REG[10000] = A.b;", "$REG[10000] = AnmScript.script0;", "$REG[10000] = bool.true;",
    "async foo();", "foo();", "foo(1);", "sub0();", "script0();", "int f() { return 1; }", "void f(int x) { }", "inline void f() { f(); }", "const int f() { return 1; }", "insdef ins_1();", "global x = 1;", "#pragma mapfile \"nonexistent.map\"", "#pragma image_source \"nonexistent\"", "#pragma foo \"a\"", "#pragma mapfile 1", "anim { }", "ecli { \"a\"; }", "sub f() { }", "meta { }", "meta { a: }", "meta { a: b }", "meta { a: 1 a: 2 }", "meta { a: 1, a: 2 }", "meta { 1: 1 }", "meta { a: [1, \"a\", 1.0, {b: []}] }", "meta { a: rect {} }", "meta { a: -1, b: -1.0, c: --1 }",
    "script { }", "script 1 { }", "script -1 s { }", "script 2147483648 s { }", "script s s { }", "script script0 { }", "entry { }", "entry { path: 1 }", "entry { path: \"a.png\", sprites: {a: {}} }", "entry { path: \"a.png\", sprites: 1 }", "entry { path: \"a.png\", scripts: {} }", "entry { path: \"a.png\", has_data: \"dummy\", img_width: -1, img_height: 99999999999, img_format: 99 }", "entry { path: \"a.png\", has_data: true }", "entry { path: \"a.png\", has_data: false, img_width: 0, img_height: 0 }", "entry { path: \"a.png\", rt_width: 3, rt_height: 5, img_format: 1, colorkey: -1, offset_x: -1, memory_priority: 256, low_res_scale: 2 }",
];

/// one file with `item` put at statement level, at item level, or inside the first meta
fn item_in_context(format: Format, game: Game, item: &str, place: usize) -> String {
    let (head, tail) = skeleton(format, game, false);
    match place % 3 {
        0 => format!("{head}    {item}\n{tail}"),
        1 => format!("{item}\n{head}{tail}"),
        _ => format!("{head}{tail}{item}\n"),
    }
}

// ---------------------------------------------------------------------------------------------
// token- and byte-level mutations

pub const TOKEN_POOL: &[&str] = &[
    ",", "?", ":", ";", "[", "]", "{", "}", "(", ")", "@", "...", ".", "=", "+", "-", "*", "/", "%", "^", "|", "&", "~", "+=", "-=", "*=", "/=", "%=", "^=", "|=", "&=", "==", "!=", "<", "<=", ">", ">=", "<<", ">>", ">>>", "<<=", ">>=", ">>>=", "!", "||", "&&", "--", "++", "$", "#",
    "anim", "ecli", "meta", "sub", "script", "entry", "var", "int", "float", "string", "void", "const", "inline", "insdef", "return", "goto", "loop", "if", "else", "unless", "do", "while", "times", "break", "switch", "case", "default", "interrupt", "async", "global", "pragma", "mapfile", "image_source",
    "offsetof", "timeof", "sin", "cos", "tan", "asin", "acos", "atan", "sqrt", "_S", "_f", "REG", "\"str\"", "1.5", "rad(1)", "1", "0x10", "0b1", "!ENHL", "!*", "ins_1", "ins_99999", "x", "undefined_name", "script0", "sub0", "s0", "I0", "F0", "2147483648", "99999999999", "\"\"", "INF", "NAN", "PI", "true", "false", "null",
];

/// (byte range of every token of `text` according to the real lexer); invalid-token ranges included
pub fn token_ranges(text: &str) -> Vec<(usize, usize)> {
    let r = std::panic::catch_unwind(|| {
        let src = truth::pos::SourceStr::from_full_source(None, text);
        let mut out = vec![];
        for item in truth::parse::lexer::Lexer::new(src) {
            if let Ok((l, _, r)) = item { out.push((l.1.0 as usize, r.1.0 as usize)); }
        }
        out
    });
    // only ranges the mutators can slice with, whatever the lexer says (its spans are judged by the `spans` cases)
    let mut prev = 0usize;
    r.unwrap_or_default().into_iter().filter(|&(a, b)| {
        let ok = a >= prev && a <= b && b <= text.len() && text.is_char_boundary(a) && text.is_char_boundary(b);
        if ok { prev = b; }
        ok
    }).collect()
}

pub fn token_mutant(rng: &mut Rng, text: &str, toks: &[(usize, usize)]) -> (String, &'static str) {
    if toks.is_empty() { return (text.to_string(), "tok-none"); }
    let i = rng.below(toks.len());
    let (a, b) = toks[i];
    let piece = |lo: usize, hi: usize| -> &str { &text[lo..hi] };
    match rng.below(12) {
        0 | 1 => (format!("{}{}", piece(0, a), piece(b, text.len())), "tok-delete"),
        2 => (format!("{}{} {}{}", piece(0, a), piece(a, b), piece(a, b), piece(b, text.len())), "tok-duplicate"),
        3 => {
            if i + 1 >= toks.len() { return (format!("{}{}", piece(0, a), piece(b, text.len())), "tok-delete"); }
            let (c, d) = toks[i + 1];
            (format!("{}{}{}{}{}", piece(0, a), piece(c, d), piece(b, c), piece(a, b), piece(d, text.len())), "tok-swap")
        },
        4 | 5 | 6 => (format!("{}{}{}", piece(0, a), rng.pick(TOKEN_POOL), piece(b, text.len())), "tok-replace"),
        7 => (format!("{}{} {}", piece(0, a), rng.pick(TOKEN_POOL), piece(a, text.len())), "tok-insert"),
        8 => { // delete a range of tokens
            let j = (i + 1 + rng.below(8)).min(toks.len() - 1);
            (format!("{}{}", piece(0, a), piece(toks[j].1, text.len())), "tok-delete-range")
        },
        9 => { // duplicate a range (more nesting / repeated definitions)
            let j = (i + 1 + rng.below(12)).min(toks.len() - 1);
            (format!("{}{} {}", piece(0, toks[j].1), piece(a, toks[j].1), piece(toks[j].1, text.len())), "tok-duplicate-range")
        },
        10 => { // a literal / name at this place becomes an extreme literal
            let lit = match rng.below(4) { 0 => *rng.pick(FLOAT_LITERALS), 1 => *rng.pick(STRING_LITERALS), _ => *rng.pick(INT_LITERALS) };
            (format!("{}{}{}", piece(0, a), lit, piece(b, text.len())), "tok-extreme-literal")
        },
        _ => (piece(0, b).to_string(), "tok-truncate"),
    }
}

pub const BYTE_POOL: &[&[u8]] = &[b"\x00", b"\xff", b"\xfe", b"\xef\xbb\xbf", b"\xc0\x80", b"\x80", b"\xbf", b"\xed\xa0\x80", b"\xf4\x90\x80\x80", b"\xf0\x9f\x98\x80", b"\xe3\x81\x82", b"\xe3\x81", b"\xcc\x81", b"\xe2\x80\xa8", b"\xe2\x80\xae",
    b"\r", b"\r\n", b"\n", b"\t", b"\x0b", b"\x0c", b"\x1a", b"\x7f", b"\"", b"\\", b"'", b"/*", b"*/", b"//", b"#", b"!", b"{", b"}", b"(", b")", b"\xc2\xa0", b"\xe3\x80\x80", b"\x1b[31m"];

pub fn byte_mutant(rng: &mut Rng, text: &[u8]) -> (Vec<u8>, &'static str) {
    let mut b = text.to_vec();
    if b.is_empty() { return (rng.pick(BYTE_POOL).to_vec(), "byte-tiny"); }
    let i = rng.below(b.len() + 1);
    match rng.below(10) {
        0 | 1 | 2 => { let ins = rng.pick(BYTE_POOL); let tail = b.split_off(i); b.extend_from_slice(ins); b.extend(tail); (b, "byte-insert") },
        3 => { let i = i.min(b.len() - 1); b[i] = rng.pick(BYTE_POOL)[0]; (b, "byte-replace") },
        4 => { let i = i.min(b.len() - 1); b[i] ^= 1 << rng.below(8); (b, "byte-bitflip") },
        5 => { b.truncate(i); (b, "byte-truncate") },
        6 => { let j = (i + 1 + rng.below(16)).min(b.len()); b.drain(i.min(j)..j); (b, "byte-delete-range") },
        7 => { let j = (i + 1 + rng.below(40)).min(b.len()); let piece = b[i.min(j)..j].to_vec(); let tail = b.split_off(j); b.extend(piece); b.extend(tail); (b, "byte-duplicate-range") },
        8 => { let mut out = b"\xef\xbb\xbf".to_vec(); out.extend(b); (out, "byte-bom") },
        _ => { let out: Vec<u8> = String::from_utf8_lossy(&b).replace('\n', "\r\n").into_bytes(); (out, "byte-crlf") },
    }
}

// ---------------------------------------------------------------------------------------------
// mapfiles

pub const MAP_MAGICS: &[&str] = &["!anmmap", "!eclmap", "!stdmap", "!msgmap", "!endmap", "!gamemap", "!__noncommittal_internal_name_for_timelinemap__do_not_use", "!foomap", "!", "anmmap", "", "!anmmap extra", "! anmmap", "!ANMMAP"];
pub const MAP_SECTIONS: &[&str] = &["ins_names", "ins_signatures", "ins_rets", "gvar_names", "gvar_types", "ins_intrinsics", "timeline_ins_names", "timeline_ins_signatures", "difficulty_flags", "enum(name=\"color\")", "enum(name=\"bool\")", "enum(name=\"\")", "enum(name=\"1a\")", "enum(name=\"AnmScript\")", "enum()", "enum", "game_files", "unknown_section", "ins_names(x)", "1abc", ""];
pub const MAP_KEYS: &[&str] = &["0", "1", "2", "10", "100", "900", "-1", "10000", "-10001", "2147483647", "2147483648", "-2147483648", "-2147483649", "99999999999", "007", "+5", "0x10", "", "12abc", "1.5", "65535", "65536"];
pub const MAP_NAMES: &[&str] = &["foo", "bar", "foo", "_", "a1", "1a", "", "a b", "int", "REG", "ins_5", "ins_foo", "if", "script", "\u{3042}", "a-b", "a.b", "sin", "offsetof", "true", "script0", "s0", "x", "c0", "I0", "aaaaaaaaaaaaaaaaaaaaaaaaaaaaaaaaaaaaaaaaaaaaaaaaaaaaaaaaaaaaaaaaaaaaaaaaaaaaaaaaaaaaaaaaaaaaaaaaaaaaaaaaaaaaaaaaaaaaaaaaaaaaaaaa"];
pub const MAP_GVAR_TYPES: &[&str] = &["$", "%", "?", "", "x", "$$", "int", "S", "f", " $ "];
pub const MAP_DIFF_FLAGS: &[&str] = &["E-", "N-", "H-", "L-", "4-", "E+", "N+", "E", "", "EE-", "E--", "-", "+", "\u{e9}-", "\u{1F600}-", "e-", "1-", "*-", "E -", "EN-"];
pub const MAP_ABI_BAD: &[&str] = &["S(", "S)", "S()", "S(hex", "S(hex)", "S(imm)", "S(imm;hex)", "S(enum)", "S(enum=)", "S(enum=\"\")", "S(enum=\"1a\")", "S(enum=\"bool\")", "S(enum=\"nonexistent\")", "S(enum=1)", "S(foo)", "S(hex;hex)", "S(hex=1)", "s(imm)", "f(imm)", "f(hex)",
    "z", "z()", "z(bs=4)", "z(bs=0)", "z(bs=-1)", "z(bs=)", "z(bs=99999999999)", "z(bs=4;bs=4)", "z(bs=\"4\")", "z(len=4)", "z(len=0)", "z(len=-4)", "z(len=4;bs=4)", "z(bs=4;mask=0x77,7,16)", "m(bs=4;mask=0x77,7,16)", "m(bs=4;mask=0x77,7)", "m(bs=4;mask=0x77,7,16,1)", "m(bs=4;mask=999,999,999)", "m(bs=4;mask=-1,-1,-1)", "m(len=48;mask=0x77,7,16;furibug)", "m(len=48;nulless;furibug;mask=0,0,0)", "p(bs=4)", "p", "m", "z(bs=4;furibug)", "z(bs=4;nulless)",
    "o", "t", "ot", "to", "oo", "tt", "o(imm)", "t(hex)", "T", "T(e)", "T(s)", "T(m)", "T(_)", "T(x)", "T()", "T(e)S", "ST(e)", "N", "n", "E", "U", "u", "b", "c", "C", "_", "-", "__", "S__", "_S", "S_S", "-S", "b---", "bb--", "bbb", "s_", "s", "ss", "sb", "v", "V", "x", "X", "?", "$", "%", "1", "S1", "\u{3042}", "S S", " S ", "S\tf", "SSSSSSSSSSSSSSSSSSSSSSSSSSSSSSSSSSSSSSSSSSSSSSSSSSSSSSSSSSSSSSSSSSSSSSSS", "S(arg0)", "s(arg0)", "s(arg0)s(arg0)", "Ss(arg0)", "b(arg0)", "S(arg0;imm)", "_(arg0)", "z(arg0)", "f(arg0)"];
pub const MAP_INTRINSIC_BAD: &[&str] = &["Jmp", "Jmp(", "Jmp)", "Jmp(1)", "jmp()", "Foo()", "", "()", "AssignOp()", "AssignOp(=)", "AssignOp(=,int,int)", "AssignOp(int,=)", "AssignOp(==,int)", "AssignOp(=,string)", "AssignOp(=,void)", "BinOp(+)", "BinOp(+,int", "BinOp(=,int)", "BinOp(+,int,float)", "UnOp(-,int)", "UnOp(sin,int)", "UnOp(!,float)", "UnOp(+,int)", "CondJmp(=,int)", "CondJmp(==)", "CondJmp(==,string)", "CondJmp2A(int)", "CondJmp2B(==)", "CountJmp()", "CountJmp(!=)", "CountJmp(>)", "InterruptLabel()", "InterruptLabel(1)", "CallEosd()", "CallReg()", "Pad()", "Jmp() ", " Jmp()", "Jmp()Jmp()", "Jmp();", "\u{3042}()"];

pub struct MapPools { pub sigs: Vec<String>, pub intrinsics: Vec<String> }

pub fn map_pools() -> MapPools {
    let mut sigs = std::collections::BTreeSet::new();
    let mut intr = std::collections::BTreeSet::new();
    let mut scope = truth::Builder::new().capture_diagnostics(true).build();
    let mut truth = scope.truth();
    for &g in ALL_GAMES {
        for lang in [LanguageKey::Anm, LanguageKey::Std, LanguageKey::Msg, LanguageKey::End, LanguageKey::Ecl, LanguageKey::Timeline] {
            let m = truth::verif_hooks::core_mapfile(truth.ctx().emitter, g, lang);
            for (_, s) in m.ins_signatures.iter().chain(m.timeline_ins_signatures.iter()) { sigs.insert(s.value.clone()); }
            for (_, s) in &m.ins_intrinsics { intr.insert(s.value.clone()); }
        }
    }
    MapPools { sigs: sigs.into_iter().collect(), intrinsics: intr.into_iter().collect() }
}

fn mutate_short(rng: &mut Rng, s: &str) -> String {
    let cs: Vec<char> = s.chars().collect();
    if cs.is_empty() { return rng.pick(&["(", ")", "S", ";", "="]).to_string(); }
    let i = rng.below(cs.len());
    let pool: Vec<char> = "SsUufbcCzmpotTNnEv_-()=;,\"0149xX \u{3042}".chars().collect();
    let mut out = cs.clone();
    match rng.below(6) {
        0 => { out.truncate(i); },                         // every prefix over time
        1 => { out.remove(i); },
        2 => { out[i] = *rng.pick(&pool); },
        3 => { out.insert(i, *rng.pick(&pool)); },
        4 => { let c = out[i]; out.insert(i, c); },
        _ => { out = out[i..].to_vec(); },
    }
    out.into_iter().collect()
}

fn map_value(rng: &mut Rng, section: &str, pools: &MapPools) -> String {
    let sec = section.split('(').next().unwrap_or("");
    match sec {
        "ins_signatures" | "timeline_ins_signatures" | "ins_rets" => match rng.below(6) {
            0 | 1 => rng.pick(&pools.sigs).clone(),
            2 | 3 => { let s = rng.pick(&pools.sigs).clone(); mutate_short(rng, &s) },
            _ => rng.pick(MAP_ABI_BAD).to_string(),
        },
        "ins_intrinsics" => match rng.below(5) {
            0 | 1 => if pools.intrinsics.is_empty() { "Jmp()".into() } else { rng.pick(&pools.intrinsics).clone() },
            2 => { let s = if pools.intrinsics.is_empty() { "Jmp()".to_string() } else { rng.pick(&pools.intrinsics).clone() }; mutate_short(rng, &s) },
            _ => rng.pick(MAP_INTRINSIC_BAD).to_string(),
        },
        "gvar_types" => rng.pick(MAP_GVAR_TYPES).to_string(),
        "difficulty_flags" => rng.pick(MAP_DIFF_FLAGS).to_string(),
        "game_files" => rng.pick(&["target.map", "nonexistent.map", "", "m0.map", "../target.map", "/dev/null", "."]).to_string(),
        _ => rng.pick(MAP_NAMES).to_string(),
    }
}

/// a mapfile text: mostly well-formed sections with some malformed lines
pub fn gen_mapfile(rng: &mut Rng, format: Format, pools: &MapPools) -> String {
    let magic = if rng.chance(5, 6) { match format { Format::Anm => "!anmmap", Format::Std => "!stdmap", Format::Msg => "!msgmap", Format::End => "!endmap", Format::Ecl => "!eclmap", Format::Mission => "!msgmap" } } else { *rng.pick(MAP_MAGICS) };
    let mut s = format!("{magic}\n");
    for _ in 0..1 + rng.below(4) {
        let sec = if rng.chance(7, 8) { *rng.pick(&MAP_SECTIONS[..11]) } else { *rng.pick(MAP_SECTIONS) };
        s.push_str(&format!("!{sec}\n"));
        for _ in 0..rng.below(5) {
            let key = if rng.chance(4, 5) { *rng.pick(&MAP_KEYS[..9]) } else { *rng.pick(MAP_KEYS) };
            let val = map_value(rng, sec, pools);
            match rng.below(14) {
                0 => s.push_str(&format!("{key}\n")),
                1 => s.push_str(&format!("{val}\n")),
                2 => s.push_str(&format!("{key}{val}\n")),
                3 => s.push_str(&format!("  {key}   {val}   # comment\n")),
                4 => s.push_str(&format!("{key}\t{val}\r\n")),
                _ => s.push_str(&format!("{key} {val}\n")),
            }
        }
        if rng.chance(1, 8) { s.push_str("# comment line\n\n"); }
    }
    s
}

/// a source that uses what mapfiles typically define (names, opcodes 900.., registers, flags, enums)
pub fn map_user_source(rng: &mut Rng, format: Format, game: Game) -> String {
    let (head, tail) = skeleton(format, game, false);
    let stmts = ["ins_900(1);", "ins_900(1, 2.0);", "ins_900(\"a\");", "ins_900();", "ins_1(1);", "ins_0();", "ins_2(1, 2);", "foo(1);", "bar();", "foo();", "$REG[10000] = 1;", "$foo = 1;", "%bar = 2.0;", "foo = bar;", "$REG[10000] = $REG[10000] + 1;", "%REG[10000] = sin(%REG[10000]);",
        "if ($REG[10000] == 1) { ins_900(1); }", "loop { ins_0(); }", "times(3) { ins_0(); }", "{\"E\"}: ins_0();", "{\"EN\"}: ins_900(1);", "{\"foo\"}: ins_0();", "ins_900(color.foo);", "ins_900(foo.bar);", "ins_900(bool.true);", "$REG[100] = 1:2:3:4;", "goto a; a:", "interrupt[1]:", "+10:", "ins_10(1, 2);", "ins_100(1.0);", "$REG[0] = $REG[1] * $REG[2];", "%REG[2] = %REG[1] / 2.0;", "ins_2(offsetof(a), timeof(a)); a:"];
    let mut body = String::new();
    for _ in 0..1 + rng.below(4) { body.push_str(&format!("    {}\n", rng.pick(&stmts))); }
    format!("{head}{body}{tail}")
}

// ---------------------------------------------------------------------------------------------
// (trace OP*): the error plumbing, run against the real API

use truth::diagnostic::{Diagnostic, Emitter, DummyEmitter, RootEmitter};
use truth::error::{ErrorFlag, GatherErrorIteratorExt};
use truth::ErrorReported;

enum V { Tok(ErrorReported), Flag(ErrorFlag), Res(Result<(), ErrorReported>) }

fn diag_of(sev: &str) -> Diagnostic {
    let mut d = match sev { "bug" => Diagnostic::bug(), "error" => Diagnostic::error(), "warning" => Diagnostic::warning(), _ => Diagnostic::info() };
    d.message("m".to_string());
    d
}

fn emit_with(root: &RootEmitter, w: &str, sevs: &Sexp) -> ErrorReported {
    let ds: Vec<Diagnostic> = sevs.as_list().iter().map(|s| diag_of(s.as_atom())).collect();
    match w {
        "root" => root.emit(ds),
        "chain1" => root.get_chained("c").emit(ds),
        "chain2" => { let a = root.get_chained("c"); let b = a.get_chained("c"); b.emit(ds) },
        "chain3" => { let a = root.while_reading("c"); a.chain("c", |b| b.chain_with(|f| write!(f, "c"), |c| c.emit(ds))) },
        "dummy" => DummyEmitter.emit(ds),
        _ => root.with_writer(truth::diagnostic::dev_null()).emit(ds),
    }
}

/// `wrap_exit_code` (private in cli_def.rs): `Ok(()) => exit(0)`, `Err(ErrorReported {..}) => exit(1)`
fn exit_code_of(r: Result<(), ErrorReported>) -> i64 { match r { Ok(()) => 0, Err(ErrorReported { .. }) => 1 } }

fn eval_trace(case: &Sexp) -> Sexp {
    use std::fmt::Write as _;
    let mut scope = truth::Builder::new().capture_diagnostics(true).build();
    let mut truth = scope.truth();
    let root: &RootEmitter = truth.ctx().emitter;
    let mut st: Vec<V> = vec![];
    let mut halted: Option<ErrorReported> = None;
    let stuck = || app("stuck", vec![]);
    for op in case.args() {
        let a = op.args();
        match op.head().unwrap_or("") {
            "emit" => st.push(V::Tok(emit_with(root, a[0].as_atom(), &a[1]))),
            "emitign" => emit_with(root, a[0].as_atom(), &a[1]).ignore(),
            "ignore" => match st.pop() { Some(V::Tok(t)) => t.ignore(), _ => return stuck() },
            "drop" => match st.pop() { Some(v) => drop(v), None => return stuck() },
            "flagnew" => st.push(V::Flag(ErrorFlag::new())),
            "flagset" => match (st.pop(), st.last_mut()) { (Some(V::Tok(t)), Some(V::Flag(f))) => f.set(t), _ => return stuck() },
            "flagres" => match st.pop() { Some(V::Flag(f)) => st.push(V::Res(f.into_result(()))), _ => return stuck() },
            "errof" => match st.pop() { Some(V::Tok(t)) => st.push(V::Res(Err(t))), _ => return stuck() },
            "ok" => st.push(V::Res(Ok(()))),
            "orelse" => match (st.pop(), st.last_mut()) { (Some(V::Res(r)), Some(V::Flag(f))) => r.unwrap_or_else(|e| f.set(e)), _ => return stuck() },
            "collect" => {
                let n = a[0].as_usize();
                if st.len() < n { return stuck(); }
                let top = st.split_off(st.len() - n);
                let mut rs = vec![];
                for v in top { match v { V::Res(r) => rs.push(r), _ => return stuck() } }
                st.push(V::Res(rs.into_iter().collect_with_recovery::<()>()));
            },
            "collectemit" => {
                let r = a[0].as_list().iter().map(|e| match e {
                    Sexp::List(v) => Err(emit_with(root, v[0].as_atom(), &v[1])),
                    _ => Ok(()),
                }).collect_with_recovery::<()>();
                st.push(V::Res(r));
            },
            "try" => match st.pop() { Some(V::Res(Ok(()))) => {}, Some(V::Res(Err(e))) => { halted = Some(e); break; }, _ => return stuck() },
            _ => return stuck(),
        }
    }
    let result = match halted {
        Some(e) => Err(e),
        None => { if st.len() != 1 { return stuck(); } match st.pop() { Some(V::Res(r)) => r, _ => return stuck() } },
    };
    let code = exit_code_of(result);
    let text = truth.get_captured_diagnostics().unwrap_or_default();
    let mut log = vec![];
    for l in text.lines() {
        for sev in ["error", "bug", "warning", "note", "help"] {
            if let Some(rest) = l.strip_prefix(sev).and_then(|r| r.strip_prefix(": ")) {
                let depth = rest.matches("c: ").count();
                log.push(Sexp::list(vec![atom(sev), int(depth as i64)]));
            }
        }
    }
    let mut unused = String::new(); let _ = write!(unused, "");
    app("exit", vec![int(code), app("log", log)])
}

// ---------------------------------------------------------------------------------------------
// (spans FLAVOUR HEX (SPAN*) (OP*))

use truth::pos::{BytePos, Span};

fn real_token_spans(text: &str) -> Vec<(usize, usize)> {
    let src = truth::pos::SourceStr::from_full_source(None, text);
    truth::parse::lexer::Lexer::new(src).map(|item| match item {
        Ok((l, _, r)) => (l.1.0 as usize, r.1.0 as usize),
        Err(_) => (usize::MAX, usize::MAX),   // an invalid token: its range is only inside the diagnostic
    }).filter(|x| x.0 != usize::MAX).collect()
}

struct SpanCollector { out: Vec<Span> }
impl ast::Visit for SpanCollector {
    fn visit_item(&mut self, e: &truth::pos::Sp<ast::Item>) { self.out.push(e.span); ast::walk_item(self, e) }
    fn visit_stmt(&mut self, e: &truth::pos::Sp<ast::Stmt>) { self.out.push(e.span); ast::walk_stmt(self, e) }
    fn visit_expr(&mut self, e: &truth::pos::Sp<ast::Expr>) { self.out.push(e.span); ast::walk_expr(self, e) }
    fn visit_var(&mut self, e: &truth::pos::Sp<ast::Var>) { self.out.push(e.span); ast::walk_var(self, e) }
    fn visit_meta(&mut self, e: &truth::pos::Sp<ast::meta::Meta>) { self.out.push(e.span); ast::walk_meta(self, e) }
}

/// spans of all AST nodes of a parsed file, relative to its own file id (None if it does not parse)
fn real_ast_spans(text: &str) -> Option<Vec<(usize, usize)>> {
    let mut scope = truth::Builder::new().capture_diagnostics(true).build();
    let mut truth = scope.truth();
    match truth.parse::<ast::ScriptFile>("<input>", text.as_bytes()) {
        Ok(script) => {
            let mut c = SpanCollector { out: vec![script.span] };
            ast::Visit::visit_file(&mut c, &script.value);
            Some(c.out.iter().filter(|s| s.file_id.is_some()).map(|s| (s.start.0 as usize, s.end.0 as usize)).collect())
        },
        Err(e) => { e.ignore(); None },
    }
}

fn eval_spans(case: &Sexp) -> Sexp {
    let a = case.args();
    let flavour = a[0].as_atom();
    let bytes = unhex(a[1].as_atom());
    let text = match std::str::from_utf8(&bytes) { Ok(t) => t.to_string(), Err(_) => return atom("bad-case-not-utf8") };
    // the real producers give the spans of the case
    let given: Vec<(i64, usize, usize)> = a[2].as_list().iter().map(|s| { let v = s.as_list(); (v[0].as_i64(), v[1].as_usize(), v[2].as_usize()) }).collect();
    match flavour {
        "tokens" => { let real = real_token_spans(&text); if real.len() != given.len() || real.iter().zip(&given).any(|(r, g)| (r.0, r.1) != (g.1, g.2)) { return fail("lexer-not-deterministic", excerpt(&bytes)); } },
        "ast" => { let real = real_ast_spans(&text).unwrap_or_default(); if real.len() != given.len() || real.iter().zip(&given).any(|(r, g)| (r.0, r.1) != (g.1, g.2)) { return fail("parser-not-deterministic", excerpt(&bytes)); } },
        _ => {},
    }
    let mut scope = truth::Builder::new().capture_diagnostics(true).build();
    let mut truth = scope.truth();
    let root: &RootEmitter = truth.ctx().emitter;
    let (fid, stored) = match root.files.add("<input>", &bytes) { Ok(x) => x, Err(_) => return atom("bad-case") };
    let other = std::num::NonZeroU32::new(fid.map(|x| x.get()).unwrap_or(0) + 1);
    let file_of = |f: i64| match f { 0 => fid, 1 => other, _ => None };
    let num_of = |f: truth::pos::FileId| -> i64 { if f.is_none() { -1 } else if f == fid { 0 } else { 1 } };
    let mut spans: Vec<Span> = given.iter().map(|&(f, lo, hi)| Span { start: BytePos(lo as u32), end: BytePos(hi as u32), file_id: file_of(f) }).collect();
    let mut tags = vec![];
    for op in a[3].as_list() {
        let o = op.args();
        let get = |i: usize| spans[o[i].as_usize()];
        let r = std::panic::catch_unwind(std::panic::AssertUnwindSafe(|| match op.head().unwrap_or("") {
            "merge" => get(0).merge(get(1)),
            "join" => Span::new(get(0).file_id, get(0).start, get(1).end),
            "start" => get(0).start_span(),
            _ => get(0).end_span(),
        }));
        match r { Ok(s) => { tags.push(atom("ok")); spans.push(s); }, Err(_) => { tags.push(atom("panic")); let s = get(0); spans.push(s); } }
    }
    let mut rows = vec![];
    for s in &spans {
        let (lo, hi) = (s.start.0 as usize, s.end.0 as usize);
        let valid = s.file_id == fid && fid.is_some() && lo <= hi && hi <= stored.len() && stored.is_char_boundary(lo) && stored.is_char_boundary(hi);
        let sp = *s;
        let rendered = std::panic::catch_unwind(std::panic::AssertUnwindSafe(|| {
            let mut d = Diagnostic::error();
            d.message("m".to_string()).primary(sp, "label".to_string());
            root.emit(d).ignore();
        })).is_ok();
        rows.push(Sexp::list(vec![int(num_of(s.file_id)), int(lo as i64), int(hi as i64), atom(if valid { "t" } else { "f" }), atom(if rendered { "ok" } else { "panic" })]));
    }
    app("spans", vec![app("ops", tags), Sexp::list(rows)])
}

fn judge_spans(case: &Sexp, result: &Sexp) -> Option<Failure> {
    let flavour = case.args()[0].as_atom();
    if flavour == "fuzz" || result.head() != Some("spans") { return None; }
    // spans produced by the real lexer / parser: all valid, all operations fine, all render
    let r = result.args();
    if r[0].args().iter().any(|t| t.as_atom() != "ok") { return Some(Failure { signature: format!("span-combinator-panics-on-{flavour}-spans"), what: format!("{result}") }); }
    for row in r[1].as_list() {
        let v = row.as_list();
        if v[3].as_atom() != "t" || v[4].as_atom() != "ok" {
            return Some(Failure { signature: format!("{flavour}-span-invalid"), what: format!("span {row} of {}", excerpt(&unhex(case.args()[1].as_atom()))) });
        }
    }
    None
}

// ---------------------------------------------------------------------------------------------
// (pipe CTX (STMT*)): the pass at which the front half stops

fn eval_pipe(case: &Sexp) -> Sexp {
    let a = case.args();
    let text = super::c09::program_text(&a[0], a[1].as_list());
    let stage = {
        let mut scope = truth::Builder::new().capture_diagnostics(true).build();
        let mut truth = scope.truth();
        truth.apply_mapfile_str(C09_MAP, Game::Th12).expect("mapfile");
        let cls = |truth: &truth::Truth| diag_class(&truth.get_captured_diagnostics().unwrap_or_default());
        match truth.parse::<ast::ScriptFile>("<input>", text.as_bytes()) {
            Err(e) => { e.ignore(); app("invalid", vec![Sexp::str(format!("parse: {}", cls(&truth)))]) },
            Ok(script) => {
                let mut script = script.value;
                let r = { let ctx = truth.ctx(); truth::passes::resolution::assign_languages(&mut script, LanguageKey::Anm, ctx).and_then(|_| truth::passes::resolution::resolve_names(&script, ctx)) };
                if let Err(e) = r { e.ignore(); app("invalid", vec![Sexp::str(format!("resolve: {}", cls(&truth)))]) }
                else if let Err(e) = truth::passes::type_check::run(&script, truth.ctx()) { e.ignore(); app("stop", vec![atom("typecheck"), Sexp::str(cls(&truth))]) }
                else if let Err(e) = truth::passes::evaluate_const_vars::run(truth.ctx()) { e.ignore(); app("stop", vec![atom("constvars"), Sexp::str(cls(&truth))]) }
                else if let Err(e) = truth::passes::const_simplify::run(&mut script, truth.ctx()) { e.ignore(); app("stop", vec![atom("simplify"), Sexp::str(cls(&truth))]) }
                else { app("through", vec![]) }
            },
        }
    };
    // the rest of the real compiler on the same program: the search oracle
    let full = format!("{C09_ENTRY}{text}");
    let rest = compile_oracle("pipe", Format::Anm, Game::Th12, &[MapArg::Load(C09_MAP.as_bytes().to_vec())], full.as_bytes());
    if rest.head() == Some("fail") { return rest; }
    if stage.head() == Some("stop") && rest.head() == Some("ok") {
        return fail("front-pass-fails-but-compile-succeeds", format!("{stage} but the full compile returned Ok: {}", text.replace('\n', " ")));
    }
    stage
}

// ---------------------------------------------------------------------------------------------
// (sites): every token that `emit` hands out for a non-error diagnostic is `.ignore()`d at the call site

fn scan_emit_sites(path: &std::path::Path, rel: &str, text: &str, bad: &mut Vec<String>, count: &mut usize) {
    let _ = path;
    let b = text.as_bytes();
    let mut from = 0;
    while let Some(p) = text[from..].find("emit(") {
        let open = from + p + 4;
        from = open + 1;
        let after = text[open + 1..].trim_start();
        if !(after.starts_with("warning!(") || after.starts_with("info!(")) { continue; }
        *count += 1;
        // matching parenthesis of `emit(` (string literals skipped)
        let (mut depth, mut i, mut in_str) = (0i32, open, false);
        while i < b.len() {
            let c = b[i];
            if in_str { if c == b'\\' { i += 1; } else if c == b'"' { in_str = false; } }
            else if c == b'"' { in_str = true; }
            else if c == b'(' { depth += 1; }
            else if c == b')' { depth -= 1; if depth == 0 { break; } }
            i += 1;
        }
        let rest = text[(i + 1).min(text.len())..].trim_start();
        if !rest.starts_with(".ignore()") {
            let line = text[..open].matches('\n').count() + 1;
            bad.push(format!("{rel}:{line}"));
        }
    }
    if rel != "src/diagnostic.rs" && rel != "src/error.rs" {
        for (k, l) in text.lines().enumerate() { if l.contains("ErrorReported::new()") || l.contains("ErrorReported {") && l.contains("backtrace:") && !l.contains("Err(ErrorReported { backtrace })") { bad.push(format!("{rel}:{} (token made without emit)", k + 1)); } }
    }
}

fn eval_sites() -> Sexp {
    fn walk(dir: &std::path::Path, out: &mut Vec<std::path::PathBuf>) {
        if let Ok(rd) = std::fs::read_dir(dir) { let mut ps: Vec<_> = rd.filter_map(|e| e.ok()).map(|e| e.path()).collect(); ps.sort(); for p in ps { if p.is_dir() { walk(&p, out); } else if p.extension().and_then(|e| e.to_str()) == Some("rs") { out.push(p); } } }
    }
    // the source tree the harness was built against
    let root = std::path::Path::new(concat!(env!("CARGO_MANIFEST_DIR"), "/Cargo.toml"));
    let src = std::fs::read_to_string(root).ok().and_then(|t| t.lines().find(|l| l.trim_start().starts_with("truth")).and_then(|l| l.split('"').nth(1).map(|s| s.to_string()))).unwrap_or_else(|| "/repo".into());
    let mut files = vec![];
    walk(&std::path::Path::new(&src).join("src"), &mut files);
    let (mut bad, mut count) = (vec![], 0usize);
    for f in &files {
        let rel = f.strip_prefix(&src).map(|p| p.to_string_lossy().to_string()).unwrap_or_default();
        if let Ok(t) = std::fs::read_to_string(f) { scan_emit_sites(f, &rel, &t, &mut bad, &mut count); }
    }
    if files.is_empty() { return fail("emit-site-scan-found-no-sources", src); }
    if let Some(first) = bad.first() {
        let file = first.split(':').next().unwrap_or("?").to_string();
        return fail(format!("non-error-diagnostic-token-not-ignored {file}"), format!("the token returned by emit(warning!/info!(..)) is not `.ignore()`d (it can reach a Result and fail the run without an error diagnostic), or a token is made without emit: {}", bad.join(", ")));
    }
    app("pass", vec![int(count as i64), int(files.len() as i64)])
}

// ---------------------------------------------------------------------------------------------
// generation of the correspondence cases

const SEVS: &[&str] = &["error", "warning", "note", "bug"];
const WRITERS: &[&str] = &["root", "root", "root", "chain1", "chain2", "chain3", "dummy", "null"];

fn gen_sevs(rng: &mut Rng, disciplined: bool) -> Sexp {
    let n = if rng.chance(1, 12) { 0 } else { 1 + rng.below(3) };
    let mut v: Vec<Sexp> = (0..n).map(|_| atom(*rng.pick(SEVS))).collect();
    if disciplined && !v.iter().any(|s| matches!(s.as_atom(), "error" | "bug")) { v.push(atom("error")); }
    Sexp::list(v)
}
fn gen_warn_sevs(rng: &mut Rng) -> Sexp { Sexp::list((0..1 + rng.below(2)).map(|_| atom(*rng.pick(&["warning", "note"]))).collect()) }

/// a well-formed trace (never stuck): mirrors the shapes of the code base
fn gen_trace(rng: &mut Rng, disciplined: bool, len: usize) -> Sexp {
    #[derive(Copy, Clone, PartialEq)] enum K { T, F, R }
    let mut st: Vec<K> = vec![];
    let mut ops: Vec<Sexp> = vec![];
    let writer = |rng: &mut Rng| atom(if disciplined { *rng.pick(&WRITERS[..6]) } else { *rng.pick(WRITERS) });
    for _ in 0..len {
        let top = st.last().copied();
        let below = if st.len() >= 2 { Some(st[st.len() - 2]) } else { None };
        match rng.below(14) {
            0 | 1 => { ops.push(app("emit", vec![writer(rng), gen_sevs(rng, disciplined)])); st.push(K::T); },
            2 | 3 => ops.push(app("emitign", vec![atom(*rng.pick(WRITERS)), if disciplined { gen_warn_sevs(rng) } else { gen_sevs(rng, false) }])),
            4 => { ops.push(app("flagnew", vec![])); st.push(K::F); },
            5 => if top == Some(K::T) && below == Some(K::F) { ops.push(app("flagset", vec![])); st.pop(); } else if top == Some(K::T) { ops.push(app("errof", vec![])); st.pop(); st.push(K::R); },
            6 => if top == Some(K::T) { ops.push(app("errof", vec![])); st.pop(); st.push(K::R); } else { ops.push(app("ok", vec![])); st.push(K::R); },
            7 => if top == Some(K::R) && below == Some(K::F) { ops.push(app("orelse", vec![])); st.pop(); } else { ops.push(app("ok", vec![])); st.push(K::R); },
            8 => if top == Some(K::F) { ops.push(app("flagres", vec![])); st.pop(); st.push(K::R); },
            9 => { let mut n = 0; while st.len() > n && st[st.len() - 1 - n] == K::R { n += 1; } let k = rng.below(n + 1); ops.push(app("collect", vec![int(k as i64)])); for _ in 0..k { st.pop(); } st.push(K::R); },
            10 => { let es: Vec<Sexp> = (0..rng.below(5)).map(|_| if rng.chance(1, 2) { atom("ok") } else { Sexp::list(vec![writer(rng), gen_sevs(rng, disciplined)]) }).collect(); ops.push(app("collectemit", vec![Sexp::list(es)])); st.push(K::R); },
            11 => if top == Some(K::R) && st.len() > 1 { ops.push(app("try", vec![])); st.pop(); },
            12 => if !disciplined { if top == Some(K::T) { ops.push(app("ignore", vec![])); st.pop(); } else if top.is_some() && rng.chance(1, 2) { ops.push(app("drop", vec![])); st.pop(); } },
            _ => { ops.push(app("ok", vec![])); st.push(K::R); },
        }
    }
    // wind down to exactly one result, the way a function body ends
    while let Some(k) = st.pop() {
        match k {
            K::T => { if st.last() == Some(&K::F) { ops.push(app("flagset", vec![])); } else { ops.push(app("errof", vec![])); st.push(K::R); } },
            K::F => { ops.push(app("flagres", vec![])); st.push(K::R); },
            K::R => {
                if st.is_empty() { st.push(K::R); break; }
                if st.last() == Some(&K::F) { ops.push(app("orelse", vec![])); } else if st.last() == Some(&K::R) { let mut n = 1; while st.len() >= n && st[st.len() - n] == K::R { n += 1; } ops.push(app("collect", vec![int(n as i64)])); for _ in 0..n - 1 { st.pop(); } st.push(K::R); }
                else { // a token below a result: `let e = emit(..); ...; r?; Err(e)`
                    ops.push(app("try", vec![])); }
            },
        }
    }
    Sexp::list(std::iter::once(atom("trace")).chain(ops).collect())
}

const SPAN_TEXTS: &[&str] = &[
    "int x = \"\u{3042}\u{3044}\";\n", "script s {\r\n    ins_1(1, 2.0);\r\n}\r\n", "/* \u{1F600} */ x = y + 1; // \u{e9}\n", "a\u{0}b \"\u{0}\" 'c'", "\u{feff}script s { }", "  \t\n\n  1 +   2  ",
    "meta { a: \"\u{ff71}\", b: [1, 2.5f, rad(3)] }\nscript \u{3042} { }", "x\u{301} = 1;", "!ENHL ins_23 ins_x REG $ % _S _f ... >>>= >>= >>> >> ++ --", "\"unterminated \u{3042}", "/* unclosed \u{3042}\u{3044}", "#pragma mapfile \"\u{30de}\u{30c3}\u{30d7}.anmm\"\n",
    "\u{2028}\u{2029}\u{85}a\u{a0}b\u{3000}c", "1.5.5 0x 0b2 1e5 1f 1.f .5 rad(1) rad(-1.5f) rad( 1)", "ins_1(@mask=0x3, @blob=\"00 11\", 1:2:3:4);", "{\"EN\"}: +10: 30: -5: interrupt[1]:", "",
    "entry { path: \"\u{2764}.png\", sprites: {s\u{e9}: {x: 0.0}} }\n", "a\rb\r\rc\n\rd", "\"a\\\"b\\\\\" \"\\\u{3042}\" \"\\", "//\n//\u{3042}\n//", "ＡＢＣ = １２３;",
];

fn span_case(flavour: &str, text: &str, spans: &[(i64, usize, usize)], rng: &mut Rng, n_ops: usize) -> Case {
    let mut ops = vec![];
    let mut n = spans.len();
    let n0 = n;
    if n > 0 {
        for _ in 0..n_ops {
            let (i, j) = (rng.below(n), rng.below(n));
            // `join` (from_locs) is applied by the parser to a first and a last token / node in source order:
            // operands among the original spans (tokens are in source order, AST nodes in pre-order)
            let (lo, hi) = if flavour == "fuzz" { (i, j) } else { let (x, y) = (rng.below(n0), rng.below(n0)); (x.min(y), x.max(y)) };
            ops.push(match rng.below(5) { 0 | 1 => app("join", vec![int(lo as i64), int(hi as i64)]), 2 => app("merge", vec![int(i as i64), int(j as i64)]), 3 => app("start", vec![int(i as i64)]), _ => app("end", vec![int(i as i64)]) });
            n += 1;
        }
    }
    let sp = spans.iter().map(|&(f, lo, hi)| Sexp::list(vec![int(f), int(lo as i64), int(hi as i64)])).collect();
    Case::corr(app("spans", vec![atom(flavour), atom(&hex(text.as_bytes())), Sexp::list(sp), Sexp::list(ops)])).tag(format!("spans-{flavour}"))
}

fn gen_corr(tier: Tier, rng: &mut Rng, out: &mut Vec<Case>) {
    let scale = if tier == Tier::Quick { 1 } else { 25 };
    // traces: the Lean witnesses first
    let t = |s: &str| crate::sexp::parse(s).expect("trace");
    for (s, tag) in [
        ("(trace (emit root (warning)) (errof))", "trace-witness-warning-as-error"),
        ("(trace (emit root ()) (errof))", "trace-witness-empty-emit"),
        ("(trace (emit dummy (error)) (errof))", "trace-witness-dummy"),
        ("(trace (emit null (error)) (errof))", "trace-witness-null-writer"),
        ("(trace (flagnew) (emit root (error)) (flagset) (drop) (ok))", "trace-witness-dropped-flag"),
        ("(trace (flagnew) (emitign root (warning)) (collectemit (ok (chain2 (error)) ok (root (error note)))) (orelse) (ok) (try) (flagres))", "trace-example"),
        ("(trace (emitign root (warning)) (ok))", "trace-example-warning-only"),
        ("(trace (ok) (ok))", "trace-stuck"), ("(trace (flagset))", "trace-stuck"), ("(trace)", "trace-stuck"),
    ] { out.push(Case::corr(t(s)).tag(tag)); }
    for k in 0..400 * scale {
        let disciplined = k % 2 == 0;
        let len = 1 + rng.below(if k % 5 == 0 { 40 } else { 12 });
        out.push(Case::corr(gen_trace(rng, disciplined, len)).tag(if disciplined { "trace-disciplined" } else { "trace-arbitrary" }).trivial(len < 3));
    }
    // spans of the real lexer and parser
    let mut texts: Vec<String> = SPAN_TEXTS.iter().map(|s| s.to_string()).collect();
    texts.push(format!("int {} = 1; // {}\n", "a".repeat(5000), "\u{3042}".repeat(3000)));
    for _ in 0..12 * scale.min(6) { let g = gensrc::gen_any(rng); if g.text.len() < 6000 { texts.push(g.text); } }
    let extra: Vec<String> = texts.iter().take(20 + 10 * scale.min(6)).map(|t| { let (b, _) = byte_mutant(rng, t.as_bytes()); String::from_utf8_lossy(&b).into_owned() }).collect();
    texts.extend(extra);
    for text in &texts {
        let toks = std::panic::catch_unwind(|| real_token_spans(text)).unwrap_or_default();
        let sp: Vec<(i64, usize, usize)> = toks.iter().map(|&(a, b)| (0, a, b)).collect();
        out.push(span_case("tokens", text, &sp, rng, 12).trivial(sp.len() < 2));
        if let Ok(Some(nodes)) = std::panic::catch_unwind(|| real_ast_spans(text)) {
            let sp: Vec<(i64, usize, usize)> = nodes.iter().map(|&(a, b)| (0, a, b)).collect();
            out.push(span_case("ast", text, &sp, rng, 12).trivial(sp.len() < 2));
        }
    }
    // arbitrary spans: the panic arms of the combinators and of rendering
    for _ in 0..150 * scale {
        let text = *rng.pick(SPAN_TEXTS);
        let len = text.len();
        let sp: Vec<(i64, usize, usize)> = (0..1 + rng.below(6)).map(|_| {
            let f = *rng.pick(&[0i64, 0, 0, 0, -1, 1]);
            let pos = |rng: &mut Rng| if rng.chance(1, 6) { len + rng.below(5) } else if rng.chance(1, 10) { 100000 } else { rng.below(len + 1) };
            let (a, b) = (pos(rng), pos(rng));
            if rng.chance(5, 6) { (f, a.min(b), a.max(b)) } else { (f, a, b) }
        }).collect();
        out.push(span_case("fuzz", text, &sp, rng, 8));
    }
    // the front half of the compiler on C09's typed programs and their ill-typed variants
    let mut sub = rng.fork(0xC04);
    let mut progs: Vec<Case> = super::c09::C09.gen(Tier::Quick, &mut sub).into_iter().filter(|c| matches!(c.sexp.head(), Some("prog") | Some("pipe"))).collect();
    rng.shuffle(&mut progs);
    for c in progs.into_iter().take(if tier == Tier::Quick { 500 } else { 6000 }) {
        let a = c.sexp.args();
        let variant = c.tags.iter().find(|t| t.starts_with("mut-")).cloned().unwrap_or_else(|| "generated".into());
        out.push(Case::corr(app("pipe", vec![a[0].clone(), a[1].clone()])).tag("pipe").tag(format!("pipe-{}", variant.split('@').next().unwrap_or("x"))));
    }
}

// ---------------------------------------------------------------------------------------------
// case generation

fn compile_case(kind: &str, format: Format, game: Game, maps: &[MapArg], text: &[u8]) -> Case {
    Case::search(app("compile", vec![atom(kind), atom(format.name()), atom(&format!("{game}")), maps_sexp(maps), atom(&hex(text))]))
        .tag(format!("{kind}")).tag(format!("fmt-{}", format.name()))
}
fn nest_case(kind: &str, depth: usize, format: Format, game: Game) -> Case {
    let cls = if depth <= 256 { "le256" } else { "deep" };
    Case::search(app("nest", vec![atom(kind), int(depth as i64), atom(format.name()), atom(&format!("{game}"))]))
        .tag(format!("nest-{}", kind.split('@').next().unwrap_or(kind))).tag(format!("nest-depth-{cls}")).tag(format!("fmt-{}", format.name()))
}

/// mapfile of the C09 programs (the register / signature context of props/c09.rs)
const C09_MAP: &str = "!anmmap\n!gvar_types\n10000 $\n10001 $\n10002 $\n10003 $\n10004 %\n10005 %\n10006 %\n10007 %\n10050 ?\n!ins_signatures\n900 S\n901 f\n902 Sf\n903 SSf\n904 \n905 S__\n906 S_f\n907 z(bs=4)\n";
const C09_ENTRY: &str = "entry { path: \"a.png\", has_data: false, img_width: 16, img_height: 16, img_format: 3, offset_x: 0, offset_y: 0, colorkey: 0, memory_priority: 0, low_res_scale: false, sprites: {} }\n";

struct Base { format: Format, game: Game, maps: Vec<MapArg>, text: String, origin: &'static str }

fn mission_text(rng: &mut Rng, game: Game) -> String {
    let mut s = String::new();
    for _ in 0..1 + rng.below(3) {
        if game == Game::Th125 {
            s.push_str(&format!("entry {{ stage: {}, scene: {}, player: {}, unknown_1: {}, unknown_2: {}, point_1: {}, point_2: {}, furigana: [[{}, 0], [0, {}], [0, 0]], text: [\"{}\", \"b\", \"\", \"d\", \"e\", \"f\"] }}\n",
                rng.below(13), rng.below(10), rng.below(2), rng.below(256), rng.below(256), rng.below(100000), rng.next_u32(), rng.below(5), rng.below(5), rng.pick(gensrc::STRING_POOL)));
        } else {
            s.push_str(&format!("entry {{ stage: {}, scene: {}, face: {}, point: {}, text: [\"{}\", \"{}\", \"c\"] }}\n", rng.below(11), rng.below(9), rng.below(8), rng.below(100000), rng.pick(gensrc::STRING_POOL), rng.pick(gensrc::STRING_POOL)));
        }
    }
    s
}

/// well-formed files of every format: grammar-generated, C09's typed ANM programs, decompiled bundled files
fn base_pool(rng: &mut Rng, n_gen: usize, n_c09: usize) -> Vec<Base> {
    let mut out = vec![];
    for _ in 0..n_gen {
        let g = gensrc::gen_any(rng);
        out.push(Base { format: g.format, game: g.game, maps: g.maps.iter().map(|m| MapArg::Load(m.clone().into_bytes())).collect(), text: g.text, origin: "gensrc" });
    }
    for k in 0..(n_gen / 8).max(2) {
        let game = gensrc::GAMES_MISSION[k % 2];
        out.push(Base { format: Format::Mission, game, maps: vec![], text: mission_text(rng, game), origin: "mission" });
    }
    // C09's generator: typed programs with nested control flow (and their ill-typed single-point mutants)
    let mut sub = rng.fork(0xC09);
    let mut c09: Vec<Case> = super::c09::C09.gen(Tier::Quick, &mut sub).into_iter().filter(|c| matches!(c.sexp.head(), Some("prog") | Some("pipe"))).collect();
    rng.shuffle(&mut c09);
    for c in c09.into_iter().take(n_c09) {
        let a = c.sexp.args();
        let text = format!("{C09_ENTRY}{}", super::c09::program_text(&a[0], a[1].as_list()));
        let origin = if c.tags.iter().any(|t| t.starts_with("mut-") || t == "pipe-mutant") { "c09-illtyped-variant" } else { "c09-program" };
        out.push(Base { format: Format::Anm, game: Game::Th12, maps: vec![MapArg::Load(C09_MAP.as_bytes().to_vec())], text, origin });
    }
    // decompiled bundled binaries: real-world syntax (blobs, labels, difficulty, sprites)
    for (format, game, bytes, _) in super::c16::bundled_files() {
        let r = std::panic::catch_unwind(|| tc::decompile(format, game, &[], &bytes, &tc::options_from_bits(0), 100));
        if let Ok(o) = r { if let Some(text) = o.value { if text.len() < 40_000 { out.push(Base { format, game, maps: vec![], text, origin: "decompiled" }); } } }
    }
    out
}

/// ill-scoped variants: one identifier occurrence renamed / one declaration removed, at every nesting position
fn scope_mutants(rng: &mut Rng, text: &str, toks: &[(usize, usize)], max: usize) -> Vec<String> {
    let idents: Vec<usize> = (0..toks.len()).filter(|&i| { let t = &text[toks[i].0..toks[i].1]; t.chars().next().map(|c| c.is_ascii_alphabetic() || c == '_').unwrap_or(false) && !TOKEN_POOL[49..83].contains(&t) }).collect();
    let mut picks = idents.clone();
    rng.shuffle(&mut picks);
    picks.truncate(max);
    picks.into_iter().map(|i| {
        let (a, b) = toks[i];
        let new = match rng.below(4) { 0 => "undefined_name".to_string(), 1 => format!("{}_", &text[a..b]), 2 => { let j = *rng.pick(&idents); text[toks[j].0..toks[j].1].to_string() }, _ => "x".to_string() };
        format!("{}{}{}", &text[..a], new, &text[b..])
    }).collect()
}

impl Prop for C04 {
    fn id(&self) -> &'static str { "C04" }
    fn relation(&self) -> &'static str {
        "trace: exit status and rendered-diagnostic log of a trace of emitter / ErrorFlag / collect_with_recovery / `?` operations run against the real truth::diagnostic + truth::error API == Lean `Diag.run`; spans: validity (in file, ordered, on char boundaries) of the real lexer's token spans and the parser's AST node spans, results (or assertion panics) of Span::merge / Span::new / start_span / end_span, and render-or-panic of a diagnostic labelled with each span == Lean `Diag.Span` model; pipe: the pass at which parse -> resolve -> type_check::run -> evaluate_const_vars::run -> const_simplify::run stops (and the class of its first diagnostic) on typed ANM programs == Lean `Pipeline.run`, the rest of the real compiler then has to finish without panic"
    }
    fn rule(&self) -> &'static str {
        "search (crash-isolated workers; oracle: no panic/abort/timeout, Err iff an error-severity diagnostic was rendered, every diagnostic renders): grammar-generated files of every format x game, typed ANM programs and their ill-typed single-point variants at every nesting position (C09 generator), ill-scoped variants (one identifier occurrence renamed), token-level mutations (delete/duplicate/swap/replace/insert/ranges/extreme literal/truncate), byte-level mutations (invalid UTF-8, NUL, BOM, CRLF, control characters), extreme int/float/string literals and time labels in every expression context, nesting patterns (17 expression kinds in 6 contexts and 30 statement/meta/comment/size kinds) at depths 1..256 plus 1000 / 2000 / 10 000 / 200 000 (beyond 256 only crashes are judged), mapfile texts (all section kinds, malformed lines, huge keys, every prefix/mutation of the built-in ABI and intrinsic strings, gamemaps) fed to every tool, unsupported format x game pairs, the same through the real CLI entry in fresh processes, and a static scan of emit sites; non-trivial = not a pristine generated file; distinct by case text"
    }
    fn theorems(&self) -> &'static [&'static str] {
        &["TruthModel.C04.exit_iff_error", "TruthModel.C04.fail_token_honest", "TruthModel.C04.warnings_never_fail", "TruthModel.C04.collect_reports_every_error", "TruthModel.C04.built_spans_valid", "TruthModel.C04.render_panics_iff", "TruthModel.C04.progress_partial"]
    }
    fn timeout_secs(&self) -> u64 { 60 }

    fn gen(&self, tier: Tier, rng: &mut Rng) -> Vec<Case> {
        let scale = if tier == Tier::Quick { 1 } else { 25 };
        let mut out: Vec<Case> = vec![];
        gen_corr(tier, rng, &mut out);
        // development aid: only the model-compared cases
        if std::env::var("C04_ONLY").as_deref() == Ok("corr") { return out; }
        out.push(Case::search(app("sites", vec![])).tag("emit-site-scan"));

        // (0) item-level shapes the base generators do not produce: function kinds a format does not support
        // (extern declarations, value-returning, inline, const functions), in every position relative to ordinary
        // subs / scripts, for every tool; each must end in an error diagnostic, never in a crash
        {
            let kinds = ["void ext();", "int val() { return 0; }", "inline void inl() { }", "const int cst() { return 1; }", "float fval(int a) { return 1.0; }", "void ext2(int a, float b);"];
            let plain_ecl = ["void sub0() { }", "void sub1(int a) { }", "script timeline0 { }"];
            let plain_anm = ["script script0 { }", "script script1 { ins_1(); }"];
            for &g in &[Game::Th06, Game::Th07, Game::Th08, Game::Th09, Game::Th095, Game::Th10, Game::Th12, Game::Th15] {
                for (i, k) in kinds.iter().enumerate() {
                    for order in 0..3 {
                        let p0 = plain_ecl[(i + order) % plain_ecl.len()]; let p1 = plain_ecl[(i + order + 1) % plain_ecl.len()];
                        let text = match order { 0 => format!("{k}\n{p0}\n{p1}\n"), 1 => format!("{p0}\n{k}\n{p1}\n"), _ => format!("{p0}\n{p1}\n{k}\n{}\n", kinds[(i + 1) % kinds.len()]) };
                        out.push(compile_case("unsupported-function-kind", Format::Ecl, g, &[], text.as_bytes()));
                    }
                }
            }
            for &g in &[Game::Th06, Game::Th08, Game::Th12, Game::Th17] {
                for (i, k) in kinds.iter().enumerate() {
                    let entry = "entry { path: \"a.png\", has_data: false, rt_width: 16, rt_height: 16, rt_format: 1, img_width: 16, img_height: 16, img_format: 1, memory_priority: 0, sprites: {} }";
                    let text = if i % 2 == 0 { format!("{entry}\n{k}\n{}\n", plain_anm[i % 2]) } else { format!("{entry}\n{}\n{k}\n{}\n", plain_anm[0], plain_anm[1]) };
                    out.push(compile_case("unsupported-function-kind", Format::Anm, g, &[], text.as_bytes()));
                    let msg = format!("meta {{ table: {{0: {{script: \"s\"}}}} }}\n{k}\nscript s {{ }}\n");
                    out.push(compile_case("unsupported-function-kind", Format::Msg, g, &[], msg.as_bytes()));
                }
            }
        }

        // (0c) difficulty switches of every shape: nested at every position with every length (shorter, equal, longer than
        // the position they sit at), side by side with different lengths, blank cases, in assignments / call arguments /
        // conditions; each must compile or be rejected with a diagnostic ("mismatched diff switch lengths ...")
        {
            fn sw(rng: &mut Rng, depth: u32) -> String {
                let n = 2 + rng.below(4);
                let cases: Vec<String> = (0..n).map(|i| {
                    if depth > 0 && rng.chance(1, 3) { format!("({})", sw(rng, depth - 1)) }
                    else if i > 0 && rng.chance(1, 6) { String::new() }
                    else { format!("{}", 1 + rng.below(9)) }
                }).collect();
                cases.join(" : ")
            }
            let n = if tier == Tier::Quick { 240 } else { 4000 };
            for k in 0..n {
                let g = *rng.pick(&[Game::Th06, Game::Th07, Game::Th08, Game::Th09, Game::Th095]);
                let reg = if g == Game::Th06 { "$REG[-10001]" } else { "$REG[10000]" };
                let a = format!("({})", sw(rng, 2));
                let stmt = match k % 5 {
                    0 => format!("    {reg} = {a};\n"),
                    1 => format!("    {reg} = {a} + 1;\n"),
                    2 => format!("    {reg} = {a} + ({});\n", sw(rng, 1)),
                    3 => format!("    if ({reg} == {a}) goto end;\n    {reg} = 1;\nend:\n"),
                    _ => format!("    {reg} = {reg} * {a};\n    {reg} = ({}) - {a};\n", sw(rng, 0)),
                };
                let text = format!("script timeline0 {{ }}\nvoid sub0() {{\n{stmt}}}\n");
                out.push(compile_case("difficulty-switch-shapes", Format::Ecl, g, &[MapArg::Load(gensrc::ECL_DIFFICULTY_MAP.as_bytes().to_vec())], text.as_bytes()));
            }
        }

        // (1) well-formed files and their mutants
        let bases = base_pool(rng, 60 * scale.min(8), 60 * scale.min(8));
        for b in &bases {
            out.push(compile_case(&format!("base-{}", b.origin), b.format, b.game, &b.maps, b.text.as_bytes()).trivial(b.origin != "c09-illtyped-variant"));
        }
        let per_base = if tier == Tier::Quick { 6 } else { 6 * 25 * 60 / (60 * scale.min(8)) };
        for b in &bases {
            let toks = token_ranges(&b.text);
            for _ in 0..per_base {
                let (t, kind) = token_mutant(rng, &b.text, &toks);
                out.push(compile_case(kind, b.format, b.game, &b.maps, t.as_bytes()));
            }
            for _ in 0..per_base / 2 {
                let (t, kind) = byte_mutant(rng, b.text.as_bytes());
                out.push(compile_case(kind, b.format, b.game, &b.maps, &t));
            }
            for t in scope_mutants(rng, &b.text, &toks, per_base / 2) {
                out.push(compile_case("ill-scoped", b.format, b.game, &b.maps, t.as_bytes()));
            }
            // the file given to another tool / game
            if rng.chance(1, 3) {
                let f = *rng.pick(ALL_FORMATS); let g = *rng.pick(ALL_GAMES);
                out.push(compile_case("wrong-tool-or-game", f, g, &[], b.text.as_bytes()));
            }
        }

        // (2) extreme literals in every context x format (games rotate)
        let mut rot = 0usize;
        let next_game = |format: Format, rot: &mut usize| -> Game { *rot += 1; let gs = games_of(format); if *rot % 7 == 0 { ALL_GAMES[*rot % ALL_GAMES.len()] } else { gs[*rot % gs.len()] } };
        for &format in ALL_FORMATS {
            for (lits, ty, kind) in [(INT_LITERALS, 'i', "extreme-int"), (FLOAT_LITERALS, 'f', "extreme-float"), (STRING_LITERALS, 'i', "extreme-string")] {
                for lit in lits {
                    let n_ctx = if tier == Tier::Quick { 2 } else { EXPR_CONTEXTS.len() };
                    for k in 0..n_ctx {
                        let ctx = if tier == Tier::Quick { *rng.pick(EXPR_CONTEXTS) } else { EXPR_CONTEXTS[k] };
                        let game = next_game(format, &mut rot);
                        out.push(compile_case(kind, format, game, &[], expr_in_context(format, game, ctx, lit, ty).as_bytes()).tag(format!("ctx-{ctx}")));
                    }
                }
            }
            for tl in TIME_LABELS {
                for _ in 0..scale.min(3) {
                    let game = next_game(format, &mut rot);
                    let (head, tail) = skeleton(format, game, false);
                    out.push(compile_case("extreme-time-label", format, game, &[], format!("{head}{tl}\n    ins_0();\n{tail}").as_bytes()));
                }
            }
            for (i, item) in MISC_ITEMS.iter().enumerate() {
                for p in 0..(if tier == Tier::Quick { 1 } else { 3 }) {
                    let game = next_game(format, &mut rot);
                    out.push(compile_case("odd-construct", format, game, &[], item_in_context(format, game, item, i + p).as_bytes()));
                }
            }
        }

        // (3) nesting
        let depths_quick: &[usize] = &[1, 2, 3, 8, 32, 64, 128, 255, 256];
        let all_nest: Vec<String> = NEST_EXPR_KINDS.iter().flat_map(|(k, _)| ["const", "assign", "arg", "timelabel", "cond", "meta"].iter().map(move |c| format!("{k}@{c}"))).chain(NEST_STMT_KINDS.iter().map(|s| s.to_string())).collect();
        for kind in &all_nest {
            for &format in ALL_FORMATS {
                let n = if tier == Tier::Quick { 1 } else { 6 };
                for _ in 0..n {
                    let d = if tier == Tier::Quick { *rng.pick(depths_quick) } else { if rng.chance(1, 2) { *rng.pick(depths_quick) } else { 1 + rng.below(256) } };
                    let game = next_game(format, &mut rot);
                    out.push(nest_case(kind, d, format, game));
                }
            }
            // far deeper: stack-overflow probes (beyond the property's quantifier: only crashes are judged)
            let deep: &[usize] = if tier == Tier::Quick { if rng.chance(1, 5) { &[2000] } else { &[] } } else { &[1000, 1000, 10_000] };
            for &d in deep {
                let format = *rng.pick(&[Format::Anm, Format::Ecl, Format::Std, Format::Msg, Format::End, Format::Mission]);
                let game = next_game(format, &mut rot);
                out.push(nest_case(kind, d, format, game));
            }
        }
        // kinds known to overflow the stack at depth 10 000, and a few at 200 000
        for (k, kind) in ["sigil@assign", "block", "if", "ifelse", "loop", "while", "dowhile", "times", "mixed-blocks", "func", "constcycle", "meta-object", "meta-array", "binop-left@assign", "parens@const", "neg@const", "ternary-right@const", "constchain"].iter().enumerate() {
            let format = [Format::Anm, Format::Std, Format::Msg, Format::Ecl][k % 4];
            out.push(nest_case(kind, 10_000, format, games_of(format)[k % games_of(format).len()]));
        }
        let very_deep: &[&str] = if tier == Tier::Quick { &["binop-left@assign", "block"] } else { &["parens@const", "binop-left@assign", "block", "elseif-chain", "constchain", "long-string", "meta-object", "long-ident", "long-line", "comment-open", "many-stmts"] };
        for kind in very_deep { out.push(nest_case(kind, 200_000, Format::Anm, Game::Th12)); }
        // a mission file with code in it (diagnosed since 444d0fd)
        for game in [Game::Th095, Game::Th125] {
            let (head, _) = skeleton(Format::Mission, game, false);
            for body in ["script s { ins_0(); }", "script s { }", "const int x = REG[1];", "const int x = ins_1();", "void f() { }", "script s { $REG[1] = 1; }", "script s { int x = 1; }", "script s { +1: }", "meta { }"] {
                out.push(compile_case("mission-with-code", Format::Mission, game, &[], format!("{head}{body}\n").as_bytes()));
            }
        }

        // (4) mapfiles
        let pools = map_pools();
        for &format in ALL_FORMATS {
            for _ in 0..60 * scale {
                let game = next_game(format, &mut rot);
                let m = gen_mapfile(rng, format, &pools);
                let src = map_user_source(rng, format, game);
                let mut maps = vec![MapArg::Load(m.clone().into_bytes())];
                if m.starts_with("!gamemap") { maps.push(MapArg::File("target.map".into(), gen_mapfile(rng, format, &pools).into_bytes())); }
                if rng.chance(1, 5) { maps.push(MapArg::Load(gen_mapfile(rng, format, &pools).into_bytes())); }
                out.push(compile_case("mapfile-generated", format, game, &maps, src.as_bytes()));
                if rng.chance(1, 3) { let (mb, kind) = byte_mutant(rng, m.as_bytes()); out.push(compile_case(&format!("mapfile-{kind}"), format, game, &[MapArg::Load(mb)], src.as_bytes())); }
            }
            // every ABI string of the built-in tables, its prefixes and the hand-written bad ones, as the signature of opcode 900
            let game = games_of(format)[0];
            let src = map_user_source(rng, format, game);
            let magic = match format { Format::Anm => "!anmmap", Format::Std => "!stdmap", Format::Msg | Format::Mission => "!msgmap", Format::End => "!endmap", Format::Ecl => "!eclmap" };
            let mut sigs: Vec<String> = MAP_ABI_BAD.iter().map(|s| s.to_string()).collect();
            let take = if tier == Tier::Quick { 12 } else { pools.sigs.len() };
            let mut ps = pools.sigs.clone(); rng.shuffle(&mut ps);
            for s in ps.into_iter().take(take) { let cs: Vec<char> = s.chars().collect(); for cut in 0..=cs.len() { sigs.push(cs[..cut].iter().collect()); } }
            if tier == Tier::Quick { rng.shuffle(&mut sigs); sigs.truncate(120); }
            for s in sigs {
                let sec = if format == Format::Ecl && rng.chance(1, 3) { "timeline_ins_signatures" } else { "ins_signatures" };
                out.push(compile_case("mapfile-abi-string", format, game, &[MapArg::Load(format!("{magic}\n!{sec}\n900 {s}\n").into_bytes())], src.as_bytes()));
            }
            let mut intr: Vec<String> = MAP_INTRINSIC_BAD.iter().map(|s| s.to_string()).chain(pools.intrinsics.iter().cloned()).collect();
            if tier == Tier::Quick { rng.shuffle(&mut intr); intr.truncate(40); }
            for s in intr {
                let sig = rng.pick(&["", "S", "ot", "SS", "Sf", "SSS", "ff", "otSS", "SSot", "St", "to"]);
                let op = *rng.pick(&[900, 0, 1, 2, 5]);
                out.push(compile_case("mapfile-intrinsic", format, game, &[MapArg::Load(format!("{magic}\n!ins_intrinsics\n{op} {s}\n!ins_signatures\n900 {sig}\n").into_bytes())], src.as_bytes()));
            }
        }
        // the mapfiles shipped with the repository, mutated
        let mut shipped: Vec<(String, Vec<u8>)> = vec![];
        if let Ok(rd) = std::fs::read_dir("/repo/map") { let mut ps: Vec<_> = rd.filter_map(|e| e.ok()).map(|e| e.path()).collect(); ps.sort(); for p in ps { if let Ok(b) = std::fs::read(&p) { if b.len() < 30_000 { shipped.push((p.file_name().unwrap().to_string_lossy().to_string(), b)); } } } }
        for (name, bytes) in &shipped {
            let format = if name.ends_with("anmm") { Format::Anm } else if name.ends_with("stdm") { Format::Std } else if name.ends_with("msgm") { Format::Msg } else if name.ends_with("eclm") { Format::Ecl } else { continue };
            for k in 0..3 * scale.min(10) {
                let game = next_game(format, &mut rot);
                let src = map_user_source(rng, format, game);
                let files: Vec<MapArg> = shipped.iter().map(|(n, b)| MapArg::File(n.clone(), b.clone())).collect();
                let mut maps = vec![MapArg::Load(if k == 0 { bytes.clone() } else { byte_mutant(rng, bytes).0 })];
                if bytes.starts_with(b"!gamemap") { maps.extend(files); }
                out.push(compile_case("mapfile-shipped", format, game, &maps, src.as_bytes()));
            }
        }

        // (5) every format x every game, smallest file (unsupported pairs must be diagnosed)
        for &format in ALL_FORMATS { for &game in ALL_GAMES {
            let (head, tail) = skeleton(format, game, false);
            out.push(compile_case("format-x-game", format, game, &[], format!("{head}{tail}").as_bytes()));
            out.push(compile_case("format-x-game", format, game, &[], b""));
        } }


        // (5b) the minimised inputs of the findings made so far, in both tiers.  `repaired-*`: defects repaired in
        // /repo (3adbf40, 444d0fd, 5d14a8f, cc73b92, b5d9cfe, 777aa25, c4ddfe9): each must now end in failure with an
        // error diagnostic; a panic, a timeout or a silent success on them is reported again.  `finding-*`: still open.
        let anm_ok = format!("{ANM_ENTRY}script script0 {{ }}\n");
        let std08 = "meta { unknown: 0, stage_name: \"dm\", bgm: [{path: \" \", name: \" \"}, {path: \" \", name: \" \"}, {path: \" \", name: \" \"}, {path: \" \", name: \" \"}], objects: {}, instances: [] }\nscript main { }\n";
        let mission095 = "entry { stage: 1, scene: 1, face: 0, point: 0, text: [\"a\", \"b\", \"c\"] }\n";
        for (kind, format, game, map, text) in [
            ("repaired-mapfile-key-overflow", Format::Anm, Game::Th12, Some("!anmmap\n!ins_names\n99999999999 foo\n"), anm_ok.clone()),
            ("repaired-mapfile-key-overflow", Format::Std, Game::Th08, Some("!stdmap\n!gvar_names\n-2147483649 foo\n"), std08.to_string()),
            ("repaired-mapfile-key-overflow", Format::Msg, Game::Th08, Some("!msgmap\n!ins_signatures\n2147483648 S\n"), "meta { table: {0: {script: \"script0\"}} }\nscript script0 { }\n".to_string()),
            ("repaired-mission-with-code", Format::Mission, Game::Th095, None, format!("{mission095}script s {{ ins_0(); }}\n")),
            ("repaired-mission-with-code", Format::Mission, Game::Th095, None, format!("{mission095}const int x = REG[1];\n")),
            ("repaired-mission-with-code", Format::Mission, Game::Th095, None, format!("{mission095}const int x = ins_1();\n")),
            ("repaired-mission-with-code", Format::Mission, Game::Th125, None, "void f() { }\n".to_string()),
            ("repaired-ending-th125", Format::End, Game::Th125, None, String::new()),
            ("repaired-ending-th125", Format::End, Game::Th095, None, "meta { table: {0: {script: \"script0\"}} }\nscript script0 { }\n".to_string()),
            ("repaired-anm-img-width", Format::Anm, Game::Th08, None, "entry { path: \"a.png\", has_data: false, img_width: 2147483649, img_height: 16, img_format: 3, sprites: {} }\nscript script0 { }\n".to_string()),
            ("repaired-anm-img-width", Format::Anm, Game::Th12, None, "entry { path: \"a.png\", has_data: false, img_width: 16, img_height: 4294967295, img_format: 3, sprites: {} }\nscript script0 { }\n".to_string()),
            ("repaired-modern-ecl-errors-dropped", Format::Ecl, Game::Th15, None, "script timeline0 { }\nvoid sub0() {\n}\n".to_string()),
            ("repaired-modern-ecl-errors-dropped", Format::Ecl, Game::Th143, None, "const int f() { return 1; }\nvoid sub0() {\n}\n".to_string()),
            ("repaired-modern-ecl-errors-dropped", Format::Ecl, Game::Alcostg, None, mission095.to_string()),
            ("repaired-timeline-index-huge", Format::Ecl, Game::Th06, None, "script 2147483647 timeline0 { }\nvoid sub0() { }\n".to_string()),
            ("repaired-timeline-index-huge", Format::Ecl, Game::Th09, None, "script -2147483649 timeline0 { }\nvoid sub0() { }\n".to_string()),
            ("repaired-timeline-index-huge", Format::Ecl, Game::Th07, None, "script 20000000 timeline0 { }\nscript 20000000 timeline1 { }\nvoid sub0() { }\n".to_string()),
            ("repaired-builtin-enum-clash", Format::Anm, Game::Th12, Some("!anmmap\n!enum(name=\"bool\")\n900 true\n"), anm_ok.clone()),
            ("repaired-builtin-enum-clash", Format::Msg, Game::Th10, Some("!msgmap\n!enum(name=\"bool\")\n5 false\n7 true\n"), "meta { table: {0: {script: \"script0\"}} }\nscript script0 { }\n".to_string()),
            ("finding-sub-call-in-timeline", Format::Ecl, Game::Th08, None, "script timeline0 {\n    sub0();\n}\nvoid sub0() { }\n".to_string()),
            ("finding-msg-table-len", Format::Msg, Game::Th12, None, "meta { table: {0: {script: \"script0\"}}, table_len: 2147483647 }\nscript script0 { }\n".to_string()),
            ("finding-msg-table-len", Format::End, Game::Th12, None, "meta { table: {2147483647: {script: \"script0\"}} }\nscript script0 { }\n".to_string()),
        ] {
            let maps: Vec<MapArg> = map.iter().map(|m| MapArg::Load(m.as_bytes().to_vec())).collect();
            out.push(compile_case(kind, format, game, &maps, text.as_bytes()));
            // and through the real CLI entry point (exit status)
            if kind.starts_with("repaired-") {
                out.push(Case::search(app("cli", vec![atom(format.name()), atom(&format!("{game}")), maps_sexp(&maps), atom(&hex(text.as_bytes())), atom(kind)])).tag("cli").tag(kind));
            }
        }

        // (6) the real CLI entry point in a fresh process (exit status): a sample of everything above
        let n_cli = if tier == Tier::Quick { 60 } else { 1500 };
        let idx: Vec<usize> = (0..out.len()).filter(|&i| out[i].sexp.head() == Some("compile")).collect();
        for _ in 0..n_cli {
            let c = &out[*rng.pick(&idx)];
            let a = c.sexp.args();
            if a[4].as_atom().len() > 40_000 { continue; }
            let cli = Case::search(app("cli", vec![a[1].clone(), a[2].clone(), a[3].clone(), a[4].clone(), atom(&format!("cli-{}", a[0].as_atom()))])).tag("cli").tag(format!("cli-of-{}", a[0].as_atom()));
            out.push(cli);
        }
        out
    }

    fn eval(&self, case: &Sexp) -> Sexp {
        // keep the stderr of an abort short (the pool keeps its tail): no backtraces from the runtime
        if std::env::var("RUST_BACKTRACE").map(|v| v != "0").unwrap_or(true) { std::env::set_var("RUST_BACKTRACE", "0"); }
        let t0 = std::time::Instant::now();
        let r = self.eval_inner(case);
        if let Ok(p) = std::env::var("C04_SLOWLOG") { let el = t0.elapsed().as_secs_f64(); if el > 1.0 { use std::io::Write; if let Ok(mut f) = std::fs::OpenOptions::new().create(true).append(true).open(p) { let c = format!("{case}"); let _ = writeln!(f, "{el:.1}s {}", &c[..c.len().min(200)]); } } }
        r
    }

    fn judge(&self, case: &Sexp, result: &Sexp) -> Option<Failure> { judge_c04(case, result) }
}

impl C04 {
    fn eval_inner(&self, case: &Sexp) -> Sexp {
        let a = case.args();
        match case.head() {
            Some("compile") => compile_oracle(a[0].as_atom(), Format::from_name(a[1].as_atom()), tc::game(a[2].as_atom()), &maps_from(&a[3]), &unhex(a[4].as_atom())),
            Some("nest") => {
                let (format, game) = (Format::from_name(a[2].as_atom()), tc::game(a[3].as_atom()));
                let text = nest_text(a[0].as_atom(), a[1].as_usize(), format, game);
                compile_oracle(a[0].as_atom(), format, game, &[], text.as_bytes())
            },
            Some("cli") => cli_oracle(a.get(4).map(|k| k.as_atom()).unwrap_or("cli"), Format::from_name(a[0].as_atom()), tc::game(a[1].as_atom()), &maps_from(&a[2]), &unhex(a[3].as_atom())),
            Some("sites") => eval_sites(),
            Some("trace") => eval_trace(case),
            Some("spans") => eval_spans(case),
            Some("pipe") => eval_pipe(case),
            _ => Sexp::atom("bad-case"),
        }
    }
}

fn judge_c04(case: &Sexp, result: &Sexp) -> Option<Failure> {
    {
        let a = case.args();
        let kind = match case.head() { Some("compile") | Some("nest") => a[0].as_atom().split('@').next().unwrap_or("?").to_string(), Some("cli") => a.get(4).map(|k| k.as_atom().to_string()).unwrap_or_else(|| "cli".into()), Some(h) => h.to_string(), None => "?".into() };
        let depth_cls = if case.head() == Some("nest") { if a[1].as_usize() <= 256 { " depth<=256" } else { " depth>256" } } else { "" };
        match result.head() {
            Some("abort") => {
                let tail = result.args().get(1).map(|x| x.as_atom().to_string()).unwrap_or_default();
                let status = result.args()[0].as_atom().to_string();
                // (a worker that overflows its stack dies with SIGABRT / SIGSEGV; its last words "has overflowed its stack"
                //  do not always reach the captured tail, so beyond depth 256 a silent abort of a nesting probe counts as one)
                if tail.contains("overflowed its stack") || status.contains("SIGSEGV") || status.contains("SIGABRT") && (tail.contains("stack overflow") || depth_cls == " depth>256" && tail.trim().is_empty()) {
                    let what = if case.head() == Some("nest") { format!("stack overflow: {} depth {} {} {}", a[0].as_atom(), a[1].as_atom(), a[2].as_atom(), a[3].as_atom()) } else { format!("stack overflow: {result}") };
                    // beyond depth 256 the findings are grouped by construct family
                    let family = if depth_cls != " depth>256" { kind.clone() }
                        else if NEST_EXPR_KINDS.iter().any(|k| k.0 == kind) { "expression".to_string() }
                        else if kind.starts_with("meta-") { "meta".to_string() }
                        else if kind.starts_with("const") { "const-chain".to_string() }
                        else if ["block", "if", "ifelse", "elseif-chain", "loop", "while", "dowhile", "times", "mixed-blocks", "func"].contains(&kind.as_str()) { "block".to_string() }
                        else { kind.clone() };
                    return Some(Failure { signature: format!("stack-overflow {family}{depth_cls}"), what });
                }
                if tail.contains("memory allocation of") {
                    let fmt = match case.head() { Some("compile") => a[1].as_atom(), Some("nest") => a[2].as_atom(), Some("cli") => a[0].as_atom(), _ => "?" };
                    return Some(Failure { signature: format!("abort allocation-failure {fmt}"), what: format!("{result} {}", if case.head() != Some("nest") { excerpt(&unhex(a[if case.head() == Some("cli") { 3 } else { 4 }].as_atom())) } else { String::new() }) });
                }
                Some(Failure { signature: format!("abort {} {kind}", strip_digits(&status)), what: format!("{result}") })
            },
            // an unrenderable diagnostic: keyed by the diagnostic's own message
            Some("panic") if result.args()[1].as_atom().starts_with("Internal compiler error while formatting") => {
                let m = result.args()[1].as_atom();
                let msg = m.split("message: \"").nth(1).unwrap_or("?");
                let cut = msg.find(|c: char| c == '\'' || c == '"' || c == '`' || c.is_ascii_digit()).unwrap_or(msg.len());
                Some(Failure { signature: format!("diagnostic-does-not-render {}", msg[..cut].trim()), what: format!("write_error panics (a label has no file): {}", m.chars().take(300).collect::<String>().replace('\n', " ")) })
            },
            // beyond nesting depth 256 slowness is not judged (several passes are quadratic in the depth), only crashes
            Some("timeout") if case.head() == Some("nest") && a[1].as_usize() > 256 => None,
            Some("timeout") | Some("cli-timeout") => Some(Failure { signature: format!("timeout {kind}{depth_cls}"), what: format!("{result} {}", if case.head() == Some("nest") { format!("{case}") } else { String::new() }) }),
            _ => if case.head() == Some("spans") { default_judge(result).or_else(|| judge_spans(case, result)) } else { default_judge(result) },
        }
    }
}

