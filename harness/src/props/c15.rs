//! C15 — text in string arguments and metadata survives compile and decompile unchanged.
//!
//! (a) exhaustive sweep of all Unicode scalar values through `truth::io::Encoded::encode/decode`:
//!     validates the hypotheses the Lean theorems make about the text <-> bytes parameter
//!     (`TruthModel.Abi.Sjis`): encodable scalars have a NUL-free encoding of 1-2 bytes, decode
//!     inverts encode, only `|` encodes to a string starting with 0x7C.  Scalars whose round trip
//!     changes the character (the Shift-JIS duplicates) are recorded and must be exactly the
//!     pinned set below; they are what the property's "represents unambiguously" excludes.
//! (b) generated strings through every string-taking MSG instruction of TH06..TH18, STD
//!     stage/BGM names (TH06..TH09), the STD anm_path (TH10+), ANM entry paths and mission MSG
//!     lines: compile and decompile with the real implementation, compare the literals
//!     character for character; unencodable or oversize text must be an error.
//! (c) the string-argument layer against the Lean model (`encodeStr`/`decodeStr` through C12's
//!     driver): strings around block and buffer boundaries for every size kind x mask x furibug.

use super::{Case, Failure, Prop, Tier, default_judge, fail};
use super::c12::{self, Arg, Enc, StrSize, Lang};
use crate::rng::Rng;
use crate::sexp::Sexp;
use crate::tc;
use truth::ast;
use truth::io::{Encoded, DEFAULT_ENCODING};

pub struct C15;

/// Scalars that `encoding_rs::SHIFT_JIS` encodes but whose encoding decodes to a different
/// character: (scalar, what comes back).  Pinned; the sweep fails if the set changes.
pub const AMBIGUOUS: &[(u32, u32)] = &[
    (0x00A5, 0x005C), // YEN SIGN -> 0x5C -> REVERSE SOLIDUS
    (0x203E, 0x007E), // OVERLINE -> 0x7E -> TILDE
    (0x2212, 0xFF0D), // MINUS SIGN -> 0x817C -> FULLWIDTH HYPHEN-MINUS
];

// ---------------------------------------------------------------------------------------------
// (a) scalar sweep

fn sweep(lo: u32, hi: u32) -> Sexp {
    let (mut encodable, mut roundtrip) = (0u32, 0u32);
    let mut ambiguous = vec![];
    for cp in lo..hi {
        let c = match char::from_u32(cp) { Some(c) => c, None => continue };
        let s = c.to_string();
        let enc = match Encoded::encode(&sp!(s.as_str()), DEFAULT_ENCODING) { Ok(e) => e, Err(_) => continue };
        encodable += 1;
        if enc.0.is_empty() || enc.0.len() > 2 { return fail("scalar-encoding-length", format!("U+{cp:04X} encodes to {} bytes", enc.0.len())); }
        if enc.0.contains(&0) && cp != 0 { return fail("scalar-encoding-contains-nul", format!("U+{cp:04X} -> {:02x?}", enc.0)); }
        if (enc.0[0] == 0x7c) != (cp == 0x7c) { return fail("furigana-marker-byte-not-unique", format!("U+{cp:04X} -> {:02x?}", enc.0)); }
        match enc.decode(DEFAULT_ENCODING) {
            Ok(back) => if back == s { roundtrip += 1; } else {
                let b: Vec<u32> = back.chars().map(|x| x as u32).collect();
                ambiguous.push(Sexp::list(vec![Sexp::int(cp), Sexp::atom(crate::sexp::hex(&enc.0)), Sexp::list(b.into_iter().map(Sexp::int).collect())]));
            },
            Err(_) => return fail("scalar-encoding-does-not-decode", format!("U+{cp:04X} -> {:02x?}", enc.0)),
        }
    }
    Sexp::app("ok", vec![Sexp::app("encodable", vec![Sexp::int(encodable)]), Sexp::app("roundtrip", vec![Sexp::int(roundtrip)]), Sexp::app("ambiguous", ambiguous)])
}

fn judge_sweep(case: &Sexp, result: &Sexp) -> Option<Failure> {
    if result.head() != Some("ok") { return None; }
    let (lo, hi) = (case.args()[0].as_i64() as u32, case.args()[1].as_i64() as u32);
    let amb = result.args().iter().find(|x| x.head() == Some("ambiguous"))?;
    let got: Vec<(u32, u32)> = amb.args().iter().map(|x| { let l = x.as_list(); let back = l[2].as_list(); (l[0].as_i64() as u32, if back.len() == 1 { back[0].as_i64() as u32 } else { u32::MAX }) }).collect();
    let want: Vec<(u32, u32)> = AMBIGUOUS.iter().copied().filter(|(c, _)| *c >= lo && *c < hi).collect();
    if got != want {
        return Some(Failure { signature: "shift-jis-ambiguous-set-changed".into(), what: format!("scalars U+{lo:04X}..U+{hi:04X}: characters changed by encode+decode {got:x?}, pinned {want:x?}") });
    }
    None
}

// ---------------------------------------------------------------------------------------------
// text generation (static repertoire; nothing here asks the implementation what it can encode)

const HIRAGANA: &str = "あいうえおかきくけこさしすせそたちつてとなにぬねのはひふへほまみむめもやゆよらりるれろわをんがぎぐげござじずぜぞだぢづでどばびぶべぼぱぴぷぺぽっゃゅょ";
const KATAKANA: &str = "アイウエオカキクケコサシスセソタチツテトナニヌネノハヒフヘホマミムメモヤユヨラリルレロワヲンヴガギグゲゴザジズゼゾダヂヅデドバビブベボパピプペポァィゥェォッャュョー";
const HALFWIDTH: &str = "｡｢｣､･ｦｧｨｩｪｫｬｭｮｯｰｱｲｳｴｵｶｷｸｹｺｻｼｽｾｿﾀﾁﾂﾃﾄﾅﾆﾇﾈﾉﾊﾋﾌﾍﾎﾏﾐﾑﾒﾓﾔﾕﾖﾗﾘﾙﾚﾛﾜﾝﾞﾟ";
const KANJI: &str = "東方紅魔郷妖々夢永夜抄花映塚風神録地霊殿星蓮船神霊廟輝針城紺珠伝天空璋鬼形獣虹龍洞博麗霊夢霧雨魔理沙十六夜咲夜魂魄妖夢幻想結界弾幕少女祈祷中";
/// two-byte characters whose trail byte is 0x5C, 0x7C, a mask byte (0x77, 0x7E), 0x40, 0x80, 0x5B, 0x5D, 0x7B, 0xFC, 0x9F, 0x8E
const BOUNDARY: &str = "　―『×÷℃◆◯ー‐＋ァソポヘミムヮΑゼゾボ亜蔭院噂榎駅円園猿押改閏云閲后構鋼購降項克此刷梗江砿宗十楯舜淳準庶勝飾充従旬拭申酢陣厨逗錘澄線深疹須邸貼倒努冬凍梼董入甜転怒如能培背梅楳博函美納脳倍鼻表怖婦敷斧侮福朋票評府諭予慾謡欲沃落痢聯夕余養漾濬烟烱烝烙燻燹珱濕濔炮錙鐔閖鑿閙閠闔陝顰鐚鐓閔鵝鷭黥黔黯黴齊堯鷦鷯黠";
const SYMBOLS: &str = "、。，．・：；？！゛゜´｀¨＾￣＿ヽヾゝゞ〃仝々〆〇ー／＼～∥｜…‥‘’“”（）〔〕［］｛｝〈〉《》「」『』【】＋±×÷＝≠＜＞≦≧∞∴♂♀°′″℃￥＄％＃＆＊＠§☆★○●◎◇◆□■△▲▽▼※〒→←↑↓〓０１９ＡＺａｚαωАЯая─│┌┐";
/// (the second line: code points that look like a Shift-JIS character but are not in the table - the JIS X 0208 /
/// Unicode-consortium spellings of characters that Windows-31J maps elsewhere: wave dash, double vertical line, em dash,
/// cent, pound, not sign - and a few Latin-1 / punctuation neighbours; each was checked to be rejected by the unchanged code)
const UNENCODABLE: &[char] = &['é', 'ß', '€', '한', '😀', 'ñ', '\u{200b}', '☃', 'ø',
    '\u{301c}', '\u{2016}', '\u{2014}', '\u{a2}', '\u{a3}', '\u{ac}', 'à', '\u{2013}', '\u{b7}', '\u{100}'];

fn pick_char(rng: &mut Rng, set: &str) -> char { let v: Vec<char> = set.chars().collect(); v[rng.below(v.len())] }

#[derive(Copy, Clone, PartialEq, Eq)]
enum Flavor { Ascii, Kana, Kanji, Boundary, Mixed, TwoByteUtf8, Control }
/// characters that take two bytes in UTF-8 AND two bytes in Shift-JIS (no three-byte UTF-8 character
/// around them: buffer-size estimates based on the UTF-8 length are exact only with those)
const TWO_BYTE_UTF8: &str = "×÷°±§¨´¶αβγδεζηθικλμνξοπρστυφχψωΑΒΓΔΩАБВГДЕЖЗИЙКЛМНОПЯабвгдежзийклмнопя";

fn gen_text(rng: &mut Rng, nchars: usize, flavor: Flavor, furigana: bool) -> String {
    let mut s = String::new();
    if furigana { s.push('|'); }
    while s.chars().count() < nchars {
        let f = if flavor == Flavor::Mixed { *rng.pick(&[Flavor::Ascii, Flavor::Kana, Flavor::Kanji, Flavor::Boundary]) } else { flavor };
        match f {
            Flavor::Ascii => s.push(match rng.below(12) { 0 => '\\', 1 => '"', 2 => '|', 3 => '~', 4 => 'w', 5 => ' ', _ => (0x21u8 + rng.below(0x5e) as u8) as char }),
            Flavor::Kana => s.push(match rng.below(3) { 0 => pick_char(rng, HIRAGANA), 1 => pick_char(rng, KATAKANA), _ => pick_char(rng, HALFWIDTH) }),
            Flavor::Kanji => s.push(if rng.chance(1, 4) { pick_char(rng, SYMBOLS) } else { pick_char(rng, KANJI) }),
            Flavor::TwoByteUtf8 => s.push(if rng.chance(1, 3) { (0x21u8 + rng.below(0x5e) as u8) as char } else { pick_char(rng, TWO_BYTE_UTF8) }),
            // ASCII control characters (not NUL) next to hex digits and letters: the printer has to escape them
            // in a way the lexer reads back unambiguously
            Flavor::Control => s.push(match rng.below(3) { 0 => (1u8 + rng.below(0x1f) as u8) as char, 1 => *rng.pick(&['0', '1', '7', '9', 'a', 'b', 'e', 'f', 'A', 'F', 'x', 'u', '{', '}']), _ => (0x21u8 + rng.below(0x5e) as u8) as char }),
            _ => s.push(pick_char(rng, BOUNDARY)),
        }
    }
    // (ends that matter to an encoder working with an exactly sized buffer: two-byte character, then one ASCII character)
    if flavor == Flavor::TwoByteUtf8 && nchars >= 2 && rng.chance(1, 2) {
        let mut v: Vec<char> = s.chars().collect();
        let n = v.len();
        v[n - 2] = pick_char(rng, TWO_BYTE_UTF8); v[n - 1] = (0x21u8 + rng.below(0x5e) as u8) as char;
        if v[n - 1] == '"' || v[n - 1] == '\\' { v[n - 1] = 'C'; }
        s = v.into_iter().collect();
    }
    s
}

fn gen_len(rng: &mut Rng) -> usize {
    match rng.below(10) { 0 => 0, 1 => 1, 2 => 2 + rng.below(3), 3 => 300, 4 => 60 + rng.below(10), 5 => 120 + rng.below(12), _ => rng.below(301) }
}

// ---------------------------------------------------------------------------------------------
// (b) through the real formats

const MSG_GAMES: &[&str] = &["th06", "th07", "th08", "th09", "th10", "th11", "th12", "th128", "th13", "th14", "th15", "th16", "th17", "th18"];

/// string-taking MSG opcodes of a game: (opcode, number of leading word arguments)
fn msg_string_ops(game: &str) -> Vec<(u16, usize)> {
    match game {
        "th06" | "th07" => vec![(3, 2), (8, 2)],
        "th08" => vec![(3, 2), (8, 2), (16, 0), (19, 0), (20, 0)],
        "th09" => vec![(3, 2), (16, 0)],
        "th10" => vec![(14, 0), (15, 0), (16, 0)],
        _ => vec![(15, 0), (16, 0), (17, 0)],
    }
}

struct Strings(Vec<String>);
impl ast::Visit for Strings {
    fn visit_expr(&mut self, e: &truth::pos::Sp<ast::Expr>) {
        if let ast::Expr::LitString(s) = &e.value { self.0.push(s.string.clone()); }
        ast::walk_expr(self, e);
    }
}

/// every string literal of a source text, in order
fn literals_of(text: &str) -> Result<Vec<String>, String> {
    let mut scope = truth::Builder::new().capture_diagnostics(true).build();
    let mut truth = scope.truth();
    match truth.parse::<ast::ScriptFile>("<decompiled>", text.as_bytes()) {
        Ok(file) => { let mut v = Strings(vec![]); ast::Visit::visit_file(&mut v, &file.value); Ok(v.0) },
        Err(e) => { e.ignore(); Err(truth.get_captured_diagnostics().unwrap_or_default()) },
    }
}

fn lit(s: &str) -> String { c12::string_literal(s) }

#[derive(Debug)]
enum Expectation { RoundTrip, Error(&'static str) }

/// encoded length from the static repertoire: ASCII and half-width kana are one byte, everything else two
fn encoded_len(t: &str) -> usize { t.chars().map(|c| if (c as u32) < 0x80 || (0xFF61..=0xFF9F).contains(&(c as u32)) { 1 } else { 2 }).sum() }

/// what the property says about texts in fields with `limit` encoded bytes (None: unlimited)
fn expectation(texts: &[String], limit: Option<usize>) -> Expectation {
    for t in texts {
        if t.chars().any(|c| UNENCODABLE.contains(&c)) { return Expectation::Error("unencodable"); }
        if let Some(l) = limit { if encoded_len(t) >= l { return Expectation::Error("oversize"); } }
    }
    Expectation::RoundTrip
}

/// MSG instructions store their argument size in one byte: a string whose block-padded encoding
/// (with NUL, the leading word arguments and, from TH12 on, the bytes of a preceding furigana
/// line) exceeds 255 bytes does not fit
fn msg_expectation(game: &str, items: &[(u16, String)]) -> Expectation {
    let furibug = !matches!(game, "th06" | "th07" | "th08" | "th09" | "th10" | "th11");
    let ops = msg_string_ops(game);
    let mut pending = 0usize;
    for (op, t) in items {
        if t.chars().any(|c| UNENCODABLE.contains(&c)) { return Expectation::Error("unencodable"); }
        let words = ops.iter().find(|o| o.0 == *op).map(|o| o.1).unwrap_or(0);
        let padded = (encoded_len(t) + 1 + pending + 3) / 4 * 4;
        if 2 * words + padded > 255 { return Expectation::Error("oversize"); }
        pending = if furibug && t.starts_with('|') { padded } else { 0 };
    }
    Expectation::RoundTrip
}

fn run_format(format: tc::Format, game: &str, source: &str, payload: &[String], structural: &[&str], exp: Expectation) -> Sexp {
    let g = tc::game(game);
    let compiled = tc::compile(format, g, &[], source.as_bytes());
    let bytes = match compiled.value {
        Some(b) => b,
        None => {
            if !compiled.has_error_diag() { return fail("failure-without-error-diagnostic", format!("{} {game}", format.name())); }
            return match exp {
                Expectation::Error(why) => Sexp::app("pass", vec![Sexp::atom("rejected"), Sexp::atom(why)]),
                Expectation::RoundTrip => fail(format!("encodable-text-rejected {}", format.name()), format!("{game}: {} | payload {payload:?}", crate::util::diag_class(&compiled.diagnostics))),
            };
        },
    };
    if let Expectation::Error(why) = exp {
        return fail(format!("{why}-text-accepted {}", format.name()), format!("{game}: compiles although the text is {why}: {payload:?}"));
    }
    let dec = tc::decompile(format, g, &[], &bytes, &truth::DecompileOptions::default(), 100);
    let text = match dec.value { Some(t) => t, None => return fail(format!("compiled-file-does-not-decompile {}", format.name()), format!("{game}: {}", crate::util::diag_class(&dec.diagnostics))) };
    let mut lits = match literals_of(&text) { Ok(l) => l, Err(e) => return fail(format!("decompiled-text-does-not-parse {}", format.name()), format!("{game}: {e}")) };
    // drop the structural strings (script names in the MSG table, fixed file names)
    let mut structural: Vec<&str> = structural.to_vec();
    lits.retain(|l| { if let Some(i) = structural.iter().position(|s| s == l) { structural.remove(i); false } else { true } });
    if lits != payload {
        let k = lits.iter().zip(payload).position(|(a, b)| a != b).unwrap_or(lits.len().min(payload.len()));
        return fail(format!("text-changed {}", format.name()), format!("{game}: literal #{k}: wrote {:?}, read back {:?} ({} vs {} literals)", payload.get(k), lits.get(k), payload.len(), lits.len()));
    }
    // and the decompiled text compiles to the same bytes
    let again = tc::compile(format, g, &[], text.as_bytes());
    match again.value {
        Some(b2) if b2 == bytes => Sexp::app("pass", vec![Sexp::atom("roundtrip"), Sexp::int(payload.len() as i64)]),
        Some(_) => fail(format!("recompiled-bytes-differ {}", format.name()), format!("{game}")),
        None => fail(format!("decompiled-text-does-not-compile {}", format.name()), format!("{game}: {}", crate::util::diag_class(&again.diagnostics))),
    }
}

fn eval_msg(game: &str, items: &[(u16, String)]) -> Sexp {
    let ops = msg_string_ops(game);
    let mut src = String::from("meta { table: { 0: {script: \"script0\"} } }\nscript script0 {\n");
    for (op, text) in items {
        let words = ops.iter().find(|o| o.0 == *op).map(|o| o.1).unwrap_or(0);
        let mut args: Vec<String> = (0..words).map(|i| format!("{}", i + 1)).collect();
        args.push(lit(text));
        src.push_str(&format!("    ins_{op}({});\n", args.join(", ")));
    }
    src.push_str("}\n");
    let payload: Vec<String> = items.iter().map(|x| x.1.clone()).collect();
    run_format(tc::Format::Msg, game, &src, &payload, &["script0"], msg_expectation(game, items))
}

fn eval_std(game: &str, texts: &[String]) -> Sexp {
    let src = if matches!(game, "th06" | "th07" | "th08" | "th09") {
        format!("meta {{\n unknown: 0,\n stage_name: {},\n bgm: [\n  {{path: {}, name: {}}},\n  {{path: {}, name: {}}},\n  {{path: {}, name: {}}},\n  {{path: {}, name: {}}},\n ],\n objects: {{}},\n instances: [],\n}}\nscript main {{}}\n",
            lit(&texts[0]), lit(&texts[1]), lit(&texts[2]), lit(&texts[3]), lit(&texts[4]), lit(&texts[5]), lit(&texts[6]), lit(&texts[7]), lit(&texts[8]))
    } else {
        format!("meta {{\n unknown: 0,\n anm_path: {},\n objects: {{}},\n instances: [],\n}}\nscript main {{}}\n", lit(&texts[0]))
    };
    run_format(tc::Format::Std, game, &src, texts, &[], expectation(texts, Some(128)))
}

fn eval_anm(game: &str, path: &str) -> Sexp {
    let src = format!("entry {{ path: {}, has_data: false, img_width: 16, img_height: 16, img_format: 3, offset_x: 0, offset_y: 0, colorkey: 0, memory_priority: 0, low_res_scale: false, sprites: {{}} }}\nscript s {{ }}\n", lit(path));
    run_format(tc::Format::Anm, game, &src, &[path.to_string()], &[], expectation(&[path.to_string()], None))
}

fn eval_mission(game: &str, stage: u32, scene: u32, player: u32, texts: &[String]) -> Sexp {
    let list = texts.iter().map(|t| lit(t)).collect::<Vec<_>>().join(", ");
    let src = if game == "th095" {
        format!("entry {{ stage: {stage}, scene: {scene}, face: 1, point: 2, text: [{list}] }}\n")
    } else {
        format!("entry {{ stage: {stage}, scene: {scene}, player: {player}, unknown_1: 0, unknown_2: 0, point_1: 1, point_2: 2, furigana: [[0, 0], [1, 2], [3, 4]], text: [{list}] }}\n")
    };
    run_format(tc::Format::Mission, game, &src, texts, &[], expectation(texts, Some(64)))
}

// ---------------------------------------------------------------------------------------------

fn texts_sexp(xs: &[String]) -> Vec<Sexp> { xs.iter().map(|s| Sexp::str(s.clone())).collect() }

impl Prop for C15 {
    fn id(&self) -> &'static str { "C15" }
    fn relation(&self) -> &'static str {
        "strarg: blob bytes, decoded text and warnings of one string parameter (every size kind x mask x furibug, preceding furigana line) through Lowerer/Raiser == Lean `encodeStr`/`decodeStr` (TruthModel.Abi, via the C12 driver); sweep/msg/std/anm/mission: property oracle on the implementation (literal equality after compile+decompile, error on unencodable/oversize text)"
    }
    fn rule(&self) -> &'static str {
        "all 1,112,064 scalar values in 272 chunks through Encoded::encode/decode; strings of 0..300 characters over ASCII (incl. quote, backslash, bar, tilde), hiragana, katakana, half-width kana, kanji, symbols and 150 two-byte characters with trail bytes 0x5C/0x7C/0x77/0x7E/0x40/0x80/0xFC, consecutive furigana lines, lengths at 63/64, 127/128 and block boundaries, unencodable characters; through every string-taking MSG opcode of 14 games, STD names th06-th09, anm_path th10+, ANM entry paths, mission MSG th095/th125. non-trivial = non-empty text"
    }
    fn theorems(&self) -> &'static [&'static str] { &["TruthModel.C15.string_arg_roundtrip", "TruthModel.C15.fixed128_roundtrip", "TruthModel.C15.mission_line_roundtrip", "TruthModel.C15.unencodable_or_oversize_is_error"] }
    fn timeout_secs(&self) -> u64 { 60 }

    fn gen(&self, tier: Tier, rng: &mut Rng) -> Vec<Case> {
        let scale = if tier == Tier::Quick { 3 } else { 15 };
        let mut out = vec![];
        // (a) every scalar value, in chunks of 4096
        let mut lo = 0u32;
        while lo < 0x11_0000 { out.push(Case::search(Sexp::app("sweep", vec![Sexp::int(lo), Sexp::int(lo + 0x1000)])).tag("scalar-sweep")); lo += 0x1000; }
        // (b1) MSG
        for n in 0..1800 * scale {
            let game = MSG_GAMES[n % MSG_GAMES.len()];
            let ops = msg_string_ops(game);
            let count = 1 + rng.below(4);
            let furi_run = rng.chance(1, 3);
            let flavor = *rng.pick(&[Flavor::Ascii, Flavor::Kana, Flavor::Kanji, Flavor::Boundary, Flavor::Mixed, Flavor::Mixed, Flavor::TwoByteUtf8, Flavor::Control]);
            let mut items = vec![];
            for _ in 0..count {
                let op = rng.pick(&ops).0;
                let len = if count > 2 { gen_len(rng).min(80) } else { gen_len(rng) };
                let furi = furi_run && rng.chance(2, 3);
                items.push(Sexp::list(vec![Sexp::int(op), Sexp::str(gen_text(rng, len, flavor, furi))]));
            }
            let trivial = items.iter().all(|i| i.as_list()[1].as_atom().is_empty());
            let mut v = vec![Sexp::atom(game)]; v.extend(items);
            out.push(Case::search(Sexp::app("msg", v)).tag(format!("msg-{game}")).tag(if furi_run { "furigana-lines" } else { "plain-lines" }).trivial(trivial));
        }
        // (b2) unencodable text in MSG
        for n in 0..260 * scale {
            let game = MSG_GAMES[n % MSG_GAMES.len()];
            let op = msg_string_ops(game)[0].0;
            let l = 1 + rng.below(20);
            let mut t: Vec<char> = gen_text(rng, l, Flavor::Mixed, false).chars().collect();
            let pos = rng.below(t.len() + 1);
            t.insert(pos, UNENCODABLE[(n / MSG_GAMES.len()) % UNENCODABLE.len()]);
            out.push(Case::search(Sexp::app("msg", vec![Sexp::atom(game), Sexp::list(vec![Sexp::int(op), Sexp::str(t.into_iter().collect::<String>())])])).tag("msg-unencodable"));
        }
        // (b3) STD names (128-byte fields)
        for n in 0..500 * scale {
            let game = *rng.pick(&["th06", "th07", "th08", "th09", "th10", "th12", "th16"]);
            let count = if matches!(game, "th06" | "th07" | "th08" | "th09") { 9 } else { 1 };
            let victim = rng.below(count);
            let mode = n % 5; // 0,1,2: fits; 3: oversize; 4: unencodable
            let mut texts = vec![];
            for i in 0..count {
                let flavor = *rng.pick(&[Flavor::Ascii, Flavor::Kana, Flavor::Kanji, Flavor::Boundary, Flavor::Mixed]);
                let two = flavor != Flavor::Ascii;
                let fit_chars = if two { 63 } else { 127 };
                let over = if two { 64 + rng.below(3) } else { 128 + rng.below(3) };
                let under = *rng.pick(&[0usize, 1, fit_chars, fit_chars - 1, 10]);
                let other = rng.below(20);
                let mut t = if i == victim {
                    match mode {
                        3 => gen_text(rng, over, if two { Flavor::Kanji } else { Flavor::Ascii }, false),
                        _ => gen_text(rng, under, if two { Flavor::Kanji } else { Flavor::Ascii }, false),
                    }
                } else { gen_text(rng, other, flavor, false) };
                if i == victim && mode == 4 { t.push(*rng.pick(UNENCODABLE)); }
                texts.push(t);
            }
            let mut v = vec![Sexp::atom(game)]; v.extend(texts_sexp(&texts));
            out.push(Case::search(Sexp::app("std", v)).tag(format!("std-{}", match mode { 3 => "oversize", 4 => "unencodable", _ => "fits" })));
        }
        // (b4) ANM entry paths (block-padded C string)
        for n in 0..400 * scale {
            let game = *rng.pick(&["th06", "th08", "th12", "th17"]);
            let flavor = *rng.pick(&[Flavor::Ascii, Flavor::Ascii, Flavor::Kanji, Flavor::Boundary, Flavor::Mixed, Flavor::TwoByteUtf8]);
            let len = *rng.pick(&[1usize, 7, 8, 14, 15, 16, 17, 31, 32, 33, 100, 300]);
            let l = if n % 7 == 0 { len } else { 1 + rng.below(40) };
            let mut t = gen_text(rng, l, flavor, false);
            if n % 11 == 10 { t.push(*rng.pick(UNENCODABLE)); }
            out.push(Case::search(Sexp::app("anm", vec![Sexp::atom(game), Sexp::str(t)])).tag("anm-path"));
        }
        // (b5) mission MSG lines (64-byte fields, additive cipher)
        for n in 0..500 * scale {
            let game = if n % 2 == 0 { "th095" } else { "th125" };
            let count = if game == "th095" { 3 } else { 6 };
            let mode = n % 6;
            let victim = rng.below(count);
            let mut texts = vec![];
            for i in 0..count {
                let two = rng.chance(1, 2);
                let fit_chars = if two { 31 } else { 63 };
                let over = if two { 32 + rng.below(3) } else { 64 + rng.below(3) };
                let under = *rng.pick(&[0usize, 1, fit_chars, fit_chars - 1, 5]);
                let other = rng.below(12);
                let oflavor = *rng.pick(&[Flavor::Ascii, Flavor::Kana, Flavor::Kanji]);
                let mut t = if i == victim {
                    match mode {
                        4 => gen_text(rng, over, if two { Flavor::Boundary } else { Flavor::Ascii }, false),
                        _ => gen_text(rng, under, if two { Flavor::Boundary } else { Flavor::Ascii }, false),
                    }
                } else { gen_text(rng, other, oflavor, false) };
                if i == victim && mode == 5 { t.push(*rng.pick(UNENCODABLE)); }
                texts.push(t);
            }
            let mut v = vec![Sexp::atom(game), Sexp::int(rng.below(256) as i64), Sexp::int(rng.below(256) as i64), Sexp::int(rng.below(4) as i64)];
            v.extend(texts_sexp(&texts));
            out.push(Case::search(Sexp::app("mission", v)).tag(format!("mission-{}", match mode { 4 => "oversize", 5 => "unencodable", _ => "fits" })));
        }
        // (c) one string parameter against the Lean model, every size kind x mask x furibug
        for n in 0..900 * scale {
            let bs = *rng.pick(&[1usize, 2, 3, 4, 4, 8, 16]);
            let len = *rng.pick(&[1usize, 4, 8, 16, 32, 64]);
            let size = match n % 4 { 0 => StrSize::BlobEnd(bs), 1 => StrSize::Pascal(bs), 2 => StrSize::Fixed(len, false), _ => StrSize::Fixed(len, true) };
            let mask = match rng.below(4) { 0 => [0, 0, 0], 1 => [0x77, 0, 0], 2 => [0x77, 7, 16], _ => [rng.next_u32() as u8, rng.next_u32() as u8, rng.next_u32() as u8] };
            let furibug = rng.chance(1, 2) && !matches!(size, StrSize::Fixed(_, true));
            let letter = match size { StrSize::Pascal(_) => 'p', _ => 'm' };
            let param = Enc::Str { letter, size: size.clone(), mask, furibug };
            // a preceding furigana line with the TH12 signature sets the state
            let first = Enc::Str { letter: 'p', size: StrSize::Pascal(4), mask: [0x77, 7, 16], furibug: true };
            let with_state = furibug && rng.chance(1, 2);
            let fl = rng.below(6);
            let first_text = if with_state { gen_text(rng, 1 + fl, Flavor::Mixed, true) } else { gen_text(rng, fl, Flavor::Kana, false) };
            let extra = if with_state { (c12::sjis_encode(&first_text).unwrap().len() + 1 + 3) / 4 * 4 } else { 0 };
            // text length around the boundary of the block / buffer
            let flavor = *rng.pick(&[Flavor::Ascii, Flavor::Boundary, Flavor::Mixed, Flavor::Kana]);
            let target_bytes: isize = match &size {
                StrSize::Fixed(l, nl) => *l as isize - (!*nl as isize) - extra as isize - rng.below(3) as isize,
                StrSize::BlobEnd(b) | StrSize::Pascal(b) => (*b * (1 + rng.below(3))) as isize - 1 + rng.range(-1, 1) as isize,
            };
            let mut text = String::new();
            loop {
                let next = gen_text(rng, 1, flavor, false);
                let l = c12::sjis_encode(&(text.clone() + &next)).unwrap().len() as isize;
                if l > target_bytes.max(0) { break; }
                text.push_str(&next);
            }
            let abi = vec![first, Enc::Int { letter: 'S', arg0: false, imm: false, hex: false, en: false }, param];
            let args = vec![Arg::Str(c12::sjis_encode(&first_text).unwrap()), Arg::Int(rng.int_boundary(), false), Arg::Str(c12::sjis_encode(&text).unwrap())];
            let tag = format!("strarg-{}-{}{}", match size { StrSize::BlobEnd(_) => "bs", StrSize::Pascal(_) => "pascal", StrSize::Fixed(_, false) => "len", _ => "len-nulless" }, if mask == [0, 0, 0] { "nomask" } else { "mask" }, if furibug { if with_state { "-furibug-pending" } else { "-furibug" } } else { "" });
            out.push(Case::corr(c12::call_case("call", Lang::Anm, &[abi], &[(0, args)], &[])).tag(tag).trivial(text.is_empty()));
        }
        // block-wise C strings for every block size: the real write_cstring / read_cstring_blockwise against the model
        super::c12_parts::gen_cstr(tier, rng, &mut out);
        out
    }

    fn eval(&self, case: &Sexp) -> Sexp {
        let a = case.args();
        match case.head() {
            Some("sweep") => sweep(a[0].as_i64() as u32, a[1].as_i64() as u32),
            Some("msg") => {
                let items: Vec<(u16, String)> = a[1..].iter().map(|i| { let l = i.as_list(); (l[0].as_i64() as u16, l[1].as_atom().to_string()) }).collect();
                eval_msg(a[0].as_atom(), &items)
            },
            Some("std") => eval_std(a[0].as_atom(), &a[1..].iter().map(|x| x.as_atom().to_string()).collect::<Vec<_>>()),
            Some("anm") => eval_anm(a[0].as_atom(), a[1].as_atom()),
            Some("mission") => eval_mission(a[0].as_atom(), a[1].as_i64() as u32, a[2].as_i64() as u32, a[3].as_i64() as u32, &a[4..].iter().map(|x| x.as_atom().to_string()).collect::<Vec<_>>()),
            Some("call") => c12::C12.eval(case),
            Some("cstr") => super::c12_parts::eval_cstr(case),
            _ => Sexp::atom("bad-case"),
        }
    }

    fn judge(&self, case: &Sexp, result: &Sexp) -> Option<Failure> {
        if let Some(f) = default_judge(result) { return Some(f); }
        match case.head() {
            Some("sweep") => judge_sweep(case, result),
            Some("call") => c12::C12.judge(case, result),
            Some("cstr") => super::c12_parts::judge_cstr(case, result),
            _ => None,
        }
    }
}
