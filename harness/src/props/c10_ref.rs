//! C10 — an independent reference resolver, written from the text of the property only.
//!
//! "Every use of a name refers to the innermost visible declaration under the documented scoping
//! rules: locals from their declaration to the end of their block and never inside nested
//! functions or consts, consts and functions throughout their whole block including before the
//! declaration, register and instruction aliases only in their own language, and redeclaration in
//! one block is an error."
//!
//! It shares no code with truth's resolver (rib stacks walked innermost-first) nor with the Lean
//! model (rib stacks / environment passing).  It works on *regions*: a first pass over the case
//! tree (grammar in c10.rs) records every scope with its parent and every declaration with the
//! scope it belongs to and the text position from which it is visible; a use is then answered by
//! walking the chain of enclosing scopes of the use and taking the declarations of that name that
//! are visible at the position of the use.  Occurrence ids follow the text, so "before / after"
//! is a comparison of ids.
//!
//! Where the property text does not decide (two declarations of one name in the same scope; a
//! name with no declaration in the program, for which mapfiles / enums / builtins compete) the
//! answer is `Undetermined` / `Outside` and the caller must not judge more than the text allows.

use crate::sexp::Sexp;
use std::collections::BTreeMap;

#[derive(Clone, Copy, PartialEq, Eq, Debug)]
pub enum DKind { Local, Param, Const, Func, Sprite, ScriptName }

impl DKind {
    pub fn name(self) -> &'static str {
        match self { DKind::Local => "local", DKind::Param => "parameter", DKind::Const => "const", DKind::Func => "function", DKind::Sprite => "sprite", DKind::ScriptName => "script-name" }
    }
    /// locals and parameters are the declarations that a nested function or const cannot see
    fn is_local(self) -> bool { matches!(self, DKind::Local | DKind::Param) }
}

#[derive(Clone, Copy, PartialEq, Eq, Debug)]
pub enum Space { Var, Call }

#[derive(Clone, Debug)]
pub struct Decl {
    pub id: usize,
    pub name: String,
    pub kind: DKind,
    pub space: Space,
    scope: usize,
    /// first text position at which the declaration can be referred to (0 = everywhere in its scope)
    from: usize,
}

#[derive(Clone, PartialEq, Eq, Debug)]
pub enum Target {
    /// exactly one declaration of the program is the innermost visible one
    Decl(usize),
    /// the innermost declaration of that name is a local / parameter of an enclosing function body
    /// or block seen from inside a nested function or const: it is not visible there
    Hidden(usize),
    /// no declaration of the program is visible: the name means whatever mapfiles (aliases of
    /// the language of the use, enums) and builtins provide, or nothing
    Outside,
    /// several declarations of the same scope compete (a redeclaration, or a local and a const of
    /// one block): every candidate is a declaration of the program with that name
    Undetermined(Vec<usize>),
    /// `Enum.name`: not subject to scoping
    Qualified,
}

#[derive(Clone, Debug)]
pub struct UseInfo {
    pub name: String,
    pub space: Space,
    pub target: Target,
    /// language of the code the use is in (`None`: a const context)
    pub lang: Option<String>,
    /// enclosing call arguments, outermost first: (occurrence id of the callee name or None for
    /// a raw instruction, index of the argument)
    pub arg_of: Vec<(Option<usize>, usize)>,
}

pub struct Reference {
    pub decls: BTreeMap<usize, Decl>,
    pub uses: BTreeMap<usize, UseInfo>,
    /// declaration occurrences that repeat a name already declared in the same block (same kind
    /// of declaration): each of them is an error
    pub redeclared: Vec<usize>,
    /// number of parameters of each function declaration
    pub arity: BTreeMap<usize, usize>,
    /// parameter names of declarations without a body: they declare nothing
    pub undeclared_params: Vec<usize>,
}

struct Scope {
    parent: Option<usize>,
    /// entering this scope from its parent crosses into a function or a const
    boundary: bool,
}

struct PendingUse { id: usize, name: String, space: Space, scope: usize, lang: Option<String>, qualified: bool, arg_of: Vec<(Option<usize>, usize)> }

pub struct Options {
    pub funcs_lang: String,
    pub scripts_lang: String,
    /// old ECL: a top-level function without qualifier is a sub, and its name is also the name
    /// of an integer constant (its index) wherever no other declaration of that name is visible
    pub subs_are_consts: bool,
}

struct Walk<'a> {
    opt: &'a Options,
    scopes: Vec<Scope>,
    decls: Vec<Decl>,
    uses: Vec<PendingUse>,
    arity: BTreeMap<usize, usize>,
    undeclared_params: Vec<usize>,
}

impl Walk<'_> {
    fn scope(&mut self, parent: Option<usize>, boundary: bool) -> usize { self.scopes.push(Scope { parent, boundary }); self.scopes.len() - 1 }
    fn declare(&mut self, id: &Sexp, name: &Sexp, kind: DKind, space: Space, scope: usize, from: usize) {
        self.decls.push(Decl { id: id.as_usize(), name: name.as_atom().to_string(), kind, space, scope, from });
    }

    /// largest occurrence id inside an expression (None if it has none)
    fn max_id(e: &Sexp) -> Option<usize> {
        let a = e.args();
        match e.head() {
            Some("v") | Some("q") => Some(a[0].as_usize()),
            Some("f") => a[2..].iter().filter_map(Self::max_id).chain(std::iter::once(a[0].as_usize())).max(),
            Some("add") => a.iter().filter_map(Self::max_id).max(),
            Some("ins") => a[2..].iter().filter_map(Self::max_id).max(),
            _ => None,
        }
    }

    fn expr(&mut self, e: &Sexp, scope: usize, lang: &Option<String>, arg_of: &Vec<(Option<usize>, usize)>) {
        let a = e.args();
        match e.head() {
            Some("v") => self.uses.push(PendingUse { id: a[0].as_usize(), name: a[1].as_atom().to_string(), space: Space::Var, scope, lang: lang.clone(), qualified: false, arg_of: arg_of.clone() }),
            Some("q") => self.uses.push(PendingUse { id: a[0].as_usize(), name: a[2].as_atom().to_string(), space: Space::Var, scope, lang: lang.clone(), qualified: true, arg_of: arg_of.clone() }),
            Some("f") => {
                let callee = a[0].as_usize();
                self.uses.push(PendingUse { id: callee, name: a[1].as_atom().to_string(), space: Space::Call, scope, lang: lang.clone(), qualified: false, arg_of: arg_of.clone() });
                for (i, x) in a[2..].iter().enumerate() { let mut inner = arg_of.clone(); inner.push((Some(callee), i)); self.expr(x, scope, lang, &inner); }
            },
            Some("add") => { for x in a { self.expr(x, scope, lang, arg_of); } },
            Some("ins") => { for (i, x) in a[2..].iter().enumerate() { let mut inner = arg_of.clone(); inner.push((None, i)); self.expr(x, scope, lang, &inner); } },
            _ => {},
        }
    }

    /// a new block nested in `parent`
    fn block(&mut self, ss: &[Sexp], parent: Option<usize>, lang: &Option<String>) -> usize {
        let s = self.scope(parent, false);
        self.stmts(ss, s, lang);
        s
    }

    fn stmts(&mut self, ss: &[Sexp], scope: usize, lang: &Option<String>) { for s in ss { self.stmt(s, scope, lang); } }

    fn stmt(&mut self, s: &Sexp, scope: usize, lang: &Option<String>) {
        let a = s.args();
        let top = vec![];
        match s.head() {
            Some("expr") | Some("ret") => self.expr(&a[0], scope, lang, &top),
            Some("assign") => { self.expr(&a[0], scope, lang, &top); self.expr(&a[1], scope, lang, &top); },
            Some("decl") => {
                for v in a {
                    let v = v.as_list();
                    let id = v[0].as_usize();
                    // visible after its own declarator (the initialiser included)
                    let from = 1 + v.get(2).and_then(Self::max_id).unwrap_or(id).max(id);
                    if v.len() > 2 { self.expr(&v[2], scope, lang, &top); }
                    self.declare(&v[0], &v[1], DKind::Local, Space::Var, scope, from);
                }
            },
            Some("block") | Some("loop") => { self.block(a, Some(scope), lang); },
            Some("while") | Some("dowhile") | Some("times") => { self.expr(&a[0], scope, lang, &top); self.block(&a[1..], Some(scope), lang); },
            Some("timesc") => { self.expr(&a[0], scope, lang, &top); self.expr(&a[1], scope, lang, &top); self.block(&a[2..], Some(scope), lang); },
            Some("if") => {
                for b in a {
                    if b.head() == Some("else") { self.block(b.args(), Some(scope), lang); }
                    else { let v = b.as_list(); self.expr(&v[0], scope, lang, &top); self.block(&v[1..], Some(scope), lang); }
                }
            },
            Some("func") => {
                let qual = a[0].as_atom();
                self.declare(&a[1], &a[2], DKind::Func, Space::Call, scope, 0);
                let params = a[3].as_list();
                self.arity.insert(a[1].as_usize(), params.len());
                if self.opt.subs_are_consts && qual == "plain" && self.scopes[scope].parent.is_none() {
                    self.declare(&a[1], &a[2], DKind::Func, Space::Var, scope, 0);
                }
                let body_lang = if qual == "const" { None } else { Some(self.opt.funcs_lang.clone()) };
                let ps = self.scope(Some(scope), true);
                for p in params { let p = p.as_list(); self.declare(&p[0], &p[1], DKind::Param, Space::Var, ps, 0); }
                self.block(&a[4..], Some(ps), &body_lang);
            },
            Some("funcdecl") => {
                self.declare(&a[1], &a[2], DKind::Func, Space::Call, scope, 0);
                if self.opt.subs_are_consts && a[0].as_atom() == "plain" && self.scopes[scope].parent.is_none() {
                    self.declare(&a[1], &a[2], DKind::Func, Space::Var, scope, 0);
                }
                let params = a[3].as_list();
                self.arity.insert(a[1].as_usize(), params.len());
                for p in params { self.undeclared_params.push(p.as_list()[0].as_usize()); }
            },
            Some("const") => {
                for v in a {
                    let v = v.as_list();
                    self.declare(&v[0], &v[1], DKind::Const, Space::Var, scope, 0);
                    if v.len() > 2 { let cs = self.scope(Some(scope), true); self.expr(&v[2], cs, &None, &top); }
                }
            },
            Some("script") => { let l = Some(self.opt.scripts_lang.clone()); self.block(a, Some(scope), &l); },
            Some("nscript") => {
                self.declare(&a[0], &a[1], DKind::ScriptName, Space::Var, scope, 0);
                let l = Some(self.opt.scripts_lang.clone());
                self.block(&a[2..], Some(scope), &l);
            },
            Some("sprites") => { for v in a { let v = v.as_list(); self.declare(&v[0], &v[1], DKind::Sprite, Space::Var, scope, 0); } },
            h => panic!("c10_ref: bad stmt {h:?}"),
        }
    }

    /// is a function / const boundary crossed on the way from scope `from` up to (not into) `to`?
    fn crosses(&self, from: usize, to: usize) -> bool {
        let mut s = from;
        while s != to {
            if self.scopes[s].boundary { return true; }
            s = self.scopes[s].parent.expect("`to` is an ancestor");
        }
        false
    }

    fn answer(&self, u: &PendingUse) -> Target {
        if u.qualified { return Target::Qualified; }
        let mut s = Some(u.scope);
        while let Some(sc) = s {
            let here: Vec<&Decl> = self.decls.iter().filter(|d| d.scope == sc && d.space == u.space && d.name == u.name && d.from <= u.id).collect();
            match here.len() {
                0 => {},
                1 => {
                    let d = here[0];
                    return if d.kind.is_local() && self.crosses(u.scope, sc) { Target::Hidden(d.id) } else { Target::Decl(d.id) };
                },
                _ => return Target::Undetermined(here.iter().map(|d| d.id).collect()),
            }
            s = self.scopes[sc].parent;
        }
        Target::Outside
    }
}

pub fn resolve(root: &Sexp, opt: &Options) -> Reference {
    let mut w = Walk { opt, scopes: vec![], decls: vec![], uses: vec![], arity: BTreeMap::new(), undeclared_params: vec![] };
    let lang = Some(opt.funcs_lang.clone());
    let s = w.scope(None, false);
    // a file is the block of its items; a bare block is a block
    w.stmts(root.args(), s, &lang);

    // redeclarations: the same name twice among the locals / the parameters / the consts / the
    // functions of one scope
    let mut redeclared = vec![];
    for (i, d) in w.decls.iter().enumerate() {
        let class = |k: DKind| match k { DKind::Local => 0, DKind::Param => 1, DKind::Const => 2, DKind::Func => 3, DKind::Sprite => 4, DKind::ScriptName => 5 };
        if matches!(d.kind, DKind::Sprite | DKind::ScriptName) { continue; }
        if w.decls[..i].iter().any(|e| e.scope == d.scope && e.space == d.space && e.name == d.name && class(e.kind) == class(d.kind) && e.id != d.id) { redeclared.push(d.id); }
    }
    let mut uses = BTreeMap::new();
    for u in &w.uses {
        uses.insert(u.id, UseInfo { name: u.name.clone(), space: u.space, target: w.answer(u), lang: u.lang.clone(), arg_of: u.arg_of.clone() });
    }
    let mut decls = BTreeMap::new();
    // (the constant face of an ECL sub shares the id of the function declaration)
    for d in &w.decls { decls.entry(d.id).or_insert_with(|| d.clone()); }
    Reference { decls, uses, redeclared, arity: w.arity, undeclared_params: w.undeclared_params }
}

impl Reference {
    /// Is the use inside a call argument that lies beyond the parameter count of a callee that
    /// the reference can name (a function of the program)?  `None`: some enclosing callee is not
    /// a function of the program (alias / raw instruction / unknown), the reference cannot tell.
    pub fn beyond_arity(&self, use_id: usize) -> Option<bool> {
        let u = &self.uses[&use_id];
        let mut unknown = false;
        for &(callee, idx) in &u.arg_of {
            match callee.and_then(|c| self.uses.get(&c)).map(|c| &c.target) {
                Some(Target::Decl(f)) => { if idx >= self.arity.get(f).copied().unwrap_or(usize::MAX) { return Some(true); } },
                _ => unknown = true,
            }
        }
        if unknown { None } else { Some(false) }
    }
}
