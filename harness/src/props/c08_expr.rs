//! C08, expression layer: the model-compared cases of Lean `Model/FmtExpr.lean`.
//!
//! * `(eprint EXPR)`      text of `fmt::stringify_with(expr, unlimited width)`            == `FmtExpr.printText`
//! * `(eprintw W EXPR)`   text of `stringify_with(expr, max_columns(W))`                  == `FmtExpr.renderExpr W`
//! * `(etoks W EXPR)`     real lexer on `stringify_with(expr, max_columns(W))`, commas in front of `)` dropped
//!                        == the tokens `FmtExpr.printExpr` (the hypothesis `LexOK` of `expr_print_parse_text`
//!                        when `NoGlue` holds; `Fmt.lex (printText e)` at the glue sites)
//! * `(eparse "text")`    `parse::<ast::Expr>` as a canonical tree / reject           == `FmtExpr.parseText`
//!
//! The S-expression grammar of expressions is documented in `lean/TruthModel/Driver/C08.lean`.

use super::{Case, Tier};
use super::c08::{parse_fresh, eval_lex, lex_text_ok, SrcGen, PARSER_PANIC};
use crate::rng::{Rng, INT_BOUNDARY};
use crate::sexp::Sexp;
use truth::ast;
use truth::pos::Sp;
use truth::ident::{Ident, ResIdent};
use truth::fmt::{stringify_with, Config};

pub const UNLIMITED: usize = 1_000_000;

// =================================================================================================
// S-expression <-> ast::Expr

fn ident(s: &str) -> Ident { Ident::new_system(s).expect("ascii identifier") }
fn res_ident(s: &str) -> ResIdent { ResIdent::new_null(ident(s)) }

fn binop_of(name: &str) -> ast::BinOpKind {
    ast::BinOpKind::iter().find(|k| format!("{k:?}") == name).unwrap_or_else(|| panic!("bad binop {name}"))
}
fn unop_of(name: &str) -> ast::UnOpKind {
    ast::UnOpKind::iter().find(|k| format!("{k:?}") == name).unwrap_or_else(|| panic!("bad unop {name}"))
}
fn pseudo_of(name: &str) -> ast::PseudoArgKind {
    match name {
        "mask" => ast::PseudoArgKind::Mask, "pop" => ast::PseudoArgKind::Pop, "blob" => ast::PseudoArgKind::Blob,
        "arg0" => ast::PseudoArgKind::ExtraArg, "nargs" => ast::PseudoArgKind::ArgCount, _ => panic!("bad pseudo kind {name}"),
    }
}
fn pseudo_name(k: ast::PseudoArgKind) -> &'static str {
    match k {
        ast::PseudoArgKind::Mask => "mask", ast::PseudoArgKind::Pop => "pop", ast::PseudoArgKind::Blob => "blob",
        ast::PseudoArgKind::ExtraArg => "arg0", ast::PseudoArgKind::ArgCount => "nargs",
    }
}
fn radix_of(s: &str) -> ast::IntRadix {
    match s { "dec" => ast::IntRadix::Dec, "hex" => ast::IntRadix::Hex, "bin" => ast::IntRadix::Bin, "bool" => ast::IntRadix::Bool, _ => panic!("bad radix {s}") }
}
fn radix_name(r: ast::IntRadix) -> &'static str {
    match r { ast::IntRadix::Dec => "dec", ast::IntRadix::Hex => "hex", ast::IntRadix::Bin => "bin", ast::IntRadix::Bool => "bool" }
}

fn build_var(s: &Sexp) -> ast::Var {
    let a = s.args();
    let ty_sigil = match a[0].as_atom() { "int" => Some(ast::VarSigil::Int), "float" => Some(ast::VarSigil::Float), _ => None };
    let name = if a[1].as_atom() == "r" {
        ast::VarName::Reg { reg: truth::RegId(a[2].as_i32()), language: None }
    } else {
        ast::VarName::new_non_reg(res_ident(a[2].as_atom()))
    };
    ast::Var { ty_sigil, name }
}

fn boxed(s: &Sexp) -> Box<Sp<ast::Expr>> { Box::new(sp!(build_expr(s))) }

pub fn build_expr(s: &Sexp) -> ast::Expr {
    let a = s.args();
    match s.head() {
        Some("tern") => ast::Expr::Ternary { cond: boxed(&a[0]), question: sp!(()), left: boxed(&a[1]), colon: sp!(()), right: boxed(&a[2]) },
        Some("bin") => ast::Expr::BinOp(boxed(&a[1]), sp!(binop_of(a[0].as_atom())), boxed(&a[2])),
        Some("un") => ast::Expr::UnOp(sp!(unop_of(a[0].as_atom())), boxed(&a[1])),
        Some("xcr") => ast::Expr::XcrementOp {
            order: if a[0].as_atom() == "pre" { ast::XcrementOpOrder::Pre } else { ast::XcrementOpOrder::Post },
            op: sp!(if a[1].as_atom() == "inc" { ast::XcrementOpKind::Inc } else { ast::XcrementOpKind::Dec }),
            var: sp!(build_var(&a[2])),
        },
        Some("var") => ast::Expr::Var(sp!(build_var(&a[0]))),
        Some("call") => {
            let name = if a[0].head() == Some("ins") {
                ast::CallableName::Ins { opcode: a[0].args()[0].as_i64() as u16, language: None }
            } else {
                ast::CallableName::Normal { ident: res_ident(a[0].args()[0].as_atom()), language_if_ins: None }
            };
            let pseudos = a[1].args().iter().map(|p| {
                let kv = p.as_list();
                sp!(ast::PseudoArg { at_sign: sp!(()), kind: sp!(pseudo_of(kv[0].as_atom())), eq_sign: sp!(()), value: sp!(build_expr(&kv[1])) })
            }).collect();
            let args = a[2..].iter().map(|x| sp!(build_expr(x))).collect();
            ast::Expr::Call(ast::ExprCall { name: sp!(name), pseudos, args })
        },
        Some("switch") => ast::Expr::DiffSwitch(a.iter().map(|c| match c { Sexp::Atom(x) if x == "_" => None, other => Some(sp!(build_expr(other))) }).collect()),
        Some("int") => ast::Expr::LitInt { value: a[0].as_i32(), format: ast::IntFormat { signed: a[1].as_atom() == "signed", radix: radix_of(a[2].as_atom()) } },
        Some("flt") => ast::Expr::LitFloat { value: f32::from_bits(a[0].as_u32()) },
        Some("fltt") => ast::Expr::LitFloat { value: a[0].as_atom().trim_end_matches(|c| c == 'f' || c == 'F').parse().expect("float text") },
        Some("str") => ast::Expr::LitString(ast::LitString { string: a[0].as_atom().to_string() }),
        Some("labelprop") => ast::Expr::LabelProperty {
            keyword: sp!(if a[0].as_atom() == "timeof" { ast::LabelPropertyKeyword::TimeOf } else { ast::LabelPropertyKeyword::OffsetOf }),
            label: sp!(ident(a[1].as_atom())),
        },
        Some("enumc") => ast::Expr::EnumConst { enum_name: sp!(ident(a[0].as_atom())), ident: sp!(res_ident(a[1].as_atom())) },
        _ => panic!("bad expression case {s}"),
    }
}

fn var_sexp(v: &ast::Var) -> Sexp {
    let sigil = match v.ty_sigil { None => "none", Some(ast::VarSigil::Int) => "int", Some(ast::VarSigil::Float) => "float" };
    match &v.name {
        ast::VarName::Normal { ident, .. } => Sexp::app("v", vec![Sexp::atom(sigil), Sexp::atom("n"), Sexp::str(ident.as_raw().as_str())]),
        ast::VarName::Reg { reg, .. } => Sexp::app("v", vec![Sexp::atom(sigil), Sexp::atom("r"), Sexp::int(reg.0)]),
    }
}

/// independent rendering of the magnitude of a finite float (Rust's `Display`, plus `.0`): the
/// `showF32` parameter of the model
pub fn float_mag_text(x: f32) -> String {
    if !x.is_finite() { return "?".into(); }
    let mut s = format!("{}", x.abs());
    if !s.contains('.') { s.push_str(".0"); }
    s
}

fn flt_sexp(x: f32) -> Sexp { Sexp::app("flt", vec![Sexp::int(x.to_bits() as i64), Sexp::str(float_mag_text(x))]) }

/// Canonical tree of a parsed expression.  `float_texts`: the texts of the FLOAT tokens of the
/// source in order; the n-th float literal of the tree in source order is the n-th such token
/// (what the model's opaque float token carries).
pub fn expr_sexp(e: &ast::Expr, float_texts: &mut std::collections::VecDeque<String>) -> Sexp {
    let go = |x: &ast::Expr, ft: &mut std::collections::VecDeque<String>| expr_sexp(x, ft);
    match e {
        ast::Expr::Ternary { cond, left, right, .. } => { let c = go(cond, float_texts); let l = go(left, float_texts); let r = go(right, float_texts); Sexp::app("tern", vec![c, l, r]) },
        ast::Expr::BinOp(a, op, b) => { let x = go(a, float_texts); let y = go(b, float_texts); Sexp::app("bin", vec![Sexp::atom(format!("{:?}", op.value)), x, y]) },
        ast::Expr::UnOp(op, x) => { let y = go(x, float_texts); Sexp::app("un", vec![Sexp::atom(format!("{:?}", op.value)), y]) },
        ast::Expr::XcrementOp { op, order, var } => Sexp::app("xcr", vec![
            Sexp::atom(if *order == ast::XcrementOpOrder::Pre { "pre" } else { "post" }),
            Sexp::atom(if op.value == ast::XcrementOpKind::Inc { "inc" } else { "dec" }), var_sexp(var)]),
        ast::Expr::Var(v) => Sexp::app("var", vec![var_sexp(v)]),
        ast::Expr::Call(ast::ExprCall { name, pseudos, args }) => {
            let n = match &name.value {
                ast::CallableName::Normal { ident, .. } => Sexp::app("n", vec![Sexp::str(ident.as_raw().as_str())]),
                ast::CallableName::Ins { opcode, .. } => Sexp::app("ins", vec![Sexp::int(*opcode as i64)]),
            };
            let ps: Vec<Sexp> = pseudos.iter().map(|p| Sexp::list(vec![Sexp::atom(pseudo_name(p.kind.value)), go(&p.value.value, float_texts)])).collect();
            let mut v = vec![n, Sexp::app("ps", ps)];
            for x in args { v.push(go(x, float_texts)); }
            Sexp::app("call", v)
        },
        ast::Expr::DiffSwitch(cases) => Sexp::app("switch", cases.iter().map(|c| match c { Some(x) => go(x, float_texts), None => Sexp::atom("_") }).collect()),
        &ast::Expr::LitInt { value, format } => Sexp::app("int", vec![Sexp::int(value), Sexp::atom(if format.signed { "signed" } else { "unsigned" }), Sexp::atom(radix_name(format.radix))]),
        &ast::Expr::LitFloat { value } => match float_texts.pop_front() {
            Some(t) => Sexp::app("fltt", vec![Sexp::str(t)]),
            None => flt_sexp(value),
        },
        ast::Expr::LitString(s) => Sexp::app("str", vec![Sexp::str(s.string.clone())]),
        ast::Expr::LabelProperty { label, keyword } => Sexp::app("labelprop", vec![
            Sexp::atom(if keyword.value == ast::LabelPropertyKeyword::TimeOf { "timeof" } else { "offsetof" }), Sexp::str(label.value.as_str())]),
        ast::Expr::EnumConst { enum_name, ident } => Sexp::app("enumc", vec![Sexp::str(enum_name.value.as_str()), Sexp::str(ident.value.as_raw().as_str())]),
    }
}

fn float_token_texts(text: &str) -> std::collections::VecDeque<String> {
    use truth::parse::lexer::{Lexer, Token};
    let src = truth::pos::SourceStr::from_full_source(None, text);
    let mut out = std::collections::VecDeque::new();
    for r in Lexer::new(src) {
        if let Ok((l, Token::LitFloat(_), r)) = r { out.push_back(text[u32::from(l.1) as usize..u32::from(r.1) as usize].to_string()); }
    }
    out
}

pub fn print_unlimited(e: &ast::Expr) -> String { stringify_with(e, Config::new().max_columns(UNLIMITED)) }

/// `Ok(tree)` / `Err(true)` = parser panic / `Err(false)` = rejected
fn parse_tree(text: &str) -> Result<Sexp, bool> {
    match parse_fresh::<ast::Expr>(text) {
        Ok(e) => { let mut ft = float_token_texts(text); Ok(expr_sexp(&e, &mut ft)) },
        Err(d) => Err(d.starts_with(PARSER_PANIC)),
    }
}

fn drop_trailing_commas(toks: &Sexp) -> Sexp {
    let items = toks.as_list();
    let is = |s: &Sexp, t: &str| s.head() == Some("punct") && s.args().first().map(|x| x.as_atom() == t).unwrap_or(false);
    let mut out = vec![];
    for (i, t) in items.iter().enumerate() {
        if is(t, ",") && items.get(i + 1).map(|n| is(n, ")")).unwrap_or(false) { continue; }
        out.push(t.clone());
    }
    Sexp::List(out)
}

pub fn eval(case: &Sexp) -> Option<Sexp> {
    let a = case.args();
    Some(match case.head() {
        Some("eprint") => Sexp::app("ok", vec![Sexp::str(print_unlimited(&build_expr(&a[0])))]),
        Some("eprintw") => Sexp::app("ok", vec![Sexp::str(stringify_with(&build_expr(&a[1]), Config::new().max_columns(a[0].as_usize())))]),
        Some("etoks") => {
            let text = stringify_with(&build_expr(&a[1]), Config::new().max_columns(a[0].as_usize()));
            drop_trailing_commas(&eval_lex(&text))
        },
        Some("eparse") => match parse_tree(a[0].as_atom()) {
            Ok(t) => Sexp::app("ok", vec![t]),
            Err(false) => Sexp::atom("reject"),
            Err(true) => Sexp::atom("parser-panic"),
        },
        _ => return None,
    })
}

// =================================================================================================
// generators

const SAFE: &[&str] = &["a", "b", "c", "x", "x2", "foo", "I0", "F1", "myVar_2", "_tmp", "t", "count", "sprite10", "i", "rand", "mapfile", "anim", "default", "case", "ecli", "entry", "script"];
const RISKY: &[&str] = &["Enemy", "E", "N0", "Hard", "Lunatic", "W", "X", "Y_pos", "Z", "Omega", "O", "NAN", "INF", "true", "false", "Easy", "H4", "_S2", "insx", "REGX", "sinx", "intx"];
/// identifiers an AST can hold but the grammar reads as something else (the model must agree
/// with the implementation there too)
const KEYWORDISH: &[&str] = &["sin", "int", "float", "REG", "ins_5", "ins_", "_S", "_f", "offsetof", "if", "var", "ins_007", "ins_70000"];
const LABELS: &[&str] = &["lbl", "end", "loop_start", "L0", "Exit", "label_12", "case"];
const STRINGS: &[&str] = &["", "a", "hello world", "a\"b", "back\\slash", "line\nfeed\rcr", "nul\0byte", "\\", "\u{65e5}\u{672c}\u{8a9e}", "tab\there", "\u{1f600} emoji", "quote ' x", "0123456789012345678901234567890123456789", "%d %s", "  spaces  ", "(", ")", ",", "-"];
const FLOAT_BITS: &[u32] = &[0x3f80_0000, 0x3fc0_0000, 0x3f00_0000, 0x4020_0000, 0x4090_0000, 0x40e0_0000, 0x42c8_0000, 0x3dcc_cccd, 0x0000_0000, 0x8000_0000, 0xbf80_0000, 0xc0a0_0000, 0x7f80_0000, 0xff80_0000, 0x7fc0_0000, 0xffc0_0001, 0x0000_0001, 0x7f7f_ffff, 0xff7f_ffff, 0x4b80_0001, 0x40c0_0000, 0x40a0_0000, 0x4080_0000];

pub struct ExprGen<'a> { pub rng: &'a mut Rng, pub glue: bool }

impl<'a> ExprGen<'a> {
    fn name(&mut self) -> String {
        match self.rng.below(12) {
            0 | 1 => self.rng.pick(RISKY).to_string(),
            2 if self.glue && self.rng.chance(1, 4) => self.rng.pick(KEYWORDISH).to_string(),
            _ => self.rng.pick(SAFE).to_string(),
        }
    }
    fn var(&mut self) -> Sexp {
        let sigil = *self.rng.pick(&["none", "none", "none", "int", "float"]);
        if self.rng.chance(1, 5) {
            let n = *self.rng.pick(&[10000i64, -10001, 0, -1, 10013, 2147483647, -2147483648, 5, 44, -7]);
            Sexp::app("v", vec![Sexp::atom(sigil), Sexp::atom("r"), Sexp::int(n)])
        } else {
            Sexp::app("v", vec![Sexp::atom(sigil), Sexp::atom("n"), Sexp::str(self.name())])
        }
    }
    fn int(&mut self) -> Sexp {
        let v: i32 = match self.rng.below(6) {
            0 => *self.rng.pick(&[0, 1, 2, 3, 4, 5, 6, 7, 8, 9, 10, 45, 70, 100, 255]),
            1 => *self.rng.pick(INT_BOUNDARY),
            2 => self.rng.next_u32() as i32,
            3 if self.glue => -(self.rng.below(1000) as i32) - 1,
            _ => self.rng.below(1000) as i32,
        };
        let v = if self.glue { v } else { v.checked_abs().unwrap_or(i32::MAX) };
        let (signed, radix) = match self.rng.below(10) {
            0 => ("signed", "hex"), 1 => ("unsigned", "hex"), 2 => ("signed", "bin"), 3 => ("unsigned", "bin"),
            4 => ("signed", "bool"), 5 => ("unsigned", "bool"), 6 => ("unsigned", "dec"), _ => ("signed", "dec"),
        };
        Sexp::app("int", vec![Sexp::int(v), Sexp::atom(signed), Sexp::atom(radix)])
    }
    fn flt(&mut self) -> Sexp {
        let mut bits = match self.rng.below(4) { 0 => self.rng.next_u32(), 1 => *self.rng.pick(crate::rng::FLOAT_BOUNDARY_BITS), _ => *self.rng.pick(FLOAT_BITS) };
        if !self.glue && !f32::from_bits(bits).is_nan() { bits &= 0x7fff_ffff; }
        flt_sexp(f32::from_bits(bits))
    }
    fn call(&mut self, d: u32) -> Sexp {
        let name = if self.rng.chance(1, 2) { Sexp::app("ins", vec![Sexp::int(*self.rng.pick(&[0i64, 1, 23, 100, 65535, 7, 10]))]) } else { Sexp::app("n", vec![Sexp::str(self.name())]) };
        let mut ps = vec![];
        if self.rng.chance(1, 4) {
            for _ in 0..1 + self.rng.below(2) {
                let v = if self.rng.chance(1, 3) { Sexp::app("str", vec![Sexp::str(*self.rng.pick(&["", "00ff", "0000803f 00000000"]))]) } else { self.expr(d.saturating_sub(1).min(1)) };
                ps.push(Sexp::list(vec![Sexp::atom(*self.rng.pick(&["mask", "blob", "pop", "arg0", "nargs"])), v]));
            }
        }
        let mut v = vec![name, Sexp::app("ps", ps)];
        for _ in 0..self.rng.below(4) { v.push(self.expr(d.saturating_sub(1))); }
        Sexp::app("call", v)
    }
    pub fn atom(&mut self, d: u32) -> Sexp {
        match self.rng.below(16) {
            0 | 1 | 2 => self.int(),
            3 | 4 => self.flt(),
            5 => Sexp::app("str", vec![Sexp::str(*self.rng.pick(STRINGS))]),
            6 | 7 | 8 => Sexp::app("var", vec![self.var()]),
            9 | 10 => self.call(d),
            11 => Sexp::app("enumc", vec![Sexp::str(self.name()), Sexp::str(self.name())]),
            12 => Sexp::app("labelprop", vec![Sexp::atom(*self.rng.pick(&["offsetof", "timeof"])), Sexp::str(*self.rng.pick(LABELS))]),
            13 => {
                let pre = self.rng.chance(1, 2);
                let inc = if self.glue { self.rng.chance(1, 2) } else { !pre || self.rng.chance(1, 2) };
                Sexp::app("xcr", vec![Sexp::atom(if pre { "pre" } else { "post" }), Sexp::atom(if inc { "inc" } else { "dec" }), self.var()])
            },
            _ => { let f = *self.rng.pick(&["Sin", "Cos", "Tan", "Asin", "Acos", "Atan", "Sqrt", "EncodeI", "EncodeF", "CastI", "CastF"]); Sexp::app("un", vec![Sexp::atom(f), self.expr(d.saturating_sub(1))]) },
        }
    }
    /// operand of a prefix operator that avoids the glue sites unless `self.glue`
    fn prefix_operand(&mut self, op: &str, d: u32) -> Sexp {
        for _ in 0..20 {
            let x = if self.rng.chance(1, 2) { self.atom(d) } else { self.expr(d) };
            if self.glue { return x; }
            let text = print_unlimited(&build_expr(&x));
            let first = text.chars().next().unwrap_or(' ');
            let bad = match op { "Neg" | "BitNot" => first == '-', _ => "-*ENHLWXYZO4567".contains(first) };
            if !bad { return x; }
        }
        Sexp::app("var", vec![Sexp::app("v", vec![Sexp::atom("none"), Sexp::atom("n"), Sexp::str("a")])])
    }
    pub fn expr(&mut self, d: u32) -> Sexp {
        if d == 0 || self.rng.chance(1, 4) { return self.atom(d); }
        match self.rng.below(12) {
            0..=4 => {
                let op = *self.rng.pick(&["Add", "Sub", "Mul", "Div", "Rem", "Eq", "Ne", "Lt", "Le", "Gt", "Ge", "BitOr", "BitXor", "BitAnd", "LogicOr", "LogicAnd", "ShiftLeft", "ShiftRightSigned", "ShiftRightUnsigned"]);
                Sexp::app("bin", vec![Sexp::atom(op), self.expr(d - 1), self.expr(d - 1)])
            },
            5 | 6 => { let op = *self.rng.pick(&["Neg", "Not", "BitNot"]); let x = self.prefix_operand(op, d - 1); Sexp::app("un", vec![Sexp::atom(op), x]) },
            7 | 8 => Sexp::app("tern", vec![self.expr(d - 1), self.expr(d - 1), self.expr(d - 1)]),
            9 | 10 => {
                let n = 2 + self.rng.below(4);
                let mut v = vec![if self.glue && self.rng.chance(1, 10) { Sexp::atom("_") } else { self.expr(d - 1) }];
                for _ in 1..n { v.push(if self.rng.chance(1, 3) { Sexp::atom("_") } else { self.expr(d - 1) }); }
                Sexp::app("switch", v)
            },
            _ => self.call(d),
        }
    }
}

fn var_named(n: &str) -> Sexp { Sexp::app("var", vec![Sexp::app("v", vec![Sexp::atom("none"), Sexp::atom("n"), Sexp::str(n)])]) }

const BINOP_TEXT: &[(&str, &str)] = &[("Add", "+"), ("Sub", "-"), ("Mul", "*"), ("Div", "/"), ("Rem", "%"), ("Eq", "=="), ("Ne", "!="), ("Lt", "<"), ("Le", "<="), ("Gt", ">"), ("Ge", ">="),
    ("BitOr", "|"), ("BitXor", "^"), ("BitAnd", "&"), ("LogicOr", "||"), ("LogicAnd", "&&"), ("ShiftLeft", "<<"), ("ShiftRightSigned", ">>"), ("ShiftRightUnsigned", ">>>")];

const TERNARY_SWITCH_TEXTS: &[&str] = &[
    "a ? b : c", "a ? b : c ? d : e", "a ? b ? c : d : e", "a ? b : c : d", "a : b ? c : d", "(a ? b : c) : d", "a ? (b : c) : d", "a ? b : (c : d)",
    "a : b : c", "a :: c", "a : : c", "a:", "a : ", ": a", "a ? : b", "a ? b :", "(a : b) ? c : d", "a ? b : c : d : e", "f(a ? b : c, d : e)", "f(a : b ? c : d)",
    "a || b ? c && d : e | f", "a ? b : c || d ? e : f", "a : b || c : d && e", "-a ? !b : ~c", "a ? -1 : -2", "a : -1 : -2", "(a : b) : c", "((a : b) : c) : d",
    "a ? (b ? c : d) : e", "sin(a ? b : c)", "sin(a : b)", "$(a:b)", "%(a?b:c)", "int(a : : b)", "a ? b : c ? d : e ? f : g", "x = 1", "a ? b", "a ? b : c ? d",
    "a:::", "a : (b ? c : d) : e", "(a:b)+(c:d)", "a + b : c * d : e - f", "a ? b + c : d * e", "f(a:, :b)", "f(a::b,)", "f(,)", "f(a,,b)", "f()", "f(a,)", "a ? b , c : d",
    "@mask=1", "f(@mask=1)", "f(@mask=1, 2)", "f(2, @mask=1)", "f(@mask=1, @blob=\"00\", x)", "f(@bogus=1)", "f(@mask 1)", "f(@ mask = 1 : 2)", "ins_5(@pop=a?b:c)", "ins_5", "ins_5 + 1", "ins_05()", "ins_65535()", "ins_65536()", "ins_()", "ins_x()",
];

const UNARY_ATOMS: &[&str] = &["3", "4", "0x10", "0b101", "1.5", "5.5", "7.0f", "x", "Enemy", "$x", "%y", "REG[1]", "$REG[-1]", "%REG[0x10]", "++x", "--x", "x++", "x--", "f(1)", "Zap(1)", "ins_5()", "E.v", "a.b",
    "offsetof(l)", "timeof(Lbl)", "\"s\"", "(a + b)", "(-3)", "sin(x)", "int(x)", "float(y)", "$(x)", "%(x)", "_S(x)", "_f(x)", "INF", "NAN", "true", "mapfile", "case", "(a ? b : c)", "(a : b)", "4294967295", "4294967296", "REG[4294967295]", "REG[-4294967296]", "REG[x]", "REG [ 3 ]", "x[1]", "$x[1]", "x.y.z", "x.5", "x . y", "sin x", "sin()", "offsetof(3)", "offsetof()", "++3", "++f()", "x++++", "++x++", "$", "%", "$ x", "% x", "$$x", "%%x", "$(x", "f(", "\"\\q\""];

const SOUP: &[&str] = &["a", "b", "x", "E", "f", "ins_3", "REG", "[", "]", "(", ")", "(", ")", ",", "?", ":", "+", "-", "*", "/", "%", "==", "!=", "<", "<=", ">", ">=", "|", "^", "&", "||", "&&", "<<", ">>", ">>>", "!", "~", "$", "++", "--", ".", "@", "=", "mask", "blob",
    "1", "0x1F", "4294967295", "4294967296", "1.5", "\"s\"", "sin", "int", "float", "_S", "offsetof", "timeof", "if", "var", ";", "{", "}", "a", "b", "1", "2"];

/// everything that is compared for one AST: the unlimited-width text, the token stream at two
/// narrow widths, the parse of the real text, and the print of what was parsed
fn push_ast(out: &mut Vec<Case>, e: Sexp, tag: &str, widths: &[usize]) {
    let ast1 = build_expr(&e);
    out.push(Case::corr(Sexp::app("eprint", vec![e.clone()])).tag(format!("eprint-{tag}")));
    for &w in widths {
        out.push(Case::corr(Sexp::app("eprintw", vec![Sexp::int(w as i64), e.clone()])).tag(format!("eprintw-{tag}")));
        out.push(Case::corr(Sexp::app("etoks", vec![Sexp::int(w as i64), e.clone()])).tag(format!("etoks-{tag}")));
    }
    if widths.is_empty() { out.push(Case::corr(Sexp::app("etoks", vec![Sexp::int(UNLIMITED as i64), e.clone()])).tag(format!("etoks-{tag}"))); }
    let text = print_unlimited(&ast1);
    if !lex_text_ok(&text) { return; }
    out.push(Case::corr(Sexp::app("eparse", vec![Sexp::str(text.clone())])).tag(format!("eparse-printed-{tag}")));
    if let Some(&w) = widths.first() {
        let narrow = stringify_with(&ast1, Config::new().max_columns(w));
        if narrow != text && lex_text_ok(&narrow) { out.push(Case::corr(Sexp::app("eparse", vec![Sexp::str(narrow)])).tag(format!("eparse-printed-narrow-{tag}"))); }
    }
    if let Ok(t) = parse_tree(&text) {
        out.push(Case::corr(Sexp::app("eprint", vec![t])).tag(format!("eprint-reparsed-{tag}")));
    }
}

pub fn gen(tier: Tier, rng: &mut Rng, out: &mut Vec<Case>) {
    let quick = tier == Tier::Quick;
    let scale = if quick { 1 } else { 20 };

    // ---- every ordered pair of binary operators: both groupings as trees, and the bare text
    for (n1, t1) in BINOP_TEXT { for (n2, t2) in BINOP_TEXT {
        out.push(Case::corr(Sexp::app("eparse", vec![Sexp::str(format!("a {t1} b {t2} c"))])).tag("eparse-prec-pair"));
        let left = Sexp::app("bin", vec![Sexp::atom(*n2), Sexp::app("bin", vec![Sexp::atom(*n1), var_named("a"), var_named("b")]), var_named("c")]);
        let right = Sexp::app("bin", vec![Sexp::atom(*n1), var_named("a"), Sexp::app("bin", vec![Sexp::atom(*n2), var_named("b"), var_named("c")])]);
        push_ast(out, left, "prec-pair", &[]);
        push_ast(out, right, "prec-pair", &[]);
    } }
    // ---- associativity chains
    for (_, t) in BINOP_TEXT {
        out.push(Case::corr(Sexp::app("eparse", vec![Sexp::str(format!("a {t} b {t} c {t} d"))])).tag("eparse-assoc"));
        out.push(Case::corr(Sexp::app("eparse", vec![Sexp::str(format!("a{t}b{t}c"))])).tag("eparse-assoc"));
    }
    for t in ["a - b + c - d", "a * b / c % d", "a << b >> c >>> d", "a < b <= c > d >= e", "a == b != c", "a - -b - - c", "a+++b", "a---b", "a+ ++b", "a - --b", "a ++ + b", "a % %b", "a % $b", "a %(b)", "a $ b", "a | b || c | d", "a & b && c & d", "a ^ b ^ c", "a < b << c", "a >> b > c", "a >>> b >> c", "a >= b == c <= d", "-a * -b", "!a && !b || ~c", "a - b - c - d - e - f - g - h"] {
        out.push(Case::corr(Sexp::app("eparse", vec![Sexp::str(t)])).tag("eparse-assoc"));
    }
    // ---- every keyword token of the lexer in the places an identifier can stand
    for kw in ["anim", "ecli", "meta", "sub", "script", "entry", "var", "int", "float", "string", "void", "const", "inline", "insdef", "return", "goto", "loop", "if", "else", "unless", "do", "while",
               "times", "break", "switch", "case", "default", "interrupt", "async", "global", "pragma", "mapfile", "image_source", "offsetof", "timeof", "sin", "cos", "tan", "asin", "acos", "atan", "sqrt",
               "_S", "_f", "REG", "continue", "true", "INF", "ins_", "ins_1", "rad", "pop", "nargs"] {
        for t in [format!("{kw}"), format!("{kw}(1)"), format!("{kw}(x)"), format!("a.{kw}"), format!("{kw}.a"), format!("-{kw}"), format!("{kw} ? 1 : 2"), format!("${kw}"), format!("{kw}++"), format!("offsetof({kw})"), format!("f(@{kw}=1)"), format!("{kw}[1]")] {
            if lex_text_ok(&t) { out.push(Case::corr(Sexp::app("eparse", vec![Sexp::str(t)])).tag("eparse-keyword")); }
        }
    }
    // ---- ternary vs difficulty switch
    for t in TERNARY_SWITCH_TEXTS { out.push(Case::corr(Sexp::app("eparse", vec![Sexp::str(*t)])).tag("eparse-ternary-switch")); }
    {
        let tern = |a: &str, b: &str, c: &str| Sexp::app("tern", vec![var_named(a), var_named(b), var_named(c)]);
        let sw = |xs: Vec<Sexp>| Sexp::app("switch", xs);
        let cases = vec![
            Sexp::app("tern", vec![sw(vec![var_named("a"), var_named("b")]), sw(vec![var_named("c"), Sexp::atom("_")]), sw(vec![var_named("d"), Sexp::atom("_"), var_named("e")])]),
            sw(vec![tern("a", "b", "c"), tern("d", "e", "f")]),
            sw(vec![tern("a", "b", "c"), Sexp::atom("_"), Sexp::atom("_")]),
            Sexp::app("tern", vec![tern("a", "b", "c"), tern("d", "e", "f"), tern("g", "h", "i")]),
            sw(vec![sw(vec![var_named("a"), var_named("b")]), sw(vec![var_named("c"), var_named("d")])]),
            Sexp::app("un", vec![Sexp::atom("Sin"), tern("a", "b", "c")]),
            Sexp::app("un", vec![Sexp::atom("EncodeI"), sw(vec![var_named("a"), Sexp::atom("_")])]),
            Sexp::app("un", vec![Sexp::atom("Neg"), sw(vec![var_named("a"), var_named("b")])]),
            Sexp::app("bin", vec![Sexp::atom("Add"), tern("a", "b", "c"), sw(vec![var_named("d"), var_named("e")])]),
            Sexp::app("call", vec![Sexp::app("n", vec![Sexp::str("f")]), Sexp::app("ps", vec![Sexp::list(vec![Sexp::atom("mask"), tern("a", "b", "c")])]), sw(vec![var_named("d"), var_named("e")]), tern("g", "h", "i")]),
            // shapes the parser cannot produce but the formatter accepts
            sw(vec![Sexp::atom("_"), var_named("a")]),
            sw(vec![var_named("a")]),
            sw(vec![Sexp::atom("_"), Sexp::atom("_")]),
        ];
        for c in cases { push_ast(out, c, "ternary-switch", &[12, 30]); }
    }
    // ---- prefix operators in front of every kind of atom
    for op in ["-", "~", "!"] { for atom in UNARY_ATOMS { for sep in ["", " "] {
        let t = format!("{op}{sep}{atom}");
        if lex_text_ok(&t) { out.push(Case::corr(Sexp::app("eparse", vec![Sexp::str(t)])).tag("eparse-unary-atom")); }
    } } }
    for atom in UNARY_ATOMS { if lex_text_ok(atom) { out.push(Case::corr(Sexp::app("eparse", vec![Sexp::str(*atom)])).tag("eparse-atom")); } }
    for t in ["- -x", "-~x", "!-x", "~!x", "- - 3", "-(-x)", "~(-3)", "!(!x)", "-(~x)", "- (x)", "-(x)++", "-x++", "-++x", "~--x", "!++x", "- --x", "---x", "-- -x", "!!x", "~~x", "-sin(x)", "-$(x)", "-%(x)", "-%x", "-$x", "!$x", "~%REG[1]"] {
        out.push(Case::corr(Sexp::app("eparse", vec![Sexp::str(t)])).tag("eparse-unary-double"));
    }
    {
        let mut g = ExprGen { rng, glue: true };
        for op in ["Neg", "Not", "BitNot"] {
            for _ in 0..40 * scale {
                let x = g.atom(1);
                push_ast(out, Sexp::app("un", vec![Sexp::atom(op), x]), "unary-atom", &[]);
            }
            // the known glue shapes, explicitly
            for x in [Sexp::app("int", vec![Sexp::int(-3), Sexp::atom("signed"), Sexp::atom("dec")]), Sexp::app("int", vec![Sexp::int(i32::MIN), Sexp::atom("signed"), Sexp::atom("hex")]),
                      Sexp::app("int", vec![Sexp::int(45), Sexp::atom("signed"), Sexp::atom("dec")]), Sexp::app("int", vec![Sexp::int(-1), Sexp::atom("unsigned"), Sexp::atom("dec")]),
                      flt_sexp(-1.5), flt_sexp(f32::NEG_INFINITY), flt_sexp(f32::NAN), flt_sexp(4.5), flt_sexp(-0.0),
                      Sexp::app("xcr", vec![Sexp::atom("pre"), Sexp::atom("dec"), Sexp::app("v", vec![Sexp::atom("none"), Sexp::atom("n"), Sexp::str("x")])]),
                      var_named("Enemy"), var_named("X"), Sexp::app("enumc", vec![Sexp::str("Hard"), Sexp::str("value")]),
                      Sexp::app("call", vec![Sexp::app("n", vec![Sexp::str("Zap")]), Sexp::app("ps", vec![]), var_named("a")])] {
                push_ast(out, Sexp::app("un", vec![Sexp::atom(op), x]), "unary-glue", &[]);
            }
        }
    }
    // ---- random trees: without glue sites (the fragment of the theorems) and with them
    for i in 0..600 * scale {
        let glue = i % 4 == 3;
        let depth = 1 + (i % 4) as u32;
        let e = ExprGen { rng, glue }.expr(depth);
        let w1 = 1 + rng.below(40);
        let w2 = 40 + rng.below(80);
        push_ast(out, e, if glue { "random-with-glue" } else { "random" }, &[w1, w2]);
    }
    // ---- grammar-directed source text (all literal spellings, spacing variants, pseudo-args, trailing commas)
    for _ in 0..1500 * scale {
        let t = SrcGen::new(rng).any_expr(3);
        if lex_text_ok(&t) { out.push(Case::corr(Sexp::app("eparse", vec![Sexp::str(t)])).tag("eparse-source")); }
    }
    // ---- token soups
    for _ in 0..1500 * scale {
        let n = 1 + rng.below(9);
        let glued = rng.chance(1, 8);
        let t = (0..n).map(|_| *rng.pick(SOUP)).collect::<Vec<_>>().join(if glued { "" } else { " " });
        if lex_text_ok(&t) { out.push(Case::corr(Sexp::app("eparse", vec![Sexp::str(t)])).tag("eparse-soup")); }
    }
    // ---- mutated printed text: drop / duplicate / swap one token
    for _ in 0..300 * scale {
        let e = ExprGen { rng, glue: false }.expr(2);
        let text = print_unlimited(&build_expr(&e));
        let mut words: Vec<&str> = text.split(' ').collect();
        if words.len() < 2 { continue; }
        let k = rng.below(words.len());
        match rng.below(3) { 0 => { words.remove(k); }, 1 => { let w = words[k]; words.insert(k, w); }, _ => { let j = rng.below(words.len()); words.swap(k, j); } }
        let t = words.join(" ");
        if lex_text_ok(&t) { out.push(Case::corr(Sexp::app("eparse", vec![Sexp::str(t)])).tag("eparse-mutated-print")); }
    }
}
