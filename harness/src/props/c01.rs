//! C01 — decompile then recompile reproduces the binary bit-for-bit.

use super::{Case, Prop, Tier, fail};
use crate::rng::Rng;
use crate::sexp::{Sexp, hex, unhex};
use crate::tc::{self, Format};
use crate::gensrc;
use crate::util::diag_class;

pub struct C01;

/// decompile `bytes` under (options, width), recompile the text, compare
pub fn roundtrip_bytes(format: Format, game: truth::Game, maps: &[String], bytes: &[u8], optbits: u32, width: usize) -> Sexp {
    let options = tc::options_from_bits(optbits);
    let d = tc::decompile(format, game, maps, bytes, &options, width);
    let text = match d.value.clone() {
        Some(t) => t,
        None => {
            if !d.has_error_diag() { return fail("decompile-fails-without-error-diagnostic", format!("{} {}", format.name(), game)); }
            // a source may spell an instruction as raw bytes that do not fit the opcode's signature (`ins_40(@blob="")`):
            // the compiler writes what it was given and the decompiler rightly refuses it with an error
            if d.diagnostics.contains("not enough bytes in instruction") { return Sexp::app("skip", vec![Sexp::atom("blob-does-not-fit-signature")]); }
            return fail(format!("decompile-of-valid-binary-fails {} {}", format.name(), diag_class(&d.diagnostics)), format!("{} opts={optbits} width={width}", game));
        },
    };
    if d.has_warning_diag() {
        // the only permitted exception: decompile itself warned that information will be lost
        return Sexp::app("skip", vec![Sexp::atom("decompile-warned"), Sexp::str(d.diagnostics.lines().find(|l| l.starts_with("warning")).unwrap_or("").chars().take(80).collect::<String>())]);
    }
    let c = tc::compile_with_image_source(format, game, maps, text.as_bytes(), Some(bytes));
    match c.value {
        // (a constant division by zero sugared from a raw arithmetic instruction is a finding of its own, whatever the format)
        None if c.diagnostics.contains("division by zero") && diag_class(&c.diagnostics) == "const evaluation error" =>
            fail("recompile-of-decompiled-output-fails constant-division-by-zero".to_string(),
                 format!("{} {} opts={optbits} width={width}: {} || text: {}", format.name(), game, c.diagnostics.lines().take(6).collect::<Vec<_>>().join(" / "), text.chars().take(600).collect::<String>())),
        None => fail(format!("recompile-of-decompiled-output-fails {} {}", format.name(), diag_class(&c.diagnostics)),
                     format!("{} opts={optbits} width={width}: {} || text: {}", game, c.diagnostics.lines().take(6).collect::<Vec<_>>().join(" / "), text.chars().take(600).collect::<String>())),
        Some(b2) => {
            if b2 == bytes { Sexp::app("pass", vec![Sexp::int(bytes.len() as i64)]) }
            else {
                let off = b2.iter().zip(bytes.iter()).position(|(a, b)| a != b).unwrap_or(b2.len().min(bytes.len()));
                // known cause: a conditional jump between two literals (`unless (1) { }` compiles to a jump comparing
                // 1 and 0) decompiles to `if (1 == 0)`, which const folding turns into another jump opcode
                let sig = if has_constant_condition(&text) { format!("roundtrip-bytes-differ constant-condition-jump") }
                          else if has_foldable_sugar(&text) { format!("roundtrip-bytes-differ constant-operands-folded") }
                          else { format!("roundtrip-bytes-differ {}", format.name()) };
                fail(sig, format!("{} opts={optbits} width={width}: first difference at offset {off} (len {} vs {}); text: {}", game, bytes.len(), b2.len(), text.chars().take(600).collect::<String>()))
            }
        },
    }
}

fn is_num_literal(t: &str) -> bool {
    let t = t.trim_start_matches('-');
    !t.is_empty() && (t.parse::<f64>().is_ok() || t.starts_with("0x") || t.starts_with("0b") || t == "INF" || t == "NAN" || t == "true" || t == "false")
}

/// does the text contain an assignment whose right-hand side the compiler folds to a constant:
/// `x = LIT op LIT;`, `x op= ...` is not one; `x = f(LIT);` for the built-in unary functions, `x = -LIT` is a literal anyway
fn has_foldable_sugar(text: &str) -> bool {
    for line in text.lines() {
        let Some(p) = line.find(" = ") else { continue };
        let rhs = line[p + 3..].trim().trim_end_matches(';');
        let toks: Vec<&str> = rhs.split_whitespace().collect();
        if toks.len() == 3 && is_num_literal(toks[0]) && is_num_literal(toks[2]) && matches!(toks[1], "+" | "-" | "*" | "/" | "%" | "|" | "&" | "^" | "<<" | ">>" | ">>>" | "==" | "!=" | "<" | "<=" | ">" | ">=" | "||" | "&&") { return true; }
        for f in ["sin", "cos", "tan", "asin", "acos", "atan", "sqrt", "int", "float", "$", "%", "!", "~", "-"] {
            if let Some(inner) = rhs.strip_prefix(f).and_then(|r| r.strip_prefix('(')).and_then(|r| r.strip_suffix(')')) { if is_num_literal(inner.trim()) { return true; } }
        }
        // ternary / nested forms with literal-only subexpressions: `(LIT op LIT)` anywhere
        let mut rest = rhs;
        while let Some(q) = rest.find('(') {
            let inner = rest[q + 1..].split(')').next().unwrap_or("");
            let t: Vec<&str> = inner.split_whitespace().collect();
            if t.len() == 3 && is_num_literal(t[0]) && is_num_literal(t[2]) { return true; }
            rest = &rest[q + 1..];
        }
    }
    false
}

/// does the text contain `if|unless|while (LIT op LIT)` with two numeric literals?
fn has_constant_condition(text: &str) -> bool {
    for kw in ["if (", "unless (", "while ("] {
        let mut rest = text;
        while let Some(p) = rest.find(kw) {
            let after = &rest[p + kw.len()..];
            let cond = after.split(')').next().unwrap_or("");
            let toks: Vec<&str> = cond.split_whitespace().collect();
            let is_lit = |t: &str| t.trim_start_matches('-').parse::<f64>().is_ok() || t.trim_start_matches('-').starts_with("0x");
            if toks.len() == 3 && is_lit(toks[0]) && is_lit(toks[2]) && matches!(toks[1], "==" | "!=" | "<" | "<=" | ">" | ">=") { return true; }
            rest = after;
        }
    }
    false
}

/// user mapfile adding aliases and enums (names must be transparent to the round trip)
pub fn alias_mapfile(rng: &mut Rng, format: Format, game: truth::Game) -> Option<String> {
    let (magic, lang) = match format {
        Format::Anm => ("!anmmap", truth::LanguageKey::Anm), Format::Std => ("!stdmap", truth::LanguageKey::Std),
        Format::Msg => ("!msgmap", truth::LanguageKey::Msg), Format::Ecl => ("!eclmap", truth::LanguageKey::Ecl), _ => return None,
    };
    let sigs = gensrc::signatures(game, lang);
    if sigs.is_empty() { return None; }
    let mut m = format!("{magic}\n!ins_names\n");
    let mut used = std::collections::BTreeSet::new();
    for k in 0..1 + rng.below(5) {
        let op = rng.pick(&sigs).0;
        if used.insert(op) { m.push_str(&format!("{op} {}{k}\n", rng.pick(&["foo", "setThing", "x_", "Alpha"]))); }
    }
    if matches!(format, Format::Anm | Format::Ecl) {
        m.push_str("!gvar_names\n");
        let regs: &[i32] = if format == Format::Anm { &[10000, 10001, 10004, 10008] } else { &[-10001, -10002, -10005, -10013] };
        for (k, r) in regs.iter().enumerate() { if rng.chance(1, 2) { m.push_str(&format!("{r} myReg{k}\n")); } }
    }
    Some(m)
}

impl Prop for C01 {
    fn id(&self) -> &'static str { "C01" }
    fn relation(&self) -> &'static str {
        "raise: (statement list [offset labels by name, time labels, difficulty label, opcode, @mask/@arg0/@blob, arguments incl. registers, offsetof/timeof], warning classes) of the real llir::Raiser with blocks, intrinsics, calls and diff switches off — under the TestLanguage and under the real hooks of ANM/ECL/STD/MSG/timeline games, with generated signature tables and signatures of the game's own table — == Lean `RoundTrip.raiseFlat`; lower: raw instructions (time, opcode, difficulty, param mask, arg0, argument bytes) the real parser + passes + llir::Lowerer produce for a flat statement list == Lean `RoundTrip.lowerFlat`; rtm: raw -> real decompile -> real formatter -> real compile, compared with `lowerFlat (raiseFlat ..)` and judged by the property (no warning => identical instructions); errors by diagnostic class. The end-to-end statement over whole files, option subsets and widths is searched (rt / rtbin cases)."
    }
    fn rule(&self) -> &'static str {
        "flat (model-compared): languages = TestLanguage (ANM key, timeline key with arg0 signatures) and the real hooks of ANM TH07/TH12, old ECL TH07/TH08/TH095 (relative offsets, difficulty), STD TH06/TH08 (instruction index) / TH12, MSG TH08/TH12, timelines TH07/TH08, each with 2-6 generated signatures (jumps `ot` / `o` / `Sto` / `fos` / `t_o`, strings of every size kind / mask / furibug, padding, narrow integers, imm, arg0) plus signatures of the game's own table, generated difficulty flag tables; raise/rtm: scripts of 0-8 instructions with time sequences (monotone, from -1, decreasing, arbitrary, wild i32, zero crossings), jumps to every boundary incl. start and end, backward/forward, shared labels, time arguments = previous/destination/other, all 256 difficulty masks, registers, unknown opcodes, --no-arguments, and a non-canonical third (non-zero padding, trailing bytes, truncation, flipped mask bits incl. on immediate parameters and beyond the parameters, arg0 field set/cleared, special float register numbers, data after NUL, over-padded and unterminated strings, flipped bytes, bad jump offsets); lower: statement lists of 1-10 statements (labels with the decompiler's name shapes and others, abs/rel time labels incl. wrapping, calls with offsetof/timeof in jump and integer positions, registers, @mask/@arg0/@blob, difficulty labels valid and invalid) with a malformed fifth (duplicate/undefined labels, wrong arity/type, misfits, registers in constant positions, blob with arguments, blob not dword-sized, unknown signature). search: generated sources of every format/game (ANM v0-v8, STD06/10, MSG/END TH06-TH18, old ECL + timelines TH06-TH095) compiled, then decompiled under random subsets of {--no-arguments,--no-intrinsics,--no-calls,--no-blocks,--no-diff-switches} x widths {1,17,40,80,99,200} x optional user mapfile with aliases, recompiled and compared byte for byte unless decompile printed a warning; all bundled binaries under every one of the 32 option subsets; non-trivial = compiles and decompiles without warning; distinct by case text"
    }
    fn theorems(&self) -> &'static [&'static str] {
        &["TruthModel.C03.readInstrs_writeInstrs", "TruthModel.C01.lower_raise_flat", "TruthModel.C01.lower_raise_flat_no_warning", "TruthModel.C01.blob_roundtrip",
          "TruthModel.C01.canonical_of_compiled", "TruthModel.C01.canonical_of_fixed_width", "TruthModel.C01.noncanonical_warns", "TruthModel.C01.raiseFlat_warns",
          "TruthModel.C01.silent_register_bit_on_immediate", "TruthModel.C01.silent_float_register", "TruthModel.C01.silent_overpadded_string",
          "TruthModel.C01.blob_not_dwords_does_not_recompile"]
    }

    fn gen(&self, tier: Tier, rng: &mut Rng) -> Vec<Case> {
        let scale = if tier == Tier::Quick { 1 } else { 8 };
        let widths = [1usize, 17, 40, 80, 99, 200];
        let mut out = vec![];
        for (format, game, bytes, name) in super::c16::bundled_files() {
            for bits in 0..32u32 {
                if tier == Tier::Quick && !(bits == 0 || bits == 31 || bits.count_ones() == 1 || rng.chance(1, 6)) { continue; }
                let width = *rng.pick(&widths);
                out.push(Case::search(Sexp::app("rtbin", vec![Sexp::atom(format.name()), Sexp::atom(format!("{game}")), Sexp::list(vec![]), Sexp::int(bits), Sexp::int(width as i64), Sexp::atom(hex(&bytes))])).tag(format!("bundled-{name}")));
            }
        }
        // stack ECL (TH10+): include lists (ASCII and non-ASCII names) and raw instructions
        for _ in 0..80 * scale {
            let game = *rng.pick(&[truth::Game::Th10, truth::Game::Th12, truth::Game::Th14, truth::Game::Th17]);
            let g = gensrc::gen_ecl10(rng, game);
            out.push(Case::search(Sexp::app("rt", vec![Sexp::atom(g.format.name()), Sexp::atom(format!("{}", g.game)), Sexp::list(vec![]), Sexp::int(rng.below(32) as i64), Sexp::int(99), Sexp::str(g.text.clone())])).tag("generated-stack-ecl"));
        }
        // conditional jumps with every operand shape (register / literal on either side, every comparison, int and float,
        // forward and backward, also over a time label): the operand order in the binary is the order in the source
        for k in 0..120 * scale {
            let game = *rng.pick(&[truth::Game::Th10, truth::Game::Th11, truth::Game::Th12, truth::Game::Th13, truth::Game::Th14, truth::Game::Th16, truth::Game::Th17]);
            let mut body = String::new();
            let n = 1 + rng.below(4);
            if rng.chance(1, 3) { body.push_str("top:\n    ins_1();\n"); }
            for j in 0..n {
                let float = rng.chance(1, 3);
                let reg = |rng: &mut Rng| if float { format!("%REG[{}]", 10004 + rng.below(4)) } else { format!("$REG[{}]", 10000 + rng.below(4)) };
                let lit = |rng: &mut Rng| if float { format!("{}.5", rng.below(9)) } else { format!("{}", 1 + rng.below(9)) };
                // shapes: lit-reg (the one sugar likes to turn around), reg-lit, reg-reg
                let (a, b) = match (k + j) % 4 { 0 | 1 => (lit(rng), reg(rng)), 2 => (reg(rng), lit(rng)), _ => (reg(rng), reg(rng)) };
                let op = *rng.pick(&["==", "!=", "<", "<=", ">", ">="]);
                let target = if body.contains("top:") && rng.chance(1, 4) { "top" } else { "done" };
                body.push_str(&format!("    if ({a} {op} {b}) goto {target};\n    ins_2();\n"));
                if rng.chance(1, 4) { body.push_str(&format!("+{}:\n", 1 + rng.below(20))); }
            }
            body.push_str("done:\n    ins_1();\n");
            let mut next_id = 0u32;
            let text = format!("{}script script0 {{\n{body}}}\n", gensrc::anm_entry_text(rng, game, 0, 1, 0, true, &mut next_id));
            for bits in [0u32, 8, 1 << rng.below(5)] {
                out.push(Case::search(Sexp::app("rt", vec![Sexp::atom("anm"), Sexp::atom(format!("{game}")), Sexp::list(vec![]), Sexp::int(bits as i64), Sexp::int(*rng.pick(&[99i64, 40, 20])), Sexp::str(text.clone())])).tag("cond-jump-operand-shapes"));
            }
        }
        // jumps out of a loop to a label behind the loop: directly behind it (a `break`), behind a time label, behind an
        // instruction; conditional and unconditional; the loop body with and without time labels of its own
        for k in 0..90 * scale {
            let game = *rng.pick(&[truth::Game::Th10, truth::Game::Th12, truth::Game::Th14, truth::Game::Th17]);
            let mut body = String::new();
            if rng.chance(1, 3) { body.push_str("    ins_1();\n"); }
            let head = match rng.below(3) { 0 => "loop".to_string(), 1 => format!("times({})", 2 + rng.below(4)), _ => "while ($REG[10001] > 0)".to_string() };
            body.push_str(&format!("    {head} {{\n        ins_2();\n"));
            body.push_str(&if rng.chance(1, 2) { "        goto end;\n".to_string() } else { format!("        if ($REG[10000] == {}) goto end;\n", rng.below(5)) });
            if rng.chance(1, 2) { body.push_str(&format!("+{}:\n", 1 + rng.below(9))); }
            body.push_str("        ins_1();\n");
            if head.starts_with("while") { body.push_str("        $REG[10001] = $REG[10001] - 1;\n"); }
            body.push_str("    }\n");
            match k % 3 { 0 => {}, 1 => body.push_str(&format!("+{}:\n", 1 + rng.below(20))), _ => body.push_str("    ins_2();\n") }
            body.push_str("end:\n    ins_1();\n");
            let mut next_id = 0u32;
            let text = format!("{}script script0 {{\n{body}}}\n", gensrc::anm_entry_text(rng, game, 0, 1, 0, true, &mut next_id));
            for bits in [0u32, 1 << rng.below(5)] {
                out.push(Case::search(Sexp::app("rt", vec![Sexp::atom("anm"), Sexp::atom(format!("{game}")), Sexp::list(vec![]), Sexp::int(bits as i64), Sexp::int(99), Sexp::str(text.clone())])).tag("loop-exit-label-placement"));
            }
        }
        // intrinsic instructions spelled as raw calls with arbitrary operands (the decompiler's sugar must recompile to them)
        for _ in 0..300 * scale {
            let g = gensrc::gen_raw_intrinsics(rng);
            for bits in [0u32, 1 << rng.below(5)] {
                out.push(Case::search(Sexp::app("rt", vec![Sexp::atom(g.format.name()), Sexp::atom(format!("{}", g.game)), Sexp::list(g.maps.iter().map(|m| Sexp::str(m.clone())).collect()), Sexp::int(bits), Sexp::int(99), Sexp::str(g.text.clone())])).tag(format!("raw-intrinsics-{}", g.format.name())));
            }
        }
        for _ in 0..1200 * scale {
            let g = gensrc::gen_any(rng);
            let mut maps = g.maps.clone();
            if rng.chance(1, 3) { if let Some(m) = alias_mapfile(rng, g.format, g.game) { maps.push(m); } }
            for _ in 0..(if tier == Tier::Quick { 3 } else { 6 }) {
                let bits = if rng.chance(1, 3) { 0 } else { rng.below(32) as u32 };
                let width = *rng.pick(&widths);
                out.push(Case::search(Sexp::app("rt", vec![Sexp::atom(g.format.name()), Sexp::atom(format!("{}", g.game)), Sexp::list(maps.iter().map(|m| Sexp::str(m.clone())).collect()), Sexp::int(bits), Sexp::int(width as i64), Sexp::str(g.text.clone())])).tag(format!("generated-{}", g.format.name())));
            }
        }
        // model-compared cases (after the search cases, so that those stay the same sample)
        out.extend(super::c01_flat::gen(tier, &mut rng.fork(101)));
        out
    }

    fn judge(&self, case: &Sexp, result: &Sexp) -> Option<super::Failure> {
        if super::c01_flat::is_flat_case(case) { super::c01_flat::judge(case, result) } else { super::default_judge(result) }
    }

    fn neighbours(&self, case: &Sexp, _rng: &mut Rng) -> Vec<Case> { super::c01_flat::neighbours(case) }

    fn eval(&self, case: &Sexp) -> Sexp {
        if super::c01_flat::is_flat_case(case) { return super::c01_flat::eval(case); }
        let a = case.args();
        let format = Format::from_name(a[0].as_atom());
        let game = tc::game(a[1].as_atom());
        let maps: Vec<String> = a[2].as_list().iter().map(|m| m.as_atom().to_string()).collect();
        let (bits, width) = (a[3].as_i64() as u32, a[4].as_i64() as usize);
        match case.head() {
            Some("rtbin") => roundtrip_bytes(format, game, &maps, &unhex(a[5].as_atom()), bits, width),
            Some("rt") => {
                let c = tc::compile(format, game, &maps, a[5].as_atom().as_bytes());
                match c.value {
                    None => if c.has_error_diag() { Sexp::app("rejected", vec![Sexp::str(diag_class(&c.diagnostics))]) } else { fail("compile-fails-without-error-diagnostic", format!("{} {}", format.name(), game)) },
                    Some(bytes) => roundtrip_bytes(format, game, &maps, &bytes, bits, width),
                }
            },
            _ => Sexp::atom("bad-case"),
        }
    }
}
