//! C01 — decompile then recompile reproduces the binary bit-for-bit.

use super::{Case, Prop, Tier, fail};
use crate::rng::Rng;
use crate::sexp::{Sexp, hex, unhex};
use crate::tc::{self, Format};
use crate::gensrc;
use crate::util::diag_class;

pub struct C01;

/// decompile `bytes` under (options, width), recompile the text, compare
pub fn roundtrip_bytes(format: Format, game: truth::Game, maps: &[String], bytes: &[u8], optbits: u32, width: usize) -> Sexp {
    let options = tc::options_from_bits(optbits);
    let d = tc::decompile(format, game, maps, bytes, &options, width);
    let text = match d.value.clone() {
        Some(t) => t,
        None => {
            if !d.has_error_diag() { return fail("decompile-fails-without-error-diagnostic", format!("{} {}", format.name(), game)); }
            return fail(format!("decompile-of-valid-binary-fails {} {}", format.name(), diag_class(&d.diagnostics)), format!("{} opts={optbits} width={width}", game));
        },
    };
    if d.has_warning_diag() {
        // the only permitted exception: decompile itself warned that information will be lost
        return Sexp::app("skip", vec![Sexp::atom("decompile-warned"), Sexp::str(d.diagnostics.lines().find(|l| l.starts_with("warning")).unwrap_or("").chars().take(80).collect::<String>())]);
    }
    let c = tc::compile_with_image_source(format, game, maps, text.as_bytes(), Some(bytes));
    match c.value {
        None => fail(format!("recompile-of-decompiled-output-fails {} {}", format.name(), diag_class(&c.diagnostics)),
                     format!("{} opts={optbits} width={width}: {} || text: {}", game, c.diagnostics.lines().take(6).collect::<Vec<_>>().join(" / "), text.chars().take(600).collect::<String>())),
        Some(b2) => {
            if b2 == bytes { Sexp::app("pass", vec![Sexp::int(bytes.len() as i64)]) }
            else {
                let off = b2.iter().zip(bytes.iter()).position(|(a, b)| a != b).unwrap_or(b2.len().min(bytes.len()));
                fail(format!("roundtrip-bytes-differ {}", format.name()), format!("{} opts={optbits} width={width}: first difference at offset {off} (len {} vs {}); text: {}", game, bytes.len(), b2.len(), text.chars().take(600).collect::<String>()))
            }
        },
    }
}

/// user mapfile adding aliases and enums (names must be transparent to the round trip)
pub fn alias_mapfile(rng: &mut Rng, format: Format, game: truth::Game) -> Option<String> {
    let (magic, lang) = match format {
        Format::Anm => ("!anmmap", truth::LanguageKey::Anm), Format::Std => ("!stdmap", truth::LanguageKey::Std),
        Format::Msg => ("!msgmap", truth::LanguageKey::Msg), Format::Ecl => ("!eclmap", truth::LanguageKey::Ecl), _ => return None,
    };
    let sigs = gensrc::signatures(game, lang);
    if sigs.is_empty() { return None; }
    let mut m = format!("{magic}\n!ins_names\n");
    let mut used = std::collections::BTreeSet::new();
    for k in 0..1 + rng.below(5) {
        let op = rng.pick(&sigs).0;
        if used.insert(op) { m.push_str(&format!("{op} {}{k}\n", rng.pick(&["foo", "setThing", "x_", "Alpha"]))); }
    }
    if matches!(format, Format::Anm | Format::Ecl) {
        m.push_str("!gvar_names\n");
        let regs: &[i32] = if format == Format::Anm { &[10000, 10001, 10004, 10008] } else { &[-10001, -10002, -10005, -10013] };
        for (k, r) in regs.iter().enumerate() { if rng.chance(1, 2) { m.push_str(&format!("{r} myReg{k}\n")); } }
    }
    Some(m)
}

impl Prop for C01 {
    fn id(&self) -> &'static str { "C01" }
    fn relation(&self) -> &'static str { "(no model-compared stream in this check: the flat round-trip theorem composes C03/C12/C13/C14/C18 lemmas; the tie to the code is those properties' correspondences plus the search below)" }
    fn rule(&self) -> &'static str {
        "generated sources of every format/game (ANM v0-v8, STD06/10, MSG/END TH06-TH18, old ECL + timelines TH06-TH095) compiled, then decompiled under random subsets of {--no-arguments,--no-intrinsics,--no-calls,--no-blocks,--no-diff-switches} x widths {1,17,40,80,99,200} x optional user mapfile with aliases, recompiled and compared byte for byte unless decompile printed a warning; all bundled binaries under every one of the 32 option subsets; non-trivial = compiles and decompiles without warning; distinct by case text"
    }
    fn theorems(&self) -> &'static [&'static str] { &["TruthModel.C03.readInstrs_writeInstrs"] }

    fn gen(&self, tier: Tier, rng: &mut Rng) -> Vec<Case> {
        let scale = if tier == Tier::Quick { 1 } else { 20 };
        let widths = [1usize, 17, 40, 80, 99, 200];
        let mut out = vec![];
        for (format, game, bytes, name) in super::c16::bundled_files() {
            for bits in 0..32u32 {
                if tier == Tier::Quick && !(bits == 0 || bits == 31 || bits.count_ones() == 1 || rng.chance(1, 6)) { continue; }
                let width = *rng.pick(&widths);
                out.push(Case::search(Sexp::app("rtbin", vec![Sexp::atom(format.name()), Sexp::atom(format!("{game}")), Sexp::list(vec![]), Sexp::int(bits), Sexp::int(width as i64), Sexp::atom(hex(&bytes))])).tag(format!("bundled-{name}")));
            }
        }
        for _ in 0..400 * scale {
            let g = gensrc::gen_any(rng);
            let mut maps = g.maps.clone();
            if rng.chance(1, 3) { if let Some(m) = alias_mapfile(rng, g.format, g.game) { maps.push(m); } }
            for _ in 0..(if tier == Tier::Quick { 3 } else { 6 }) {
                let bits = if rng.chance(1, 3) { 0 } else { rng.below(32) as u32 };
                let width = *rng.pick(&widths);
                out.push(Case::search(Sexp::app("rt", vec![Sexp::atom(g.format.name()), Sexp::atom(format!("{}", g.game)), Sexp::list(maps.iter().map(|m| Sexp::str(m.clone())).collect()), Sexp::int(bits), Sexp::int(width as i64), Sexp::str(g.text.clone())])).tag(format!("generated-{}", g.format.name())));
            }
        }
        out
    }

    fn eval(&self, case: &Sexp) -> Sexp {
        let a = case.args();
        let format = Format::from_name(a[0].as_atom());
        let game = tc::game(a[1].as_atom());
        let maps: Vec<String> = a[2].as_list().iter().map(|m| m.as_atom().to_string()).collect();
        let (bits, width) = (a[3].as_i64() as u32, a[4].as_i64() as usize);
        match case.head() {
            Some("rtbin") => roundtrip_bytes(format, game, &maps, &unhex(a[5].as_atom()), bits, width),
            Some("rt") => {
                let c = tc::compile(format, game, &maps, a[5].as_atom().as_bytes());
                match c.value {
                    None => if c.has_error_diag() { Sexp::app("rejected", vec![Sexp::str(diag_class(&c.diagnostics))]) } else { fail("compile-fails-without-error-diagnostic", format!("{} {}", format.name(), game)) },
                    Some(bytes) => roundtrip_bytes(format, game, &maps, &bytes, bits, width),
                }
            },
            _ => Sexp::atom("bad-case"),
        }
    }
}
