//! C19 — output is a deterministic function of the inputs (fresh processes draw fresh hash seeds).

use super::{Case, Prop, Tier, fail};
use crate::rng::Rng;
use crate::sexp::Sexp;
use crate::tc::{self, Format};
use crate::gensrc;
use std::process::Command;

pub struct C19;

struct RunOut { code: Option<i32>, stdout: Vec<u8>, stderr: Vec<u8>, file: Option<Vec<u8>>, debug_info: Option<Vec<u8>> }

fn run_cli(dir: &std::path::Path, args: &[String], out_file: Option<&str>, dbg_file: Option<&str>) -> RunOut {
    if let Some(f) = out_file { let _ = std::fs::remove_file(dir.join(f)); }
    if let Some(f) = dbg_file { let _ = std::fs::remove_file(dir.join(f)); }
    let exe = std::env::current_exe().expect("current_exe");
    let o = Command::new(exe).arg("cli").args(args).current_dir(dir).env("RUST_BACKTRACE", "0").env_remove("TRUTH_MAP_PATH").output().expect("spawn cli");
    RunOut {
        code: o.status.code(), stdout: o.stdout, stderr: o.stderr,
        file: out_file.and_then(|f| std::fs::read(dir.join(f)).ok()),
        debug_info: dbg_file.and_then(|f| std::fs::read(dir.join(f)).ok()),
    }
}

fn first_diff_line(a: &[u8], b: &[u8]) -> String {
    let (a, b) = (String::from_utf8_lossy(a), String::from_utf8_lossy(b));
    for (x, y) in a.lines().zip(b.lines()) { if x != y { return format!("`{}` vs `{}`", x.chars().take(120).collect::<String>(), y.chars().take(120).collect::<String>()); } }
    format!("{} vs {} lines", a.lines().count(), b.lines().count())
}

/// class of the first differing stderr line: the diagnostic message without numbers and quoted names
fn diff_class(a: &[u8], b: &[u8]) -> String {
    let (a, b) = (String::from_utf8_lossy(a), String::from_utf8_lossy(b));
    // find the diagnostic header preceding the first difference
    let mut header = String::new();
    for (x, y) in a.lines().zip(b.lines()) {
        if x.starts_with("warning") || x.starts_with("error") { header = x.to_string(); }
        if x != y { break; }
    }
    let cut = header.find(|c: char| c == '\'' || c == '"' || c == '`' || c.is_ascii_digit() || c == '$' || c == '%' || c == '[').unwrap_or(header.len());
    header[..cut].trim().to_string()
}

fn determinism_case(n: usize, format: Format, game: truth::Game, mode: &str, maps: &[String], text: &str, optbits: u32) -> Sexp {
    let dir = tempfile::tempdir().expect("tempdir");
    let (tool, flags) = format.cli();
    let mut common: Vec<String> = vec![];
    for (i, m) in maps.iter().enumerate() { let p = format!("m{i}.map"); std::fs::write(dir.path().join(&p), m).unwrap(); common.push("-m".into()); common.push(p); }
    let game_s = format!("{game}");
    let (args, out_file, dbg): (Vec<String>, Option<&str>, Option<&str>) = match mode {
        "compile" => {
            std::fs::write(dir.path().join("in.spec"), text).unwrap();
            let mut a = vec![tool.to_string(), "compile".into(), "in.spec".into(), "-g".into(), game_s, "-o".into(), "out.bin".into(), "--output-debug-info".into(), "dbg.json".into()];
            a.extend(flags.iter().map(|s| s.to_string())); a.extend(common);
            (a, Some("out.bin"), Some("dbg.json"))
        },
        _ => {
            let c = tc::compile(format, game, maps, text.as_bytes());
            let bytes = match c.value { Some(b) => b, None => return Sexp::app("rejected", vec![]) };
            std::fs::write(dir.path().join("in.bin"), bytes).unwrap();
            let mut a = vec![tool.to_string(), "decompile".into(), "in.bin".into(), "-g".into(), game_s];
            a.extend(flags.iter().map(|s| s.to_string())); a.extend(common);
            for (bit, f) in [(1, "--no-arguments"), (2, "--no-intrinsics"), (4, "--no-calls"), (8, "--no-blocks"), (16, "--no-diff-switches")] { if optbits & bit != 0 { a.push(f.into()); } }
            (a, None, None)
        },
    };
    let first = run_cli(dir.path(), &args, out_file, dbg);
    if first.code.is_none() { return fail(format!("cli-killed-by-signal {tool} {mode}"), String::from_utf8_lossy(&first.stderr).chars().take(300).collect::<String>()); }
    for k in 1..n {
        let r = run_cli(dir.path(), &args, out_file, dbg);
        if r.code != first.code { return fail(format!("nondeterministic-exit-status {tool} {mode}"), format!("run 0: {:?}, run {k}: {:?}", first.code, r.code)); }
        if r.stderr != first.stderr { return fail(format!("nondeterministic-diagnostics {tool} {mode}: {}", diff_class(&first.stderr, &r.stderr)), format!("run 0 vs run {k}: {}", first_diff_line(&first.stderr, &r.stderr))); }
        if r.stdout != first.stdout { return fail(format!("nondeterministic-stdout {tool} {mode}"), format!("run 0 vs run {k}: {}", first_diff_line(&first.stdout, &r.stdout))); }
        if r.file != first.file { return fail(format!("nondeterministic-output-file {tool} {mode}"), format!("run 0 vs run {k}")); }
        if r.debug_info != first.debug_info { return fail(format!("nondeterministic-debug-info {tool} {mode}"), format!("run 0 vs run {k}: {}", first_diff_line(first.debug_info.as_deref().unwrap_or(&[]), r.debug_info.as_deref().unwrap_or(&[])))); }
    }
    Sexp::app("pass", vec![Sexp::int(first.code.unwrap_or(-1) as i64), Sexp::int(first.stderr.len() as i64)])
}

/// sources with >= 2 competing entries in hash-ordered bookkeeping
fn competing_source(rng: &mut Rng) -> gensrc::GenSource {
    match rng.below(8) {
        7 => {
            // MSG: several scripts that the script table does not mention (one warning each)
            let game = *rng.pick(&[truth::Game::Th06, truth::Game::Th08, truth::Game::Th10, truth::Game::Th12]);
            let n = 3 + rng.below(5);
            let mut text = String::from("meta { table: {0: {script: \"used0\"}} }\nscript used0 { }\n");
            let mut names: Vec<String> = (0..n).map(|i| format!("{}{i}", rng.pick(&["extra", "spare", "old", "tmp"]))).collect();
            names.sort(); names.dedup();
            for nm in &names { text.push_str(&format!("script {nm} {{ }}\n")); }
            gensrc::GenSource { format: Format::Msg, game, text, maps: vec![] }
        },
        6 => {
            // ANM: blocks that declare several locals of one type (their registers are released together at the end
            // of the block), then further locals / temporaries that take the released registers
            let game = *rng.pick(&[truth::Game::Th10, truth::Game::Th12, truth::Game::Th16]);
            let mut body = String::new();
            let mut v = 0;
            for _ in 0..1 + rng.below(3) {
                let k = 2 + rng.below(3);
                let float = rng.chance(1, 3);
                let (kw, reg, lit) = if float { ("float", "%REG[10004]", ".0") } else { ("int", "$REG[10000]", "") };
                let head = match rng.below(3) { 0 => "if ($REG[10001] == 0)".to_string(), 1 => "times(2)".to_string(), _ => "loop".to_string() };
                body.push_str(&format!("    {head} {{\n"));
                let first = v;
                for _ in 0..k { body.push_str(&format!("        {kw} v{v} = {}{lit};\n", 1 + rng.below(9))); v += 1; }
                body.push_str(&format!("        {reg} = {};\n", (first..v).map(|i| format!("v{i}")).collect::<Vec<_>>().join(" + ")));
                if head == "loop" { body.push_str("        break;\n"); }
                body.push_str("    }\n");
                body.push_str(&format!("    {kw} v{v} = {}{lit};\n    {reg} = v{v} * ({reg} + v{v});\n", 10 + rng.below(80))); v += 1;
            }
            let text = format!("entry {{ path: \"a.png\", has_data: false, img_width: 16, img_height: 16, img_format: 3, sprites: {{}} }}\nscript s0 {{\n{body}}}\n");
            gensrc::GenSource { format: Format::Anm, game, text, maps: vec![] }
        },
        5 => {
            // PCB ECL: the parameter list of a sub is inferred from its call sites on decompilation; call sites that
            // disagree (different argument registers set before the call), in equal numbers
            let mut text = String::from("script timeline0 {}\nvoid target0() {}\nvoid target1() {}\n");
            let ints = [10037, 10038, 10039, 10040];
            let floats = [10041, 10042, 10043, 10044];
            let ncallers = 2 + rng.below(3);
            for c in 0..ncallers {
                let mut body = String::new();
                let shape = rng.below(4);
                if shape == 0 || shape == 2 { for r in &ints[..1 + rng.below(2)] { body.push_str(&format!("    $REG[{r}] = {};\n", 1 + rng.below(9))); } }
                if shape == 1 || shape == 2 { for r in &floats[..1 + rng.below(2)] { body.push_str(&format!("    %REG[{r}] = {}.0;\n", 1 + rng.below(9))); } }
                body.push_str(&format!("    ins_41(target{});\n", if rng.chance(3, 4) { 0 } else { 1 }));
                text.push_str(&format!("void caller{c}() {{\n{body}}}\n"));
            }
            gensrc::GenSource { format: Format::Ecl, game: truth::Game::Th07, text, maps: vec![] }
        },
        4 => {
            // several bad signatures / unknown enums in a mapfile: several diagnostics from one table walk
            let game = truth::Game::Th12;
            let mut map = String::from("!anmmap\n!ins_signatures\n");
            let n = 2 + rng.below(5);
            for i in 0..n { map.push_str(&format!("{} S(enum=\"{}{}\")\n", 900 + i, rng.pick(&["Foo", "Bar", "Baz", "Qux"]), i)); }
            map.push_str("!enum(name=\"Colour\")\n0 Red\n1 Green\n!enum(name=\"Colours\")\n0 Cyan\n!enum(name=\"Coloru\")\n0 Pink\n");
            let text = "entry { path: \"a.png\", has_data: false, img_width: 16, img_height: 16, img_format: 3, sprites: {} }\nscript s0 { ins_3(Colour.Red); }\n".to_string();
            gensrc::GenSource { format: Format::Anm, game, text, maps: vec![map] }
        },
        0 => {
            // old ECL sub: several registers each used under two names (alias from a mapfile + raw syntax)
            let game = *rng.pick(&[truth::Game::Th06, truth::Game::Th07, truth::Game::Th08]);
            let mut map = String::from(gensrc::ECL_DIFFICULTY_MAP);
            map.push_str("!gvar_names\n-10001 regA\n-10002 regB\n-10003 regC\n-10004 regD\n!gvar_types\n-10001 $\n-10002 $\n-10003 $\n-10004 $\n");
            let mut body = String::new();
            let names = ["regA", "regB", "regC", "regD"];
            for (i, n) in names.iter().enumerate() {
                if rng.chance(3, 4) { body.push_str(&format!("    {n} = {};\n    $REG[-1000{}] = {n} + 1;\n", rng.below(9), i + 1)); }
            }
            let params = match rng.below(3) { 0 => "int a, int b", 1 => "int a, float x, int b", _ => "" };
            let mut text = String::from("script timeline0 { }\n");
            text.push_str(&format!("void sub0({params}) {{\n{body}}}\n"));
            gensrc::GenSource { format: Format::Ecl, game, text, maps: vec![map] }
        },
        1 => {
            // ANM: exhaust the scratch registers with several live locals
            let game = *rng.pick(&[truth::Game::Th10, truth::Game::Th12, truth::Game::Th16]);
            let n = 3 + rng.below(6);
            let mut body = String::new();
            for i in 0..n { body.push_str(&format!("    int v{i} = $REG[10000] + {i};\n")); }
            body.push_str("    $REG[10001] = ");
            body.push_str(&(0..n).map(|i| format!("v{i}")).collect::<Vec<_>>().join(" + "));
            body.push_str(";\n");
            let text = format!("entry {{ path: \"a.png\", has_data: false, img_width: 16, img_height: 16, img_format: 3, sprites: {{}} }}\nscript s0 {{\n{body}}}\n");
            gensrc::GenSource { format: Format::Anm, game, text, maps: vec![] }
        },
        2 => {
            // many enum / alias definitions in a user mapfile, used and unused
            let game = truth::Game::Th12;
            let mut map = String::from("!anmmap\n!ins_names\n");
            for i in 0..12 { map.push_str(&format!("{} name{}\n", 1 + i, i)); }
            map.push_str("!gvar_names\n");
            for i in 0..8 { map.push_str(&format!("{} gv{}\n", 10000 + i, i)); }
            map.push_str("!enum(name=\"Color\")\n");
            for i in 0..10 { map.push_str(&format!("{} C{}\n", i, i)); }
            map.push_str("!enum(name=\"Mode\")\n");
            for i in 0..10 { map.push_str(&format!("{} M{}\n", i, i)); }
            let mut g = gensrc::gen_anm(rng, game);
            g.maps.push(map);
            g
        },
        _ => gensrc::gen_any(rng),
    }
}

impl Prop for C19 {
    fn id(&self) -> &'static str { "C19" }
    fn relation(&self) -> &'static str { "site table: every iteration over a hash container in /repo/src whose result can reach output is mapped to a permutation-invariance lemma of Props/C19.lean (tools/order_sites.py); dynamic: repeated fresh-process runs" }
    fn rule(&self) -> &'static str {
        "commands (compile with --output-debug-info, decompile under random options) of every tool on generated sources plus sources built to have >= 2 competing entries in hash-ordered bookkeeping (registers under two names, exhausted scratch pool, many aliases/enums, PCB subs whose call sites disagree about the arguments, blocks releasing several locals at once followed by new locals, MSG files with several unused scripts); each run in N fresh processes (quick 6, thorough 24): exit status, stdout, stderr, output file and debug info must be byte-identical; non-trivial = the command printed at least one diagnostic or wrote a file; distinct by case text"
    }
    fn theorems(&self) -> &'static [&'static str] { &["TruthModel.C19.sorted_consumer_perm_invariant"] }
    fn timeout_secs(&self) -> u64 { 120 }

    fn gen(&self, tier: Tier, rng: &mut Rng) -> Vec<Case> {
        let (count, n) = if tier == Tier::Quick { (160, 6) } else { (1500, 24) };
        let mut out = vec![];
        for k in 0..count {
            let g = if k % 2 == 0 { competing_source(rng) } else { gensrc::gen_any(rng) };
            let mode = if g.text.contains("script used0 { }") || g.text.contains("int v0 =") || g.text.contains("float v0 =") { "compile" }
                else if rng.chance(2, 3) && !g.text.contains("void target0() {}") { "compile" } else { "decompile" };
            out.push(Case::search(Sexp::app("runs", vec![Sexp::int(n), Sexp::atom(g.format.name()), Sexp::atom(format!("{}", g.game)), Sexp::atom(mode), Sexp::int(rng.below(32) as i64),
                Sexp::list(g.maps.iter().map(|m| Sexp::str(m.clone())).collect()), Sexp::str(g.text)])).tag(format!("{}-{}", mode, g.format.name())));
        }
        out
    }

    fn eval(&self, case: &Sexp) -> Sexp {
        let a = case.args();
        let maps: Vec<String> = a[5].as_list().iter().map(|m| m.as_atom().to_string()).collect();
        determinism_case(a[0].as_i64() as usize, Format::from_name(a[1].as_atom()), tc::game(a[2].as_atom()), a[3].as_atom(), &maps, a[6].as_atom(), a[4].as_i64() as u32)
    }
}
