//! C08 — printed scripts parse back to the same script at every line width.
//!
//! Correspondence (Lean `Model/Fmt.lean`): integer literal printing in every `IntFormat`, string
//! literal printing / unescaping, the literal fragment of the grammar (`parse::<Expr>` on
//! literal-like texts) and the token level of the lexer.  Expression layer (Lean
//! `Model/FmtExpr.lean`): see `c08_expr.rs`.  Statement layer (Lean `Model/FmtStmt.lean`): see `c08_stmt.rs`.
//! Search: ASTs from (1) grammar-directed generated source text through the real parser and
//! (2) the decompiler (generated + bundled binaries, random options, user intrinsics) are printed
//! at many widths, parsed back, compared structurally, printed again.

use super::{Case, Prop, Tier, fail};
use crate::rng::{Rng, INT_BOUNDARY};
use crate::sexp::{Sexp, hex, unhex};
use crate::tc::{self, Format};
use crate::gensrc;
use crate::util::diag_class;
use truth::ast::{self, meta, Meta};
use truth::pos::Sp;
use truth::fmt::{stringify, stringify_with, Config};

pub struct C08;

// =================================================================================================
// parsing in a fresh context (ids are then assigned in traversal order, so two parses of equal
// structure are `==`)

fn parse_unguarded<A>(text: &str) -> Result<A, String>
where A: truth::parse::Parse, Sp<A>: ast::Visitable {
    let mut scope = truth::Builder::new().capture_diagnostics(true).build();
    let mut truth = scope.truth();
    match truth.parse::<A>("<input>", text.as_bytes()) {
        Ok(x) => Ok(x.value),
        Err(e) => { e.ignore(); Err(truth.get_captured_diagnostics().unwrap_or_default()) },
    }
}

pub const PARSER_PANIC: &str = "PARSER-PANIC: ";

/// A panic of the parser becomes `Err("PARSER-PANIC: message")`: on generated *source* text it is a
/// rejected input (crashes on text input belong to C04), on *printed* text it is a failure of C08
/// under a signature that does not depend on the build directory.
pub(super) fn parse_fresh<A>(text: &str) -> Result<A, String>
where A: truth::parse::Parse, Sp<A>: ast::Visitable {
    match std::panic::catch_unwind(std::panic::AssertUnwindSafe(|| parse_unguarded::<A>(text))) {
        Ok(r) => r,
        Err(p) => {
            let msg = if let Some(s) = p.downcast_ref::<&str>() { s.to_string() } else if let Some(s) = p.downcast_ref::<String>() { s.clone() } else { "?".to_string() };
            Err(format!("{PARSER_PANIC}{msg}"))
        },
    }
}

// =================================================================================================
// canonical structural form of an AST ("what the script denotes")
//
// Ignored: spans, node/loop/resolution ids, languages, difficulty masks, and the formatter hints
// that the text cannot carry (integer radix, `// time` comments, instruction offset comments).
// A minus sign in front of a numeric literal is folded into the literal (what `LitIntSigned` and
// constant folding do).  Literals that the formatter prints as names of built-in constants
// (`true`/`false` for bool-formatted 1/0, `INF`, `NAN`) are identified with those names.

pub const CANONICAL_NAN_BITS: u32 = 0x7FC0_0000;

#[derive(Default)]
struct Canon { s: String, nan_payloads: usize, neg_lits: usize, named_lits: usize }

impl Canon {
    fn open(&mut self, head: &str) { self.s.push('('); self.s.push_str(head); }
    fn close(&mut self) { self.s.push(')'); }
    fn word(&mut self, w: impl std::fmt::Display) { self.s.push(' '); self.s.push_str(&w.to_string()); }
    fn string(&mut self, x: &str) { self.s.push(' '); self.s.push_str(&format!("{x:?}")); }

    fn file(&mut self, f: &ast::ScriptFile) {
        self.open("file");
        for m in &f.mapfiles { self.open(" mapfile"); self.string(&m.string); self.close(); }
        for m in &f.image_sources { self.open(" image_source"); self.string(&m.string); self.close(); }
        for it in &f.items { self.s.push(' '); self.item(it); }
        self.close();
    }

    fn item(&mut self, it: &ast::Item) {
        match it {
            ast::Item::Func(ast::ItemFunc { qualifier, ty_keyword, ident, params, code }) => {
                self.open("func");
                self.word(format!("{:?}", qualifier.as_ref().map(|q| q.value)));
                self.word(format!("{:?}", ty_keyword.value));
                self.word(ident.value.as_raw());
                self.s.push_str(" (params");
                for p in params {
                    self.open(" p");
                    self.word(format!("{:?}", p.qualifier.as_ref().map(|q| q.value)));
                    self.word(format!("{:?}", p.ty_keyword.value));
                    match &p.ident { Some(i) => self.word(i.value.as_raw()), None => self.word("_") }
                    self.close();
                }
                self.s.push(')');
                match code { Some(b) => { self.s.push(' '); self.block(b); }, None => self.word("decl") }
                self.close();
            },
            ast::Item::Script { keyword: _, number, ident, code } => {
                self.open("script");
                match number { Some(n) => self.word(n.value), None => self.word("_") }
                self.word(&ident.value);
                self.s.push(' ');
                self.block(code);
                self.close();
            },
            ast::Item::Meta { keyword, fields } => {
                self.open("metaitem");
                self.word(format!("{:?}", keyword.value));
                self.s.push(' ');
                self.fields(fields);
                self.close();
            },
            ast::Item::ConstVar { ty_keyword, vars } => {
                self.open("const");
                self.word(format!("{:?}", ty_keyword.value));
                for v in vars {
                    self.open(" v"); self.s.push(' '); self.var(&v.value.0); self.s.push(' '); self.expr(&v.value.1); self.close();
                }
                self.close();
            },
        }
    }

    fn fields(&mut self, f: &meta::Fields) {
        self.open("fields");
        for (k, v) in f.iter() { self.open(" kv"); self.word(&k.value); self.s.push(' '); self.meta(v); self.close(); }
        self.close();
    }

    fn meta(&mut self, m: &Meta) {
        match m {
            Meta::Scalar(e) => { self.open("scalar "); self.expr(e); self.close(); },
            Meta::Object(f) => self.fields(f),
            Meta::Array(xs) => { self.open("array"); for x in xs { self.s.push(' '); self.meta(x); } self.close(); },
            Meta::Variant { name, fields } => { self.open("variant"); self.word(&name.value); self.s.push(' '); self.fields(fields); self.close(); },
        }
    }

    fn block(&mut self, b: &ast::Block) {
        self.open("block");
        for st in &b.0 {
            if matches!(st.kind, ast::StmtKind::NoInstruction | ast::StmtKind::ScopeEnd(_)) { continue; }
            self.s.push(' ');
            self.stmt(st);
        }
        self.close();
    }

    fn jump(&mut self, j: &ast::StmtJumpKind) {
        match j {
            ast::StmtJumpKind::Goto(ast::StmtGoto { destination, time }) => {
                self.open("goto"); self.word(&destination.value);
                match time { Some(t) => self.word(t.value), None => self.word("_") }
                self.close();
            },
            ast::StmtJumpKind::BreakContinue { keyword, loop_id: _ } => { self.open("brk"); self.word(format!("{:?}", keyword.value)); self.close(); },
        }
    }

    fn stmt(&mut self, st: &ast::Stmt) {
        self.open("stmt");
        match &st.diff_label { Some(d) => self.string(&d.string.string), None => self.word("_") }
        self.s.push(' ');
        match &st.kind {
            ast::StmtKind::Item(it) => { self.open("item "); self.item(it); self.close(); },
            ast::StmtKind::Jump(j) => self.jump(j),
            ast::StmtKind::CondJump { keyword, cond, jump } => {
                self.open("condjump"); self.word(format!("{:?}", keyword.value)); self.s.push(' '); self.expr(cond); self.s.push(' '); self.jump(jump); self.close();
            },
            ast::StmtKind::Return { keyword: _, value } => {
                self.open("return"); if let Some(v) = value { self.s.push(' '); self.expr(v); } self.close();
            },
            ast::StmtKind::CondChain(ast::StmtCondChain { cond_blocks, else_block }) => {
                self.open("chain");
                for cb in cond_blocks {
                    self.open(" cb"); self.word(format!("{:?}", cb.keyword.value)); self.s.push(' '); self.expr(&cb.cond); self.s.push(' '); self.block(&cb.block); self.close();
                }
                if let Some(b) = else_block { self.open(" else "); self.block(b); self.close(); }
                self.close();
            },
            ast::StmtKind::Loop { block, .. } => { self.open("loop "); self.block(block); self.close(); },
            ast::StmtKind::While { do_keyword, cond, block, .. } => {
                self.open(if do_keyword.is_some() { "dowhile " } else { "while " }); self.expr(cond); self.s.push(' '); self.block(block); self.close();
            },
            ast::StmtKind::Times { clobber, count, block, .. } => {
                self.open("times");
                match clobber { Some(v) => { self.s.push(' '); self.var(v); }, None => self.word("_") }
                self.s.push(' '); self.expr(count); self.s.push(' '); self.block(block); self.close();
            },
            ast::StmtKind::Expr(e) => { self.open("expr "); self.expr(e); self.close(); },
            ast::StmtKind::Block(b) => self.block(b),
            ast::StmtKind::Assignment { var, op, value } => {
                self.open("assign"); self.word(format!("{:?}", op.value)); self.s.push(' '); self.var(var); self.s.push(' '); self.expr(value); self.close();
            },
            ast::StmtKind::Declaration { ty_keyword, vars } => {
                self.open("decl"); self.word(format!("{:?}", ty_keyword.value));
                for v in vars {
                    self.open(" v"); self.s.push(' '); self.var(&v.value.0);
                    if let Some(e) = &v.value.1 { self.s.push(' '); self.expr(e); }
                    self.close();
                }
                self.close();
            },
            ast::StmtKind::CallSub { at_symbol, async_, func, args } => {
                self.open("callsub"); self.word(at_symbol); self.word(&func.value);
                match async_ {
                    None => self.word("_"),
                    Some(ast::CallAsyncKind::CallAsync) => self.word("async"),
                    Some(ast::CallAsyncKind::CallAsyncId(e)) => { self.open(" asyncid "); self.expr(e); self.close(); },
                }
                for a in args { self.s.push(' '); self.expr(a); }
                self.close();
            },
            ast::StmtKind::InterruptLabel(e) => { self.open("interrupt "); self.expr(e); self.close(); },
            ast::StmtKind::AbsTimeLabel(t) => { self.open("abstime"); self.word(t.value); self.close(); },
            ast::StmtKind::RelTimeLabel { delta, _absolute_time_comment: _ } => { self.open("reltime "); self.expr(delta); self.close(); },
            ast::StmtKind::Label(l) => { self.open("label"); self.word(&l.value); self.close(); },
            ast::StmtKind::ScopeEnd(_) => self.s.push_str("(scopeend)"),
            ast::StmtKind::NoInstruction => self.s.push_str("(noinstr)"),
        }
        self.close();
    }

    fn var(&mut self, v: &ast::Var) {
        self.open("var");
        self.word(format!("{:?}", v.ty_sigil));
        match &v.name {
            ast::VarName::Normal { ident, .. } => self.word(ident.as_raw()),
            ast::VarName::Reg { reg, .. } => self.word(format!("REG[{}]", reg.0)),
        }
        self.close();
    }

    fn named_const(&mut self, name: &str) { self.named_lits += 1; self.s.push_str(&format!("(var None {name})")); }

    fn lit_int(&mut self, value: i32, format: ast::IntFormat) {
        if format.radix == ast::IntRadix::Bool && (value == 0 || value == 1) {
            self.named_const(if value == 1 { "true" } else { "false" });
        } else {
            if value < 0 { self.neg_lits += 1; }
            self.s.push_str(&format!("(int {value})"));
        }
    }

    fn lit_float(&mut self, x: f32) {
        if x.is_nan() {
            if x.to_bits() != CANONICAL_NAN_BITS { self.nan_payloads += 1; }
            self.named_const("NAN");
        } else if x == f32::INFINITY { self.named_const("INF"); }
        else if x == f32::NEG_INFINITY { self.named_lits += 1; self.neg_lits += 1; self.s.push_str("(un Neg (var None INF))"); }
        else {
            if x.is_sign_negative() { self.neg_lits += 1; }
            self.s.push_str(&format!("(flt {:#010x})", x.to_bits()));
        }
    }

    fn expr(&mut self, e: &ast::Expr) {
        match e {
            ast::Expr::Ternary { cond, left, right, .. } => {
                self.open("tern "); self.expr(cond); self.s.push(' '); self.expr(left); self.s.push(' '); self.expr(right); self.close();
            },
            ast::Expr::BinOp(a, op, b) => {
                self.open("bin"); self.word(format!("{:?}", op.value)); self.s.push(' '); self.expr(a); self.s.push(' '); self.expr(b); self.close();
            },
            ast::Expr::UnOp(op, x) => {
                if op.value == ast::UnOpKind::Neg {
                    match &x.value {
                        &ast::Expr::LitInt { value, format } if !(format.radix == ast::IntRadix::Bool && (value == 0 || value == 1)) => {
                            return self.lit_int(value.wrapping_neg(), ast::IntFormat::SIGNED);
                        },
                        &ast::Expr::LitFloat { value } if value.is_finite() => return self.lit_float(-value),
                        _ => {},
                    }
                }
                self.open("un"); self.word(format!("{:?}", op.value)); self.s.push(' '); self.expr(x); self.close();
            },
            ast::Expr::XcrementOp { op, order, var } => {
                self.open("xcr"); self.word(format!("{:?}", op.value)); self.word(format!("{order:?}")); self.s.push(' '); self.var(var); self.close();
            },
            ast::Expr::Var(v) => self.var(v),
            ast::Expr::Call(ast::ExprCall { name, pseudos, args }) => {
                self.open("call"); self.word(&name.value);
                for p in pseudos { self.open(" pseudo"); self.word(format!("{:?}", p.kind.value)); self.s.push(' '); self.expr(&p.value.value); self.close(); }
                for a in args { self.s.push(' '); self.expr(a); }
                self.close();
            },
            ast::Expr::DiffSwitch(cases) => {
                self.open("switch");
                for c in cases.iter() { match c { Some(x) => { self.s.push(' '); self.expr(x); }, None => self.word("_") } }
                self.close();
            },
            &ast::Expr::LitInt { value, format } => self.lit_int(value, format),
            &ast::Expr::LitFloat { value } => self.lit_float(value),
            ast::Expr::LitString(x) => { self.open("str"); self.string(&x.string); self.close(); },
            ast::Expr::LabelProperty { label, keyword } => { self.open("labelprop"); self.word(format!("{:?}", keyword.value)); self.word(&label.value); self.close(); },
            ast::Expr::EnumConst { enum_name, ident } => { self.open("enumconst"); self.word(&enum_name.value); self.word(ident.value.as_raw()); self.close(); },
        }
    }
}

fn canon_file(f: &ast::ScriptFile) -> Canon { let mut c = Canon::default(); c.file(f); c }

// =================================================================================================
// formatter hints the text cannot carry; sign folding; sites of the known token-glue defect

struct EraseHints;
impl ast::VisitMut for EraseHints {
    fn visit_expr(&mut self, e: &mut Sp<ast::Expr>) {
        ast::walk_expr_mut(self, e);
        if let ast::Expr::LitInt { value, format } = &mut e.value {
            if !(format.radix == ast::IntRadix::Bool && (*value == 0 || *value == 1)) { *format = ast::IntFormat::SIGNED; }
        }
    }
    fn visit_stmt(&mut self, s: &mut Sp<ast::Stmt>) {
        ast::walk_stmt_mut(self, s);
        s.value.offset_comment = None;
        if let ast::StmtKind::RelTimeLabel { _absolute_time_comment, .. } = &mut s.value.kind { *_absolute_time_comment = None; }
    }
}

struct FoldNeg;
impl ast::VisitMut for FoldNeg {
    fn visit_expr(&mut self, e: &mut Sp<ast::Expr>) {
        ast::walk_expr_mut(self, e);
        let folded = match &e.value {
            ast::Expr::UnOp(op, x) if op.value == ast::UnOpKind::Neg => match &x.value {
                &ast::Expr::LitInt { value, format } => Some(ast::Expr::LitInt { value: value.wrapping_neg(), format }),
                // (a NaN literal is printed as the name NAN, so a minus in front of it stays an operator)
                &ast::Expr::LitFloat { value } if !value.is_nan() => Some(ast::Expr::LitFloat { value: -value }),
                ast::Expr::Var(v) if v.ty_sigil.is_none() && matches!(&v.name, ast::VarName::Normal { ident, .. } if ident.as_str() == "INF") => Some(ast::Expr::LitFloat { value: f32::NEG_INFINITY }),
                _ => None,
            },
            _ => None,
        };
        if let Some(f) = folded { e.value = f; }
    }
}

fn erase_hints(f: &ast::ScriptFile) -> ast::ScriptFile { let mut g = f.clone(); ast::walk_file_mut(&mut EraseHints, &mut g); g }
fn fold_neg(f: &ast::ScriptFile) -> ast::ScriptFile { let mut g = f.clone(); ast::walk_file_mut(&mut FoldNeg, &mut g); g }

const DIFF_CHARS: &str = "-*ENHLWXYZO4567";

/// Places where the formatter writes an operator token directly in front of an operand whose own
/// text starts with a character that fuses with the operator into a different token.
#[derive(Default)]
struct Glue { sites: Vec<&'static str> }
impl ast::Visit for Glue {
    fn visit_expr(&mut self, e: &Sp<ast::Expr>) {
        if let ast::Expr::UnOp(op, x) = &e.value {
            let first = stringify(&x.value).chars().next().unwrap_or(' ');
            match op.value {
                ast::UnOpKind::Neg if first == '-' => self.sites.push("minus-before-minus"),
                // no token fusion, but the grammar allows only one prefix operator per term
                ast::UnOpKind::BitNot if first == '-' => self.sites.push("bitnot-before-minus"),
                ast::UnOpKind::Not if DIFF_CHARS.contains(first) => self.sites.push("not-before-difficulty-char"),
                _ => {},
            }
        }
        ast::walk_expr(self, e);
    }
    fn visit_stmt(&mut self, s: &Sp<ast::Stmt>) {
        if let ast::StmtKind::RelTimeLabel { delta, .. } = &s.value.kind {
            if stringify(&delta.value).starts_with('+') { self.sites.push("plus-before-plus"); }
        }
        ast::walk_stmt(self, s);
    }
    fn visit_meta(&mut self, m: &Sp<Meta>) {
        let fields = match &m.value { Meta::Object(f) => Some(f), Meta::Variant { fields, .. } => Some(fields), _ => None };
        if let Some(f) = fields { self.check_fields(f); }
        ast::walk_meta(self, m);
    }
    fn visit_item(&mut self, it: &Sp<ast::Item>) {
        if let ast::Item::Meta { fields, .. } = &it.value { self.check_fields(fields); }
        ast::walk_item(self, it);
    }
}
impl Glue {
    fn check_fields(&mut self, f: &meta::Fields) {
        if f.keys().any(|k| k.value.as_str().starts_with('-')) { self.sites.push("negative-meta-key"); }
    }
}

fn glue_sites(f: &ast::ScriptFile) -> Vec<&'static str> {
    let mut g = Glue::default();
    ast::walk_file(&mut g, f);
    g.sites.sort(); g.sites.dedup();
    g.sites
}

// =================================================================================================
// the oracle

#[derive(Copy, Clone, PartialEq)]
enum Origin { Parsed, Decompiled }

struct Found { rank: u32, sig: String, detail: String }

fn first_diff(a: &str, b: &str) -> String {
    let i = a.bytes().zip(b.bytes()).position(|(x, y)| x != y).unwrap_or(a.len().min(b.len()));
    let cut = |s: &str| -> String {
        let mut lo = i.saturating_sub(60); while !s.is_char_boundary(lo) { lo -= 1; }
        let mut hi = (i + 60).min(s.len()); while !s.is_char_boundary(hi) { hi += 1; }
        s[lo..hi].to_string()
    };
    format!("at byte {i}: <<{}>> vs <<{}>>", cut(a), cut(b))
}

fn width_config(w: usize) -> Config { Config::new().max_columns(w) }

/// A panic of the formatter becomes `Err(message)` so that the other widths of the case are still checked.
fn print_guarded(f: &ast::ScriptFile, w: usize) -> Result<String, String> {
    std::panic::catch_unwind(std::panic::AssertUnwindSafe(|| stringify_with(f, width_config(w)))).map_err(|p| {
        if let Some(s) = p.downcast_ref::<&str>() { s.to_string() } else if let Some(s) = p.downcast_ref::<String>() { s.clone() } else { "?".to_string() }
    })
}

/// print `ast1` at every width, parse back, compare, print again
fn check_file(ast1: &ast::ScriptFile, origin: Origin, widths: &[usize]) -> Sexp {
    let c1 = canon_file(ast1);
    let glue = glue_sites(ast1);
    let a1n = if origin == Origin::Decompiled { erase_hints(ast1) } else { ast1.clone() };
    let mut found: Vec<Found> = vec![];
    let mut add = |found: &mut Vec<Found>, rank: u32, sig: String, detail: String| {
        if !found.iter().any(|f| f.sig == sig) { found.push(Found { rank, sig, detail }); }
    };
    let mut bytes = 0usize;
    for &w in widths {
        let text = match print_guarded(ast1, w) {
            Ok(t) => t,
            Err(msg) => {
                let sig: String = super::strip_digits(&msg).chars().take(80).collect();
                add(&mut found, 1, format!("formatter-panics {sig}"), format!("width {w}: {msg}"));
                continue;
            },
        };
        bytes += text.len();
        let ast2 = match parse_fresh::<ast::ScriptFile>(&text) {
            Ok(a) => a,
            Err(diag) => {
                let line = diag.lines().find(|l| l.starts_with("error")).unwrap_or("").to_string();
                let loc = diag.lines().skip_while(|l| !l.contains("<input>:")).take(4).collect::<Vec<_>>().join(" / ");
                if let Some(msg) = diag.strip_prefix(PARSER_PANIC) {
                    let sig: String = super::strip_digits(msg).chars().take(80).collect();
                    add(&mut found, 1, format!("printed-text-crashes-parser {sig}"), format!("width {w}: {msg}"));
                } else if !glue.is_empty() {
                    add(&mut found, 2, format!("printed-text-does-not-parse operator-glued-to-operand {}", glue[0]), format!("width {w}: {line} {loc}"));
                } else {
                    add(&mut found, 0, format!("printed-text-does-not-parse {}", diag_class(&diag)), format!("width {w}: {line} {loc}"));
                }
                continue;
            },
        };
        let c2 = canon_file(&ast2);
        if c1.s != c2.s {
            if !glue.is_empty() {
                // e.g. `-` in front of `-INF` reads back as a pre-decrement of `INF`
                add(&mut found, 2, format!("reparse-differs operator-glued-to-operand {}", glue[0]), format!("width {w}: {}", first_diff(&c1.s, &c2.s)));
            } else {
                add(&mut found, 0, "reparse-differs".into(), format!("width {w}: {}", first_diff(&c1.s, &c2.s)));
            }
            continue;
        }
        if origin == Origin::Parsed && c1.neg_lits == 0 && c1.named_lits == 0 && *ast1 != ast2 {
            add(&mut found, 0, "reparse-differs ast-equality".into(), format!("width {w}: canonical forms agree but `==` on the ASTs does not"));
            continue;
        }
        let text2 = stringify_with(&ast2, width_config(w));
        let expected = if origin == Origin::Decompiled { stringify_with(&a1n, width_config(w)) } else { text.clone() };
        if text2 != expected {
            let folded2 = stringify_with(&fold_neg(&ast2), width_config(w));
            let folded1 = stringify_with(&fold_neg(&a1n), width_config(w));
            let glue2 = glue_sites(&ast2);
            if c1.neg_lits > 0 && folded1 == folded2 {
                add(&mut found, 2, "reprint-differs negative-literal-gains-parens".into(), format!("width {w}: {}", first_diff(&expected, &text2)));
            } else if !glue2.is_empty() {
                // `f(-2147483648)` reads back as a minus applied to the literal MIN, which prints as `--2147483648`
                add(&mut found, 2, format!("reprint-differs operator-glued-to-operand {}", glue2[0]), format!("width {w}: {}", first_diff(&expected, &text2)));
            } else {
                add(&mut found, 0, "reprint-differs".into(), format!("width {w}: {}", first_diff(&expected, &text2)));
            }
        }
    }
    if c1.nan_payloads > 0 {
        add(&mut found, 3, "float-literal-roundtrip-loses-bits nan-payload".into(), format!("{} NaN literal(s) with a payload other than {CANONICAL_NAN_BITS:#x} are printed as NAN", c1.nan_payloads));
    }
    if found.is_empty() {
        return Sexp::app("pass", vec![Sexp::int(widths.len() as i64), Sexp::int(bytes as i64)]);
    }
    found.sort_by_key(|f| f.rank);
    let all: Vec<String> = found.iter().map(|f| f.sig.clone()).collect();
    fail(found[0].sig.clone(), format!("{} [all signatures of this case: {}]", found[0].detail, all.join("; ")))
}

// =================================================================================================
// grammar-directed source text

#[derive(Copy, Clone, PartialEq)]
enum K { Atom, Bin, Colon, Un, Paren }

struct E { t: String, k: K }

const SAFE_IDENTS: &[&str] = &["a", "b", "c", "x2", "foo", "bar", "I0", "I3", "F1", "myVar_2", "_tmp", "t", "count", "Alpha", "sprite10", "mapfile", "anim", "default", "case", "ecli", "i", "rand", "Ramp"];
const RISKY_IDENTS: &[&str] = &["Enemy", "E", "N0", "Hard", "Lunatic", "W", "X", "Y_pos", "Z", "Omega", "ONE", "NAN", "Easy", "XYZ"];
const LABELS: &[&str] = &["lbl", "end", "loop_start", "L0", "Exit", "label_12"];
const BINOPS: &[&str] = &["+", "-", "*", "/", "%", "==", "!=", "<", "<=", ">", ">=", "|", "^", "&", "||", "&&", "<<", ">>", ">>>"];
const ASSIGNOPS: &[&str] = &["=", "+=", "-=", "*=", "/=", "%=", "|=", "^=", "&=", "<<=", ">>=", ">>>="];
const FUNC_UNOPS: &[&str] = &["sin", "cos", "tan", "asin", "acos", "atan", "sqrt", "int", "float", "$", "%", "_S", "_f"];
const STRINGS_SRC: &[&str] = &[
    r#""""#, r#""a""#, r#""hello world""#, r#""a\"b""#, r#""back\\slash""#, r#""line\nfeed\rcr""#, r#""nul\0byte""#, r#""\\""#, r#""\\\\\"""#,
    "\"\u{65e5}\u{672c}\u{8a9e}\"", "\"\u{30bd}\u{30fc}\u{30b9}\"", "\"tab\there\"", "\"raw\nnewline\"", "\"raw\rcr\"", "\"\u{1f600} emoji\"", "\"\u{feff}bom \u{2028} ls \u{85} nel\"",
    "\"\u{0}raw nul\"", "\"\u{7f}del\u{1}\"", r#""quote ' and // not a comment /* nor this */""#, r#""{\"EN\"}: ins_0();""#, r#""0123456789012345678901234567890123456789012345678901234567890123456789""#,
    "\"\u{e9}\u{e8}\u{fc}\u{df}\"", r#""\0\0""#, r#""\n""#, r#""a\\nb""#, r#""%d %s""#, r#""  spaces  ""#,
];
const DIFF_STRINGS: &[&str] = &["EN", "HL", "*", "E", "NHL", "ENHL", "-", "4567", "O"];

pub(super) struct SrcGen<'a> { rng: &'a mut Rng, label_n: usize, big_ints: bool }

impl<'a> SrcGen<'a> {
    /// one file in four contains integer literals >= 2^31 (negative values: known finding "gains parens")
    pub(super) fn new(rng: &'a mut Rng) -> Self { let big_ints = rng.chance(1, 4); SrcGen { rng, label_n: 0, big_ints } }
    fn safe_ident(&mut self) -> String { self.rng.pick(SAFE_IDENTS).to_string() }
    fn ident(&mut self) -> String { if self.rng.chance(1, 4) { self.rng.pick(RISKY_IDENTS).to_string() } else { self.safe_ident() } }

    fn int_lit(&mut self) -> String {
        let v: u32 = if !self.big_ints { match self.rng.below(4) {
            0 => *self.rng.pick(&[0u32, 1, 2, 7, 42, 100, 255, 4, 5, 60, 77, 2147483647, 0x7fff_fffe, 65536, 0x7fff, 0x8000]),
            1 => self.rng.next_u32() >> 1,
            2 => (self.rng.int_boundary() as u32) & 0x7fff_ffff,
            _ => self.rng.below(1000) as u32,
        } } else { match self.rng.below(6) {
            0 => *self.rng.pick(&[0u32, 1, 2, 7, 42, 100, 255, 4, 5, 60, 77]),
            1 => *self.rng.pick(&[2147483647u32, 2147483648, 4294967295, 3000000000, 2147483649, 4294967294, 65536, 0x7fff, 0x8000]),
            2 => self.rng.int_boundary() as u32,
            3 => self.rng.next_u32(),
            _ => self.rng.below(1000) as u32,
        } };
        match self.rng.below(8) {
            0 => format!("{v:#x}"), 1 => format!("0X{v:X}"), 2 => format!("{v:#b}"), 3 => format!("0B{v:b}"), 4 => format!("00{v}"), _ => format!("{v}"),
        }
    }

    /// an int literal whose value is below 2^31 and whose decimal form starts with `0123 89`
    fn tame_int_lit(&mut self) -> String {
        let v = *self.rng.pick(&[0u32, 1, 2, 3, 8, 9, 10, 16, 100, 255, 1000, 2147483647, 300, 81, 19, 0x10]);
        match self.rng.below(4) { 0 => format!("{v:#x}"), 1 => format!("{v:#b}"), _ => format!("{v}") }
    }

    fn float_lit(&mut self) -> String {
        match self.rng.below(9) {
            0 => self.rng.pick(&["1.0", "0.5", "3f", "1.5f", "2.f", "0.1", "0.0", "4.0", "7.5", "60.0", "0.25"]).to_string(),
            1 => self.rng.pick(&["16777217.0", "340282350000000000000000000000000000000.0", "0.000000000000000000000000000000000000000000001", "123456789.0", "0.3", "0.1f",
                                 "999999999999999999999999999999999999999999.0", "0.00000000000000000000000000000000000001", "3.4028236e0", "4294967296.0", "2147483648.0", "0.99999994", "1.0000001"]).to_string(),
            2 => format!("rad({})", if self.big_ints { *self.rng.pick(&["1.5", "-3.14", "+2.0", "90", "0.5f", "1f", "-0.0"]) } else { *self.rng.pick(&["1.5", "+2.0", "90", "0.5f", "1f", "0"]) }),
            3 => { let x = f32::from_bits(self.rng.float_bits()); if x.is_finite() { gensrc::float_text(x.abs()) } else { "1.0".into() } },
            4 => { let x = f32::from_bits(self.rng.next_u32() & 0x7fff_ffff); if x.is_finite() { gensrc::float_text(x) } else { "2.0".into() } },
            _ => format!("{}.{}", self.rng.below(500), self.rng.below(1000)),
        }
    }

    fn tame_float_lit(&mut self) -> String { self.rng.pick(&["1.0", "0.5", "2.5", "3.25", "100.0", "0.001", "1.5f", "8.0"]).to_string() }

    fn var(&mut self, safe: bool) -> String {
        let sigil = match self.rng.below(6) { 0 => "$", 1 => "%", _ => "" };
        if self.rng.chance(1, 8) { return format!("{sigil}REG[{}]", self.rng.pick(&["10000", "-10001", "0", "-1", "10013", "4294967295", "0x10", "2147483647", "-2147483648"])); }
        let name = if safe && sigil.is_empty() { self.safe_ident() } else { self.ident() };
        format!("{sigil}{name}")
    }

    fn call(&mut self, d: u32, safe: bool) -> String {
        let name = if self.rng.chance(1, 2) { format!("ins_{}", self.rng.pick(&[0, 1, 23, 100, 65535, 7])) } else if safe { self.safe_ident() } else { self.ident() };
        let mut args = vec![];
        if self.rng.chance(1, 5) {
            for _ in 0..1 + self.rng.below(2) {
                let v = match self.rng.below(3) { 0 => format!("\"{}\"", self.rng.pick(&["", "00ff", "0000803f 00000000", "FFFFFFFF"])), _ => self.expr(0).t };
                args.push(format!("@{}={}", self.rng.pick(&["mask", "blob", "pop", "arg0", "nargs"]), v));
            }
        }
        for _ in 0..self.rng.below(5) { args.push(self.expr(d.saturating_sub(1)).t); }
        let trailing = if !args.is_empty() && self.rng.chance(1, 8) { "," } else { "" };
        format!("{name}({}{trailing})", args.join(", "))
    }

    /// `guard`: None, or the unary operator in front of this atom whose fusion with the atom's
    /// printed text is the known defect that the main stream avoids
    fn atom(&mut self, d: u32, guard: Option<char>) -> String {
        let safe = guard == Some('!');
        loop {
            return match self.rng.below(14) {
                0 | 1 | 2 => if guard.is_some() { self.tame_int_lit() } else { self.int_lit() },
                3 | 4 => if guard.is_some() { self.tame_float_lit() } else { self.float_lit() },
                5 => self.rng.pick(STRINGS_SRC).to_string(),
                6 | 7 | 8 => self.var(safe),
                9 => self.call(d, safe),
                10 => format!("{}.{}", if safe { self.safe_ident() } else { self.ident() }, self.ident()),
                11 => format!("{}({})", self.rng.pick(&["offsetof", "timeof"]), self.rng.pick(LABELS)),
                12 => {
                    let v = self.var(safe);
                    match self.rng.below(4) {
                        0 => format!("{v}++"), 1 => format!("{v}--"), 2 => format!("++{v}"),
                        _ => if matches!(guard, Some('-') | Some('!')) { continue } else { format!("--{v}") },
                    }
                },
                _ => { let f = *self.rng.pick(FUNC_UNOPS); format!("{f}({})", self.expr(d.saturating_sub(1)).t) },
            };
        }
    }

    fn no_colon(&mut self, d: u32) -> String { let e = self.expr(d); if e.k == K::Colon { format!("({})", e.t) } else { e.t } }

    fn operand(&mut self, d: u32) -> String {
        let e = self.expr(d);
        match e.k {
            K::Colon => format!("({})", e.t),
            K::Bin => if self.rng.chance(1, 2) { format!("({})", e.t) } else { e.t },
            _ => e.t,
        }
    }

    fn expr(&mut self, d: u32) -> E {
        if d == 0 || self.rng.chance(1, 3) { return E { t: self.atom(d, None), k: K::Atom }; }
        match self.rng.below(13) {
            0..=4 => E { t: format!("{} {} {}", self.operand(d - 1), self.rng.pick(BINOPS), self.operand(d - 1)), k: K::Bin },
            5 | 6 => {
                let op = *self.rng.pick(&['-', '~', '!']);
                let guard = Some(op);
                // a parenthesised atom prints without its parentheses, so only compound operands are parenthesised
                let inner = if self.rng.chance(1, 2) { self.atom(d - 1, guard) } else {
                    let e = self.expr(d - 1);
                    if matches!(e.k, K::Bin | K::Colon | K::Un) { format!("({})", e.t) } else { self.atom(d - 1, guard) }
                };
                E { t: format!("{op}{}{inner}", if self.rng.chance(1, 4) { " " } else { "" }), k: K::Un }
            },
            7 => {
                let c = self.operand(d - 1);
                let mut rhs = |me: &mut Self| { let e = me.expr(d - 1); if e.k == K::Colon && me.rng.chance(1, 2) { format!("({})", e.t) } else if e.k == K::Colon && e.t.contains(" ? ") { e.t } else if e.k == K::Colon { format!("({})", e.t) } else { e.t } };
                let (l, r) = (rhs(self), rhs(self));
                E { t: format!("{c} ? {l} : {r}"), k: K::Colon }
            },
            8 => {
                let n = 2 + self.rng.below(4);
                let mut t = self.no_colon(d - 1);
                for _ in 1..n {
                    t.push_str(if self.rng.chance(1, 2) { ":" } else { " : " });
                    if !self.rng.chance(1, 3) { t.push_str(&self.no_colon(d - 1)); }
                }
                E { t, k: K::Colon }
            },
            9 | 10 => E { t: self.call(d, false), k: K::Atom },
            11 => E { t: format!("({})", self.expr(d - 1).t), k: K::Paren },
            _ => E { t: self.atom(d, None), k: K::Atom },
        }
    }

    /// In the main stream every unary `-`/`!` operand made by `expr` is guarded, but nested
    /// parentheses can still expose an unguarded atom (`-((0xffffffff))`); the oracle classifies
    /// those by inspecting the AST, so they only cost a case.
    pub(super) fn any_expr(&mut self, d: u32) -> String { self.expr(d).t }

    fn meta_value(&mut self, d: u32) -> String {
        match if d == 0 { 0 } else { self.rng.below(7) } {
            0 | 1 | 2 => self.no_colon(1),
            3 => self.fields(d - 1),
            4 => { let n = self.rng.below(5); let xs: Vec<String> = (0..n).map(|_| self.meta_value(d - 1)).collect(); format!("[{}{}]", xs.join(", "), if n > 0 && self.rng.chance(1, 6) { "," } else { "" }) },
            5 => format!("{} {}", self.ident(), self.fields(d - 1)),
            _ => format!("{}: {}", self.ident(), self.fields(d - 1)),
        }
    }

    fn fields(&mut self, d: u32) -> String {
        let n = self.rng.below(5);
        let mut keys: Vec<String> = vec![];
        for _ in 0..n {
            let k = match self.rng.below(4) { 0 => format!("{}", self.rng.below(40)), 1 => format!("{:#x}", self.rng.below(40)), _ => format!("{}{}", self.ident(), self.rng.below(3)) };
            let norm = if let Some(h) = k.strip_prefix("0x") { u32::from_str_radix(h, 16).unwrap().to_string() } else { k.clone() };
            if !keys.iter().any(|x: &String| { let xn = if let Some(h) = x.strip_prefix("0x") { u32::from_str_radix(h, 16).unwrap().to_string() } else { x.clone() }; xn == norm }) { keys.push(k); }
        }
        let kvs: Vec<String> = keys.into_iter().map(|k| format!("{k}: {}", self.meta_value(d))).collect();
        format!("{{{}}}", kvs.join(", "))
    }

    fn block(&mut self, d: u32, indent: usize) -> String {
        let pad = " ".repeat(indent);
        let mut out = String::from("{\n");
        for _ in 0..self.rng.below(if d == 0 { 4 } else { 6 }) { out.push_str(&self.stmt(d, indent + 4)); }
        out.push_str(&pad); out.push('}');
        out
    }

    fn time_int(&mut self) -> String { self.rng.pick(&["0", "10", "-5", "60", "2147483647", "-2147483648", "4294967295", "0x10", "-0x10", "100"]).to_string() }

    fn stmt(&mut self, d: u32, indent: usize) -> String {
        let pad = " ".repeat(indent);
        let body = match self.rng.below(if d == 0 { 14 } else { 24 }) {
            0 | 1 | 2 => format!("{};", self.call(2, false)),
            3 | 4 => format!("{} {} {};", self.var(false), self.rng.pick(ASSIGNOPS), self.any_expr(3)),
            5 => {
                let ty = *self.rng.pick(&["int", "float", "var"]);
                let n = 1 + self.rng.below(3);
                let vs: Vec<String> = (0..n).map(|_| { let v = self.ident(); if self.rng.chance(1, 2) { format!("{v} = {}", self.any_expr(2)) } else { v } }).collect();
                format!("{ty} {};", vs.join(", "))
            },
            6 => { self.label_n += 1; return match self.rng.below(5) {
                0 => format!("{}{}:\n", self.rng.pick(LABELS), self.label_n),
                1 => format!("+{}:\n", self.rng.pick(&["1", "10", "300", "0x10", "x", "(a + 1)", "2.5", "a * (b - 1)", "$x", "-1"])),
                2 | 3 => format!("{}:\n", self.time_int()),
                // (no calls inside labels here: a call that does not fit the width panics the formatter, see `glue_sources`)
                _ => format!("{pad}interrupt[{}]:\n", self.rng.pick(&["0", "1", "7", "x", "a + 1", "-1", "I0 ? 1 : 2", "(1 : 2)", "Enum.val", "0x10", "\"s\"", "~x"])),
            } },
            7 => match self.rng.below(3) { 0 => format!("goto {};", self.rng.pick(LABELS)), 1 => format!("goto {} @ {};", self.rng.pick(LABELS), self.time_int()), _ => "break;".to_string() },
            8 => format!("{} ({}) {};", self.rng.pick(&["if", "unless"]), self.any_expr(2), match self.rng.below(3) { 0 => format!("goto {}", self.rng.pick(LABELS)), 1 => format!("goto {} @ {}", self.rng.pick(LABELS), self.time_int()), _ => "break".to_string() }),
            9 => if self.rng.chance(1, 2) { "return;".to_string() } else { format!("return {};", self.any_expr(2)) },
            10 => format!("{};", self.no_colon(2)),
            11 => format!("{{\"{}\"}}: {};", self.rng.pick(DIFF_STRINGS), self.call(1, false)),
            12 => format!("const {} {} = {};", self.rng.pick(&["int", "float", "string"]), self.ident(), self.any_expr(2)),
            13 => format!("{};", self.call(3, false)),
            14 | 15 => {
                let mut t = format!("{} ({}) {}", self.rng.pick(&["if", "unless"]), self.any_expr(2), self.block(d - 1, indent));
                for _ in 0..self.rng.below(3) { t.push_str(&format!(" else {} ({}) {}", self.rng.pick(&["if", "unless"]), self.any_expr(1), self.block(d - 1, indent))); }
                if self.rng.chance(1, 2) { t.push_str(&format!(" else {}", self.block(d - 1, indent))); }
                t
            },
            16 => format!("loop {}", self.block(d - 1, indent)),
            17 => format!("while ({}) {}", self.any_expr(2), self.block(d - 1, indent)),
            18 => format!("do {} while ({});", self.block(d - 1, indent), self.any_expr(2)),
            19 => if self.rng.chance(1, 2) { format!("times({}) {}", self.any_expr(1), self.block(d - 1, indent)) } else { format!("times({} = {}) {}", self.var(false), self.any_expr(1), self.block(d - 1, indent)) },
            20 => self.block(d - 1, indent),
            21 => format!("{{\"{}\"}}: {} = {};", self.rng.pick(DIFF_STRINGS), self.var(false), self.any_expr(2)),
            22 => format!("{} {}({}) {}", self.rng.pick(&["void", "int", "float", "inline void", "const int"]), self.ident(), self.params(), if self.rng.chance(1, 4) { ";".to_string() } else { self.block(d - 1, indent) }),
            // explicit sub calls `@f(..)` / `f(..) async [id]` (no pseudo-args: the parser rejects those)
            23 if self.rng.chance(1, 2) => {
                let n = self.rng.below(4);
                let args: Vec<String> = (0..n).map(|_| self.any_expr(1)).collect();
                let func = self.ident();
                match self.rng.below(4) {
                    0 => format!("@{func}({});", args.join(", ")),
                    1 => format!("@{func}({}) async;", args.join(", ")),
                    2 => format!("{func}({}) async;", args.join(", ")),
                    // (the id is kept simple: truth's own AST walkers do not descend into it)
                    _ => { let id = if self.rng.chance(1, 2) { self.ident() } else { format!("{}", self.rng.below(100)) }; format!("{func}({}) async {id};", args.join(", ")) },
                }
            },
            _ => format!("{} {} {};", self.var(false), self.rng.pick(ASSIGNOPS), self.any_expr(2)),
        };
        format!("{pad}{body}\n")
    }

    fn params(&mut self) -> String {
        let n = self.rng.below(4);
        (0..n).map(|_| { let ty = *self.rng.pick(&["int", "float", "var"]); if self.rng.chance(1, 5) { ty.to_string() } else { format!("{ty} {}", self.ident()) } }).collect::<Vec<_>>().join(", ")
    }

    fn item(&mut self) -> String {
        match self.rng.below(10) {
            0 | 1 => format!("{} {}\n", self.rng.pick(&["meta", "entry"]), self.fields(3)),
            2 => {
                let n = 1 + self.rng.below(3);
                let vs: Vec<String> = (0..n).map(|_| format!("{} = {}", self.ident(), self.any_expr(2))).collect();
                format!("const {} {};\n", self.rng.pick(&["int", "float", "string"]), vs.join(", "))
            },
            3 | 4 => format!("{} {}({}) {}\n", self.rng.pick(&["void", "int", "float", "inline void", "const int", "const float", "string"]), self.ident(), self.params(), if self.rng.chance(1, 5) { ";".to_string() } else { self.block(2, 0) }),
            5 => format!("script {} {} {}\n", self.rng.pick(&["0", "3", "-1", "45", "0x10", "4294967295"]), self.ident(), self.block(2, 0)),
            _ => format!("script {} {}\n", self.ident(), self.block(2, 0)),
        }
    }

    fn file(&mut self) -> String {
        let mut out = String::new();
        if self.rng.chance(1, 6) { out.push_str(&format!("#pragma mapfile {}\n", self.rng.pick(&[r#""map/any.anmm""#, r#""C:\\dir\\a b.eclm""#, "\"\u{30de}\u{30c3}\u{30d7}.eclm\""]))); }
        if self.rng.chance(1, 8) { out.push_str(&format!("#pragma image_source {}\n", self.rng.pick(&[r#""./title.anm""#, r#""dir with space/x.png""#]))); }
        for _ in 0..1 + self.rng.below(3) { out.push_str(&self.item()); out.push('\n'); }
        out
    }
}

/// small files that contain exactly one shape of the known token-glue / sign-folding defects
fn glue_sources() -> Vec<(&'static str, String)> {
    let mut out = vec![];
    let stmt = |body: &str| format!("script main {{\n    {body}\n}}\n");
    for e in ["~0xffffffff", "~4294967295 + 1", "f(~0x80000000)"] { out.push(("glue-bitnot", stmt(&format!("x = {e};")))); }
    for e in ["-2147483648", "-4294967295", "-0xffffffff", "- 3000000000", "-(0x80000000)", "f(1, -2147483649)", "a + -0xfffffff0", "- --x", "-(--x)", "ins_1(- --I0)"] {
        out.push(("glue-minus", stmt(&format!("x = {e};"))));
    }
    for e in ["!0xffffffff", "! 4", "! 5.5", "! 70", "!0x28", "!(6)", "! Enemy", "! X", "! Hard.value", "! Zap(1)", "! --x", "! NAN", "! E", "a && ! Lunatic", "f(! 45)", "! 7.0f", "!0b100"] {
        out.push(("glue-not", stmt(&format!("x = {e};"))));
    }
    out.push(("glue-plus", stmt("+ ++x:\n    ins_0();")));
    out.push(("glue-plus", stmt("+(++x):\n    ins_0();")));
    for e in ["4294967295 + 2", "f(4294967295)", "0xffffffff * a", "a - 0x80000000", "(1 : 4294967295)", "b ? 3000000000 : 1", "$(0xffffffff) + 1", "g(f(0xfffffffe), 2)"] {
        out.push(("neg-literal", stmt(&format!("x = {e};"))));
    }
    out.push(("neg-literal", stmt("ins_3(4294967295, 0xffffff00);")));
    out.push(("neg-literal", "meta {a: 4294967295, b: [0xffffffff, 1]}\n".to_string()));
    out.push(("neg-literal", "const int A = 4294967295, B = 3000000000 + 1;\n".to_string()));
    for body in ["@foo(2);", "@foo() async;", "foo(1, a) async 3;", "@foo(a + 1, -2);", "foo(x) async;"] { out.push(("call-sub", stmt(body))); }
    for body in ["interrupt[ins_100(1.0)]:\n    ins_0();", "+f(1, 2):\n    ins_0();", "interrupt[someFunction(argument_number_one + 1000000, argument_number_two * 2000000, argument_number_three, 123456789, 1.5)]:\n    ins_0();"] { out.push(("label-break", stmt(body))); }
    out.push(("glue-meta-key", "meta {4294967295: 1}\n".to_string()));
    out.push(("glue-meta-key", "entry {a: {0xffffffff: \"x\", 3: 4}}\n".to_string()));
    out
}

// =================================================================================================
// decompiler-only ASTs: user intrinsics so that immediates appear under operators

const INTRINSIC_MAP_ECL: &str = "!eclmap\n!ins_signatures\n1000 SS\n1001 SS\n1002 SSS\n1003 ff\n1004 SS\n1005 SS\n1006 ff\n1007 SSS\n1008 fff\n1009 Sf\n1010 fS\n!ins_intrinsics\n1000 UnOp(op=\"-\"; type=\"int\")\n1001 UnOp(op=\"!\"; type=\"int\")\n1002 BinOp(op=\"-\"; type=\"int\")\n1003 UnOp(op=\"-\"; type=\"float\")\n1004 UnOp(op=\"~\"; type=\"int\")\n1005 AssignOp(op=\"-=\"; type=\"int\")\n1006 UnOp(op=\"sin\"; type=\"float\")\n1007 BinOp(op=\"*\"; type=\"int\")\n1008 BinOp(op=\"-\"; type=\"float\")\n1009 UnOp(op=\"int\"; type=\"float\")\n1010 UnOp(op=\"float\"; type=\"int\")\n";

fn intrinsic_source(rng: &mut Rng, tame: bool) -> String {
    let mut body = String::new();
    let int_imm = |rng: &mut Rng| -> String {
        if tame { format!("{}", rng.pick(&[0, 1, 2, 3, 8, 10, 100, 255, 30000])) }
        else { format!("{}", rng.pick(&[-3i64, -1, 5, 4, 70, -2147483648, 2147483647, 0, 1, -100, 45, 6])) }
    };
    let float_imm = |rng: &mut Rng| -> String {
        if tame { rng.pick(&["1.0", "0.5", "2.5", "100.0", "0.125"]).to_string() }
        else { rng.pick(&["-1.5", "-0.0", "4.5", "7.0", "-INF", "INF", "1.0", "-100.25", "0.0", "NAN", "-NAN"]).to_string() }
    };
    for _ in 0..1 + rng.below(6) {
        let reg = |rng: &mut Rng| format!("REG[{}]", rng.pick(&[-10001, -10002, -10003, -10004]));
        let freg = |rng: &mut Rng| format!("REG[{}]", rng.pick(&[-10005, -10006, -10007, -10008]));
        let line = match rng.below(12) {
            0 | 1 => format!("ins_1000({}, {});", reg(rng), int_imm(rng)),
            2 | 3 => format!("ins_1001({}, {});", reg(rng), int_imm(rng)),
            4 => format!("ins_1002({}, {}, {});", reg(rng), if rng.chance(1, 2) { reg(rng) } else { int_imm(rng) }, int_imm(rng)),
            5 => format!("ins_1003({}, {});", freg(rng), float_imm(rng)),
            6 => format!("ins_1004({}, {});", reg(rng), int_imm(rng)),
            7 => format!("ins_1005({}, {});", reg(rng), int_imm(rng)),
            8 => format!("ins_1006({}, {});", freg(rng), float_imm(rng)),
            9 => format!("ins_1007({}, {}, {});", reg(rng), int_imm(rng), if rng.chance(1, 2) { reg(rng) } else { int_imm(rng) }),
            10 => format!("ins_1008({}, {}, {});", freg(rng), float_imm(rng), float_imm(rng)),
            _ => if rng.chance(1, 2) { format!("ins_1009({}, {});", reg(rng), float_imm(rng)) } else { format!("ins_1010({}, {});", freg(rng), int_imm(rng)) },
        };
        body.push_str("    "); body.push_str(&line); body.push('\n');
    }
    format!("script timeline0 {{\n}}\n\nvoid sub0() {{\n{body}}}\n")
}

/// TH06 ECL sub whose only instruction carries a float argument with arbitrary bits (via `@blob`)
fn nan_blob_source(bits: u32) -> String {
    let le = bits.to_le_bytes();
    format!("script timeline0 {{\n}}\n\nvoid sub0() {{\n    ins_1003(@blob=\"f1d8ffff {:02x}{:02x}{:02x}{:02x}\", @mask=0b01);\n}}\n", le[0], le[1], le[2], le[3])
}

fn decompile_options(bits: u32) -> truth::DecompileOptions {
    let mut o = tc::options_from_bits(bits & 31);
    o.show_instr_offsets = bits & 32 != 0;
    o
}

fn decompile_and_check(format: Format, game: truth::Game, maps: &[String], bytes: &[u8], optbits: u32, widths: &[usize]) -> Sexp {
    let options = decompile_options(optbits);
    let out = tc::with_truth(format, game, maps, |truth| {
        let file = tc::read_bytes(truth, format, game, bytes)?;
        tc::decompile_ast(truth, format, game, &file, &options)
    });
    match out.value {
        Some(ast1) => check_file(&ast1, Origin::Decompiled, widths),
        None => Sexp::app("skip", vec![Sexp::atom("decompile-failed"), Sexp::str(diag_class(&out.diagnostics))]),
    }
}

// =================================================================================================
// literal level: implementation side of the model-compared cases

fn radix_of(s: &str) -> ast::IntRadix {
    match s { "dec" => ast::IntRadix::Dec, "hex" => ast::IntRadix::Hex, "bin" => ast::IntRadix::Bin, "bool" => ast::IntRadix::Bool, _ => panic!("bad radix {s}") }
}

fn lit_value(e: &ast::Expr) -> Option<i32> {
    match e {
        &ast::Expr::LitInt { value, .. } => Some(value),
        ast::Expr::UnOp(op, x) if op.value == ast::UnOpKind::Neg => match &x.value { &ast::Expr::LitInt { value, .. } => Some(value.wrapping_neg()), _ => None },
        ast::Expr::Var(v) if v.ty_sigil.is_none() => match &v.name {
            ast::VarName::Normal { ident, .. } if ident.as_raw().as_str() == "true" => Some(1),
            ast::VarName::Normal { ident, .. } if ident.as_raw().as_str() == "false" => Some(0),
            _ => None,
        },
        _ => None,
    }
}

fn eval_lexint(text: &str) -> Sexp {
    match parse_fresh::<ast::Expr>(text) {
        Ok(e) => match lit_value(&e) { Some(v) => Sexp::app("int", vec![Sexp::int(v)]), None => Sexp::atom("other") },
        Err(d) => if d.contains("bad integer literal") { Sexp::atom("bad-int") } else { Sexp::atom("other") },
    }
}

pub(super) fn eval_lex(text: &str) -> Sexp {
    use truth::parse::lexer::{Lexer, Token};
    let src = truth::pos::SourceStr::from_full_source(None, text);
    let mut toks = vec![];
    let mut end = "eof";
    for r in Lexer::new(src) {
        match r {
            Err(_) => { end = "invalid"; break; },
            Ok((l, tok, r)) => {
                let t = &text[u32::from(l.1) as usize..u32::from(r.1) as usize];
                let class = match tok {
                    Token::LitString(_) => "str", Token::LitFloat(_) => "float", Token::LitInt(_) => "int", Token::DifficultyStr(_) => "difficulty",
                    Token::LitRad(_) => "rad", Token::Instr(_) | Token::Ident(_) => "word",
                    _ => if t.starts_with(|c: char| c.is_ascii_alphabetic() || c == '_') { "word" } else { "punct" },
                };
                toks.push(Sexp::app(class, vec![Sexp::str(t)]));
            },
        }
    }
    let mut v = vec![Sexp::atom(end)];
    v.extend(toks);
    Sexp::app("toks", v)
}

/// the whole text is one string token for the real lexer (whether the parser reports a bad escape
/// of a leading string token before it rejects what follows depends on LALR lookahead details
/// that are not modelled; the relation is stated for lone tokens)
fn is_lone_string_token(text: &str) -> bool {
    use truth::parse::lexer::{Lexer, Token};
    let toks: Vec<_> = Lexer::new(truth::pos::SourceStr::from_full_source(None, text)).collect();
    toks.len() == 1 && matches!(toks[0], Ok((_, Token::LitString(_), _)))
}

fn eval_ustr(text: &str) -> Sexp {
    if !is_lone_string_token(text) { return Sexp::atom("other"); }
    match parse_fresh::<ast::Expr>(text) {
        Ok(ast::Expr::LitString(s)) => Sexp::app("ok", vec![Sexp::str(s.string)]),
        Ok(_) => Sexp::atom("other"),
        Err(d) => if d.contains("invalid escape character") { Sexp::app("err", vec![Sexp::atom("escape")]) } else { Sexp::atom("other") },
    }
}

/// print a batch of float literals as arguments of one call, parse back, compare bit patterns
fn eval_floats(bits: &[u32]) -> Sexp {
    let args: Vec<Sp<ast::Expr>> = bits.iter().map(|&b| sp!(ast::Expr::LitFloat { value: f32::from_bits(b) })).collect();
    let call = ast::Expr::Call(ast::ExprCall { name: sp!(ast::CallableName::Ins { opcode: 0, language: None }), pseudos: vec![], args });
    let width = 40 + (bits.len() % 7) * 30;
    let text = stringify_with(&call, width_config(width));
    let back = match parse_fresh::<ast::Expr>(&text) {
        Ok(e) => e,
        Err(d) => return fail(format!("printed-text-does-not-parse float-literal {}", diag_class(&d)), text.chars().take(300).collect::<String>()),
    };
    let back_args = match back { ast::Expr::Call(c) => c.args, _ => return fail("reparse-differs float-literal", "not a call") };
    if back_args.len() != bits.len() { return fail("reparse-differs float-literal", "argument count"); }
    let mut nan_lost = None;
    for (&b, e) in bits.iter().zip(back_args.iter()) {
        let x = f32::from_bits(b);
        let mut c = Canon::default(); c.expr(&e.value);
        let mut c0 = Canon::default(); c0.expr(&ast::Expr::LitFloat { value: x });
        if c.s != c0.s { return fail("float-literal-roundtrip-loses-bits", format!("{b:#010x} printed as {} reads back as {}", stringify(&ast::Expr::LitFloat { value: x }), c.s)); }
        if x.is_nan() && b != CANONICAL_NAN_BITS { nan_lost = Some(b); }
    }
    if let Some(b) = nan_lost { return fail("float-literal-roundtrip-loses-bits nan-payload", format!("{b:#010x} is printed as NAN, which denotes {CANONICAL_NAN_BITS:#010x}")); }
    Sexp::app("pass", vec![Sexp::int(bits.len() as i64)])
}

// =================================================================================================
// layout correspondence: nested `[..]` lists of atoms (meta arrays) at a given width

fn gen_doc(rng: &mut Rng, depth: u32) -> Sexp {
    if depth == 0 || rng.chance(2, 5) {
        return match rng.below(3) {
            0 => Sexp::str(format!("{}", rng.below(10))),
            1 => Sexp::str(format!("{}", (rng.next_u32() >> 1) >> rng.below(31))),
            _ => { let n = 1 + rng.below(14); Sexp::str(format!("\"{}\"", (0..n).map(|_| *rng.pick(&['a', 'b', 'x', 'Q', '_', '0'])).collect::<String>())) },
        };
    }
    let n = rng.below(6);
    let mut v = vec![Sexp::atom("l")];
    for _ in 0..n { v.push(gen_doc(rng, depth - 1)); }
    Sexp::List(v)
}

fn doc_to_meta(d: &Sexp) -> Meta {
    match d {
        Sexp::List(_) => Meta::Array(d.args().iter().map(|x| sp!(doc_to_meta(x))).collect()),
        other => {
            let t = other.as_atom();
            if let Some(body) = t.strip_prefix('"') { Meta::Scalar(sp!(ast::Expr::LitString(ast::LitString { string: body.trim_end_matches('"').to_string() }))) }
            else { Meta::Scalar(sp!(ast::Expr::LitInt { value: t.parse().expect("int atom"), format: ast::IntFormat::SIGNED })) }
        },
    }
}

// =================================================================================================

fn widths_sexp(ws: &[usize]) -> Sexp { Sexp::list(ws.iter().map(|&w| Sexp::int(w as i64)).collect()) }
fn widths_of(s: &Sexp) -> Vec<usize> { s.as_list().iter().map(|w| w.as_usize()).collect() }

const QUICK_WIDTHS: &[usize] = &[1, 5, 17, 40, 80, 99, 200];

fn pick_widths(tier: Tier, rng: &mut Rng, big: bool) -> Vec<usize> {
    match (tier, big) {
        (Tier::Quick, false) => QUICK_WIDTHS.to_vec(),
        (Tier::Quick, true) => vec![*rng.pick(&[1usize, 5, 17]), *rng.pick(&[40usize, 80]), *rng.pick(&[99usize, 200])],
        (Tier::Thorough, false) => (1..=200).collect(),
        (Tier::Thorough, true) => { let mut v: Vec<usize> = (0..12).map(|_| 1 + rng.below(200)).collect(); v.extend([1, 99]); v.sort(); v.dedup(); v },
    }
}

const LEX_ALPHABET: &[&str] = &["0", "1", "4", "7", "9", "x", "X", "b", "B", "a", "f", "F", "E", "N", "Z", "O", "e", "_", "-", "-", "!", "~", "+", "=", "<", ">", "&", "|", ".", " ", "\"", "\\", "*", "%", "$", "(", ")", ":", "?", ",", "n", "\n", "0x", "0b", "--", "!=", "ins_", ">>>", "..", "#", "@", ";", "{", "}", "[", "]", "^", "\u{3042}", "\t"];

pub(super) fn lex_text_ok(t: &str) -> bool { !t.contains("//") && !t.contains("/*") && !t.contains("rad(") }

impl Prop for C08 {
    fn id(&self) -> &'static str { "C08" }
    fn relation(&self) -> &'static str {
        "text of fmt::stringify on ast::Expr::LitInt in every IntFormat == Lean `Fmt.printInt`; text of ast::LitString == `Fmt.escapeString`; parse::<LitString> == `Fmt.parseStringLiteral` after `Fmt.lex`; parse::<Expr> of literal-like text (value after sign folding / bad integer literal / other) == `Fmt.evalLiteral`; token stream of parse::lexer::Lexer == `Fmt.lex`; text of stringify_with(nested meta arrays, max_columns(w)) == `Fmt.render w`; EXPRESSION LAYER (Model/FmtExpr.lean): text of stringify_with(ast::Expr, unlimited width) == `FmtExpr.printText`; text of stringify_with(ast::Expr, max_columns(w)) == `FmtExpr.renderExpr w` (inline/block argument lists); real lexer on that text (trailing commas dropped) == the tokens `FmtExpr.printExpr` (hypothesis LexOK of expr_print_parse_text) where `NoGlue` holds and `Fmt.lex (printText e)` elsewhere; parse::<ast::Expr>(text) as canonical tree or reject == `FmtExpr.parseText`; STATEMENT LAYER (Model/FmtStmt.lean): text of stringify_with(ast::Stmt / ast::Block, max_columns(w)) at unlimited and narrow widths, or the formatter's label assertion, == `FmtStmt.renderStmt w` / `renderBlock w`; real lexer on that text (trailing commas dropped) == the tokens `FmtStmt.printStmt` where `OKS` holds and `Fmt.lex` of the model's text elsewhere; `<ast::Stmt / ast::Block as parse::Parse>::parse(text)` (the grammar alone) as canonical tree or reject == `FmtStmt.parseStmtText` / `parseBlockText`"
    }
    fn rule(&self) -> &'static str {
        "model-compared: every (signed, radix) x boundary and random i32; strings over NUL, quotes, backslashes, CR/LF, controls, multi-byte; literal texts (dec/hex/bin, prefixes, overflow, signs, glue shapes); random token soups and printed scripts for the lexer; nested lists of atoms of random shapes at widths 1..200 for the inline/block layout; expression ASTs (all 19 binary and 14 unary operators, ternary, difficulty switches with holes, calls with pseudo-args, xcrement, sigils, REG[n], enum constants, label properties, every int format, floats incl. -0/inf/nan, strings with escapes; with and without the glue shapes; also shapes only the formatter accepts) printed at unlimited and narrow widths, their printed text parsed, the parsed tree printed again; every ordered pair of binary operators in both groupings and as bare `a op1 b op2 c`; associativity chains; ternary-vs-switch texts; each prefix operator in front of every kind of atom with and without a space; grammar-directed expression source (all literal spellings, spacing, trailing commas); token soups; printed text with one token dropped/duplicated/swapped; statement ASTs (every statement kind alone, under a difficulty label, before / after / between every kind of label, in every block position incl. nested ones, every assign-op x every variable spelling, time labels / goto times / relative deltas over boundary and random i32, interrupt and relative labels over expression shapes incl. `+ ++x` and calls that break the line, times with and without counter, shapes only the formatter accepts, random statements and blocks inside and outside the fragment of the theorems) printed at unlimited and narrow widths, their text parsed, the parsed tree printed again; 385 hand-written statement texts (else binding, loops, jumps, labels, difficulty labels, blocks, assignments, declarations, explicit sub calls, misplaced keywords) alone / in a block / between statements; every lexer keyword in 13 statement positions; printed statements with one token dropped/duplicated/swapped/replaced; token soups over the statement vocabulary. Search: grammar-directed generated source text over the full item/statement/expression/meta grammar (all operators, casts, sigils, ternary, difficulty switches with holes, pseudo-args, labels, gotos with times, label properties, loops, conditionals, interrupt labels, const items, nested meta, string escapes, multi-byte text, extreme ints in dec/hex/bin, extreme floats) parsed by the real parser; decompiler output of compiled generated sources of every format/game and of all bundled binaries under random decompile options (incl. --show-instr-offsets), and of TH06 ECL with user unary/binary intrinsics on immediates; each AST printed at widths {1,5,17,40,80,99,200} (thorough: 1..200), parsed back (must parse), compared structurally after sign folding with formatter hints ignored (must be equal), printed again (must be the same text); float literals over all exponents x mantissa {0,1,mid,max}, subnormals, +-0, +-inf and random bit patterns must read back with the same bits, NaN payloads reported separately. Shapes of the known defects (unary operator glued to its operand, negative literal gaining parentheses, negative meta key) are confined to dedicated streams and classified by inspecting the AST. non-trivial = the source parses / the binary decompiles; distinct by case text"
    }
    fn theorems(&self) -> &'static [&'static str] {
        &["TruthModel.C08.int_print_parse", "TruthModel.C08.string_escape_roundtrip", "TruthModel.C08.string_print_lex_parse", "TruthModel.C08.printInt_head_minus_iff", "TruthModel.C08.unary_glue_minus", "TruthModel.C08.unary_glue_not", "TruthModel.C08.layout_tokens",
          "TruthModel.C08.expr_print_parse", "TruthModel.C08.expr_print_parse_sup", "TruthModel.C08.expr_print_parse_text", "TruthModel.C08.expr_print_idempotent", "TruthModel.C08.expr_print_parse_print", "TruthModel.C08.expr_layout_tokens", "TruthModel.C08.expr_layout_printExpr", "TruthModel.C08.glue_sites_fail",
          "TruthModel.C08.stmt_print_parse", "TruthModel.C08.block_print_parse", "TruthModel.C08.stmt_print_parse_text", "TruthModel.C08.stmt_print_idempotent", "TruthModel.C08.stmt_print_parse_print", "TruthModel.C08.stmt_layout_tokens", "TruthModel.C08.block_layout_tokens", "TruthModel.C08.stmt_print_parse_at_width", "TruthModel.C08.stmt_print_parse_every_width", "TruthModel.C08.rel_label_plus_glue", "TruthModel.C08.label_break_panics"]
    }
    fn timeout_secs(&self) -> u64 { 120 }

    fn gen(&self, tier: Tier, rng: &mut Rng) -> Vec<Case> {
        let quick = tier == Tier::Quick;
        let scale = if quick { 1 } else { 20 };
        let mut out = vec![];

        // ---- model-compared: integer literals in every format
        let radixes = ["dec", "hex", "bin", "bool"];
        for signed in [true, false] { for r in radixes {
            let mut vals: Vec<i32> = INT_BOUNDARY.to_vec();
            vals.extend([i32::MIN, i32::MAX, -16, 16, 10, -10, 9, 99, 0x0fff_ffff, -0x1000_0000]);
            for _ in 0..30 * scale { vals.push(rng.next_u32() as i32); }
            for _ in 0..10 * scale { vals.push((rng.next_u32() >> rng.below(32)) as i32); }
            for v in vals {
                out.push(Case::corr(Sexp::app("pint", vec![Sexp::atom(if signed { "signed" } else { "unsigned" }), Sexp::atom(r), Sexp::int(v)])).tag(format!("pint-{r}")).trivial(v == 0));
            }
        } }
        // ---- model-compared: strings
        let specials = ['\0', '"', '\\', '\n', '\r', '\t', 'a', ' ', 'n', 'r', '0', '\u{7f}', '\u{1}', '\u{e9}', '\u{3042}', '\u{1f600}', '\u{2028}', '\u{feff}', '/', '*', '\'', '\u{85}'];
        for i in 0..300 * scale {
            let n = if i < specials.len() { 1 } else { rng.below(12) };
            let s: String = if i < specials.len() { specials[i].to_string() } else { (0..n).map(|_| *rng.pick(&specials)).collect() };
            out.push(Case::corr(Sexp::app("pstr", vec![Sexp::str(s.clone())])).tag("pstr").trivial(s.is_empty()));
            // the printed form, and corrupted forms, through the string literal parser
            let printed = stringify(&ast::LitString { string: s });
            out.push(Case::corr(Sexp::app("ustr", vec![Sexp::str(printed.clone())])).tag("ustr-printed"));
            let mut cs: Vec<char> = printed.chars().collect();
            match rng.below(4) {
                0 => { let k = rng.below(cs.len()); cs.remove(k); },
                1 => { let k = rng.below(cs.len() + 1); cs.insert(k, *rng.pick(&['\\', '"', 'x', 't', '\n', ' '])); },
                2 => { let k = rng.below(cs.len()); cs[k] = *rng.pick(&['\\', '"', 'q', '0']); },
                _ => { cs.push(*rng.pick(&['"', ' ', 'a'])); },
            }
            let mutated: String = cs.into_iter().collect();
            // (comments are not part of the lexer model)
            if lex_text_ok(&mutated) { out.push(Case::corr(Sexp::app("ustr", vec![Sexp::str(mutated)])).tag("ustr-mutated")); }
        }
        // ---- model-compared: literal texts through parse::<Expr>
        let fixed = ["0", "00", "007", "0x", "0b", "0x0", "0X1F", "0b102", "0B11", "4294967295", "4294967296", "99999999999", "0xffffffff", "0x100000000", "0b11111111111111111111111111111111", "0b100000000000000000000000000000000",
                     "-1", "- 1", "--1", "-0x80000000", "-2147483648", "-4294967295", "!4", "!-5", "~3", "true", "false", "-true", "1f", "1.0", "0x1g", "0xg", "12ab", "+5", "- -5", "2147483648", "2147483647", "-0", "0xFFFFFFFF", "0Xabcdef", "0b", "0B", "1_000", "TRUE", ""];
        for t in fixed { out.push(Case::corr(Sexp::app("lexint", vec![Sexp::str(t)])).tag("lexint-fixed")); }
        for _ in 0..400 * scale {
            let mut t = String::new();
            if rng.chance(1, 3) { t.push_str(*rng.pick(&["-", "- ", "--", "!", "~", " "])); }
            match rng.below(4) {
                0 => t.push_str(&format!("{}", rng.next_u32() as u64 + if rng.chance(1, 4) { 1u64 << 32 } else { 0 })),
                1 => t.push_str(&format!("{}{:x}", rng.pick(&["0x", "0X"]), rng.next_u64() >> rng.below(64))),
                2 => t.push_str(&format!("{}{:b}", rng.pick(&["0b", "0B"]), rng.next_u64() >> (24 + rng.below(40)))),
                _ => for _ in 0..1 + rng.below(6) { t.push_str(*rng.pick(&["0", "1", "2", "9", "a", "f", "x", "b", "A", "F", "X", "B"])); },
            }
            out.push(Case::corr(Sexp::app("lexint", vec![Sexp::str(t)])).tag("lexint-random"));
        }
        // printed integer literals read back (the theorem's statement, on the implementation)
        for _ in 0..200 * scale {
            let f = ast::IntFormat { signed: rng.chance(1, 2), radix: radix_of(*rng.pick(&radixes)) };
            let t = stringify(&ast::Expr::LitInt { value: rng.int_boundary(), format: f });
            out.push(Case::corr(Sexp::app("lexint", vec![Sexp::str(t)])).tag("lexint-printed"));
        }
        // ---- model-compared: token streams
        for _ in 0..500 * scale {
            let n = 1 + rng.below(10);
            let t: String = (0..n).map(|_| *rng.pick(LEX_ALPHABET)).collect();
            if lex_text_ok(&t) { out.push(Case::corr(Sexp::app("lex", vec![Sexp::str(t)])).tag("lex-random")); }
        }
        for _ in 0..60 * scale {
            let src = SrcGen::new(rng).file();
            if let Ok(a) = parse_fresh::<ast::ScriptFile>(&src) {
                let t = stringify_with(&a, width_config(*rng.pick(QUICK_WIDTHS)));
                if lex_text_ok(&t) && t.is_ascii() { out.push(Case::corr(Sexp::app("lex", vec![Sexp::str(t)])).tag("lex-printed-script")); }
            }
        }

        // ---- model-compared: inline / block layout of nested lists at every width
        for i in 0..600 * scale {
            let depth = 1 + rng.below(4) as u32;
            let d = gen_doc(rng, depth);
            let w = if i % 3 == 0 { 1 + rng.below(200) } else { 1 + rng.below(60) };
            let trivial = !matches!(d, Sexp::List(_));
            out.push(Case::corr(Sexp::app("layout", vec![Sexp::int(w as i64), d])).tag("layout").trivial(trivial));
        }

        // ---- model-compared: the expression layer (printer, parser, precedence)
        super::c08_expr::gen(tier, rng, &mut out);

        // ---- search: float literals
        let mut fbits: Vec<u32> = vec![];
        for sign in [0u32, 1] { for exp in 0..=255u32 { for man in [0u32, 1, 0x40_0000, 0x7f_ffff, 0x2a_aaaa] { fbits.push(sign << 31 | exp << 23 | man); } } }
        for k in 0..23 { fbits.push(1 << k); fbits.push(0x8000_0000 | 1 << k); fbits.push((1 << k) - 1 | 1); }
        fbits.extend(crate::rng::FLOAT_BOUNDARY_BITS);
        for _ in 0..(if quick { 6000 } else { 1_000_000 }) { fbits.push(rng.next_u32()); }
        // NaNs go into their own batches so that the payload finding does not hide anything else
        let (nans, finite): (Vec<u32>, Vec<u32>) = fbits.into_iter().partition(|&b| f32::from_bits(b).is_nan());
        for chunk in finite.chunks(250) { out.push(Case::search(Sexp::app("flts", chunk.iter().map(|&b| Sexp::int(b as i64)).collect())).tag("float-batch")); }
        for chunk in nans.chunks(250).take(if quick { 4 } else { 40 }) { out.push(Case::search(Sexp::app("flts", chunk.iter().map(|&b| Sexp::int(b as i64)).collect())).tag("float-batch-nan")); }

        // ---- search: generated source text
        for _ in 0..(if quick { 8000 } else { 150000 }) {
            let src = SrcGen::new(rng).file();
            let ws = pick_widths(tier, rng, false);
            out.push(Case::search(Sexp::app("src", vec![widths_sexp(&ws), Sexp::str(src)])).tag("src-generated"));
        }
        out.push(Case::search(Sexp::app("src", vec![widths_sexp(&[0]), Sexp::str("script main {\n    ins_0(1, 2);\n}\n")])).tag("src-width-zero"));
        for (tag, src) in glue_sources() {
            out.push(Case::search(Sexp::app("src", vec![widths_sexp(QUICK_WIDTHS), Sexp::str(src)])).tag(format!("src-{tag}")));
        }

        // ---- search: decompiler output
        for (format, game, bytes, name) in super::c16::bundled_files() {
            for k in 0..(if quick { 2 } else { 8 }) {
                let bits = if k == 0 { 0 } else { rng.below(64) as u32 };
                let ws = pick_widths(tier, rng, true);
                out.push(Case::search(Sexp::app("decbin", vec![Sexp::atom(format.name()), Sexp::atom(format!("{game}")), Sexp::int(bits), widths_sexp(&ws), Sexp::atom(hex(&bytes))])).tag(format!("dec-bundled-{name}")));
            }
        }
        for _ in 0..(if quick { 1200 } else { 30000 }) {
            let g = gensrc::gen_any(rng);
            let mut maps = g.maps.clone();
            if rng.chance(1, 3) { if let Some(m) = super::c01::alias_mapfile(rng, g.format, g.game) { maps.push(m); } }
            let bits = if rng.chance(1, 3) { 0 } else { rng.below(64) as u32 };
            let ws = pick_widths(tier, rng, !quick);
            out.push(Case::search(Sexp::app("dec", vec![Sexp::atom(g.format.name()), Sexp::atom(format!("{}", g.game)), Sexp::list(maps.iter().map(|m| Sexp::str(m.clone())).collect()), Sexp::int(bits), widths_sexp(&ws), Sexp::str(g.text)])).tag(format!("dec-generated-{}", g.format.name())));
        }
        for i in 0..(if quick { 400 } else { 10000 }) {
            let tame = i % 3 == 0;
            let src = intrinsic_source(rng, tame);
            let bits = if rng.chance(1, 2) { 0 } else { rng.below(64) as u32 & !2 };
            let maps = vec![gensrc::ECL_DIFFICULTY_MAP.to_string(), INTRINSIC_MAP_ECL.to_string()];
            out.push(Case::search(Sexp::app("dec", vec![Sexp::atom("ecl"), Sexp::atom("th06"), Sexp::list(maps.iter().map(|m| Sexp::str(m.clone())).collect()), Sexp::int(bits), widths_sexp(QUICK_WIDTHS), Sexp::str(src)])).tag(if tame { "dec-intrinsics-tame" } else { "dec-intrinsics-immediates" }));
        }
        for b in [0x7fc0_0001u32, 0xffc0_0000, 0x7f80_0001, 0x7fff_ffff] {
            let maps = vec![INTRINSIC_MAP_ECL.to_string()];
            out.push(Case::search(Sexp::app("dec", vec![Sexp::atom("ecl"), Sexp::atom("th06"), Sexp::list(maps.iter().map(|m| Sexp::str(m.clone())).collect()), Sexp::int(2), widths_sexp(&[80]), Sexp::str(nan_blob_source(b))])).tag("dec-nan-payload"));
        }

        // ---- model-compared: the statement layer (printer, layout, parser); last, so that the streams above are unchanged
        super::c08_stmt::gen(tier, rng, &mut out);
        out
    }

    fn eval(&self, case: &Sexp) -> Sexp {
        if let Some(r) = super::c08_expr::eval(case) { return r; }
        if let Some(r) = super::c08_stmt::eval(case) { return r; }
        let a = case.args();
        match case.head() {
            Some("pint") => {
                let format = ast::IntFormat { signed: a[0].as_atom() == "signed", radix: radix_of(a[1].as_atom()) };
                Sexp::app("ok", vec![Sexp::str(stringify(&ast::Expr::LitInt { value: a[2].as_i32(), format }))])
            },
            Some("pstr") => Sexp::app("ok", vec![Sexp::str(stringify(&ast::LitString { string: a[0].as_atom().to_string() }))]),
            Some("ustr") => eval_ustr(a[0].as_atom()),
            Some("lexint") => eval_lexint(a[0].as_atom()),
            Some("lex") => eval_lex(a[0].as_atom()),
            Some("layout") => Sexp::app("ok", vec![Sexp::str(stringify_with(&doc_to_meta(&a[1]), width_config(a[0].as_usize())))]),
            Some("flts") => eval_floats(&a.iter().map(|b| b.as_u32()).collect::<Vec<_>>()),
            Some("src") => {
                let widths = widths_of(&a[0]);
                match parse_fresh::<ast::ScriptFile>(a[1].as_atom()) {
                    Ok(ast1) => check_file(&ast1, Origin::Parsed, &widths),
                    Err(d) => Sexp::app("rejected", vec![Sexp::str(diag_class(&d))]),
                }
            },
            Some("decbin") => {
                let (format, game) = (Format::from_name(a[0].as_atom()), tc::game(a[1].as_atom()));
                decompile_and_check(format, game, &[], &unhex(a[4].as_atom()), a[2].as_u32(), &widths_of(&a[3]))
            },
            Some("dec") => {
                let (format, game) = (Format::from_name(a[0].as_atom()), tc::game(a[1].as_atom()));
                let maps: Vec<String> = a[2].as_list().iter().map(|m| m.as_atom().to_string()).collect();
                let c = tc::compile(format, game, &maps, a[5].as_atom().as_bytes());
                match c.value {
                    Some(bytes) => decompile_and_check(format, game, &maps, &bytes, a[3].as_u32(), &widths_of(&a[4])),
                    None => Sexp::app("rejected", vec![Sexp::str(diag_class(&c.diagnostics))]),
                }
            },
            _ => Sexp::atom("bad-case"),
        }
    }
}
